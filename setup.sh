#!/bin/sh
# Build the framework from files on disk only (offline): regenerate coq/gen from /repo,
# then a full .vo build of the Coq development.
set -e
D="$(cd "$(dirname "$0")" && pwd)"
cd "$D"
exec /venv/bin/python tools/setup.py
