(* GenPy.v — reference copy of the translation of lib/py/bitprotolib/bp.py helpers.
   The file coq/gen/GenPy.v is REGENERATED from /repo on every run by tools/translate.py;
   this copy is the last accepted translation (fallback tie of DESIGN 2.4). *)
From Coq Require Import ZArith.
Open Scope Z_scope.

Definition int8 (i : Z) : Z := if i <? 128 then i else i - 256.
Definition int16 (i : Z) : Z := if i <? 32768 then i else i - 65536.
Definition int32 (i : Z) : Z := if i <? 2147483648 then i else i - 4294967296.
Definition int64 (i : Z) : Z := if i <? 9223372036854775808 then i else i - 18446744073709551616.
Definition smart_shift (n k : Z) : Z := if k >? 0 then Z.shiftr n k else if k <? 0 then Z.shiftl n (0 - k) else n.
Definition get_mask (k c : Z) : Z := if k =? 0 then Z.shiftl 1 c - 1 else Z.shiftl 1 (k + 1 + c - 1) - Z.shiftl 1 (k + 1 - 1).
Definition get_nbits_to_copy (i j n : Z) : Z := Z.min (Z.min (n - j) (8 - j mod 8)) (8 - i mod 8).
Definition enc_rshift (j : Z) : Z := j / 8 * 8.
Definition enc_d (b i j c : Z) : Z := Z.land (smart_shift b (j mod 8 - i mod 8)) (get_mask (i mod 8) c).
Definition enc_index (i : Z) : Z := i / 8.
Definition dec_index (i : Z) : Z := i / 8.
Definition dec_d (b i j c : Z) : Z := Z.land (smart_shift b (i mod 8 - j mod 8)) (get_mask (j mod 8) c).
Definition dec_lshift (j : Z) : Z := j / 8 * 8.
Definition array_ito (i ahead cap : Z) : Z := i + ahead * cap.
Definition message_ito (i ahead : Z) : Z := i + ahead.
Definition ito_taken (ito ci : Z) : bool := ito >=? ci.
Definition di_is_valid (fn : Z) : bool := fn >? 0.
