(* C15 — Generated API names follow the documented scheme.
   Statements only; each is closed by [exact] of a lemma of theories/NamesProofs.v and followed
   by Print Assumptions.  The model (theories/Names.v) takes its character classes, case-style
   tables and literal templates from gen/GenNames.v, which is re-translated from
   compiler/bitproto on every run.

   Name languages (theories/NamesSpec.v), as boolean recognisers on strings:
     is_pascal        ([A-Z][a-z]+)+            message / enum / alias names
     is_lower_snake   [a-z]+(_[a-z]+)*          message field names
     is_upper_snake   [A-Z]+(_[A-Z]+)*          constants and enum members
     go_tag_ok        lower_snake without two adjacent one-letter words
     is_prefix        "" or ([a-z]+_)+ without two adjacent one-letter words
   Names with digits are outside these sets on purpose: see the [_refuted] statements. *)
From Coq Require Import List Bool NArith Ascii String.
From BP Require Import NamesBase Names NamesSpec NamesChars NamesProofs.
From BPGen Require Import GenNames.
Import ListNotations.
Open Scope list_scope.

(* ---- the case converters on the style-guide languages ------------------------------------ *)

Theorem C15_pascal_case_identity : forall s, is_pascal s = true -> pascal_case s = s.
Proof. exact pascal_case_identity. Qed.
Print Assumptions C15_pascal_case_identity.

Theorem C15_snake_case_identity : forall s, is_lower_snake s = true -> snake_case s = s.
Proof. exact snake_case_identity. Qed.
Print Assumptions C15_snake_case_identity.

Theorem C15_upper_case_identity : forall s, is_upper_snake s = true ->
  upper_case s = s /\ upper_case (snake_case s) = s.
Proof. exact upper_snake_identity. Qed.
Print Assumptions C15_upper_case_identity.

(* snake_case splits a Pascal name into its humps *)
Theorem C15_snake_case_of_pascal : forall s, is_pascal s = true ->
  snake_case s = join_us (map lower (humps s)).
Proof. exact snake_case_of_pascal. Qed.
Print Assumptions C15_snake_case_of_pascal.

(* for ANY tokens made of letters only: the regular-expression passes of snake_case amount
   to one local three-character-window rule (ins3), then lower-casing *)
Theorem C15_snake_case_letters : forall ts, ts <> [] -> forallb letters ts = true ->
  snake_case (join_us ts) = lower (join_us (map ins3 ts)).
Proof. exact snake_case_letters. Qed.
Print Assumptions C15_snake_case_letters.

(* ---- top level: every definition appears under exactly its schema name --------------------- *)

(* style_ok k n: n is in the style-guide language of kind k.  In every language and for every
   kind the generated name is the schema name, except Go struct fields (PascalCase). *)
Theorem C15_top_level_identity : forall l k n, style_ok k n = true ->
  def_name l k [] [] n = match l, k with LGo, KMessageField => pascal_case n | _, _ => n end.
Proof. exact top_level_identity. Qed.
Print Assumptions C15_top_level_identity.

(* Go struct fields are the capitalised words concatenated; the JSON tag is the schema name *)
Theorem C15_go_field_and_tag : forall n, go_tag_ok n = true ->
  field_name LGo n = List.concat (map cap (words n)) /\ go_tag (field_name LGo n) = n.
Proof. exact go_field_and_tag. Qed.
Print Assumptions C15_go_field_and_tag.

(* ---- nesting: enclosing names first, in order ------------------------------------------------ *)

(* holds for ALL names the linter accepts as PascalCase (pascal_case w = w) *)
Theorem C15_nested_concat : forall p encl n,
  (forall w, In w (encl ++ [n]) -> pascal_case w = w) ->
  (forall k, pascal_kind LC k = true -> def_name LC k [] encl n = List.concat (encl ++ [n])) /\
  (forall k, pascal_kind LGo k = true -> def_name LGo k p encl n = List.concat (encl ++ [n])) /\
  def_name LGo KEnum p encl n = join_us (encl ++ [n]) /\
  (forall k, keep_kind LPy k = true -> def_name LPy k p encl n = join_us (encl ++ [n])).
Proof. exact nested_names. Qed.
Print Assumptions C15_nested_concat.

(* enum members: prefix, humps of the enclosing message names, member name — upper case,
   joined by "_" *)
Theorem C15_nested_enum_member : forall l p encl m,
  is_prefix p = true -> forallb is_pascal encl = true -> is_upper_snake m = true ->
  def_name l KEnumField p encl m =
  upper (name_prefix l p) ++ join_us (map upper (flat_map humps encl) ++ words m).
Proof. exact enum_member_name. Qed.
Print Assumptions C15_nested_enum_member.

(* ---- API names ----------------------------------------------------------------------------------- *)

Theorem C15_api_names : forall n,
  c_encode_fn n = Str "Encode" ++ n /\ c_decode_fn n = Str "Decode" ++ n /\
  c_json_fn n = Str "Json" ++ n /\
  size_const LC n = Str "BYTES_LENGTH_" ++ upper_case (snake_case n) /\
  size_const LGo n = Str "BYTES_LENGTH_" ++ upper_case (snake_case n) /\
  (Str go_encode_method, Str go_decode_method, Str go_size_method) = (Str "Encode", Str "Decode", Str "Size") /\
  size_const LPy n = Str "BYTES_LENGTH" /\
  (Str py_encode_method, Str py_decode_method, Str py_to_json_method, Str py_to_dict_method) =
  (Str "encode", Str "decode", Str "to_json", Str "to_dict").
Proof. exact api_names. Qed.
Print Assumptions C15_api_names.

(* they are among the identifiers the model declares for a message (Json only in standard
   mode) *)
Theorem C15_api_names_declared : forall p n fields,
  (forall opt, In (IFunc, Str "Encode" ++ n) (message_idents LC opt (model_namer LC p) n fields) /\
               In (IFunc, Str "Decode" ++ n) (message_idents LC opt (model_namer LC p) n fields) /\
               In (IMacro, size_const LC n) (message_idents LC opt (model_namer LC p) n fields) /\
               In (IStruct, n) (message_idents LC opt (model_namer LC p) n fields)) /\
  In (IFunc, Str "Json" ++ n) (message_idents LC false (model_namer LC p) n fields) /\
  (forall opt, In (IMethod n, Str "Encode") (message_idents LGo opt (model_namer LGo p) n fields) /\
               In (IMethod n, Str "Decode") (message_idents LGo opt (model_namer LGo p) n fields) /\
               In (IMethod n, Str "Size") (message_idents LGo opt (model_namer LGo p) n fields) /\
               In (IConst, size_const LGo n) (message_idents LGo opt (model_namer LGo p) n fields) /\
               In (IType, n) (message_idents LGo opt (model_namer LGo p) n fields)) /\
  (forall opt, In (IMethod n, Str "encode") (message_idents LPy opt (model_namer LPy p) n fields) /\
               In (IMethod n, Str "decode") (message_idents LPy opt (model_namer LPy p) n fields) /\
               In (IMethod n, Str "to_json") (message_idents LPy opt (model_namer LPy p) n fields) /\
               In (IMethod n, Str "to_dict") (message_idents LPy opt (model_namer LPy p) n fields) /\
               In (IAttr n, Str "BYTES_LENGTH") (message_idents LPy opt (model_namer LPy p) n fields) /\
               In (IClass, n) (message_idents LPy opt (model_namer LPy p) n fields)).
Proof. exact api_names_declared. Qed.
Print Assumptions C15_api_names_declared.

(* BYTES_LENGTH_<UPPER_SNAKE_NAME>: prefix, then the humps of all names in upper case *)
Theorem C15_size_constant : forall l p encl n,
  pascal_kind l KMessage = true -> lang_eqb l LPy = false ->
  is_prefix p = true -> forallb is_pascal (encl ++ [n]) = true ->
  size_const l (def_name l KMessage p encl n) =
  Str size_const_prefix ++ upper (name_prefix l p) ++
  join_us (map upper (flat_map humps (encl ++ [n]))).
Proof. exact size_const_name. Qed.
Print Assumptions C15_size_constant.

Theorem C15_cross_proto_reference : forall l k p encl n alias,
  ref_name l k p encl n true (Some alias) =
  (if supports_import l then alias ++ Str "." ++ def_name l k p encl n else def_name l k p encl n) /\
  ref_name l k p encl n false (Some alias) = def_name l k p encl n /\
  (forall b, ref_name l k p encl n b None = def_name l k p encl n) /\
  (supports_import LC, supports_import LGo, supports_import LPy) = (false, true, true).
Proof. exact cross_proto_reference. Qed.
Print Assumptions C15_cross_proto_reference.

(* the qualifier is the key the imported proto is registered under in the importing proto (its
   `as` name, else its own name), found by identity: other imports' names play no role, even
   when one of them equals the imported proto's own name *)
Theorem C15_import_name_is_key : forall members k id own,
  In (k, id) members -> NoDup (map snd members) -> definition_name members id own = k.
Proof. exact definition_name_is_key. Qed.
Print Assumptions C15_import_name_is_key.

(* ---- output files --------------------------------------------------------------------------------- *)

Theorem C15_out_files : forall base ext,
  forallb is_dot base = false ->     (* the base name has a character other than '.' *)
  out_filename (base ++ Str ".bitproto") ext = base ++ Str "_bp" ++ Str ext.
Proof. exact out_filename_of_bitproto_file. Qed.
Print Assumptions C15_out_files.

Theorem C15_out_file_extensions :
  (out_suffix, ext_c_h, ext_c_c, ext_go, ext_py) = ("_bp", ".h", ".c", ".go", ".py")%string.
Proof. exact out_file_constants. Qed.
Print Assumptions C15_out_file_extensions.

(* ---- option c.name_prefix ---------------------------------------------------------------------- *)

(* a prefix ending in "_" goes, PascalCased, in front of every type name (hence of every
   function name built from it); upper-cased in front of every constant *)
Theorem C15_prefix_on_types : forall k q encl n, pascal_kind LC k = true ->
  def_name LC k (q ++ [us]) encl n = pascal_case (q ++ [us]) ++ def_name LC k [] encl n.
Proof. exact prefix_on_types. Qed.
Print Assumptions C15_prefix_on_types.

Theorem C15_prefix_on_constants : forall p encl n,
  def_name LC KConstant p encl n = upper p ++ def_name LC KConstant [] encl n.
Proof. exact prefix_on_constants. Qed.
Print Assumptions C15_prefix_on_constants.

Theorem C15_prefix_on_enum_members : forall p encl m,
  is_prefix p = true -> forallb is_pascal encl = true -> is_upper_snake m = true ->
  def_name LC KEnumField p encl m = upper p ++ def_name LC KEnumField [] encl m.
Proof. exact prefix_on_enum_members. Qed.
Print Assumptions C15_prefix_on_enum_members.

Theorem C15_prefix_on_size_const : forall p encl n,
  is_prefix p = true -> forallb is_pascal (encl ++ [n]) = true ->
  size_const LC (def_name LC KMessage p encl n) =
  Str size_const_prefix ++ upper p ++
  skipn (List.length (Str size_const_prefix)) (size_const LC (def_name LC KMessage [] encl n)).
Proof. exact prefix_on_size_const. Qed.
Print Assumptions C15_prefix_on_size_const.

(* ... and changes nothing else: Go and Python identifiers do not depend on it, nor do the
   member names of the C structs (the model has no other input: field numbers and types are
   read from the schema) *)
Theorem C15_prefix_only_prefix_other_languages : forall l opt p q ds, lang_eqb l LC = false ->
  proto_idents l opt {| p_prefix := p; p_decls := ds |} =
  proto_idents l opt {| p_prefix := q; p_decls := ds |}.
Proof. exact proto_idents_prefix_irrelevant. Qed.
Print Assumptions C15_prefix_only_prefix_other_languages.

Theorem C15_prefix_only_prefix_field_names : forall l opt p q ds,
  field_names_of (proto_idents l opt {| p_prefix := p; p_decls := ds |}) =
  field_names_of (proto_idents l opt {| p_prefix := q; p_decls := ds |}).
Proof. exact proto_field_names_prefix_irrelevant. Qed.
Print Assumptions C15_prefix_only_prefix_field_names.

(* ---- where the documented scheme does NOT hold on the current tree (finding digit-names) -- *)

(* an enum member in the style guide's own form, accepted by the linter, is renamed *)
Theorem C15_enum_member_digits_refuted : exists m,
  sg_upper m = true /\ lint_upper m = true /\
  def_name LC KEnumField [] [] m <> m /\ def_name LGo KEnumField [] [] m <> m /\
  def_name LPy KEnumField [] [] m <> m.
Proof.
  exists (Str "COLOR_RGB2HSV").
  assert (E : forall l, def_name l KEnumField [] [] (Str "COLOR_RGB2HSV") = Str "COLOR_RGB_2_HSV")
    by (intros []; vm_compute; reflexivity).
  repeat split; try (vm_compute; reflexivity); rewrite E; vm_compute; discriminate.
Qed.
Print Assumptions C15_enum_member_digits_refuted.

(* a field name the linter accepts whose Go JSON tag is not the schema name *)
Theorem C15_go_tag_refuted : exists n,
  sg_lower n = true /\ lint_snake n = true /\ go_tag (field_name LGo n) <> n.
Proof.
  exists (Str "a_b"). repeat split; try (vm_compute; reflexivity).
  assert (E : go_tag (field_name LGo (Str "a_b")) = Str "ab") by (vm_compute; reflexivity).
  rewrite E. vm_compute. discriminate.
Qed.
Print Assumptions C15_go_tag_refuted.

(* a message name with a digit: the size constant splits around the digit *)
Theorem C15_size_constant_digits_refuted : exists n,
  sg_pascal_noacr n = true /\ lint_pascal n = true /\
  size_const LC (def_name LC KMessage [] [] n) <> Str size_const_prefix ++ upper_snake_of_pascal n.
Proof.
  exists (Str "Rgb2Hsv"). repeat split; try (vm_compute; reflexivity).
  assert (E : size_const LC (def_name LC KMessage [] [] (Str "Rgb2Hsv")) = Str "BYTES_LENGTH_RGB_2_HSV")
    by (vm_compute; reflexivity).
  rewrite E. vm_compute. discriminate.
Qed.
Print Assumptions C15_size_constant_digits_refuted.

(* ---- non-vacuity: the hypotheses are satisfiable on non-trivial instances, and the
        conclusions compute to the documented names ------------------------------------------ *)

Example C15_nonvacuous_converters :
  is_pascal (Str "ZooMonkey") = true /\ is_lower_snake (Str "tail_len") = true /\
  is_upper_snake (Str "KIND_BIG_CAT") = true /\ go_tag_ok (Str "is_a_wild_cat") = true /\
  is_prefix (Str "my_prefix_") = true /\
  snake_case (Str "ZooMonkey") = Str "zoo_monkey" /\
  humps (Str "ZooMonkey") = [Str "Zoo"; Str "Monkey"] /\
  field_name LGo (Str "is_a_wild_cat") = Str "IsAWildCat" /\
  go_tag (field_name LGo (Str "is_a_wild_cat")) = Str "is_a_wild_cat".
Proof. vm_compute. repeat split; reflexivity. Qed.

Example C15_nonvacuous_names :
  let encl := [Str "Zoo"; Str "BigCat"] in
  (forall w, In w (encl ++ [Str "Tail"]) -> pascal_case w = w) /\
  forallb is_pascal (encl ++ [Str "Tail"]) = true /\
  def_name LC KMessage (Str "my_prefix_") encl (Str "Tail") = Str "MyPrefixZooBigCatTail" /\
  def_name LGo KMessage (Str "my_prefix_") encl (Str "Tail") = Str "ZooBigCatTail" /\
  def_name LPy KMessage (Str "my_prefix_") encl (Str "Tail") = Str "Zoo_BigCat_Tail" /\
  def_name LGo KEnum [] encl (Str "Mood") = Str "Zoo_BigCat_Mood" /\
  def_name LC KEnumField (Str "my_prefix_") encl (Str "MOOD_OK") = Str "MY_PREFIX_ZOO_BIG_CAT_MOOD_OK" /\
  size_const LC (def_name LC KMessage (Str "my_prefix_") encl (Str "Tail")) =
    Str "BYTES_LENGTH_MY_PREFIX_ZOO_BIG_CAT_TAIL" /\
  c_encode_fn (def_name LC KMessage (Str "my_prefix_") encl (Str "Tail")) = Str "EncodeMyPrefixZooBigCatTail" /\
  out_filename (Str "zoo.v2.bitproto") ext_c_h = Str "zoo.v2_bp.h" /\
  forallb is_dot (Str "zoo.v2") = false.
Proof.
  cbv zeta. split.
  - intros w [H|[H|[H|[]]]]; subst w; vm_compute; reflexivity.
  - vm_compute. repeat split; reflexivity.
Qed.

(* `import bb "base.bitproto"` (proto base) next to `import base "other.bitproto"`; a capitalised
   prefix sharing its letters with the message it prefixes *)
Example C15_nonvacuous_import_and_prefix :
  let members := [(Str "bb", 0%N); (Str "base", 1%N)] in
  NoDup (map snd members) /\
  definition_name members 0%N (Str "base") = Str "bb" /\
  definition_name members 1%N (Str "other") = Str "base" /\
  is_prefix (Str "Lib_") = true /\ is_prefix (Str "MY_Li_") = true /\
  def_name LC KMessage (Str "Lib_") [Str "Link"] (Str "Bit") = Str "LibLinkBit" /\
  def_name LC KEnumField (Str "Lib_") [Str "Link"] (Str "LEVEL_HIGH") = Str "LIB_LINK_LEVEL_HIGH" /\
  size_const LC (def_name LC KMessage (Str "MY_Li_") [Str "Link"] (Str "Bit")) = Str "BYTES_LENGTH_MY_LI_LINK_BIT".
Proof.
  cbv zeta. split; [repeat constructor; cbn; intuition discriminate|].
  vm_compute. repeat split; reflexivity.
Qed.

Example C15_nonvacuous_idents :
  let ds := [DEnum (Str "Kind") [Str "KIND_UNKNOWN"];
             DMessage (Str "Zoo") [DMessage (Str "Monkey") [] [{| f_name := Str "is_wild"; f_number := 2; f_type := TBase |}]]
                      [{| f_name := Str "monkey"; f_number := 1;
                          f_type := TNamed KMessage (Str "my_") [Str "Zoo"] (Str "Monkey") None |}]] in
  field_names_of (proto_idents LC false {| p_prefix := Str "my_"; p_decls := ds |}) = [Str "is_wild"; Str "monkey"] /\
  In (IStruct, Str "MyZooMonkey") (proto_idents LC false {| p_prefix := Str "my_"; p_decls := ds |}) /\
  In (IFieldType (Str "MyZoo"), Str "monkey:struct MyZooMonkey")
     (proto_idents LC false {| p_prefix := Str "my_"; p_decls := ds |}) /\
  In (ITag (Str "Zoo"), Str "Monkey:monkey") (proto_idents LGo false {| p_prefix := Str "my_"; p_decls := ds |}).
Proof. vm_compute. repeat split; tauto. Qed.
