(* C09 — Compilation is total: any input text yields success or a parser error.

   PARTIAL.  Proved here: every partial Python operation that bitproto's OWN code performs
   inside the token rules, the semantic actions and the renderers (model: theories/Total.v,
   regenerated from /repo by tools/translate_c09.py) ends in Ok or in a ParserError that
   _main.py reports — under exactly the stated guards; each guard is tight: props/C09_refuted.v
   holds a witness that crashes on the current tree (the known findings).
   NOT proved (no model of ply exists here): termination / exception-freedom of ply's regex
   tokenizer and LALR driver on arbitrary bytes.  That part is covered only by the
   failing-input search of tools/props/c09.py, which supports but does not replace a theorem. *)
From Coq Require Import String Ascii ZArith List Bool.
From BP Require Import Re ReLinear TotalBase Schema Total TotalProofs.
From BPGen Require Import GenC09.
Import ListNotations.
Open Scope Z_scope.

(* ---------------------------------------------------------------------------------------
   1. the string-escape loop (translated), on EVERY string of the token's regular language
   --------------------------------------------------------------------------------------- *)

Theorem C09_escape_loop_total :
  forall tv : list ascii,
    matches string_literal_re tv ->
    (exists v, unescape_token tv = Ok v) \/
    unescape_token tv = ParserError "InvalidEscapingChar"%string.
Proof. exact escape_loop_total. Qed.
Print Assumptions C09_escape_loop_total.

(* the same with the executable recogniser (derivatives of the generated regex) *)
Theorem C09_escape_loop_total_recogniser :
  forall tv : list ascii,
    re_matchb string_literal_re tv = true ->
    (exists v, unescape_token tv = Ok v) \/
    unescape_token tv = ParserError "InvalidEscapingChar"%string.
Proof. exact escape_loop_total_b. Qed.
Print Assumptions C09_escape_loop_total_recogniser.

(* the recogniser decides the denotational semantics of the regex *)
Theorem C09_recogniser_correct :
  forall r s, re_matchb r s = true <-> matches r s.
Proof. exact re_matchb_spec. Qed.
Print Assumptions C09_recogniser_correct.

(* the rule as a whole at a quote (shortest-match scan + loop) never crashes, on ANY text *)
Theorem C09_string_rule_total :
  forall text : list ascii, is_crash (lex_string text) = false.
Proof. exact lex_string_total. Qed.
Print Assumptions C09_string_rule_total.

Example C09_escape_loop_nonvacuous :
  re_matchb string_literal_re (asc [34; 97; 92; 34; 98; 92; 92; 99; 92; 110; 34]%nat) = true /\
  unescape_token (asc [34; 97; 92; 34; 98; 92; 92; 99; 92; 110; 34]%nat)
    = Ok (asc [97; 34; 98; 92; 99; 10]%nat) /\
  unescape_token (asc [34; 97; 92; 113; 34]%nat) = ParserError "InvalidEscapingChar"%string /\
  (* outside the token language the loop DOES fail: `"a\"` read as a whole token *)
  re_matchb string_literal_re (asc [34; 97; 92; 34]%nat) = false /\
  unescape_token (asc [34; 97; 92; 34]%nat) = Crash IndexError.
Proof. vm_compute. repeat split; reflexivity. Qed.

(* ---------------------------------------------------------------------------------------
   2. integer conversions of the lexer rules
   --------------------------------------------------------------------------------------- *)

Theorem C09_int_literal_total :
  forall tv, matches int_literal_re tv -> zlen tv <= py_int_max_str_digits ->
             exists z, lex_int_literal tv = Ok z.
Proof. exact int_literal_total. Qed.
Print Assumptions C09_int_literal_total.

Theorem C09_uint_width_total :
  forall tv, matches uint_type_re tv -> zlen tv <= py_int_max_str_digits + 4 ->
             exists z, lex_uint_cap tv = Ok z.
Proof. exact uint_type_total. Qed.
Print Assumptions C09_uint_width_total.

Theorem C09_int_width_total :
  forall tv, matches int_type_re tv -> zlen tv <= py_int_max_str_digits + 3 ->
             exists z, lex_int_cap tv = Ok z.
Proof. exact int_type_total. Qed.
Print Assumptions C09_int_width_total.

Theorem C09_hex_literal_total :
  forall tv, matches hex_literal_re tv -> exists z, lex_hex_literal tv = Ok z.
Proof. exact hex_literal_total. Qed.
Print Assumptions C09_hex_literal_total.

(* the guards are exact: see props/C09_refuted.v (beyond the limit the conversion raises ValueError) *)



Example C09_int_nonvacuous :
  lex_int_literal (asc [52; 50]%nat) = Ok 42 /\
  lex_hex_literal (asc [48; 120; 70; 102]%nat) = Ok 255 /\
  lex_uint_cap (asc [117; 105; 110; 116; 54; 52]%nat) = Ok 64 /\
  is_ok (lex_int_literal (repeat "9"%char 40)) = true.
Proof. vm_compute. repeat split; reflexivity. Qed.

(* ---------------------------------------------------------------------------------------
   3.-7. semantic actions
   --------------------------------------------------------------------------------------- *)

(* constant arithmetic never crashes: a zero divisor is a CalculationExpressionError (fix ba6c9a1) *)
Theorem C09_actions_total_const_expr :
  forall env e, is_crash (ceval env e) = false.
Proof. exact ceval_total. Qed.
Print Assumptions C09_actions_total_const_expr.

(* items a scope does not support: every alternative of the two grammar rules ends in a
   ParserError that _main.py reports (incl. `import` inside a message, fix 5271e56) *)
Theorem C09_actions_total_enum_items :
  forall i, In i enum_items -> is_parser_error (enum_item_outcome i) = true.
Proof. apply forallb_forall. exact enum_items_total. Qed.
Print Assumptions C09_actions_total_enum_items.

Theorem C09_actions_total_message_items :
  forall i, In i message_items -> is_parser_error (message_item_outcome i) = true.
Proof. exact message_items_total. Qed.
Print Assumptions C09_actions_total_message_items.


(* every p[k] / p.lineno(k) / p.lexpos(k) / helper access of every semantic action is inside
   the production, for every alternative under which it is executed *)
Theorem C09_actions_total_indices :
  forall a len acc, In a actions -> In len (snd (fst a)) -> In acc (snd a) ->
                    access_ok len acc = true.
Proof. exact actions_indices_in_range. Qed.
Print Assumptions C09_actions_total_indices.

(* the error hooks always raise, and what lexer.py / parser.py raise is a diagnostic *)
Theorem C09_actions_total_errors_are_diagnostics :
  hooks_raise_diag = true /\
  (forall c, In c (lexer_raises ++ parser_raises) -> parse_diag c = true) /\
  front_non_diag = ["InternalError"; "NotImplementedError"]%string.
Proof. exact errors_are_diagnostics. Qed.
Print Assumptions C09_actions_total_errors_are_diagnostics.

(* diagnostics that format an integer: fine below 10^4300 *)
Theorem C09_actions_total_p_error :
  forall path v, In path p_error_paths ->
    match v with TInt z => Z.abs z < 10 ^ py_int_max_str_digits | TOther => True end ->
    exists k, p_error_path_outcome path v = ParserError k /\ parse_diag k = true.
Proof. exact p_error_paths_total. Qed.
Print Assumptions C09_actions_total_p_error.



(* option values: checking is total; what was accepted is read back with its type *)
Theorem C09_actions_total_options :
  forall scope name v, is_crash (option_check scope name v) = false.
Proof. exact option_check_total. Qed.
Print Assumptions C09_actions_total_options.

Theorem C09_option_get_after_check :
  forall scope name v s n k f,
    find_descriptor scope name = Some (s, n, k, f) ->
    option_check scope name v = Ok tt -> option_get_typed k v = Ok v.
Proof. exact option_get_after_check. Qed.
Print Assumptions C09_option_get_after_check.

Example C09_actions_nonvacuous :
  ceval [("A"%string, BInt 7)] (CDiv (CAdd (CRef "A") (CLitE 5)) (CSub (CLitE 0) (CLitE 5))) = Ok (-3) /\
  ceval [] (CDiv (CLitE 1) (CSub (CLitE 2) (CLitE 2))) = ParserError "CalculationExpressionError"%string /\
  message_item_outcome IImport = ParserError "ImportInMessageUnsupported"%string /\
  ceval [("A"%string, BBool true)] (CAdd (CRef "A") (CLitE 1)) = ParserError "CalculationExpressionError"%string /\
  option_check "message" "max_bytes" (OVInt 3) = Ok tt /\
  option_check "message" "max_bytes" (OVBool true) = ParserError "InvalidOptionValue"%string /\
  option_check "proto" "c.struct_packing_alignment" (OVInt 9) = ParserError "InvalidOptionValue"%string /\
  option_check "proto" "nope" (OVInt 9) = ParserError "UnsupportedOption"%string.
Proof. vm_compute. repeat split; reflexivity. Qed.

(* ---------------------------------------------------------------------------------------
   8. renderers
   --------------------------------------------------------------------------------------- *)

Theorem C09_render_total :
  forall l t consts, ints_small consts = true -> render l t consts = Ok tt.
Proof. exact render_total. Qed.
Print Assumptions C09_render_total.

(* pascal_case / snake_case / upper_case / keep_case and their helpers (static analysis, T0):
   every v[k] / m.group() is dominated by a test of v / m — names with leading, trailing or doubled
   underscores cannot crash the C / Go renderers or the linter *)
Theorem C09_render_total_names :
  name_funcs_unguarded = [] /\ In "pascal_case"%string name_funcs_analysed /\
  In "snake_case"%string name_funcs_analysed.
Proof. exact (conj name_funcs_total (conj (or_intror (or_introl eq_refl)) (or_intror (or_intror (or_introl eq_refl))))). Qed.
Print Assumptions C09_render_total_names.

(* no regular expression applied to user text (the name converters' in utils.py, the translated
   token rules) has a quantifier inside a quantifier or an ambiguous iteration; for such FLAT
   regexes a backtracking matcher (greedy, longest position first, alternatives left to right)
   needs at most (#items + 1) * (n + 2) ^ #quantifiers steps on a text of length n.
   PARTIAL: that CPython's sre does no more work than this matcher is trusted, not proved. *)
Theorem C09_regexes_flat : regexes_not_flat = [].
Proof. exact regexes_flat. Qed.
Print Assumptions C09_regexes_flat.

Theorem C09_backtracking_polynomial :
  forall items s, (fst (bt items s) <= (length items + 1) * (length s + 2) ^ nstars items)%nat.
Proof. exact bt_steps_poly. Qed.
Print Assumptions C09_backtracking_polynomial.

Theorem C09_regex_table_polynomial :
  forall e, In e all_regexes ->
    exists alts, flatten (snd e) = Some alts /\
      forall a s, In a alts ->
        (fst (bt a s) <= (length a + 1) * (length s + 2) ^ nstars a)%nat.
Proof. exact regex_table_polynomial. Qed.
Print Assumptions C09_regex_table_polynomial.

(* the check is not vacuous: the classic exponential shapes are rejected, and the matcher agrees
   with the semantics on examples *)
Example C09_flat_nonvacuous :
  is_flat (RSeq (RStar (RIn false [CRange 48 57]))
                (RPlus (RSeq (RPlus (RIn false [CRange 65 90])) (RStar (RIn false [CRange 48 57]))))) = false /\
  is_flat (RStar (RAlt (RChar 97) (RAlt (RSeq (RChar 97) (RChar 98)) (RChar 98)))) = false /\
  is_flat string_literal_re = true /\
  length all_regexes = 14%nat /\
  match flatten string_literal_re with
  | Some [a] => snd (bt a (asc [34; 97; 92; 34; 98; 34]%nat)) = true /\ snd (bt a (asc [34; 97; 92; 34]%nat)) = false
  | _ => False
  end.
Proof. vm_compute. repeat split; reflexivity. Qed.

Example C09_render_nonvacuous :
  render LPy (TMsg false [(1, TArr false 3 (TEnum 3 [0; 1])); (2, TAlias (TArr true 2 TByte));
                          (3, TMsg true [(1, TEnum 8 [5])])]) [0; 2 ^ 64; -(10 ^ 40)] = Ok tt /\
  render LPy (TMsg false [(1, TEnum 3 []); (2, TArr false 2 (TEnum 1 []))]) [] = Ok tt.
Proof. vm_compute. split; reflexivity. Qed.

(* ---------------------------------------------------------------------------------------
   9. reading sources
   --------------------------------------------------------------------------------------- *)

Theorem C09_read_source_total :
  forall bytes, utf8_valid bytes = true -> read_source bytes = Ok tt.
Proof. exact read_source_total. Qed.
Print Assumptions C09_read_source_total.


