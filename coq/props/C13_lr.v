(* C13 <-> the real LALR tables (PARTIAL, bounded): what ConstExpr.pretty prints for an expression
   tree is parsed by the tables ply builds from /repo's grammar and precedence declarations back
   to THAT tree (the reductions are its post-order), for every tree of LRFacts.expr_domain
   (4141 trees of depth <= 3 over + - * /).  C13_parse_eval proves that the precedence-climbing
   model evaluates `pretty e` to `denote e`; this closes, on the bounded domain, the gap between
   that model and the tables the compiler really uses. *)
From Coq Require Import ZArith List Arith Bool String.
From BP Require Import LR LRConcrete LRFacts ConstExpr LRExprC13.
From BPGen Require Import GenLR.
Import ListNotations.

Theorem C13_lr_pretty_parsed_partial : forall e, In e expr_domain ->
  exists rs, parse (ctx_pre_t ++ map tok_id (ConstExpr.pretty (embed e)) ++ ctx_post_t) = Accept rs /\
             rs = (fst ctx_reds ++ snd (lr_tr e) ++ snd ctx_reds)%list.
Proof. exact c13_expr_pointwise. Qed.
Print Assumptions C13_lr_pretty_parsed_partial.

Example C13_lr_domain_size : List.length expr_domain = 4141.
Proof. vm_compute. reflexivity. Qed.
