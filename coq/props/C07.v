(* C07 — Encoding touches exactly its bytes, and each field exactly its bits.
   Python half (the C half, C07_c_*, is in the same file once the C runtime model is merged). *)
From Coq Require Import ZArith List Bool.
From BP Require Import Bits Schema Spec PyRt PyEncTop PyContain PyDecProofs PyDecTop.
Import ListNotations.
Open Scope Z_scope.

(* the byte-length constant is ceil(N/8) *)
Theorem C07_size_constant : forall t, nbytes t = (nbits t + 7) / 8.
Proof. reflexivity. Qed.
Print Assumptions C07_size_constant.

(* integer fields holding ARBITRARY integers (too large, negative for unsigned): encode()
   does not raise, writes exactly the ceil(N/8)-byte buffer (the model's buffer is a list of
   exactly that length with bounds-checked access) and returns Spec.wire, which reads every
   leaf modulo 2^width *)
Theorem C07_py_any_ints : forall t v,
  PyEncTop.is_msg t = true -> wf (norm t) = true -> shape_ty (norm t) v = true ->
  py_encode t v = Ok (wire t v).
Proof. exact py_encode_any_ints. Qed.
Print Assumptions C07_py_any_ints.

(* the bits a field contributes are a function of its low n bits only: two values whose
   leaves agree modulo 2^width encode identically, every other field and the padding included *)
Theorem C07_py_contained : forall t v1 v2,
  PyEncTop.is_msg t = true -> wf (norm t) = true ->
  shape_ty (norm t) v1 = true -> shape_ty (norm t) v2 = true ->
  val_cong (norm t) v1 v2 = true ->
  py_encode t v1 = py_encode t v2.
Proof. exact py_contained. Qed.
Print Assumptions C07_py_contained.

(* decoding a buffer produced by the same schema reads nothing beyond its ceil(N/8) bytes:
   the decoder model, run on exactly that buffer with bounds-checked reads, returns Ok *)
Theorem C07_py_decode_in_bounds : forall t v,
  PyEncTop.is_msg t = true -> wf (norm t) = true -> dec_guard (norm t) = true ->
  has_ty (norm t) v = true ->
  py_decode t (wire t v) = Ok (canon (norm t) v).
Proof. exact py_decode_wire. Qed.
Print Assumptions C07_py_decode_in_bounds.

Definition ex_t : ty := TMsg false [(2, TUint 5); (1, TInt 3); (3, TArr false 2 (TUint 9)); (4, TBool)].
Definition ex_v1 : val := VM [(2, VZ 1000); (1, VZ (-77)); (3, VL [VZ (-1); VZ 513]); (4, VB true)].
Definition ex_v2 : val := VM [(2, VZ 8); (1, VZ 3); (3, VL [VZ 511; VZ 1]); (4, VB true)].
Example C07_py_nonvacuous :
  shape_ty (norm ex_t) ex_v1 = true /\ has_ty (norm ex_t) ex_v1 = false /\
  val_cong (norm ex_t) ex_v1 ex_v2 = true /\ py_encode ex_t ex_v1 = Ok (wire ex_t ex_v2).
Proof. vm_compute. repeat split; reflexivity. Qed.
