(* C07 — encoding touches exactly its bytes, and each field exactly its bits (C half, then Python half).
   Only statements, each closed by [exact] of a lemma proved elsewhere + Print Assumptions. *)
From Coq Require Import ZArith List Bool.
From BP Require Import Bits Schema Spec CMem CRt CCopyProofs CEncProofs CTop.
From BP Require PyRt PyEncTop PyContain PyDecProofs PyDecTop.
From BPGen Require Import GenC.
Import ListNotations.
Open Scope Z_scope.

(* the byte-length constant: what the compiler computes (Type.nbytes, translated) is
   ceil(nbits/8); the three emitters print that number (checked per schema by T1 in the
   check: C macro, Go const and Size(), Python BYTES_LENGTH) *)
Theorem C07_size_constant : forall t,
  0 <= nbits t -> ast_nbytes (nbits t) = nbytes t /\ nbytes t = (nbits t + 7) / 8.
Proof. exact size_constant. Qed.
Print Assumptions C07_size_constant.

(* no out-of-bounds access while encoding: in the bounds-checked memory, with the stream
   buffer exactly BYTES_LENGTH bytes and every field object exactly sizeof bytes, for
   ARBITRARY storage contents, Encode<Msg> returns normally (COk: never MemErr) — this is
   where the 2- and 4-byte loads/stores of the fast paths are shown to stay inside *)
Theorem C07_c_no_oob_encode : forall B E t o,
  B = E -> c_schema t -> shape_ok (norm t) o ->
  exists bs, c_encode_ty B E t o = COk bs /\ Z.of_nat (length bs) = nbytes t.
Proof. exact c_no_oob_encode. Qed.
Print Assumptions C07_c_no_oob_encode.

(* ... and while decoding a buffer produced by the same schema: the buffer is exactly
   ceil(N/8) bytes, nothing beyond it is read, nothing outside the field objects is written *)
Theorem C07_c_no_oob_decode : forall B E t v,
  B = E -> c_schema t -> has_ty (norm t) v = true ->
  Z.of_nat (length (wire t v)) = nbytes t /\
  exists o, c_decode_ty B E t (wire t v) = COk o.
Proof. exact c_no_oob_decode. Qed.
Print Assumptions C07_c_no_oob_decode.

(* containment: the encoded bytes are the wire of the value READ BACK from storage, and two
   storages that agree on the low n bits of every field give the same bytes — bits outside
   a field's low n bits never reach another field's bits or the padding *)
Theorem C07_c_contained : forall B E t o1 o2,
  B = E -> c_schema t -> shape_ok (norm t) o1 -> shape_ok (norm t) o2 ->
  low_eq (norm t) (abs_val E (norm t) o1) (abs_val E (norm t) o2) ->
  c_encode_ty B E t o1 = COk (wire t (abs_val E (norm t) o1)) /\
  c_encode_ty B E t o2 = c_encode_ty B E t o1.
Proof. exact c_encode_contained. Qed.
Print Assumptions C07_c_contained.

(* a uint5 holding 0xFF next to a bool and a uint3: only its low 5 bits reach the wire *)
Definition ex_t : ty := TMsg false [(1, TBool); (2, TUint 5); (3, TUint 3); (4, TArr false 2 (TInt 7))].
Definition ex_o1 : obj := OS [(1, OB [254]); (2, OB [255]); (3, OB [248]); (4, OB [255; 128])].
Definition ex_o2 : obj := OS [(1, OB [0]); (2, OB [31]); (3, OB [0]); (4, OB [127; 0])].
Example C07_nonvacuous :
  c_schema ex_t /\ c_encode_ty LE LE ex_t ex_o1 = COk [62; 254; 0] /\ c_encode_ty LE LE ex_t ex_o2 = COk [62; 254; 0].
Proof. vm_compute. repeat split; reflexivity. Qed.

(* ======================= Python half ======================= *)

(* integer fields holding ARBITRARY integers (too large, negative for unsigned): encode()
   does not raise, writes exactly the ceil(N/8)-byte buffer (the model's buffer is a list of
   exactly that length with bounds-checked access) and returns Spec.wire, which reads every
   leaf modulo 2^width *)
Theorem C07_py_any_ints : forall t v,
  PyEncTop.is_msg t = true -> wf (norm t) = true -> shape_ty (norm t) v = true ->
  PyRt.py_encode t v = PyRt.Ok (wire t v).
Proof. exact PyContain.py_encode_any_ints. Qed.
Print Assumptions C07_py_any_ints.

(* the bits a field contributes are a function of its low n bits only: two values whose
   leaves agree modulo 2^width encode identically, every other field and the padding included *)
Theorem C07_py_contained : forall t v1 v2,
  PyEncTop.is_msg t = true -> wf (norm t) = true ->
  shape_ty (norm t) v1 = true -> shape_ty (norm t) v2 = true ->
  PyContain.val_cong (norm t) v1 v2 = true ->
  PyRt.py_encode t v1 = PyRt.py_encode t v2.
Proof. exact PyContain.py_contained. Qed.
Print Assumptions C07_py_contained.

(* decoding a buffer produced by the same schema reads nothing beyond its ceil(N/8) bytes:
   the decoder model, run on exactly that buffer with bounds-checked reads, returns Ok *)
Theorem C07_py_decode_in_bounds : forall t v,
  PyEncTop.is_msg t = true -> wf (norm t) = true -> PyDecProofs.dec_guard (norm t) = true ->
  has_ty (norm t) v = true ->
  PyRt.py_decode t (wire t v) = PyRt.Ok (PyDecProofs.canon (norm t) v).
Proof. exact PyDecTop.py_decode_wire. Qed.
Print Assumptions C07_py_decode_in_bounds.

Definition ex_py_t : ty := TMsg false [(2, TUint 5); (1, TInt 3); (3, TArr false 2 (TUint 9)); (4, TBool)].
Definition ex_py_v1 : val := VM [(2, VZ 1000); (1, VZ (-77)); (3, VL [VZ (-1); VZ 513]); (4, VB true)].
Definition ex_py_v2 : val := VM [(2, VZ 8); (1, VZ 3); (3, VL [VZ 511; VZ 1]); (4, VB true)].
Example C07_py_nonvacuous :
  shape_ty (norm ex_py_t) ex_py_v1 = true /\ has_ty (norm ex_py_t) ex_py_v1 = false /\
  PyContain.val_cong (norm ex_py_t) ex_py_v1 ex_py_v2 = true /\ PyRt.py_encode ex_py_t ex_py_v1 = PyRt.Ok (wire ex_py_t ex_py_v2).
Proof. vm_compute. repeat split; reflexivity. Qed.

(* ======================= optimization mode ======================= *)
From BP Require OpMode OpModeLeaf.

(* one field at an arbitrary offset, for EVERY object content u (not only in-range values):
   the emitted -O encode statements add exactly u mod 2^width at the field's position and
   change nothing else of the buffer (C byte-pointer, C value-based and Go statements) *)
Theorem C07_opmode_contained : forall L lf ch M u i0 s,
  OpModeLeaf.leaf_ok lf -> OpModeLeaf.pat_ok lf u ->
  OpMode.mem_get M ch = Some (OpMode.mkcell (OpMode.leaf_cty lf) u) ->
  0 <= i0 -> bytes_ok s -> 0 <= bufZ s < 2 ^ i0 ->
  i0 + OpMode.leaf_bits lf <= 8 * Z.of_nat (length s) ->
  exists s',
    OpMode.run (OpMode.leaf_stmts L true (ch, lf) i0) (OpMode.mkst s M) = Some (OpMode.mkst s' M) /\
    bytes_ok s' /\ length s' = length s /\
    bufZ s' = bufZ s + 2 ^ i0 * (u mod 2 ^ OpMode.leaf_bits lf).
Proof. exact OpModeLeaf.leaf_encode. Qed.
Print Assumptions C07_opmode_contained.
