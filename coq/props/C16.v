(* C16 — JSON output is valid JSON that states the message's values.
   Only statements, each closed by [exact] of a lemma proved in theories/JsonProofs.v,
   followed by Print Assumptions; plus Examples showing the hypotheses are satisfiable.

   Json.expected t v   the JSON value the property demands: object keyed by field names in
                       field-NUMBER order; integers as numbers (negative when negative),
                       booleans, arrays (byte arrays included) as lists, nested messages as
                       objects, enum values as numbers
   Json.c_text         the characters the C runtime writes (walk of BpJsonFormat*, format
                       strings / casts / thresholds / case labels from gen/GenJson.v)
   Json.store          the C object tree after assigning the fields
   Json.py_tree        dataclasses.asdict + generated dict_factory + json.dumps *)
From Coq Require Import ZArith List Bool String.
From BP Require Import Schema JsonBase Json JsonWf JsonProofs JsonText.
Import ListNotations.
Open Scope string_scope.
Open Scope Z_scope.

(* C: for every accepted message type and every in-range value, Json<Msg>() writes exactly
   the compact print of the specified JSON value *)
Theorem C16_c_text : forall t v,
  shape_ok t = true -> wf (erase t) = true -> has_ty (erase t) v = true ->
  (exists x fs, t = NMsg x fs) ->
  c_text t (store t v) = Some (print_compact (expected t v)).
Proof. exact c_text_correct. Qed.
Print Assumptions C16_c_text.

(* the same at every place a value can stand (message field, alias target, array element) *)
Theorem C16_c_text_everywhere : forall t,
  shape_ok t = true -> wf (erase t) = true ->
  forall s v, site_allows s t = true -> has_ty (erase t) v = true ->
  c_dispatch s t (store t v) = Some (print_compact (expected t v)).
Proof. exact dispatch_correct. Qed.
Print Assumptions C16_c_text_everywhere.

(* Python: outside the one refuted region (field names with the enum-proxy prefix),
   json.dumps(to_dict(), default=_json_default) states the specified value — byte arrays
   included, as lists (fix b3480f8; the hook is read from bp.py into gen/GenJson.v) *)
Theorem C16_py_tree : forall t v,
  no_proxy_names t = true -> names_distinct t = true ->
  has_ty (erase t) v = true ->
  py_tree t v = POk (expected t v).
Proof. exact py_tree_correct. Qed.
Print Assumptions C16_py_tree.

(* to_dict() holds the value tree with names in number order; a `byte[n]` field is still a
   bytearray object there (Json.dict_spec) — only to_json() converts it *)
Theorem C16_py_to_dict : forall t,
  no_proxy_names t = true -> names_distinct t = true ->
  forall v, has_ty (erase t) v = true ->
  py_asdict t v = POk (dict_spec t v).
Proof. exact asdict_correct. Qed.
Print Assumptions C16_py_to_dict.

(* json.dumps with the hook writes the specified value for whatever to_dict() is specified
   to hold: no tree, no value raises *)
Theorem C16_py_dumps_total : forall t v, py_dumps (dict_spec t v) = POk (expected t v).
Proof. exact dumps_dict_spec. Qed.
Print Assumptions C16_py_dumps_total.

(* regression of the FIXED finding json-bytes (corpus/C16/json_bytes.json): Python JSON = C
   JSON = specified text, while to_dict() keeps the bytearray *)
Theorem C16_py_bytearray_regression :
  py_asdict bytes_t bytes_v = POk (PJDict [("b", PJBytes [7])]) /\
  py_to_json "," ":" bytes_t bytes_v = POk "{""b"":[7]}" /\
  c_text bytes_t (store bytes_t bytes_v) = Some "{""b"":[7]}" /\
  print_compact (expected bytes_t bytes_v) = "{""b"":[7]}".
Proof. exact py_bytearray_regression. Qed.
Print Assumptions C16_py_bytearray_regression.

(* REFUTED on the current tree (finding json-proxy-name): a field whose name starts with
   the enum-proxy prefix is dropped by the generated dict_factory *)
Theorem C16_py_proxy_name_refuted :
  exists t v, shape_ok t = true /\ wf (erase t) = true /\ has_ty (erase t) v = true /\
              names_distinct t = true /\ no_proxy_names t = false /\
              py_tree t v = POk (JObj []) /\
              expected t v = JObj [("_enum_field_proxy__x", JBool true)] /\
              c_text t (store t v) = Some (print_compact (expected t v)).
Proof. exact py_proxy_name_refuted. Qed.
Print Assumptions C16_py_proxy_name_refuted.

(* Python and C produce equal JSON values for equal messages: to_json(separators=(",",":"))
   and Json<Msg>() write the same characters *)
Theorem C16_c_eq_py : forall t v,
  shape_ok t = true -> wf (erase t) = true -> has_ty (erase t) v = true ->
  (exists x fs, t = NMsg x fs) ->
  no_proxy_names t = true -> names_distinct t = true ->
  exists s, py_to_json "," ":" t v = POk s /\ c_text t (store t v) = Some s.
Proof. exact c_eq_py. Qed.
Print Assumptions C16_c_eq_py.

(* every width the compiler admits: the storage type the renderer chooses, the cast the
   runtime reads through and the printf conversion agree (finite sweep 1..64 over the
   translated tables) *)
Theorem C16_widths : forall n, 1 <= n <= 64 -> width_ok n = true.
Proof. exact width_ok_at. Qed.
Print Assumptions C16_widths.

(* WELL-FORMEDNESS.  wf_json is a recogniser for JSON texts (RFC 8259 grammar restricted to
   what can occur: no white space, integers without leading zeros, true/false, arrays,
   objects whose keys are strings of unescaped characters).  It accepts whatever
   print_compact writes for a tree with plain keys ... *)
Theorem C16_wf_json : forall j, keys_safe j = true -> wf_json (print_compact j) = true.
Proof. exact wf_json_print. Qed.
Print Assumptions C16_wf_json.

(* ... hence the text the C runtime writes is a JSON text (field names are identifiers) *)
Theorem C16_c_text_wf_json : forall t v,
  shape_ok t = true -> wf (erase t) = true -> has_ty (erase t) v = true ->
  (exists x fs, t = NMsg x fs) -> names_safe t = true ->
  exists s, c_text t (store t v) = Some s /\ wf_json s = true.
Proof. exact c_text_wf_json. Qed.
Print Assumptions C16_c_text_wf_json.

(* ... and so is Python's to_json(separators=(",", ":")) in the guarded region *)
Theorem C16_py_compact_wf_json : forall t v,
  no_proxy_names t = true -> names_distinct t = true ->
  has_ty (erase t) v = true -> names_safe t = true ->
  exists s, py_to_json "," ":" t v = POk s /\ wf_json s = true.
Proof. exact py_compact_wf_json. Qed.
Print Assumptions C16_py_compact_wf_json.

(* identifiers of the schema language are plain keys *)
Theorem C16_identifiers_plain : forall s, ident_string s = true -> safe_string s = true.
Proof. exact ident_string_safe. Qed.
Print Assumptions C16_identifiers_plain.

(* the decimal printer is injective: equal numerals, equal numbers (read_dec reads them back) *)
Theorem C16_decimal_roundtrip : forall z, read_dec (dec_Z z) = z.
Proof. exact read_dec_Z. Qed.
Print Assumptions C16_decimal_roundtrip.

(* the recogniser is not trivial: it rejects what is not JSON *)
Example C16_wf_json_rejects :
  map wf_json ["[1,]"; "{""a"":1,}"; "{""a"":1"; "01"; "tru"; "[1 2]"; "-"; "{a:1}"; "[1]]"; ""]
  = [false; false; false; false; false; false; false; false; false; false]
  /\ map wf_json ["{""a"":[1,-2,0],""b"":{""c"":true,""d"":false},""e"":[]}"; "{}"; "-0"]
  = [true; true; true].
Proof. vm_compute. split; reflexivity. Qed.

(* non-vacuity: a permuted, nested example with aliases, enums, arrays of messages, negative
   wide integers meets every hypothesis and the conclusions compute *)
Definition ex_inner : nty := NMsg false [(2, ("ok", NBool)); (1, ("x", NInt 13))].
Definition ex_t : nty :=
  NMsg true [ (3, ("a", NUint 5)); (1, ("c", NEnum 3 [0; 2])); (2, ("t", NAlias (NInt 48)));
              (7, ("w", NAlias (NArr true 3 (NUint 33)))); (9, ("raw", NArr false 2 NByte)); (4, ("inn", ex_inner));
              (5, ("arr", NArr false 2 ex_inner)); (6, ("small", NArr false 3 (NInt 7)));
              (8, ("tt", NArr false 2 (NAlias (NInt 64)))) ].
Definition ex_iv (b : bool) (x : Z) : val := VM [(2, VB b); (1, VZ x)].
Definition ex_v : val :=
  VM [ (3, VZ 31); (1, VZ 2); (2, VZ (-140737488355328)); (7, VL [VZ 1; VZ 8589934591; VZ 0]); (9, VL [VZ 255; VZ 0]);
       (4, ex_iv true (-4096)); (5, VL [ex_iv false 4095; ex_iv true (-1)]);
       (6, VL [VZ (-64); VZ 63; VZ (-1)]); (8, VL [VZ 9223372036854775807; VZ (-9223372036854775808)]) ].

Example C16_nonvacuous :
  shape_ok ex_t = true /\ wf (erase ex_t) = true /\ has_ty (erase ex_t) ex_v = true /\
  no_proxy_names ex_t = true /\ names_distinct ex_t = true /\
  c_text ex_t (store ex_t ex_v) =
    Some "{""c"":2,""t"":-140737488355328,""a"":31,""inn"":{""x"":-4096,""ok"":true},""arr"":[{""x"":4095,""ok"":false},{""x"":-1,""ok"":true}],""small"":[-64,63,-1],""w"":[1,8589934591,0],""tt"":[9223372036854775807,-9223372036854775808],""raw"":[255,0]}" /\
  py_to_json "," ":" ex_t ex_v = POk (print_compact (expected ex_t ex_v)) /\
  c_text ex_t (store ex_t ex_v) = Some (print_compact (expected ex_t ex_v)) /\
  names_safe ex_t = true /\ wf_json (print_compact (expected ex_t ex_v)) = true.
Proof. vm_compute. repeat split; reflexivity. Qed.

(* non-vacuity on the round-2 shape classes: a key of 61 characters, zero-bit wrapper messages
   (no bit on the wire, yet fields) as field, array element and nested three deep, in an
   all-zero-bit top-level message — the hypotheses hold and the conclusions compute *)
Definition ex_nothing : nty := NMsg false [].
Definition ex_slot : nty := NMsg false [(1, ("reserved", ex_nothing))].
Definition ex_rack : nty := NMsg false [(2, ("spare", NArr false 2 ex_nothing)); (1, ("slot", ex_slot))].
Definition ex_long : string := "propeller_front_left_rotation_speed_rpm_measurement_channel_x".
Definition ex_shapes : nty :=
  NMsg false [ (2, (ex_long, ex_slot)); (1, ("racks", NArr false 2 ex_rack)); (3, ("e", ex_nothing)) ].
Definition ex_rack_v : val := VM [(2, VL [VM []; VM []]); (1, VM [(1, VM [])])].
Definition ex_shapes_v : val := VM [(2, VM [(1, VM [])]); (1, VL [ex_rack_v; ex_rack_v]); (3, VM [])].

Example C16_nonvacuous_shapes :
  String.length ex_long = 61%nat /\ nbits (erase ex_shapes) = 0 /\
  shape_ok ex_shapes = true /\ wf (erase ex_shapes) = true /\ has_ty (erase ex_shapes) ex_shapes_v = true /\
  no_proxy_names ex_shapes = true /\ names_distinct ex_shapes = true /\ names_safe ex_shapes = true /\
  c_text ex_shapes (store ex_shapes ex_shapes_v) =
    Some "{""racks"":[{""slot"":{""reserved"":{}},""spare"":[{},{}]},{""slot"":{""reserved"":{}},""spare"":[{},{}]}],""propeller_front_left_rotation_speed_rpm_measurement_channel_x"":{""reserved"":{}},""e"":{}}" /\
  py_to_json "," ":" ex_shapes ex_shapes_v = POk (print_compact (expected ex_shapes ex_shapes_v)) /\
  c_text ex_shapes (store ex_shapes ex_shapes_v) = Some (print_compact (expected ex_shapes ex_shapes_v)) /\
  wf_json (print_compact (expected ex_shapes ex_shapes_v)) = true.
Proof. vm_compute. repeat split; reflexivity. Qed.
