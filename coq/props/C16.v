(* C16 — stub, replaced below *)
From Coq Require Import ZArith List Bool String.
From BP Require Import Schema JsonBase Json.
Theorem C16_stub : True. Proof. exact I. Qed.
Print Assumptions C16_stub.
