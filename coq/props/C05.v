(* C05 — Forward compatibility: an older schema decodes data from an extended one. *)
From Coq Require Import ZArith List Bool.
From BP Require Import Bits Schema Spec PyRt Eqb PyEncTop PyDecProofs Evolve PyEvolve PyEvolveTop GoHelpers.
From BPGen Require GenPy GenGo.
Import ListNotations.
Open Scope Z_scope.

(* Python runtime: code generated from S1 decodes ANY buffer encoded with an evolved S2
   (fields appended to extensible messages, capacities of extensible arrays raised, at any
   depth, any number of steps) to exactly the projection of the value onto S1; in particular
   everything that follows an extended region is read from the right position.
   dec_guard excludes exactly the C02 known finding enum-default. *)
Theorem C05_py_forward_compat : forall t1 t2 v2,
  PyEncTop.is_msg t1 = true ->
  evolvesb (norm t1) (norm t2) = true ->
  wf (norm t1) = true -> wf (norm t2) = true -> dec_guard (norm t1) = true ->
  has_ty (norm t2) v2 = true ->
  py_decode t1 (wire t2 v2) = Ok (proj (norm t1) v2).
Proof. exact py_forward_compat. Qed.
Print Assumptions C05_py_forward_compat.

(* at every nesting depth and position: the old decoder leaves the cursor after the whole
   evolved node *)
Theorem C05_py_cursor : forall t1, ev_ok t1.
Proof. exact ev_ok_all. Qed.
Print Assumptions C05_py_cursor.

(* chains of versions S1 -> S2 -> ... collapse to one evolution step *)
Theorem C05_chain_refl : forall t, evolvesb t t = true.
Proof. exact evolvesb_refl. Qed.
Print Assumptions C05_chain_refl.

Theorem C05_chain_trans : forall a b c,
  evolvesb a b = true -> evolvesb b c = true -> evolvesb a c = true.
Proof. exact evolvesb_trans. Qed.
Print Assumptions C05_chain_trans.

(* Go runtime "by inspection of the same formula": the skip formulas and the skip test
   translated from lib/go/bitproto.go (typed 64-bit int arithmetic written out) equal the
   Python ones wherever a decoder can be: cursors below 2^40, prefix values 16-bit, at least
   the 16 prefix bits consumed.  The Python theorem above is about exactly these formulas. *)
Theorem C05_go_message_ito : forall i ahead,
  small i -> 0 <= ahead < 65536 -> GenGo.message_ito i ahead = GenPy.message_ito i ahead.
Proof. exact go_message_ito_eq. Qed.
Print Assumptions C05_go_message_ito.

Theorem C05_go_array_ito : forall i ahead cap ci,
  0 <= i < 2 ^ 40 -> 0 <= ahead < 65536 -> 0 < cap < 65536 -> i + 16 <= ci < 2 ^ 40 ->
  GenGo.array_ito i ahead cap ci = GenPy.array_ito i ahead cap ci.
Proof. exact go_array_ito_eq. Qed.
Print Assumptions C05_go_array_ito.

Theorem C05_go_ito_taken : forall ito ci, GenGo.ito_taken ito ci = GenPy.ito_taken ito ci.
Proof. exact go_ito_taken_eq. Qed.
Print Assumptions C05_go_ito_taken.

(* non-vacuity: both permitted steps at depth, followed by a field *)
Definition s1 : ty :=
  TMsg true [ (1, TArr true 2 (TUint 3));
              (2, TMsg true [(1, TInt 5)]);
              (3, TArr true 1 (TMsg true [(1, TBool)]));
              (4, TUint 7) ].
Definition s2 : ty :=
  TMsg true [ (1, TArr true 11 (TUint 3));
              (2, TMsg true [(1, TInt 5); (9, TUint 33)]);
              (3, TArr true 3 (TMsg true [(1, TBool); (2, TByte)]));
              (4, TUint 7);
              (200, TArr false 2 (TInt 17)) ].
Definition v2 : val :=
  VM [ (1, VL [VZ 1; VZ 2; VZ 3; VZ 4; VZ 5; VZ 6; VZ 7; VZ 0; VZ 1; VZ 2; VZ 3]);
       (2, VM [(1, VZ (-16)); (9, VZ 8589934591)]);
       (3, VL [VM [(1, VB true); (2, VZ 255)]; VM [(1, VB false); (2, VZ 1)]; VM [(1, VB true); (2, VZ 2)]]);
       (4, VZ 99); (200, VL [VZ (-65536); VZ 65535]) ].
Example C05_nonvacuous :
  evolvesb (norm s1) (norm s2) = true /\ wf (norm s1) = true /\ wf (norm s2) = true /\
  dec_guard (norm s1) = true /\ has_ty (norm s2) v2 = true /\
  py_decode s1 (wire s2 v2) =
    Ok (VM [ (1, VL [VZ 1; VZ 2]); (2, VM [(1, VZ (-16))]); (3, VL [VM [(1, VB true)]]); (4, VZ 99) ]).
Proof. vm_compute. repeat split; reflexivity. Qed.

(* ---------------------------------------------------------------------------------------
   C runtime (standard mode): the source-level model of lib/c/bitproto.c (CRt.v, skip
   formulas translated into BPGen.GenC) over the descriptors of the renderer model.
   Decode<S1>, given ANY buffer encoded with an evolved S2 and a zero-initialised struct,
   fills the struct with exactly the projection of the value onto S1 (every integer two's
   complement in its storage width) — in particular it never reads or writes out of bounds
   (COk: the buffer is ceil(nbits S2 / 8) bytes) and everything after an extended region
   is read from the right position. *)
From BP Require Import CMem CRt CEncProofs CDecProofs CEvolveProofs CTop.
From BPGen Require GenC.

Theorem C05_c_forward_compat : forall t1 t2 v2,
  c_schema t1 -> c_schema t2 -> evolvesb (norm t1) (norm t2) = true -> has_ty (norm t2) v2 = true ->
  c_decode_ty LE LE t1 (wire t2 v2) = COk (store LE (norm t1) (proj (norm t1) v2)).
Proof. exact c_forward_compat_le. Qed.
Print Assumptions C05_c_forward_compat.

(* the same for the BP_BIG_ENDIAN build on a big-endian host (storage in big-endian order) *)
Theorem C05_c_forward_compat_be : forall t1 t2 v2,
  c_schema t1 -> c_schema t2 -> evolvesb (norm t1) (norm t2) = true -> has_ty (norm t2) v2 = true ->
  c_decode_ty BE BE t1 (wire t2 v2) = COk (store BE (norm t1) (proj (norm t1) v2)).
Proof. exact c_forward_compat_be. Qed.
Print Assumptions C05_c_forward_compat_be.

(* cursor lemma, at every nesting depth and position: decoding node t1 at bit i of a stream
   that holds an evolved t2 node there leaves ctx->i = i + nbits t2 *)
Theorem C05_c_cursor : forall t1, cev_ok LE LE t1.
Proof. exact c_cursor_le. Qed.
Print Assumptions C05_c_cursor.

(* the skip formulas and skip tests translated from lib/c/bitproto.c (C `/` on ints = Z.quot)
   equal the Python ones on the decoder's domain (capacity positive, at least the 16 prefix
   bits consumed) *)
Theorem C05_c_formulas :
  (forall i ahead, GenC.ms_ito i ahead = GenPy.message_ito i ahead) /\
  (forall i ahead cap ci, 0 < cap -> i + 16 <= ci ->
     GenC.ar_ito i ahead ci cap = GenPy.array_ito i ahead cap ci) /\
  (forall ito ci, GenC.ms_ito_taken ito ci = GenPy.ito_taken ito ci) /\
  (forall ito ci, GenC.ar_ito_taken ito ci = GenPy.ito_taken ito ci).
Proof. exact c_formulas. Qed.
Print Assumptions C05_c_formulas.

Example C05_c_nonvacuous :
  c_schema s1 /\ c_schema s2 /\ evolvesb (norm s1) (norm s2) = true /\ has_ty (norm s2) v2 = true /\
  c_decode_ty LE LE s1 (wire s2 v2) = COk (store LE (norm s1) (proj (norm s1) v2)) /\
  c_decode_ty LE LE s1 (wire s2 v2) =
    COk (OS [ (1, OB [1; 2]); (2, OS [(1, OB [240])]); (3, OL [OS [(1, OB [1])]]); (4, OB [99]) ]).
Proof. vm_compute. repeat split; reflexivity. Qed.
