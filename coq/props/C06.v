(* C06 — the wire is little-endian whatever the host byte order (runtime half).
   Only statements, each closed by [exact] of a lemma proved elsewhere + Print Assumptions. *)
From Coq Require Import ZArith List Bool.
From BP Require Import Bits Schema Spec CMem CRt CCopyProofs CEncProofs CTop.
Import ListNotations.
Open Scope Z_scope.

(* the runtime built with BP_BIG_ENDIAN, running on a big-endian host, on storage laid out in
   big-endian order, produces exactly the specified (little-endian) wire bytes ... *)
Theorem C06_runtime_encode : forall t v,
  c_schema t -> has_ty (norm t) v = true ->
  c_encode_ty BE BE t (store BE (norm t) v) = COk (wire t v).
Proof. exact c_encode_be. Qed.
Print Assumptions C06_runtime_encode.

(* ... i.e. the same bytes as the little-endian build on a little-endian host *)
Theorem C06_runtime_encode_eq_le : forall t v,
  c_schema t -> has_ty (norm t) v = true ->
  c_encode_ty BE BE t (store BE (norm t) v) = c_encode_ty LE LE t (store LE (norm t) v).
Proof. exact c_encode_be_eq_le. Qed.
Print Assumptions C06_runtime_encode_eq_le.

Theorem C06_runtime_decode : forall t v,
  c_schema t -> has_ty (norm t) v = true ->
  c_decode_ty BE BE t (wire t v) = COk (store BE (norm t) v).
Proof. exact c_decode_be. Qed.
Print Assumptions C06_runtime_decode.

(* the word fast paths and the array batch path are compiled out of the BE build
   (both facts are read off the TRANSLATED source, BPGen.GenC) *)
Theorem C06_fast_paths_off : fast_paths BE = false /\ forall a b c, batch_pred BE a b c = false.
Proof. exact be_paths_off. Qed.
Print Assumptions C06_fast_paths_off.

Definition ex_t : ty :=
  TMsg true [ (3, TAlias (TArr true 3 (TUint 3))); (2, TAlias (TInt 13)); (9, TInt 32);
              (10, TArr true 2 (TMsg false [(2, TUint 5); (1, TBool)])); (11, TArr false 3 (TInt 16)) ].
Definition ex_v : val :=
  VM [ (3, VL [VZ 1; VZ 7; VZ 2]); (2, VZ (-171)); (9, VZ (-2));
       (10, VL [VM [(2, VZ 3); (1, VB true)]; VM [(2, VZ 30); (1, VB false)]]);
       (11, VL [VZ (-1); VZ 2; VZ (-32768)]) ].
Example C06_nonvacuous :
  c_schema ex_t /\ has_ty (norm ex_t) ex_v = true /\
  c_encode_ty BE BE ex_t (store BE (norm ex_t) ex_v) = COk (wire ex_t ex_v) /\
  c_decode_ty BE BE ex_t (wire ex_t ex_v) = COk (store BE (norm ex_t) ex_v) /\
  store BE (norm ex_t) ex_v <> store LE (norm ex_t) ex_v /\
  c_encode_ty BE LE ex_t (store LE (norm ex_t) ex_v) <> COk (wire ex_t ex_v).
Proof. vm_compute. repeat split; try reflexivity; intros H; discriminate H. Qed.

(* ---------- optimization-mode half: the value-based big-endian branch of -O output ---------- *)
From BP Require OpMode OpModeProofs.

(* the statements emitted under --endian big (and under --endian both with BP_BIG_ENDIAN
   defined) mention only VALUES of the fields, and encode / decode exactly Spec.wire *)
Theorem C06_opmode_be_enc : forall t v,
  OpMode.opmode_ok (norm t) = true -> wf (norm t) = true -> has_ty (norm t) v = true ->
  OpMode.run_encode (OpMode.c_be_body true t) t v = Some (wire t v).
Proof. exact OpModeProofs.c_be_encode. Qed.
Print Assumptions C06_opmode_be_enc.

Theorem C06_opmode_be_dec : forall t v,
  OpMode.opmode_ok (norm t) = true -> wf (norm t) = true -> has_ty (norm t) v = true ->
  OpMode.run_decode (OpMode.c_be_body false t) t (wire t v) = Some (OpMode.store (norm t) v).
Proof. exact OpModeProofs.c_be_decode. Qed.
Print Assumptions C06_opmode_be_dec.

(* whatever --endian setting and whether or not BP_BIG_ENDIAN is defined: same wire bytes *)
Theorem C06_opmode_endian_select : forall t v,
  OpMode.opmode_ok (norm t) = true -> wf (norm t) = true -> has_ty (norm t) v = true ->
  forall (e : OpMode.endian) (macro_defined : bool),
  OpMode.run_encode (OpMode.select macro_defined (OpMode.c_body e true t)) t v = Some (wire t v) /\
  OpMode.run_decode (OpMode.select macro_defined (OpMode.c_body e false t)) t (wire t v)
    = Some (OpMode.store (norm t) v).
Proof. exact OpModeProofs.endian_select. Qed.
Print Assumptions C06_opmode_endian_select.

(* ---------- why the BP_BIG_ENDIAN build can be observed on a little-endian host ---------- *)
From BP Require Import CBeExact.

(* On descriptors without extensible nodes whose signed fields are 8/16/32/64 bits wide (sign
   fix-up skipped) or stored in one byte, the BE build executes no native multi-byte access:
   its model does not depend on the host byte order at all.  Hence running the
   -DBP_BIG_ENDIAN build on x86 on BIG-ENDIAN storage is an observation of (B,E) = (BE,BE), and
   the check compares it with Spec.wire / store BE (class cboundary.be_exact; membership of every
   executed schema is re-checked in Coq by CCase.bex_case). *)
Theorem C06_be_build_host_independent : forall E1 E2 enc d,
  dexact d = true -> forall x o, call_processor BE E1 enc d x o = call_processor BE E2 enc d x o.
Proof. exact call_processor_be. Qed.
Print Assumptions C06_be_build_host_independent.

Theorem C06_be_encode_host_independent : forall E1 E2 t o,
  dexact (render (norm t)) = true -> c_encode_ty BE E1 t o = c_encode_ty BE E2 t o.
Proof. exact c_encode_be_host_indep. Qed.
Print Assumptions C06_be_encode_host_independent.

Theorem C06_be_decode_host_independent : forall E1 E2 t s,
  dexact (render (norm t)) = true -> c_decode_ty BE E1 t s = c_decode_ty BE E2 t s.
Proof. exact c_decode_be_host_indep. Qed.
Print Assumptions C06_be_decode_host_independent.

Example C06_be_exact_nonvacuous :
  dexact (render (norm (TMsg false [(1, TArr false 100 (TUint 16)); (2, TArr false 6 (TAlias (TInt 5))); (3, TInt 32)]))) = true /\
  dexact (render (norm (TMsg false [(1, TInt 13)]))) = false /\
  dexact (render (norm (TMsg true [(1, TUint 3)]))) = false.
Proof. vm_compute. repeat split; reflexivity. Qed.
