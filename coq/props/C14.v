(* C14 — every width x bit-offset x signedness combination is bit-exact (Python runtime;
   C runtime and optimization mode are added by their modules).  Corollaries of C01/C02,
   stated for ALL values of the leaf, not only the basis values. *)
From Coq Require Import ZArith List Bool Lia.
From BP Require Import Bits Schema Spec PyRt Eqb PyEncTop PyDecProofs PyDecTop.
From BP Require CMem CRt CTop OpMode OpModeProofs OpModeLeaf OpModeLeafDec.
Import ListNotations.
Open Scope Z_scope.

Definition is_leaf_ty (t : ty) : bool :=
  match t with TBool | TByte | TUint _ | TInt _ => true | _ => false end.

(* position of the leaf: scalar, element of an array of [cap], or behind an alias *)
Inductive pos := PScalar | PArray (cap : nat) | PAlias.
Definition place (p : pos) (t : ty) : ty :=
  match p with PScalar => t | PArray c => TArr false c t | PAlias => TAlias t end.

(* [uintK pad = 1; T x = 2] (no pad field when K = 0) *)
Definition c14_schema (k : Z) (p : pos) (t : ty) : ty :=
  TMsg false ((if k =? 0 then [] else [(1, TUint k)]) ++ [(2, place p t)]).

Lemma c14_py_all k p t v :
  wf (norm (c14_schema k p t)) = true -> dec_guard (norm (c14_schema k p t)) = true ->
  has_ty (norm (c14_schema k p t)) v = true ->
  py_encode (c14_schema k p t) v = Ok (wire (c14_schema k p t) v) /\
  py_decode (c14_schema k p t) (wire (c14_schema k p t) v) = Ok (canon (norm (c14_schema k p t)) v) /\
  val_sim (norm (c14_schema k p t)) (canon (norm (c14_schema k p t)) v) v = true.
Proof.
  intros Hw Hg Ht. repeat split.
  - now apply py_encode_is_wire.
  - now apply py_decode_wire.
  - now apply val_sim_canon.
Qed.

Theorem C14_py : forall k p t v,
  wf (norm (c14_schema k p t)) = true -> dec_guard (norm (c14_schema k p t)) = true ->
  has_ty (norm (c14_schema k p t)) v = true ->
  py_encode (c14_schema k p t) v = Ok (wire (c14_schema k p t) v) /\
  py_decode (c14_schema k p t) (wire (c14_schema k p t) v) = Ok (canon (norm (c14_schema k p t)) v) /\
  val_sim (norm (c14_schema k p t)) (canon (norm (c14_schema k p t)) v) v = true.
Proof. exact c14_py_all. Qed.
Print Assumptions C14_py.

(* the hypotheses hold on the whole finite space of the property: every leaf type,
   every offset 0..7, every position (arrays of 1..3 elements) *)
Definition all_leaf_types : list ty :=
  [TBool; TByte] ++ map (fun n => TUint (Z.of_nat n)) (seq 1 64) ++ map (fun n => TInt (Z.of_nat n)) (seq 1 64).

Theorem C14_space_wf :
  forallb (fun t => forallb (fun k => forallb (fun p =>
     wf (norm (c14_schema k p t)) && dec_guard (norm (c14_schema k p t)))
     [PScalar; PArray 1; PArray 3; PAlias]) [0; 1; 2; 3; 4; 5; 6; 7]) all_leaf_types = true.
Proof. vm_compute. reflexivity. Qed.
Print Assumptions C14_space_wf.


(* ---------- C runtime, little-endian build/host and big-endian build/host ---------- *)

Theorem C14_c_le : forall k p t v,
  CTop.c_schema (c14_schema k p t) -> has_ty (norm (c14_schema k p t)) v = true ->
  CRt.c_encode_ty CMem.LE CMem.LE (c14_schema k p t) (CRt.store CMem.LE (norm (c14_schema k p t)) v)
    = CMem.COk (wire (c14_schema k p t) v) /\
  CRt.c_decode_ty CMem.LE CMem.LE (c14_schema k p t) (wire (c14_schema k p t) v)
    = CMem.COk (CRt.store CMem.LE (norm (c14_schema k p t)) v).
Proof. intros k p t v Hs Ht. split; [now apply CTop.c_encode_le|now apply CTop.c_decode_le]. Qed.
Print Assumptions C14_c_le.

Theorem C14_c_be : forall k p t v,
  CTop.c_schema (c14_schema k p t) -> has_ty (norm (c14_schema k p t)) v = true ->
  CRt.c_encode_ty CMem.BE CMem.BE (c14_schema k p t) (CRt.store CMem.BE (norm (c14_schema k p t)) v)
    = CMem.COk (wire (c14_schema k p t) v) /\
  CRt.c_decode_ty CMem.BE CMem.BE (c14_schema k p t) (wire (c14_schema k p t) v)
    = CMem.COk (CRt.store CMem.BE (norm (c14_schema k p t)) v).
Proof. intros k p t v Hs Ht. split; [now apply CTop.c_encode_be|now apply CTop.c_decode_be]. Qed.
Print Assumptions C14_c_be.

(* ---------- optimization-mode statement generator: one scalar at an arbitrary offset,
   all widths, storage sizes, kinds, object contents, C-LE / C-BE / Go (C04's single-field
   theorems are exactly the C14 statement) ---------- *)

Theorem C14_opmode_enc : forall L lf ch M u i0 s,
  OpModeLeaf.leaf_ok lf -> OpModeLeaf.pat_ok lf u ->
  OpMode.mem_get M ch = Some (OpMode.mkcell (OpMode.leaf_cty lf) u) ->
  0 <= i0 -> bytes_ok s -> 0 <= bufZ s < 2 ^ i0 ->
  i0 + OpMode.leaf_bits lf <= 8 * Z.of_nat (length s) ->
  exists s',
    OpMode.run (OpMode.leaf_stmts L true (ch, lf) i0) (OpMode.mkst s M) = Some (OpMode.mkst s' M) /\
    bytes_ok s' /\ length s' = length s /\
    bufZ s' = bufZ s + 2 ^ i0 * (u mod 2 ^ OpMode.leaf_bits lf).
Proof. exact OpModeLeaf.leaf_encode. Qed.
Print Assumptions C14_opmode_enc.

Theorem C14_opmode_dec : forall L lf ch M0 S i0,
  OpModeLeaf.leaf_ok lf -> OpMode.mem_get M0 ch = Some (OpMode.mkcell (OpMode.leaf_cty lf) 0) ->
  0 <= i0 -> bytes_ok S -> i0 + OpMode.leaf_bits lf <= 8 * Z.of_nat (length S) ->
  OpMode.run (OpMode.leaf_stmts L false (ch, lf) i0) (OpMode.mkst S M0) =
  Some (OpMode.mkst S (OpMode.mem_set M0 ch (OpModeLeafDec.dec_pat lf (bufZ S / 2 ^ i0)))).
Proof. exact OpModeLeafDec.leaf_decode. Qed.
Print Assumptions C14_opmode_dec.

Example C14_nonvacuous :
  let s := c14_schema 5 (PArray 3) (TInt 13) in
  let v := VM [(1, VZ 31); (2, VL [VZ (-4096); VZ 4095; VZ (-1)])] in
  has_ty (norm s) v = true /\ res_val_sim (norm s) (py_decode s (wire s v)) (Ok v) = true /\
  wire s v = [31; 0; 254; 191; 255; 15].
Proof. vm_compute. repeat split; reflexivity. Qed.
