(* C14 — every width x bit-offset x signedness combination is bit-exact (Python runtime;
   C runtime and optimization mode are added by their modules).  Corollaries of C01/C02,
   stated for ALL values of the leaf, not only the basis values. *)
From Coq Require Import ZArith List Bool Lia.
From BP Require Import Bits Schema Spec PyRt Eqb PyEncTop PyDecProofs PyDecTop.
Import ListNotations.
Open Scope Z_scope.

Definition is_leaf_ty (t : ty) : bool :=
  match t with TBool | TByte | TUint _ | TInt _ => true | _ => false end.

(* position of the leaf: scalar, element of an array of [cap], or behind an alias *)
Inductive pos := PScalar | PArray (cap : nat) | PAlias.
Definition place (p : pos) (t : ty) : ty :=
  match p with PScalar => t | PArray c => TArr false c t | PAlias => TAlias t end.

(* [uintK pad = 1; T x = 2] (no pad field when K = 0) *)
Definition c14_schema (k : Z) (p : pos) (t : ty) : ty :=
  TMsg false ((if k =? 0 then [] else [(1, TUint k)]) ++ [(2, place p t)]).

Lemma c14_py_all k p t v :
  wf (norm (c14_schema k p t)) = true -> dec_guard (norm (c14_schema k p t)) = true ->
  has_ty (norm (c14_schema k p t)) v = true ->
  py_encode (c14_schema k p t) v = Ok (wire (c14_schema k p t) v) /\
  py_decode (c14_schema k p t) (wire (c14_schema k p t) v) = Ok (canon (norm (c14_schema k p t)) v) /\
  val_sim (norm (c14_schema k p t)) (canon (norm (c14_schema k p t)) v) v = true.
Proof.
  intros Hw Hg Ht. repeat split.
  - now apply py_encode_is_wire.
  - now apply py_decode_wire.
  - now apply val_sim_canon.
Qed.

Theorem C14_py : forall k p t v,
  wf (norm (c14_schema k p t)) = true -> dec_guard (norm (c14_schema k p t)) = true ->
  has_ty (norm (c14_schema k p t)) v = true ->
  py_encode (c14_schema k p t) v = Ok (wire (c14_schema k p t) v) /\
  py_decode (c14_schema k p t) (wire (c14_schema k p t) v) = Ok (canon (norm (c14_schema k p t)) v) /\
  val_sim (norm (c14_schema k p t)) (canon (norm (c14_schema k p t)) v) v = true.
Proof. exact c14_py_all. Qed.
Print Assumptions C14_py.

(* the hypotheses hold on the whole finite space of the property: every leaf type,
   every offset 0..7, every position (arrays of 1..3 elements) *)
Definition all_leaf_types : list ty :=
  [TBool; TByte] ++ map (fun n => TUint (Z.of_nat n)) (seq 1 64) ++ map (fun n => TInt (Z.of_nat n)) (seq 1 64).

Theorem C14_space_wf :
  forallb (fun t => forallb (fun k => forallb (fun p =>
     wf (norm (c14_schema k p t)) && dec_guard (norm (c14_schema k p t)))
     [PScalar; PArray 1; PArray 3; PAlias]) [0; 1; 2; 3; 4; 5; 6; 7]) all_leaf_types = true.
Proof. vm_compute. reflexivity. Qed.
Print Assumptions C14_space_wf.

Example C14_nonvacuous :
  let s := c14_schema 5 (PArray 3) (TInt 13) in
  let v := VM [(1, VZ 31); (2, VL [VZ (-4096); VZ 4095; VZ (-1)])] in
  has_ty (norm s) v = true /\ res_val_sim (norm s) (py_decode s (wire s v)) (Ok v) = true /\
  wire s v = [31; 0; 254; 191; 255; 15].
Proof. vm_compute. repeat split; reflexivity. Qed.
