(* C08 at the SYNTAX level: what the LALR parser (ply's tables built from /repo's docstring grammar,
   driven by the model of ply's loop) accepts is in the documented grammar's language, and the
   sequence of p_ functions called is a rightmost derivation in reverse.
   Model: theories/LR.v; generic proofs: LRProofs.v; per-run obligations over gen/GenLR.v
   (validator + ranking by vm_compute): LRConcrete.v. *)
From Coq Require Import String List Arith Bool.
From BP Require Import LR LRProofs LRConcrete LRFacts.
From BPGen Require Import GenLR.
Import ListNotations.

(* generic in grammar, tables and certificates *)
Theorem C08_lr_sound : forall G TB H, validate G TB H = true ->
  forall start fuel ts rs, start_of G = Some start -> ~ In eof ts ->
  lr_run TB fuel ts = Accept rs -> sr G [NT start] ts rs.
Proof. exact lr_sound. Qed.
Print Assumptions C08_lr_sound.

Theorem C08_lr_sr_derives : forall G st w rs, sr G st w rs -> derives G (rev st) w.
Proof. exact sr_derives. Qed.
Print Assumptions C08_lr_sr_derives.

Theorem C08_lr_sr_rightmost : forall G start ts rs, sr G [NT start] ts rs -> rm_check G start rs ts = true.
Proof. exact sr_rm_check. Qed.
Print Assumptions C08_lr_sr_rightmost.

(* the per-run obligation: the tables ply built from the CURRENT grammar pass the validator *)
Theorem C08_lr_tables_valid : validate grammar tables hints = true.
Proof. exact tables_valid. Qed.
Print Assumptions C08_lr_tables_valid.

(* accepted => documented, for the current grammar and tables, any fuel *)
Theorem C08_lr_accepted_documented : forall fuel ts rs, ~ In eof ts ->
  lr_run tables fuel ts = Accept rs ->
  sr grammar [NT start_symbol] ts rs /\
  derives grammar [NT start_symbol] ts /\
  rm_check grammar start_symbol rs ts = true.
Proof. exact accepted_documented. Qed.
Print Assumptions C08_lr_accepted_documented.

(* a syntax error cites the first token after a prefix that was consumed and correctly reduced *)
Theorem C08_lr_error_prefix : forall fuel ts idx tok rs, lr_run tables fuel ts = SyntaxError idx tok rs ->
  (exists syms, sr grammar syms (firstn idx ts) rs) /\
  (nth_error ts idx = Some tok \/ (idx = List.length ts /\ tok = eof)).
Proof. exact error_prefix. Qed.
Print Assumptions C08_lr_error_prefix.

(* claims of the language documentation, derived from the tables *)
Theorem C08_lr_semicolon_optional : semicolon_facts = true.
Proof. exact semicolon_facts_ok. Qed.
Print Assumptions C08_lr_semicolon_optional.

Theorem C08_lr_field_name_keywords : field_name_facts = true.
Proof. exact field_name_facts_ok. Qed.
Print Assumptions C08_lr_field_name_keywords.

Theorem C08_lr_unsupported_items_parsed : unsupported_facts = true.
Proof. exact unsupported_facts_ok. Qed.
Print Assumptions C08_lr_unsupported_items_parsed.

(* comments: in every accepted token sequence each COMMENT is immediately followed by NEWLINE, so a
   sequence ending in COMMENT is never accepted (a fact about the grammar/tables, for ALL
   sequences).  This was the finding comment-at-eof (`proto a\nmessage M {} // tail` without a
   final newline: "Grammar error at eof", line 0); fixed in /repo ca58921: Parser.parse_string
   terminates the last line (translated: GenLR.appends_final_newline), so a text that does not
   end in a newline reaches the driver with a final NEWLINE and the witness is accepted.
   Not proved (lexer unmodelled): that a text ENDING in a newline character lexes to a sequence
   ending in NEWLINE; T2 compares LRConcrete.text_tokens with the tokens really fetched. *)
Theorem C08_lr_accepted_comment_newline : forall fuel ts rs, ~ In eof ts ->
  lr_run tables fuel ts = Accept rs -> followed t_comment t_newline ts = true.
Proof. exact accepted_comment_newline. Qed.
Print Assumptions C08_lr_accepted_comment_newline.

Theorem C08_lr_trailing_comment_rejected : forall fuel ts rs, ~ In eof ts ->
  lr_run tables fuel (ts ++ [t_comment]) <> Accept rs.
Proof. exact trailing_comment_rejected. Qed.
Print Assumptions C08_lr_trailing_comment_rejected.

Theorem C08_lr_text_ends_in_newline : appends_final_newline = true ->
  forall raw, last (text_tokens raw false) eof = t_newline.
Proof. exact text_tokens_end_newline. Qed.
Print Assumptions C08_lr_text_ends_in_newline.

Theorem C08_lr_comment_at_eof_accepted : exists rs, parse_text comment_eof_witness false = Accept rs.
Proof. exact comment_eof_text_accepted. Qed.
Print Assumptions C08_lr_comment_at_eof_accepted.

Theorem C08_lr_text_path_facts : comment_eof_facts = true.
Proof. exact comment_eof_facts_ok. Qed.
Print Assumptions C08_lr_text_path_facts.

(* completeness on the expression sub-language, bounded: every expression tree of LRFacts.expr_domain (4141
   trees of depth <= 3 over the four operators) prints (minimal parentheses) to tokens the tables parse back to the
   SAME tree (PARTIAL: the statement for all trees is evaluated per generated tree, not proved) *)
Theorem C08_lr_expr_complete_partial : expr_facts = true.
Proof. exact expr_facts_ok. Qed.
Print Assumptions C08_lr_expr_complete_partial.

(* non-vacuity: a schema text's token sequence is accepted, with its reductions *)
Example C08_lr_example :
  exists rs, parse example_tokens = Accept rs /\ List.length rs = 47 /\
             rm_check grammar start_symbol rs example_tokens = true.
Proof. eexists. split; [vm_compute; reflexivity | split; vm_compute; reflexivity]. Qed.

Example C08_lr_example_reject :
  exists idx rs, parse example_bad = SyntaxError idx (term_id "CONST"%string) rs /\ idx = 7.
Proof. eexists. eexists. split; vm_compute; reflexivity. Qed.
