(* C08 at the SYNTAX level: what the LALR parser (ply's tables built from /repo's docstring grammar,
   driven by the model of ply's loop) accepts is in the documented grammar's language, and the
   sequence of p_ functions called is a rightmost derivation in reverse.
   Model: theories/LR.v; generic proofs: LRProofs.v; per-run obligations over gen/GenLR.v
   (validator + ranking by vm_compute): LRConcrete.v. *)
From Coq Require Import String List Arith Bool.
From BP Require Import LR LRProofs LRConcrete LRFacts.
From BPGen Require Import GenLR.
Import ListNotations.

(* generic in grammar, tables and certificates *)
Theorem C08_lr_sound : forall G TB H, validate G TB H = true ->
  forall start fuel ts rs, start_of G = Some start -> ~ In eof ts ->
  lr_run TB fuel ts = Accept rs -> sr G [NT start] ts rs.
Proof. exact lr_sound. Qed.
Print Assumptions C08_lr_sound.

Theorem C08_lr_sr_derives : forall G st w rs, sr G st w rs -> derives G (rev st) w.
Proof. exact sr_derives. Qed.
Print Assumptions C08_lr_sr_derives.

Theorem C08_lr_sr_rightmost : forall G start ts rs, sr G [NT start] ts rs -> rm_check G start rs ts = true.
Proof. exact sr_rm_check. Qed.
Print Assumptions C08_lr_sr_rightmost.

(* the per-run obligation: the tables ply built from the CURRENT grammar pass the validator *)
Theorem C08_lr_tables_valid : validate grammar tables hints = true.
Proof. exact tables_valid. Qed.
Print Assumptions C08_lr_tables_valid.

(* accepted => documented, for the current grammar and tables, any fuel *)
Theorem C08_lr_accepted_documented : forall fuel ts rs, ~ In eof ts ->
  lr_run tables fuel ts = Accept rs ->
  sr grammar [NT start_symbol] ts rs /\
  derives grammar [NT start_symbol] ts /\
  rm_check grammar start_symbol rs ts = true.
Proof. exact accepted_documented. Qed.
Print Assumptions C08_lr_accepted_documented.

(* a syntax error cites the first token after a prefix that was consumed and correctly reduced *)
Theorem C08_lr_error_prefix : forall fuel ts idx tok rs, lr_run tables fuel ts = SyntaxError idx tok rs ->
  (exists syms, sr grammar syms (firstn idx ts) rs) /\
  (nth_error ts idx = Some tok \/ (idx = List.length ts /\ tok = eof)).
Proof. exact error_prefix. Qed.
Print Assumptions C08_lr_error_prefix.

(* claims of the language documentation, derived from the tables *)
Theorem C08_lr_semicolon_optional : semicolon_facts = true.
Proof. exact semicolon_facts_ok. Qed.
Print Assumptions C08_lr_semicolon_optional.

Theorem C08_lr_field_name_keywords : field_name_facts = true.
Proof. exact field_name_facts_ok. Qed.
Print Assumptions C08_lr_field_name_keywords.

Theorem C08_lr_unsupported_items_parsed : unsupported_facts = true.
Proof. exact unsupported_facts_ok. Qed.
Print Assumptions C08_lr_unsupported_items_parsed.

(* REFUTED reading "a comment is trivia everywhere": a comment on the last line of a file without a
   final newline turns an accepted token sequence into a syntax error at end of input (the same
   sequence with the NEWLINE, or without the comment, is accepted).  Replayed on the real
   parser: `proto a\nmessage M {} // tail` -> GrammarError "Grammar error at eof", line 0. *)
Theorem C08_lr_comment_at_eof_refuted :
  exists ts, parse ts = SyntaxError (List.length ts) eof (match parse ts with SyntaxError _ _ rs => rs | _ => [] end) /\
             (exists rs, parse (ts ++ [term_id "NEWLINE"%string]) = Accept rs) /\
             (exists rs, parse (removelast ts) = Accept rs).
Proof. exact comment_eof_refuted. Qed.
Print Assumptions C08_lr_comment_at_eof_refuted.

(* completeness on the expression sub-language, bounded: every expression tree of LRFacts.expr_domain (4141
   trees of depth <= 3 over the four operators) prints (minimal parentheses) to tokens the tables parse back to the
   SAME tree (PARTIAL: the statement for all trees is evaluated per generated tree, not proved) *)
Theorem C08_lr_expr_complete_partial : expr_facts = true.
Proof. exact expr_facts_ok. Qed.
Print Assumptions C08_lr_expr_complete_partial.

(* non-vacuity: a schema text's token sequence is accepted, with its reductions *)
Example C08_lr_example :
  exists rs, parse example_tokens = Accept rs /\ List.length rs = 47 /\
             rm_check grammar start_symbol rs example_tokens = true.
Proof. eexists. split; [vm_compute; reflexivity | split; vm_compute; reflexivity]. Qed.

Example C08_lr_example_reject :
  exists idx rs, parse example_bad = SyntaxError idx (term_id "CONST"%string) rs /\ idx = 7.
Proof. eexists. eexists. split; vm_compute; reflexivity. Qed.
