(* C20_lex.v — C20 (diagnostics point at the right line), TEXT LEVEL: for every input string, the
   lineno / lexpos of every token the tokenizer produces, and of its LexerError. *)
From Coq Require Import String NArith ZArith List Bool.
From BP Require Import Lint.
From BP Require Import TotalBase LexBase Lex LexSpec LexCase LexProofs LexLint.
From BPGen Require Import GenLexer.
Import ListNotations.

(* every token: its lexeme is the non-empty slice s[lexpos:end]; lineno = 1 + the number of "\n" in
   s[:lexpos] (the line the lexeme STARTS on); the lexeme contains no "\n" unless it is the NEWLINE
   lexeme "\n" itself *)
Theorem C20_lex_token_position : forall uw s its e rem t,
  lex_run uw s = (its, e, rem) -> In t (tokens_of its) ->
  exists lx, lx <> [] /\ slice (t_pos t) (t_end t) s = lx
    /\ t_line t = (1 + count_nl (prefix (t_pos t) s))%Z
    /\ (count_nl lx = 0%Z \/ lx = [NL])
    /\ (0 <= t_pos t < t_end t)%Z /\ (t_end t <= zlen s)%Z.
Proof. exact lex_token_position. Qed.
Print Assumptions C20_lex_token_position.

(* a LexerError (t_error) reports the offending character and the line that character is on *)
Theorem C20_lex_error_position : forall uw s its cls c l rem,
  lex_run uw s = (its, LError cls c l, rem) ->
  cls = t_error_class /\ (exists r, rem = c :: r) /\ s = (items_text its ++ rem)%list
  /\ l = (1 + count_nl (prefix (zlen (items_text its)) s))%Z.
Proof. exact lex_error_position. Qed.
Print Assumptions C20_lex_error_position.

(* connection with the cli module (Lint.v): the lineno of a token and the column that Parser._get_col
   (translated: Lint.col_of) computes from its lexpos are the 1-based (line, column) of the first
   character of the lexeme — on every line, for every input ([shadow]: same length, same newlines) *)
Theorem C20_lex_token_linecol : forall uw s its e rem t,
  lex_run uw s = (its, e, rem) -> In t (tokens_of its) ->
  linecol (shadow s) (Z.to_nat (t_pos t)) = (t_line t, col_of (shadow s) (Z.to_nat (t_pos t))).
Proof. exact token_linecol. Qed.
Print Assumptions C20_lex_token_linecol.

(* only the newline rule can match a "\n": COMMENT, STRING_LITERAL, ... never span a line *)
Theorem C20_lex_only_newline_spans_lines :
  forallb (fun r => no_nl (r_rx r) || is_single_nl (r_rx r)) lex_rules = true.
Proof. exact only_newline_rule_spans_lines. Qed.
Print Assumptions C20_lex_only_newline_spans_lines.

(* non-vacuity: "a\n//c\r\n  @": tokens on lines 1,1,2,2 and the error on line 3 *)
Example C20_lex_nonvacuous :
  map t_line (fst (lex uni_word [97;10;47;47;99;13;10;32;32;64]%N)) = [1;1;2;2]%Z
  /\ snd (lex uni_word [97;10;47;47;99;13;10;32;32;64]%N) = LError "LexerError" 64%N 3%Z.
Proof. vm_compute. split; reflexivity. Qed.
