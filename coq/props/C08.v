(* C08 — placeholder while the model is being tied; theorems follow. *)
From Coq Require Import ZArith List Bool String.
From BP Require Import Schema FrontBase Front.
Import ListNotations.
Open Scope Z_scope.
