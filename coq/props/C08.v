(* C08 — a schema is accepted if and only if it satisfies the documented constraints.
   Only statements, each closed by [exact] of a lemma proved in theories/FrontValidProofs.v,
   followed by Print Assumptions; plus Examples (boundary values on both sides of every
   numeric limit, and non-vacuity).

   [Valid fs root trad] (theories/FrontValid.v) transcribes the property text: every clause is a
   named predicate with the documented bound as a literal (width_ok 1..64, cap_ok 1..65535,
   number_ok 1..255 and unique per message, enum_value_fits / unique, fresh = names unique per
   scope, msg_bits_ok <= 65535 bits, msg_bytes_ok, alias_target_unnamed, one-dimensional arrays by
   construction, in_file_scope / in_message_scope = nothing declared where it is forbidden,
   option_ok, references resolve (C11's lookup) to an earlier definition of the right kind,
   imports neither cyclic nor duplicated).  [check] is the model of the parser (theories/Front.v)
   whose numeric tests are re-translated from _ast.py on every run (gen/GenFront.v). *)
From Coq Require Import ZArith List Bool String.
From BP Require Import Schema FrontBase Front FrontValid FrontValidProofs FrontWf.
Import ListNotations.
Open Scope Z_scope.

Theorem C08_sound : forall fs root trad e, check fs root trad = Ok e -> Valid fs root trad.
Proof. exact check_sound. Qed.
Print Assumptions C08_sound.

Theorem C08_complete : forall fs root trad, Valid fs root trad -> exists e, check fs root trad = Ok e.
Proof. exact check_complete. Qed.
Print Assumptions C08_complete.

(* and what it elaborates to is what the specification says *)
Theorem C08_elaboration : forall fs root trad e,
  check fs root trad = Ok e <-> exists n, file_ok n fs trad false [] root e.
Proof. exact check_elaborates. Qed.
Print Assumptions C08_elaboration.

(* the model never gives up: the import depth bound S (length fs) is always enough *)
Theorem C08_check_total : forall fs root trad f l, check fs root trad <> Err KFuel f l.
Proof. exact check_not_fuel. Qed.
Print Assumptions C08_check_total.

(* A REJECTION is never a crash (every error kind of the model is a ParserError class, except
   the OS error for a missing file) and cites either a file-level condition (missing file,
   missing proto statement: no line) or the line of a statement of the cited file; for the kinds of the numeric rules that
   statement breaks the documented bound ([rule_broken]) *)
Theorem C08_error_cites : forall fs root trad k f l,
  check fs root trad = Err k f l -> cited fs k f l.
Proof. exact check_error_cites. Qed.
Print Assumptions C08_error_cites.

(* the translated validators ARE the documented bounds *)
Theorem C08_bounds :
  (forall n, GenFront.uint_cap_raises n = false <-> 1 <= n <= 64) /\
  (forall n, GenFront.int_cap_raises n = false <-> 1 <= n <= 64) /\
  (forall n, GenFront.array_cap_raises n = false <-> 1 <= n <= 65535) /\
  (forall n, GenFront.field_number_raises n = false <-> 1 <= n <= 255) /\
  (forall nb, GenFront.message_size_raises nb = false <-> nb <= 65535) /\
  (forall v n, 0 <= v -> 0 <= n -> (GenFront.enum_value_overflows v n = false <-> v < 2 ^ n)) /\
  (forall t, ty_nbits t = nbits t).
Proof.
  exact (conj uint_cap_bridge (conj int_cap_bridge (conj array_cap_bridge (conj field_number_bridge
        (conj message_size_bridge (conj enum_overflow_bridge ty_nbits_eq)))))).
Qed.
Print Assumptions C08_bounds.

(* every message type of an accepted schema is well formed in the sense the wire-level theorems
   (C01, C02, C12) assume, also after normalisation: widths 1..64, capacities 1..65535, numbers
   1..255 and distinct, enum members within the width, at most 65535 bits at every level *)
Theorem C08_accepted_types_wf : forall fs root trad e p t,
  check fs root trad = Ok e -> msg_ty_at (Ok e) p = Some t -> wf t = true /\ wf (norm t) = true.
Proof. exact accepted_types_wf. Qed.
Print Assumptions C08_accepted_types_wf.

(* The property text has no clause about dividing by zero in a constant expression; the compiler
   rejects such a schema (since fix ba6c9a1 with an ordinary CalculationExpressionError at the
   line of the expression), so [Valid] carries the clause "divisors are non-zero" that
   [ValidText] (the clauses the text lists, literally) lacks: *)
Definition ex_div0 : files := [("r"%string, [IProto 1 "r"; IConst 2 "A" (CExpr (EDiv (EInt 1) (EInt 0)))]%string)].

Theorem C08_text_has_no_division_clause :
  exists fs root, ValidText fs root false /\ check fs root false = Err KCalcExpr root 2.
Proof. exact text_has_no_division_clause. Qed.
Print Assumptions C08_text_has_no_division_clause.

(* REGRESSION WITNESSES of three fixed findings (corpus/C08/, fix: commits ba6c9a1 and 5271e56):
   division by zero and an import inside a message used to escape as tracebacks, an import
   inside an enum used to cite the imported file at line 0.  All three are now parser errors
   citing the offending statement of the importing file. *)
Definition ex_import_in_msg : files :=
  [("r"%string, [IProto 1 "r"; IMsg 2 "M" false [IImport 3 None "lib"]]%string);
   ("lib"%string, [IProto 1 "lib"]%string)].

Example C08_fixed_findings_cite_the_statement :
  check ex_div0 "r" false = Err KCalcExpr "r" 2 /\
  check ex_import_in_msg "r" false = Err KImportInMessage "r" 3 /\
  check [("r"%string, [IProto 1 "r"; IEnum 2 "E" (SUint 3) [IImport 3 None "lib"]]%string);
         ("lib"%string, [IProto 1 "lib"]%string)] "r" false = Err KImportInEnum "r" 3.
Proof. repeat split; vm_compute; reflexivity. Qed.

(* ---------- boundary values, both sides of every numeric limit ---------- *)

Definition is_ok {A} (r : res A) : bool := match r with Ok _ => true | Err _ _ _ => false end.
Definition one (its : list item) : files := [("r"%string, IProto 1 "r" :: its)].
Definition msg (x : bool) (body : list item) : list item := [IMsg 2 "M" x body].
Definition fld (l : Z) (t : tyx) (n : string) (k : Z) : item := IField l t n k.

Example C08_width_64_65 :
  is_ok (check (one (msg false [fld 3 (XSingle (SUint 64)) "a" 1; fld 4 (XSingle (SInt 64)) "b" 2;
                                fld 5 (XSingle (SUint 1)) "c" 3; fld 6 (XSingle (SInt 1)) "d" 4])) "r" false) = true /\
  check (one (msg false [fld 3 (XSingle (SUint 65)) "a" 1])) "r" false = Err KInvalidUintCap "r" 3 /\
  check (one (msg false [fld 3 (XSingle (SInt 65)) "a" 1])) "r" false = Err KInvalidIntCap "r" 3 /\
  check (one (msg false [fld 3 (XSingle (SUint 0)) "a" 1])) "r" false = Err KInvalidUintCap "r" 3 /\
  check (one (msg false [fld 3 (XArr (SInt 0) (CapLit 2) false) "a" 1])) "r" false = Err KInvalidIntCap "r" 3 /\
  check (one [IEnum 2 "E" (SUint 65) []]) "r" false = Err KInvalidUintCap "r" 2 /\
  is_ok (check (one [IEnum 2 "E" (SUint 64) [IEnumField 3 "A" 18446744073709551615]]) "r" false) = true /\
  check (one [IEnum 2 "E" (SUint 64) [IEnumField 3 "A" 18446744073709551616]]) "r" false = Err KEnumValueOverflow "r" 3.
Proof. repeat split; vm_compute; reflexivity. Qed.

Example C08_field_number_255_256 :
  is_ok (check (one (msg false [fld 3 (XSingle SBool) "a" 255; fld 4 (XSingle SBool) "b" 1])) "r" false) = true /\
  check (one (msg false [fld 3 (XSingle SBool) "a" 256])) "r" false = Err KInvalidFieldNumber "r" 3 /\
  check (one (msg false [fld 3 (XSingle SBool) "a" 0])) "r" false = Err KInvalidFieldNumber "r" 3 /\
  check (one (msg false [fld 3 (XSingle SBool) "a" 7; fld 4 (XSingle SBool) "b" 7])) "r" false = Err KDupFieldNumber "r" 4.
Proof. repeat split; vm_compute; reflexivity. Qed.

Example C08_capacity_0_1_65535_65536 :
  is_ok (check (one [IAlias 2 "T" (XArr SBool (CapLit 1) false)]) "r" false) = true /\
  is_ok (check (one [IAlias 2 "T" (XArr SBool (CapLit 65535) true)]) "r" false) = true /\
  check (one [IAlias 2 "T" (XArr SBool (CapLit 0) false)]) "r" false = Err KInvalidArrayCap "r" 2 /\
  check (one [IAlias 2 "T" (XArr SBool (CapLit 65536) false)]) "r" false = Err KInvalidArrayCap "r" 2 /\
  check (one [IConst 2 "N" (CExpr (EAdd (EInt 65535) (EInt 1))); IAlias 3 "T" (XArr SBool (CapRef ["N"%string]) false)])
        "r" false = Err KInvalidArrayCap "r" 3.
Proof. repeat split; vm_compute; reflexivity. Qed.

(* 65535 / 65536 bits, without and with the 16-bit prefix of an extensible message *)
Example C08_message_65535_65536_bits :
  is_ok (check (one (msg false [fld 3 (XArr SBool (CapLit 65535) false) "a" 1])) "r" false) = true /\
  check (one (msg false [fld 3 (XArr SBool (CapLit 65535) false) "a" 1; fld 4 (XSingle SBool) "b" 2])) "r" false
    = Err KMessageSizeOverflows "r" 2 /\
  is_ok (check (one (msg true [fld 3 (XArr SBool (CapLit 65519) false) "a" 1])) "r" false) = true /\
  check (one (msg true [fld 3 (XArr SBool (CapLit 65520) false) "a" 1])) "r" false = Err KMessageSizeOverflows "r" 2 /\
  is_ok (check (one (msg false [fld 3 (XArr SBool (CapLit 65520) false) "a" 1])) "r" false) = true /\
  (* the prefix of an extensible ARRAY counts too: 16 + 65519 = 65535 *)
  is_ok (check (one (msg false [fld 3 (XArr SBool (CapLit 65519) true) "a" 1])) "r" false) = true /\
  check (one (msg false [fld 3 (XArr SBool (CapLit 65520) true) "a" 1])) "r" false = Err KMessageSizeOverflows "r" 2.
Proof. repeat split; vm_compute; reflexivity. Qed.

Example C08_max_bytes :
  is_ok (check (one (msg false [IOption 3 "max_bytes" (OLit (CVInt 2)); fld 4 (XSingle (SUint 16)) "a" 1])) "r" false) = true /\
  check (one (msg false [IOption 3 "max_bytes" (OLit (CVInt 2)); fld 4 (XSingle (SUint 17)) "a" 1])) "r" false
    = Err KMessageSizeOverflows "r" 2 /\
  check (one (msg false [fld 3 (XSingle (SUint 17)) "a" 1; IOption 4 "max_bytes" (OLit (CVInt 2))])) "r" false
    = Err KMessageSizeOverflows "r" 2 /\
  is_ok (check (one (msg false [IOption 3 "max_bytes" (OLit (CVInt 0)); fld 4 (XSingle (SUint 64)) "a" 1])) "r" false) = true.
Proof. repeat split; vm_compute; reflexivity. Qed.

(* non-vacuity of the specification: a schema with an import, shadowing, an alias, an enum, a
   constant expression as array capacity and an extensible message is Valid *)
Definition ex_valid : files :=
  [("r"%string,
    [IImport 1 (Some "L") "lib"; IProto 2 "r";
     IConst 3 "N" (CExpr (EDiv (EMul (EInt 3) (EInt 5)) (EInt 4)));
     IAlias 4 "Vec" (XArr (SRef ["L"; "Color"]) (CapRef ["N"]) true);
     IMsg 5 "M" true
       [IOption 6 "max_bytes" (OLit (CVInt 64));
        IEnum 7 "Color" (SUint 2) [IEnumField 7 "A" 0; IEnumField 7 "B" 3];
        IField 8 (XSingle (SRef ["Color"])) "c" 2;
        IField 9 (XSingle (SRef ["Vec"])) "v" 1;
        IField 10 (XSingle (SInt 64)) "w" 255]]%string);
   ("lib"%string, [IProto 1 "lib"; IEnum 2 "Color" (SUint 7) [IEnumField 3 "RED" 0; IEnumField 4 "TOP" 127]]%string)].

Example C08_valid_example : Valid ex_valid "r" false.
Proof. apply (check_sound _ _ _ _ (eq_refl : check ex_valid "r" false = Ok _)). Qed.
