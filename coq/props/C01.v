(* C01 — Python encoder emits exactly the specified bit layout.
   Only statements, each closed by [exact] of a lemma proved elsewhere, followed by
   Print Assumptions; plus Examples showing the hypotheses are satisfiable. *)
From Coq Require Import ZArith List Bool.
From BP Require Import Bits Schema Spec PyRt PyEncProofs PyEncTop.
Import ListNotations.
Open Scope Z_scope.

(* the model of the generated Msg.encode() over bitprotolib returns Spec.wire, for every
   schema tree and every in-range value *)
Theorem C01_encode_is_wire : forall t v,
  is_msg t = true -> wf (norm t) = true -> has_ty (norm t) v = true ->
  py_encode t v = Ok (wire t v).
Proof. exact py_encode_is_wire. Qed.
Print Assumptions C01_encode_is_wire.

(* exactly ceil(N/8) bytes *)
Theorem C01_length : forall t v,
  wf (norm t) = true -> has_ty (norm t) v = true ->
  Z.of_nat (length (wire t v)) = (nbits t + 7) / 8.
Proof. exact wire_length. Qed.
Print Assumptions C01_length.

(* N = number of stream bits = sum of widths + 16 per extensible node *)
Theorem C01_nbits_sum : forall t v,
  wf (norm t) = true -> has_ty (norm t) v = true ->
  Z.of_nat (length (enc_bits (norm t) v)) = nbits t.
Proof. exact enc_bits_nbits. Qed.
Print Assumptions C01_nbits_sum.

(* stream bit k is stored in byte k div 8 at bit position k mod 8 *)
Theorem C01_bit_k : forall t v k,
  0 <= k ->
  Z.testbit (nth (Z.to_nat (k / 8)) (wire t v) 0) (k mod 8) =
  nth (Z.to_nat k) (enc_bits (norm t) v) false.
Proof. exact wire_bit. Qed.
Print Assumptions C01_bit_k.

(* all padding bits after bit N-1 are zero *)
Theorem C01_padding_zero : forall t v k,
  wf (norm t) = true -> has_ty (norm t) v = true -> nbits t <= k ->
  Z.testbit (nth (Z.to_nat (k / 8)) (wire t v) 0) (k mod 8) = false.
Proof. exact wire_padding_zero. Qed.
Print Assumptions C01_padding_zero.

(* fields are laid out in ascending field-number order (enc_bits walks the list in order,
   concatenating with no gap: see Spec.enc_bits) *)
Theorem C01_field_order : forall x fs fs',
  norm (TMsg x fs) = TMsg x fs' -> sorted_keys fs'.
Proof. exact norm_msg_sorted. Qed.
Print Assumptions C01_field_order.

(* non-vacuity: a permuted, extensible, nested example meets every hypothesis, and the
   theorem's conclusion computes *)
Definition ex_t : ty :=
  TMsg true [ (3, TAlias (TArr true 3 (TUint 3)));
              (1, TEnum 3 [0; 1; 5]);
              (2, TAlias (TInt 13));
              (5, TMsg false [(2, TUint 5); (1, TBool)]);
              (7, TArr false 2 TByte);
              (9, TInt 32) ].
Definition ex_v : val :=
  VM [ (3, VL [VZ 1; VZ 7; VZ 2]); (1, VZ 5); (2, VZ (-171));
       (5, VM [(2, VZ 19); (1, VB true)]); (7, VL [VZ 255; VZ 1]); (9, VZ (-2)) ].
Example C01_nonvacuous :
  is_msg ex_t = true /\ wf (norm ex_t) = true /\ has_ty (norm ex_t) ex_v = true /\
  py_encode ex_t ex_v = Ok (wire ex_t ex_v) /\ length (wire ex_t ex_v) = 14%nat.
Proof. vm_compute. repeat split; reflexivity. Qed.
