(* C20 — Lint is advisory and diagnostics point at the right line.
   Models: BP.Main (decide), BP.Lint (rules, naming helpers, positions), tied to /repo by
   gen/GenCli.v (T0) and by real runs (T2, tools/props/c20.py). *)
From Coq Require Import ZArith List String Ascii Bool.
From BP Require Import CliBase Main MainProofs Lint LintSpec LintProofs.
From BPGen Require Import GenCli.
Import ListNotations.
Open Scope string_scope.
Open Scope Z_scope.

(* Outside check mode neither the number of warnings nor -q influences the action: same
   exit status, same diagnostics, same arguments handed to the renderers. *)
Theorem C20_lint_advisory : forall a b parse l1 l2 render,
  same_but_linter a b -> check a = false ->
  decide a parse l1 render = decide b parse l2 render.
Proof. exact decide_lint_advisory. Qed.
Print Assumptions C20_lint_advisory.

(* In check mode a parse error is reported as such whatever the linter would say, and
   nothing is ever rendered. *)
Theorem C20_check_error_independent_of_lint : forall a parse lint render,
  check a = true -> parse false <> POk ->
  exists m, decide a parse lint render = AFatal m 1 /\ m <> MsgNone \/
            exists e, decide a parse lint render = AUncaught e.
Proof. exact decide_check_parse. Qed.
Print Assumptions C20_check_error_independent_of_lint.

Theorem C20_check_never_renders : forall a parse lint render,
  check a = true -> rendered_of (decide a parse lint render) = None.
Proof. exact decide_check_never_renders. Qed.
Print Assumptions C20_check_never_renders.

(* check-only mode exits non-zero exactly on an error or (lint enabled and) >= 1 warning *)
Theorem C20_check_exit : forall a parse lint render,
  check a = true ->
  (exit_code (decide a parse lint render) <> 0 <->
   parse false <> POk \/ (disable_linter a = false /\ (0 < lint)%nat)).
Proof. exact decide_check_exit. Qed.
Print Assumptions C20_check_exit.

(* ... and so does the process status the caller sees (the low 8 bits of the exit code: the
   code is 0 or 1, never a warning count that could wrap around to 0) *)
Theorem C20_check_status : forall a parse lint render,
  check a = true ->
  (process_status (decide a parse lint render) <> 0 <->
   parse false <> POk \/ (disable_linter a = false /\ (0 < lint)%nat)).
Proof. exact decide_check_status. Qed.
Print Assumptions C20_check_status.

(* style-guide-conforming names are fixed points of the naming helpers ... *)
Theorem C20_pascal_conforming : forall s, pascal_ok s = true -> pascal_case s = s.
Proof. exact pascal_ok_fixed. Qed.
Print Assumptions C20_pascal_conforming.
Theorem C20_snake_conforming : forall s, snake_ok s = true -> snake_case s = s.
Proof. exact snake_ok_fixed. Qed.
Print Assumptions C20_snake_conforming.
Theorem C20_upper_conforming : forall s, upper_ok s = true -> py_isupper s = true.
Proof. exact upper_ok_isupper. Qed.
Print Assumptions C20_upper_conforming.

(* ... so a file whose definitions all follow the style guide (names, 4 spaces per nesting
   level, a zero member in every enum) produces no warning at all *)
Theorem C20_style_clean_no_warning : forall defs, Forall conforming defs -> lint defs = [].
Proof. exact style_clean. Qed.
Print Assumptions C20_style_clean_no_warning.

(* each clear violation (underscore or lower-case initial in a Pascal name, lower-case letter
   in an UPPER name, upper-case letter in a snake name, enum without 0) produces its warning,
   citing the line recorded for that definition *)
Theorem C20_violation_warns : forall defs d w,
  In d defs -> In w (clear_violations d) -> In (w, l_line d) (lint defs).
Proof. exact violation_warns. Qed.
Print Assumptions C20_violation_warns.

Theorem C20_warning_cites_definition : forall defs w l,
  In (w, l) (lint defs) -> exists d, In d defs /\ l = l_line d.
Proof. exact warning_cites_definition. Qed.
Print Assumptions C20_warning_cites_definition.

(* column of a token: the 1-based column, on every line (fix 0c86660 removed the line-1 exception) *)
Theorem C20_col : forall text pos,
  (pos <= String.length text)%nat -> col_of text pos = snd (linecol text pos).
Proof. exact col_correct. Qed.
Print Assumptions C20_col.

(* the indent attribute: 0-based offset of the first token in its line, on every line *)
Theorem C20_indent : forall text pos,
  (pos <= String.length text)%nat -> indent_of text pos = snd (linecol text pos) - 1.
Proof. exact indent_correct. Qed.
Print Assumptions C20_indent.

(* line numbers: given the structural facts of lexer.py that the translator establishes on
   every run (C20_lexer_structure), a token's lineno is 1 + the number of newlines before it *)
Theorem C20_lexer_structure : lexer_structure_ok = true.
Proof. exact lexer_structure. Qed.
Print Assumptions C20_lexer_structure.

Theorem C20_lineno : forall ps k L,
  forallb piece_ok ps = true -> (k < List.length ps)%nat ->
  nth k (lex_linenos ps L) 0 = L + count_nl (sconcat (map p_text (firstn k ps))).
Proof. exact lineno_counts_newlines. Qed.
Print Assumptions C20_lineno.

Theorem C20_line_is_newline_count : forall pos s line col,
  fst (linecol_from s pos line col) = line + count_nl (prefix pos s).
Proof. exact linecol_line. Qed.
Print Assumptions C20_line_is_newline_count.

Theorem C20_rules_target_bound_definitions :
  forallb (fun r => negb (String.eqb (r_target r) "Proto") && negb (String.eqb (r_target r) "Definition")) lint_rules = true.
Proof. exact rules_target_bound_definitions. Qed.
Print Assumptions C20_rules_target_bound_definitions.

(* the regular expressions the hand-written snake_case model stands for are the ones in utils.py *)
Theorem C20_naming_regexes :
  re_camel_b1 = "(.)([A-Z][a-z]+)" /\ re_camel_b2 = "([a-z0-9])([A-Z])" /\
  re_alpha_to_digit = "([A-Za-z])([0-9])" /\ re_digit_to_alpha = "([0-9])([A-Za-z])" /\
  re_multi_us = "__+" /\ re_upper_or_digits = "^[A-Z0-9]+$" /\
  re_mixed_case = "[A-Z].*[a-z]|[a-z].*[A-Z]" /\ re_leading_us = "^_+" /\
  re_trailing_us = "_+$" /\
  snakecase_regex_names = ["re_alpha_to_digit"; "re_camel_b1"; "re_camel_b2"; "re_digit_to_alpha"; "re_leading_us";
                           "re_mixed_case"; "re_multi_us"; "re_trailing_us"; "re_upper_or_digits"].
Proof. exact naming_regexes_pinned. Qed.
Print Assumptions C20_naming_regexes.

(* ---- non-vacuity -------------------------------------------------------------------- *)
Definition ex_clean : list ldef :=
  [ mkL KConstant "MAX_SIZE_2" 3 0 1 []; mkL KAlias "Timestamp64" 4 0 1 [];
    mkL KEnumField "COLOR_RED" 7 4 2 []; mkL KEnum "Color" 6 0 1 [0; 1];
    mkL KMessageField "pixel_count_2" 11 8 3 []; mkL KMessage "InnerMsg" 10 4 2 [];
    mkL KMessage "Pen" 9 0 1 []; mkL KOption "c.struct_packing_alignment" 2 0 1 [] ].
Example C20_nonvacuous_clean : Forall conforming ex_clean /\ lint ex_clean = [].
Proof.
  split; [|vm_compute; reflexivity].
  repeat constructor; try (vm_compute; reflexivity); try (intro H; discriminate H); try (vm_compute; discriminate).
Qed.

Definition ex_dirty : list ldef :=
  [ mkL KConstant "maxSize" 3 0 1 []; mkL KEnumField "red" 7 4 2 []; mkL KEnum "my_color" 6 0 1 [1; 2];
    mkL KMessageField "pixelCount" 11 5 2 []; mkL KMessage "pen" 9 0 1 [] ].
Example C20_nonvacuous_dirty :
  lint ex_dirty = [ ("ConstantNameNotUpper", 3); ("EnumNameNotPascal", 6); ("EnumHasNoFieldValue0", 6);
                    ("EnumFieldNameNotUpper", 7); ("MessageNameNotPascal", 9);
                    ("MessageFieldNameNotSnake", 11); ("IndentWarning", 11) ] /\
  clear_violations (mkL KEnum "my_color" 6 0 1 [1; 2]) = ["EnumNameNotPascal"; "EnumHasNoFieldValue0"].
Proof. vm_compute. split; reflexivity. Qed.

Example C20_nonvacuous_positions :
  let text := String "010" "message Foo {" ++ String "010" "    uint3 x = 1" in
  linecol text 9 = (2, 9) /\ col_of text 9 = 9 /\ indent_of text 19 = 4 /\ linecol text 19 = (3, 5) /\
  col_of "message A {" 8 = 9 /\ indent_of "message A {" 0 = 0 /\ indent_of "    const A = 1" 4 = 4 /\
  lex_linenos [mkPiece "t_IDENTIFIER" "proto"; mkPiece "t_newline" (String "010" ""); mkPiece "t_COMMENT" "// x";
               mkPiece "t_newline" (String "010" ""); mkPiece "t_IDENTIFIER" "message"] 1 = [1; 1; 2; 2; 3].
Proof. vm_compute. repeat split; reflexivity. Qed.

Example C20_nonvacuous_check_exit :
  exit_code (decide (mkArgs None false true true None EBoth) (fun _ => POk) 2 (render_model true)) = 1 /\
  exit_code (decide (mkArgs None true true true None EBoth) (fun _ => POk) 2 (render_model true)) = 0 /\
  exit_code (decide (mkArgs None false true true None EBoth) (fun _ => POk) 0 (render_model true)) = 0.
Proof. vm_compute. repeat split; reflexivity. Qed.
