(* C17 — -O and -F restrict what is generated without altering it.
   Model: BP.Main (decide / parse traversal / emit), tied to /repo by gen/GenCli.v (T0) and
   by real CLI runs evaluated against the model (T2, tools/props/c17.py). *)
From Coq Require Import ZArith List String Bool.
From BP Require Import CliBase Main MainProofs.
From BPGen Require Import GenCli.
Import ListNotations.
Open Scope string_scope.
Open Scope Z_scope.

(* Traditional mode (-O outside -c) rejects a file set iff an extensible marker occurs in
   ANY file of it (root or imported, at any depth) - given no other error comes first -
   and non-traditional parsing never rejects because of a marker. *)
Theorem C17_traditional_rejects_any_marker : forall root,
  any_bad root = false ->
  ((exists f l, parse_files true root = Some (PEExtensible, f, l)) <-> any_marker root = true) /\
  parse_files false root = None.
Proof. exact traditional_rejects_iff. Qed.
Print Assumptions C17_traditional_rejects_any_marker.

(* ... the diagnostic cites file and line of the FIRST marker in parse order *)
Theorem C17_traditional_cites_first_marker : forall root,
  any_bad root = false -> parse_files true root = ext_err (first_marker_list 0 root).
Proof. exact traditional_cites_first_marker. Qed.
Print Assumptions C17_traditional_cites_first_marker.

(* ... and with or without other errors a marker anywhere makes the -O compilation fail *)
Theorem C17_marker_never_accepted : forall root,
  any_marker root = true -> parse_files true root <> None.
Proof. exact parse_files_marker. Qed.
Print Assumptions C17_marker_never_accepted.

(* the flag handed to the parser is exactly `-O and not -c` *)
Theorem C17_traditional_flag : forall a p1 p2 lint render,
  p1 (enable_optimize a && negb (check a)) = p2 (enable_optimize a && negb (check a)) ->
  decide a p1 lint render = decide a p2 lint render.
Proof. exact decide_parse_only_flag. Qed.
Print Assumptions C17_traditional_flag.

(* languages without optimization mode are refused with the renderer's diagnostic; on the
   current tree that is exactly Python *)
Theorem C17_lang_refused : forall a parse lint io l,
  enable_optimize a = true -> check a = false -> parse true = POk ->
  lang_ a = Some l -> lang_supports_opt l = false ->
  decide a parse lint (render_model io) = AFatal MsgErrorColored 1.
Proof. exact decide_lang_refused. Qed.
Print Assumptions C17_lang_refused.

Theorem C17_lang_refused_which : forall l, lang_supports_opt l = false <-> l = LPy.
Proof. exact lang_refused_iff. Qed.
Print Assumptions C17_lang_refused_which.

(* -F without -O *)
Theorem C17_F_without_O_refused : forall a parse lint render,
  enable_optimize a = false -> check a = false -> truthy_list (filter_messages a) = true ->
  parse false = POk -> truthy_opt (lang_ a) = true ->
  decide a parse lint render = AFatal (MsgLit "-F not available in non-optimization mode.") 1.
Proof. exact decide_F_without_O_msg. Qed.
Print Assumptions C17_F_without_O_refused.

(* each refusal: non-zero exit status and nothing is rendered *)
Theorem C17_refusal_exit_nonzero : forall a root lint io,
  check a = false -> refusal a root ->
  exit_code (decide a (parse_of root) lint (render_model io)) <> 0 /\
  rendered_of (decide a (parse_of root) lint (render_model io)) = None.
Proof. exact refusals_nonzero. Qed.
Print Assumptions C17_refusal_exit_nonzero.

(* no refusal condition: the renderers are called with -O, -F and --endian handed over
   unchanged, and the exit status is 0 *)
Theorem C17_accepts : forall a parse lint l,
  check a = false -> parse (enable_optimize a && negb (check a)) = POk -> lang_ a = Some l ->
  (enable_optimize a = true -> lang_supports_opt l = true) ->
  (enable_optimize a = false -> truthy_list (filter_messages a) = false) ->
  decide a parse lint (render_model true) =
  AReturn (Some (mkReq (Some l) (enable_optimize a) (filter_messages a) (endian_ a))).
Proof. exact decide_accepts. Qed.
Print Assumptions C17_accepts.

(* -F names: for each output file (C source, C header, Go) the encoder/decoder function
   blocks emitted are EXACTLY those emitted without -F whose owning message is selected,
   in the same order.  An emitted item is (block class, owning definition): its text is a
   function of these and of --endian only, so "same item" = "same body" (the filter is read
   at no other place: GenCli.filter_readers, pinned below).
   NOTE: `selected` looks at d_name, the UNQUALIFIED name of the message (d.name in the
   renderers): nested messages with the same simple name are selected together. *)
Theorem C17_filter_exact : forall t f defs,
  funcs (emit t f defs) = filter (selected f) (funcs (emit t None defs)).
Proof. exact filter_exact. Qed.
Print Assumptions C17_filter_exact.

Theorem C17_filter_membership : forall t f defs e,
  In e (funcs (emit t f defs)) <-> In e (funcs (emit t None defs)) /\ selected f e = true.
Proof. exact filter_membership. Qed.
Print Assumptions C17_filter_membership.

(* all type / constant / size declarations (everything that is not an encoder/decoder
   function) are emitted unchanged *)
Theorem C17_decls_kept : forall t f defs, decls (emit t f defs) = decls (emit t None defs).
Proof. exact decls_kept. Qed.
Print Assumptions C17_decls_kept.

Theorem C17_filter_unqualified : forall f b1 b2 d1 d2,
  d_name d1 = d_name d2 -> selected f (b1, Some d1) = selected f (b2, Some d2).
Proof. exact selected_unqualified. Qed.
Print Assumptions C17_filter_unqualified.

(* only messages of the rendered proto own encoder/decoder functions *)
Theorem C17_funcs_belong_to_messages : forall t defs e,
  In e (funcs (emit t None defs)) -> exists d, snd e = Some d /\ In d defs /\ d_kind d = KMessage.
Proof. exact funcs_owner_message. Qed.
Print Assumptions C17_funcs_belong_to_messages.

(* ---- non-vacuity -------------------------------------------------------------------- *)
(* a marker two imports deep: rejected under -O with its own file and line cited, accepted
   otherwise *)
Definition ex_root : list ftree :=
  [FFlag false 3; FImport 1 [FFlag false 2; FImport 2 [FFlag false 4; FFlag true 7]]; FFlag true 9].
Example C17_nonvacuous_traditional :
  any_bad ex_root = false /\ any_marker ex_root = true /\
  parse_files true ex_root = Some (PEExtensible, 2, 7) /\ parse_files false ex_root = None.
Proof. vm_compute. repeat split; reflexivity. Qed.

Definition ex_args (O : bool) (F : option (list string)) (l : language) : args :=
  mkArgs (Some l) false false O F EBig.
Example C17_nonvacuous_cli :
  exit_code (decide (ex_args true None LC) (parse_of ex_root) 0 (render_model true)) = 1 /\
  decide (ex_args true (Some ["A"]) LPy) (fun _ => POk) 0 (render_model true) = AFatal MsgErrorColored 1 /\
  exit_code (decide (ex_args false (Some ["A"]) LGo) (fun _ => POk) 0 (render_model true)) = 1 /\
  decide (ex_args true (Some ["A"]) LC) (fun _ => POk) 3 (render_model true)
    = AReturn (Some (mkReq (Some LC) true (Some ["A"]) EBig)).
Proof. vm_compute. repeat split; reflexivity. Qed.

(* Inner, Outer.Inner (nested, same simple name), Outer, an enum and a constant *)
Definition ex_defs : list bdef :=
  [ mkDef KConstant "N" 0; mkDef KEnum "Color" 1; mkDef KMessage "Inner" 2;
    mkDef KMessage "Inner" 3; mkDef KMessage "Outer" 4 ].
Example C17_nonvacuous_filter :
  map owner_uid (funcs (emit TCSrc (Some ["Inner"]) ex_defs)) = [2; 2; 3; 3] /\
  map owner_uid (funcs (emit TCSrc None ex_defs)) = [2; 2; 3; 3; 4; 4] /\
  map owner_uid (funcs (emit TGo (Some ["Outer"; "Nope"]) ex_defs)) = [4; 4] /\
  List.length (decls (emit TCHdr (Some ["Inner"]) ex_defs)) = 12%nat /\
  filter_readers = [ "c_hdr:BlockFunctionDeclarationsForUserListOpMode.dispatch";
                     "c_src:BlockBoundDefinitionListOpMode.dispatch";
                     "go:BlockMessageOpMode.blocks" ].
Proof. vm_compute. repeat split; reflexivity. Qed.
