(* C18 — Compilation is deterministic.   PARTIAL BY NATURE.

   What is proved here (for ALL histories of operations, by induction):
     the in-process half — the memoisation of the compiler (utils.conditional_cache /
     _ast.cache_if_frozen / functools.cache over identity-hashed, freezable AST nodes) is
     TRANSPARENT: every operation returns what the uncached reference semantics returns, whatever
     was compiled before or in between in the same process, including when the collector
     frees nodes and the allocator re-uses their addresses (id()).
   What is NOT expressible in a Gallina model and is only SAMPLED by tools/props/c18.py:
     hash-seed / process / cwd / outdir / path independence of CPython running the compiler.

   Model: theories/Memo.v (decision functions re-translated from the source on every run:
   gen/GenMemo.v).  Only statements here; proofs in theories/MemoProofs.v, MemoRules.v,
   MemoWitness.v. *)
From Coq Require Import ZArith List Bool Arith String.
From BPGen Require Import GenMemo.
From BP Require Import Memo MemoProofs MemoRules MemoWitness MemoCase.
Import ListNotations.
Open Scope Z_scope.

(* ---- memoisation is transparent ---------------------------------------------------------- *)
(* F: the cached methods, arbitrary functions of what a method can see of its node (to depth D);
   [always f]: f is under the unconditional functools.cache (must read class-level data only).
   Preconditions, exactly what the code and its environment guarantee:
     disciplined : a node is frozen only after everything it points to is frozen (the parser
                   completes children before parents; checked on the real parser in T2);
     env_ok      : the allocator never returns the address of a live object.
   Everything else (frozen nodes reject mutation, memo keys stay alive, only frozen nodes are
   memoised) is maintained by the machine's own transitions, whose decisions are the
   translated source. *)
Theorem C18_memo_transparent :
  forall (F : fid -> tree -> Z -> option Z) (always : fid -> bool) (D : nat),
  (forall f, always f = true -> forall t t' x, root_tag t = root_tag t' -> F f t x = F f t' x) ->
  forall h : list op,
  disciplined F D r0 h = true ->
  env_ok F always real_cond real_pin D c0 h = true ->
  map fst (crun F always real_cond real_pin D c0 h) = rrun F D r0 h.
Proof. exact memo_transparent_real. Qed.
Print Assumptions C18_memo_transparent.

(* the invariant behind it: after any history every memo entry belongs to a LIVE node that is
   frozen (or the method is class-level) and holds the method's value on the node's CURRENT view *)
Theorem C18_memo_table_sound :
  forall (F : fid -> tree -> Z -> option Z) (always : fid -> bool) (D : nat),
  (forall f, always f = true -> forall t t' x, root_tag t = root_tag t' -> F f t x = F f t' x) ->
  forall h : list op,
  disciplined F D r0 h = true ->
  env_ok F always real_cond real_pin D c0 h = true ->
  forall f a x r, In (f, a, x, r) (memo (cfinal F always real_cond real_pin D c0 h)) ->
    exists cc, heap (cfinal F always real_cond real_pin D c0 h) a = Some cc /\
               (c_fr cc = true \/ always f = true) /\
               F f (cview D (heap (cfinal F always real_cond real_pin D c0 h)) a) x = Some r.
Proof. exact memo_table_sound_real. Qed.
Print Assumptions C18_memo_table_sound.

(* the discipline is an invariant: frozen nodes only point to frozen nodes, after any history *)
Theorem C18_frozen_closed_invariant :
  forall (F : fid -> tree -> Z -> option Z) (always : fid -> bool) (D : nat),
  (forall f, always f = true -> forall t t' x, root_tag t = root_tag t' -> F f t x = F f t' x) ->
  forall h : list op,
  disciplined F D r0 h = true ->
  env_ok F always real_cond real_pin D c0 h = true ->
  forall n c, rfinal F D r0 h n = Some c -> r_fr c = true ->
    forall d, In d (r_deps c) -> r_frozen (rfinal F D r0 h) d = true.
Proof. exact discipline_keeps_frozen_closed_real. Qed.
Print Assumptions C18_frozen_closed_invariant.

(* ---- interleaving ------------------------------------------------------------------------ *)
(* th: a joint history, each operation tagged with the compilation it belongs to; the two
   compilations work on disjoint names (P).  Each one obtains, operation by operation, what it
   obtains when run alone in a fresh process. *)
Theorem C18_interleaving :
  forall (F : fid -> tree -> Z -> option Z) (always : fid -> bool) (D : nat),
  (forall f, always f = true -> forall t t' x, root_tag t = root_tag t' -> F f t x = F f t' x) ->
  forall (P : name -> bool) (th : list (bool * op)) (b : bool),
  separated P th = true ->
  disciplined F D r0 (map snd th) = true ->
  env_ok F always real_cond real_pin D c0 (map snd th) = true ->
  env_ok F always real_cond real_pin D c0 (sel b th) = true ->
  sel_out b th (map fst (crun F always real_cond real_pin D c0 (map snd th))) =
  map fst (crun F always real_cond real_pin D c0 (sel b th)).
Proof. exact interleaving_real. Qed.
Print Assumptions C18_interleaving.

(* the same on the uncached reference machine, with the discipline inherited *)
Theorem C18_interleaving_reference :
  forall (F : fid -> tree -> Z -> option Z) (D : nat) (P : name -> bool)
         (th : list (bool * op)) (b : bool),
  separated P th = true ->
  sel_out b th (rrun F D r0 (map snd th)) = rrun F D r0 (sel b th) /\
  (disciplined F D r0 (map snd th) = true -> disciplined F D r0 (sel b th) = true).
Proof. exact interleave_ref. Qed.
Print Assumptions C18_interleaving_reference.

(* ---- the source's decisions (T0) -------------------------------------------------------- *)
(* only a frozen node goes through the memo table; a frozen node rejects setattr, delattr,
   push_member and a second freeze; the memo key is the node object itself *)
Theorem C18_source_decisions :
  (forall fr, real_cond fr = true -> fr = true) /\ real_cond true = true /\
  frozen_setattr_raises true = true /\ frozen_delattr_raises true = true /\
  push_member_raises true = true /\ frozen_freeze_raises true = true /\
  frozen_setattr_raises false = false /\ push_member_raises false = false /\
  frozen_freeze_raises false = false /\
  real_pin = true /\ (forall a b, safe_hash_key a = safe_hash_key b -> a = b).
Proof. exact source_decisions. Qed.
Print Assumptions C18_source_decisions.

(* ---- purity of the generator's decision inputs (static, PARTIAL) -------------------------- *)
(* over the tables extracted from the current source: identity-hashed freezable classes; cached
   methods read their node downwards only; no process-level input and no cross-compilation
   mutable state outside the allow-lists of theories/MemoRules.v.  Syntactic scan only. *)
Theorem C18_decision_inputs_partial :
  classes_ok = true /\ methods_ok = true /\
  sites_ok = true /\ globals_ok = true /\ no_other_cache_users = true.
Proof. exact decision_inputs_hold. Qed.
Print Assumptions C18_decision_inputs_partial.

(* the environment does not decide what is compiled or what is left behind (T0, PARTIAL): relative
   imports of a file are resolved against that file's directory, never the working directory;
   Renderer.render writes unconditionally (reads nothing of the output directory) *)
Theorem C18_environment_decisions_partial :
  (forall f, import_base true f = 0) /\ import_base false true = 1 /\ import_base false false = 2 /\
  render_writes_unconditionally = true.
Proof. exact environment_decisions. Qed.
Print Assumptions C18_environment_decisions_partial.

(* ---- each precondition is needed: the decorators alone are not transparent ------------- *)
(* a parent frozen before its child: the real cache_if_frozen returns a stale value (replayed on
   the real decorators, corpus/C18/undisciplined.json).  Not reachable through the parser. *)
Theorem C18_memo_without_discipline_refuted :
  exists h, env_ok F_test always_test real_cond real_pin DW c0 h = true /\
            disciplined F_test DW r0 h = false /\
            outs_eqb (run_c real_cond real_pin h) (run_r h) = false.
Proof. exact undisciplined_refuted. Qed.
Print Assumptions C18_memo_without_discipline_refuted.

(* mutant: memo key = id(node) (no strong reference): address re-use yields a stale value *)
Theorem C18_memo_weak_key_refuted :
  exists h, env_ok F_test always_test real_cond false DW c0 h = true /\
            disciplined F_test DW r0 h = true /\
            outs_eqb (run_c real_cond false h) (run_r h) = false.
Proof. exact weak_key_refuted. Qed.
Print Assumptions C18_memo_weak_key_refuted.

(* mutant: cache_if_frozen memoises unfrozen nodes too *)
Theorem C18_memo_cache_unfrozen_refuted :
  exists h, env_ok F_test always_test (fun _ => true) real_pin DW c0 h = true /\
            disciplined F_test DW r0 h = true /\
            outs_eqb (run_c (fun _ => true) real_pin h) (run_r h) = false.
Proof. exact cache_unfrozen_refuted. Qed.
Print Assumptions C18_memo_cache_unfrozen_refuted.

(* mutant: an unconditionally cached method that reads the node's state *)
Theorem C18_memo_always_reads_state_refuted :
  exists h, env_ok F_test (fun _ => true) real_cond real_pin DW c0 h = true /\
            disciplined F_test DW r0 h = true /\
            outs_eqb (map fst (crun F_test (fun _ => true) real_cond real_pin DW c0 h)) (run_r h) = false.
Proof. exact always_reads_state_refuted. Qed.
Print Assumptions C18_memo_always_reads_state_refuted.

(* ---- non-vacuity ---------------------------------------------------------------------------- *)
(* a history with hit / miss / direct / exception / rejected mutation / reclamation / address
   re-use satisfies the hypotheses, and the conclusion computes *)
Example C18_nonvacuous :
  disciplined F_test DW r0 h_ex = true /\
  env_ok F_test always_test real_cond real_pin DW c0 h_ex = true /\
  outs_eqb (run_c real_cond real_pin h_ex) (run_r h_ex) = true /\
  existsb (aux_eqb AHit) (run_aux h_ex) = true /\
  existsb (aux_eqb AReclaimed) (run_aux h_ex) = true /\
  existsb (aux_eqb ARefused) (run_aux h_ex) = true /\
  List.length h_ex = 29%nat.
Proof. vm_compute. repeat split; reflexivity. Qed.

(* the evaluator used for the correspondence with the real decorators accepts the model's own run
   of that history and rejects a stale answer *)
Example C18_case_evaluator :
  memo_case h_ex (crun F_test always_test real_cond real_pin D_case c0 h_ex)
            (live_addrs (cfinal F_test always_test real_cond real_pin D_case c0 h_ex)) = 0 /\
  memo_case h_undisciplined (crun F_test always_test real_cond real_pin D_case c0 h_undisciplined) [100; 200] = 32.
Proof. vm_compute. split; reflexivity. Qed.

Example C18_interleaving_nonvacuous :
  separated P_ex th_ex = true /\
  disciplined F_test DW r0 (map snd th_ex) = true /\
  env_ok F_test always_test real_cond real_pin DW c0 (map snd th_ex) = true /\
  env_ok F_test always_test real_cond real_pin DW c0 (sel true th_ex) = true /\
  List.length (sel true th_ex) = 7%nat /\ List.length (sel false th_ex) = 7%nat.
Proof. vm_compute. repeat split; reflexivity. Qed.

Example C18_rules_nonvacuous :
  class_ok ("X", ["dataclass"; "frozen"], ["Node"])%string = false /\
  method_ok ("X", "f", "cache_if_frozen", ["members"; "scope_stack[]"])%string = false /\
  method_ok ("X", "f", "cache", ["members"])%string = false /\
  pair_in ("renderer/impls/c/renderer_c.py:X.render", "os.getcwd")%string allowed_sites = false /\
  Nat.leb 19 (List.length cached_methods) = true /\ Nat.leb 30 (List.length ast_classes) = true.
Proof. vm_compute. repeat split; reflexivity. Qed.
