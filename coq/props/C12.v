(* C12 — the wire format depends only on field numbers and resolved types.
   Only statements, each closed by [exact] of a lemma proved in theories/WireEq.v /
   theories/FrontRewrite.v, followed by Print Assumptions; plus Examples.

   Spec.wire takes a resolved type [ty]: it contains no names, no comments, no declaration
   order of definitions and no import structure.  So a rewrite of the schema text can change
   the bytes only through the [ty] the front end elaborates; the wire-level theorems below say
   which changes of [ty] are invisible, for EVERY type, value, nesting depth and sequence. *)
From Coq Require Import ZArith List Bool String Ascii Permutation.
From BP Require Import Bits Schema Spec WireEq FrontBase Front FrontValid FrontRewrite FrontCongr FrontSim FrontRenumber.
Import ListNotations.
Open Scope Z_scope.

(* introducing or inlining a type alias (anywhere in the type) *)
Theorem C12_alias_transparent : forall t v, wire (TAlias t) v = wire t v.
Proof. exact (fun t v => eq_refl). Qed.
Print Assumptions C12_alias_transparent.

Theorem C12_alias_anywhere : forall t t', strip t = strip t' -> forall v, wire t v = wire t' v.
Proof. exact wire_alias_insensitive. Qed.
Print Assumptions C12_alias_anywhere.

(* reordering field declarations while keeping their numbers *)
Theorem C12_reorder_fields : forall x fs fs' v,
  Permutation fs fs' -> NoDup (map fst fs) -> wire (TMsg x fs) v = wire (TMsg x fs') v.
Proof. exact (fun x fs fs' v HP ND => weq_wire _ _ _ (weq_msg_perm x fs fs' HP ND) v). Qed.
Print Assumptions C12_reorder_fields.

(* renumbering fields order-preservingly; the value is mapped through the rewrite *)
Theorem C12_renumber_monotone : forall x fs f v,
  mono_on f (map fst fs) ->
  wire (TMsg x fs) v = wire (TMsg x (renumber_fields f fs)) (renumber_val f fs v).
Proof. exact (fun x fs f v Hm => weq_wire _ _ _ (weq_msg_renumber x fs f Hm) v). Qed.
Print Assumptions C12_renumber_monotone.

(* every one of these steps may be applied at any depth (inside an alias, an array element,
   a field of a message whose numbers are distinct) and in any sequence *)
Theorem C12_sequences : forall t t' m, rw_star t t' m -> forall v, wire t v = wire t' (m v).
Proof. exact rw_star_wire. Qed.
Print Assumptions C12_sequences.

(* sizes are preserved as well (the 16-bit prefix of every enclosing extensible message) *)
Theorem C12_sequences_nbits : forall t t' m, rw_star t t' m -> nbits t = nbits t'.
Proof. exact (fun t t' m H => proj1 (rw_star_weq t t' m H)). Qed.
Print Assumptions C12_sequences_nbits.

(* non-vacuity: a nested, extensible example; alias introduced inside an array element of a
   field, fields of the outer message permuted, inner message renumbered 1,2 -> 4,9 *)
Definition ex_inner : ty := TMsg true [(2, TInt 13); (1, TEnum 3 [0; 1; 5])].
Definition ex_t : ty := TMsg true [(3, TArr true 2 ex_inner); (1, TUint 5); (7, TBool)].
Definition ex_f (k : Z) : Z := if k =? 1 then 4 else 9.
Definition ex_inner' : ty := TAlias (TMsg true (renumber_fields ex_f [(2, TInt 13); (1, TEnum 3 [0; 1; 5])])).
Definition ex_t' : ty := TMsg true [(7, TBool); (3, TArr true 2 ex_inner'); (1, TUint 5)].
Definition ex_v : val :=
  VM [(1, VZ 21); (7, VB true);
      (3, VL [VM [(1, VZ 5); (2, VZ (-7))]; VM [(2, VZ 4095); (1, VZ 1)]])].

Example C12_example_rw :
  exists m, rw_star ex_t ex_t' m /\ wire ex_t ex_v = wire ex_t' (m ex_v).
Proof.
  eexists. split.
  - eapply RwCons.
    { apply (RwInField true [] [(1, TUint 5); (7, TBool)] 3).
      - cbn. intros [H|[H|[]]]; discriminate.
      - apply RwInArr. apply (RwRenumber true [(2, TInt 13); (1, TEnum 3 [0; 1; 5])] ex_f).
        intros a b [<-|[<-|[]]] [<-|[<-|[]]] H; cbn; try reflexivity; exfalso; revert H; apply Z.lt_irrefl || (intros H; inversion H). }
    eapply RwCons.
    { apply (RwInField true [] [(1, TUint 5); (7, TBool)] 3).
      - cbn. intros [H|[H|[]]]; discriminate.
      - apply RwInArr. apply RwAliasIntro. }
    eapply RwCons.
    { apply (RwReorder true _ [(7, TBool); (3, TArr true 2 ex_inner'); (1, TUint 5)]).
      - cbn [app]. eapply perm_trans; [apply perm_skip, perm_swap|]. eapply perm_trans; [apply perm_swap|].
        apply perm_skip. apply Permutation_refl.
      - cbn. repeat constructor; cbn; intuition discriminate. }
    apply RwNil.
  - vm_compute. reflexivity.
Qed.

Example C12_example_bytes : wire ex_t ex_v = wire ex_t' (VM [(7, VB true); (1, VZ 21);
      (3, VL [VM [(4, VZ 5); (9, VZ (-7))]; VM [(9, VZ 4095); (4, VZ 1)]])]).
Proof. vm_compute. reflexivity. Qed.

(* ---------- the front-end side: which rewrites of the schema TEXT leave [ty] unchanged ---------- *)

(* RENAMING messages, fields, enums, enum members, aliases, constants, import `as` names and
   proto names by any injective map on identifiers (option names are not identifiers of the
   schema and stay): the rewritten schema is accepted and every message elaborates to the SAME
   resolved type, so its bytes are the same for every value (value map = identity) *)
Theorem C12_rename : forall rho fs root trad e,
  (forall a b, rho a = rho b -> a = b) ->
  rho GenFront.max_bytes_option_name = GenFront.max_bytes_option_name ->
  opts_fixed rho fs ->
  check fs root trad = Ok e ->
  exists e', check (rename rho fs) root trad = Ok e' /\
             forall p, msg_ty_at (Ok e') (map rho p) = msg_ty_at (Ok e) p.
Proof. exact rename_preserves_types. Qed.
Print Assumptions C12_rename.

(* COMMENTS, WHITESPACE, OPTIONAL SEMICOLONS: absent from the surface tree except for the line
   attribute of every statement; any per-file relabelling of lines leaves acceptance and every
   elaborated type unchanged (that the printed text with different trivia parses to the same
   tree is what every T2 case checks) *)
Theorem C12_trivia : forall lam fs root trad e,
  (forall f, lam f 0 = 0) ->
  check fs root trad = Ok e ->
  exists e', check (relabel lam fs) root trad = Ok e' /\
             forall p, msg_ty_at (Ok e') p = msg_ty_at (Ok e) p.
Proof. exact trivia_preserves_types. Qed.
Print Assumptions C12_trivia.

(* in fact [check] commutes with both at once, rejections included (same class, corresponding line) *)
Theorem C12_check_commutes : forall rho lam,
  (forall a b, rho a = rho b -> a = b) -> (forall f, lam f 0 = 0) ->
  rho GenFront.max_bytes_option_name = GenFront.max_bytes_option_name ->
  forall fs root trad, opts_fixed rho fs ->
  check (rn_files rho lam fs) root trad = rn_res lam (rn_def rho lam) (check fs root trad).
Proof. exact check_rn. Qed.
Print Assumptions C12_check_commutes.

(* non-vacuity: prefixing every identifier with "x" and doubling every line number *)
Definition ex_fs : files :=
  [("r"%string,
    [IProto 1 "r"; IImport 2 None "lib";
     IConst 3 "N" (CExpr (EInt 2));
     IMsg 4 "M" true
       [IOption 5 "max_bytes" (OLit (CVInt 0));
        IEnum 6 "E" (SUint 3) [IEnumField 6 "A" 0; IEnumField 6 "B" 5];
        IField 7 (XArr (SRef ["E"]) (CapRef ["N"]) true) "es" 2;
        IField 8 (XSingle (SRef ["lib"; "T"])) "t" 1]]%string);
   ("lib"%string, [IProto 1 "lib"; IAlias 2 "T" (XSingle (SInt 13))]%string)].

Definition ex_rho (s : string) : string := if String.eqb s "max_bytes" then s else String "x"%char s.

Example C12_rename_example :
  msg_ty_at (check (rn_files ex_rho (fun _ l => 2 * l) ex_fs) "r" false) ["xM"%string] =
  msg_ty_at (check ex_fs "r" false) ["M"%string] /\
  msg_ty_at (check ex_fs "r" false) ["M"%string] =
  Some (TMsg true [(2, TArr true 2 (TEnum 3 [0; 5])); (1, TAlias (TInt 13))]).
Proof. split; vm_compute; reflexivity. Qed.

(* REPLACING A LITERAL BY A CONSTANT EXPRESSION OF EQUAL VALUE (and any expression by another of
   equal value), in any number of constant statements of any file at any depth: [check] is
   UNCHANGED — same acceptance, same errors, same elaborated types, hence the same bytes *)
Theorem C12_const_expr : forall fs fs' root trad,
  frel const_expr_step fs fs' -> check fs' root trad = check fs root trad.
Proof. exact const_expr_check. Qed.
Print Assumptions C12_const_expr.

Definition ex_ce (e : cexpr) : files :=
  [("r"%string, [IProto 1 "r"; IConst 2 "N" (CExpr e);
                 IMsg 3 "M" false [IField 4 (XArr SByte (CapRef ["N"]) false) "d" 1; IField 5 (XSingle (SUint 7)) "t" 2]]%string)].

Example C12_const_expr_example :
  frel const_expr_step (ex_ce (EInt 7)) (ex_ce (EDiv (EMul (EInt 2) (EInt 7)) (EInt 2))) /\
  msg_ty_at (check (ex_ce (EDiv (EMul (EInt 2) (EInt 7)) (EInt 2))) "r" false) ["M"%string] =
  Some (TMsg false [(1, TArr false 7 TByte); (2, TUint 7)]).
Proof.
  split; [|vm_compute; reflexivity].
  cbn [ex_ce frel lrel fst snd]. split; [reflexivity|]. split; [|exact I].
  split; [now left|]. split; [|split; [now left|exact I]].
  right. left. exists 2, "N"%string, (EInt 7), (EDiv (EMul (EInt 2) (EInt 7)) (EInt 2)), 7. now repeat split.
Qed.

(* RENUMBERING FIELDS ORDER-PRESERVINGLY, front end + wire: g0 is an injective map on numbers that
   stays within 1..255; [renumbered g0 fs fs'] says that fs' is fs with the fields of some
   messages (any file, any nesting depth) renumbered by g0, g0 being monotone on the numbers of
   each such message.  Then the rewritten schema is accepted and every message elaborates to a
   type of the same size and the same wire format, the value mapped through the rewrite *)
Theorem C12_renumber : forall g0,
  (forall a b, g0 a = g0 b -> a = b) -> (forall k, number_ok k -> number_ok (g0 k)) ->
  forall fs fs' root trad e,
  renumbered g0 fs fs' -> check fs root trad = Ok e ->
  exists e', check fs' root trad = Ok e' /\
    forall p t, msg_ty_at (Ok e) p = Some t ->
      exists t' m, msg_ty_at (Ok e') p = Some t' /\ nbits t = nbits t' /\ forall v, wire t v = wire t' (m v).
Proof. exact renumber_check. Qed.
Print Assumptions C12_renumber.

(* non-vacuity: Inner's fields 1,2 become 2,5 (the cycle 1->2->5->1); Outer embeds Inner twice *)
Definition ex_g (k : Z) : Z := if k =? 1 then 2 else if k =? 2 then 5 else if k =? 5 then 1 else k.
Definition ex_rn (a b : Z) : files :=
  [("r"%string,
    [IProto 1 "r";
     IMsg 2 "Outer" true
       [IMsg 3 "Inner" true [IField 4 (XSingle (SInt 13)) "x" a; IField 5 (XSingle (SUint 3)) "y" b];
        IField 6 (XArr (SRef ["Inner"]) (CapLit 2) true) "arr" 3;
        IField 7 (XSingle (SRef ["Inner"])) "one" 1]]%string)].

Example C12_renumber_example :
  (forall a b, ex_g a = ex_g b -> a = b) /\ (forall k, number_ok k -> number_ok (ex_g k)) /\
  renumbered ex_g (ex_rn 1 2) (ex_rn 2 5) /\
  msg_ty_at (check (ex_rn 2 5) "r" false) ["Outer"%string] =
  Some (TMsg true [(3, TArr true 2 (TMsg true [(2, TInt 13); (5, TUint 3)])); (1, TMsg true [(2, TInt 13); (5, TUint 3)])]).
Proof.
  split; [|split; [|split; [|vm_compute; reflexivity]]].
  - intros a b. unfold ex_g.
    repeat match goal with |- context [?x =? ?y] => destruct (Z.eqb_spec x y) end; intros; subst; try reflexivity; try congruence.
  - intros k. unfold ex_g, number_ok.
    repeat match goal with |- context [?x =? ?y] => destruct (Z.eqb_spec x y) end; intros; subst; repeat split; try (apply Z.leb_le; reflexivity); tauto.
  - unfold renumbered. cbn [ex_rn frelT FrontSim.lrel fst snd]. split; [reflexivity|]. split; [|exact I].
    split; [now left|]. split; [|exact I].
    right. split; [reflexivity|]. split; [reflexivity|]. split; [reflexivity|].
    exists idz. split; [now left|].
    split; [|split; [now left|split; [now left|exact I]]].
    right. split; [reflexivity|]. split; [reflexivity|]. split; [reflexivity|].
    exists ex_g. split.
    + right. split; [reflexivity|]. intros a b [<-|[<-|[]]] [<-|[<-|[]]] H; cbn; try reflexivity; exfalso; revert H; cbv; congruence.
    + split; [now left|]. split; [now left|exact I].
Qed.

(* NOT A THEOREM in general: reordering field declarations preserves the bytes (wire level:
   C12_reorder_fields) but not always ACCEPTANCE — a field named like a type of an enclosing scope
   hides that type for the fields declared after it (replayed on the real parser) *)
Example C12_reorder_fields_acceptance_caveat :
  (exists e, check [("r"%string, [IProto 1 "r"; IEnum 2 "Color" (SUint 3) [IEnumField 2 "R" 0];
      IMsg 3 "M" false [IField 4 (XSingle (SRef ["Color"])) "c" 2; IField 5 (XSingle (SUint 3)) "Color" 1]]%string)] "r" false = Ok e) /\
  check [("r"%string, [IProto 1 "r"; IEnum 2 "Color" (SUint 3) [IEnumField 2 "R" 0];
      IMsg 3 "M" false [IField 4 (XSingle (SUint 3)) "Color" 1; IField 5 (XSingle (SRef ["Color"])) "c" 2]]%string)] "r" false
  = Err KRefNotType "r" 5.
Proof. split; [eexists|]; vm_compute; reflexivity. Qed.

(* PARTIAL (front-end side): for reorder_fields (see the caveat above), reorder_defs, alias
   intro/inline, nest/un-nest and move to import the statement
   "check fs = Ok e -> check (rw fs) = Ok e' /\ the elaborated types are related by rw_star"
   is NOT proved; the wire-level half above holds for them (any such relation between the
   elaborated types preserves the bytes), and the front-end half is evaluated per generated pair
   by T2 (tools/props/c12.py).  Missing for them: a member-ORDER-insensitive version of
   FrontSim.msim (reorder_fields, reorder_defs), and a link between an alias statement and its uses / a moved
   definition and its new path (alias, nest, import). *)
