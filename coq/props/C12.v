(* C12 — the wire format depends only on field numbers and resolved types.
   Only statements, each closed by [exact] of a lemma proved in theories/WireEq.v /
   theories/FrontRewrite.v, followed by Print Assumptions; plus Examples.

   Spec.wire takes a resolved type [ty]: it contains no names, no comments, no declaration
   order of definitions and no import structure.  So a rewrite of the schema text can change
   the bytes only through the [ty] the front end elaborates; the wire-level theorems below say
   which changes of [ty] are invisible, for EVERY type, value, nesting depth and sequence. *)
From Coq Require Import ZArith List Bool String Permutation.
From BP Require Import Bits Schema Spec WireEq.
Import ListNotations.
Open Scope Z_scope.

(* introducing or inlining a type alias (anywhere in the type) *)
Theorem C12_alias_transparent : forall t v, wire (TAlias t) v = wire t v.
Proof. exact (fun t v => eq_refl). Qed.
Print Assumptions C12_alias_transparent.

Theorem C12_alias_anywhere : forall t t', strip t = strip t' -> forall v, wire t v = wire t' v.
Proof. exact wire_alias_insensitive. Qed.
Print Assumptions C12_alias_anywhere.

(* reordering field declarations while keeping their numbers *)
Theorem C12_reorder_fields : forall x fs fs' v,
  Permutation fs fs' -> NoDup (map fst fs) -> wire (TMsg x fs) v = wire (TMsg x fs') v.
Proof. exact (fun x fs fs' v HP ND => weq_wire _ _ _ (weq_msg_perm x fs fs' HP ND) v). Qed.
Print Assumptions C12_reorder_fields.

(* renumbering fields order-preservingly; the value is mapped through the rewrite *)
Theorem C12_renumber_monotone : forall x fs f v,
  mono_on f (map fst fs) ->
  wire (TMsg x fs) v = wire (TMsg x (renumber_fields f fs)) (renumber_val f fs v).
Proof. exact (fun x fs f v Hm => weq_wire _ _ _ (weq_msg_renumber x fs f Hm) v). Qed.
Print Assumptions C12_renumber_monotone.

(* every one of these steps may be applied at any depth (inside an alias, an array element,
   a field of a message whose numbers are distinct) and in any sequence *)
Theorem C12_sequences : forall t t' m, rw_star t t' m -> forall v, wire t v = wire t' (m v).
Proof. exact rw_star_wire. Qed.
Print Assumptions C12_sequences.

(* sizes are preserved as well (the 16-bit prefix of every enclosing extensible message) *)
Theorem C12_sequences_nbits : forall t t' m, rw_star t t' m -> nbits t = nbits t'.
Proof. exact (fun t t' m H => proj1 (rw_star_weq t t' m H)). Qed.
Print Assumptions C12_sequences_nbits.

(* non-vacuity: a nested, extensible example; alias introduced inside an array element of a
   field, fields of the outer message permuted, inner message renumbered 1,2 -> 4,9 *)
Definition ex_inner : ty := TMsg true [(2, TInt 13); (1, TEnum 3 [0; 1; 5])].
Definition ex_t : ty := TMsg true [(3, TArr true 2 ex_inner); (1, TUint 5); (7, TBool)].
Definition ex_f (k : Z) : Z := if k =? 1 then 4 else 9.
Definition ex_inner' : ty := TAlias (TMsg true (renumber_fields ex_f [(2, TInt 13); (1, TEnum 3 [0; 1; 5])])).
Definition ex_t' : ty := TMsg true [(7, TBool); (3, TArr true 2 ex_inner'); (1, TUint 5)].
Definition ex_v : val :=
  VM [(1, VZ 21); (7, VB true);
      (3, VL [VM [(1, VZ 5); (2, VZ (-7))]; VM [(2, VZ 4095); (1, VZ 1)]])].

Example C12_example_rw :
  exists m, rw_star ex_t ex_t' m /\ wire ex_t ex_v = wire ex_t' (m ex_v).
Proof.
  eexists. split.
  - eapply RwCons.
    { apply (RwInField true [] [(1, TUint 5); (7, TBool)] 3).
      - cbn. intros [H|[H|[]]]; discriminate.
      - apply RwInArr. apply (RwRenumber true [(2, TInt 13); (1, TEnum 3 [0; 1; 5])] ex_f).
        intros a b [<-|[<-|[]]] [<-|[<-|[]]] H; cbn; try reflexivity; exfalso; revert H; apply Z.lt_irrefl || (intros H; inversion H). }
    eapply RwCons.
    { apply (RwInField true [] [(1, TUint 5); (7, TBool)] 3).
      - cbn. intros [H|[H|[]]]; discriminate.
      - apply RwInArr. apply RwAliasIntro. }
    eapply RwCons.
    { apply (RwReorder true _ [(7, TBool); (3, TArr true 2 ex_inner'); (1, TUint 5)]).
      - cbn [app]. eapply perm_trans; [apply perm_skip, perm_swap|]. eapply perm_trans; [apply perm_swap|].
        apply perm_skip. apply Permutation_refl.
      - cbn. repeat constructor; cbn; intuition discriminate. }
    apply RwNil.
  - vm_compute. reflexivity.
Qed.

Example C12_example_bytes : wire ex_t ex_v = wire ex_t' (VM [(7, VB true); (1, VZ 21);
      (3, VL [VM [(4, VZ 5); (9, VZ (-7))]; VM [(9, VZ 4095); (4, VZ 1)]])]).
Proof. vm_compute. reflexivity. Qed.
