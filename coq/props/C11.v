(* C11 — names resolve to the innermost visible earlier definition.
   Only statements, each closed by [exact] of a lemma proved in theories/FrontProofs.v, followed
   by Print Assumptions; plus Examples showing the hypotheses are satisfiable.

   The scope stack [st] is innermost first: scope 0 is the scope being defined, the last one is
   the file (imports are members of the file scope under their own or their `as` name; a
   definition enters its parent only when it is complete: Front.proc_item). *)
From Coq Require Import ZArith List Bool String.
From BP Require Import Schema FrontBase Front FrontProofs.
Import ListNotations.
Open Scope Z_scope.

(* WHAT THE CODE DOES: lookup returns d iff d is what the WHOLE dotted path resolves to in
   some scope k, and in no scope inside k the whole path resolves *)
Theorem C11_innermost : forall st p d,
  lookup st p = Some d <->
  exists k, resolves_in st k p d /\ forall k', (k' < k)%nat -> resolves_none st k' p.
Proof. exact lookup_innermost. Qed.
Print Assumptions C11_innermost.

(* for an undotted name this IS "the innermost enclosing scope that declares it" *)
Theorem C11_innermost_simple_name : forall st n d,
  lookup st [n] = Some d <->
  exists k f, first_declaring st k n /\ nth_error st k = Some f /\ assoc n (fmem f) = Some d.
Proof. exact lookup_simple_name. Qed.
Print Assumptions C11_innermost_simple_name.

(* for a dotted name the two readings coincide whenever the innermost scope declaring the first
   component contains the rest of the path *)
Theorem C11_innermost_first_component : forall st n rest k d,
  first_declaring st k n -> resolves_in st k (n :: rest) d -> lookup st (n :: rest) = Some d.
Proof. exact lookup_first_component. Qed.
Print Assumptions C11_innermost_first_component.

(* in every case the answering scope declares the first component *)
Theorem C11_answering_scope_declares : forall st n rest d,
  lookup st (n :: rest) = Some d ->
  exists k f, nth_error st k = Some f /\ declares f n = true /\ get_member (fmem f) (n :: rest) = Some d.
Proof. exact lookup_declares. Qed.
Print Assumptions C11_answering_scope_declares.

(* ... but they do NOT coincide in general: when the innermost declaration of the first
   component lacks the rest of the path, the code falls through to an outer scope instead of
   reporting an undefined name (replayed on the real parser: corpus/C11/fallthrough.json) *)
Definition ex_fall : files :=
  [("r"%string,
    [IProto 1 "r";
     IMsg 2 "A" false [IMsg 3 "B" false [IField 3 (XSingle (SUint 3)) "x" 1]];
     IMsg 4 "Outer" false
       [IMsg 5 "A" false [IField 5 (XSingle SBool) "y" 1];
        IMsg 6 "Inner" false [IField 6 (XSingle (SRef ["A"; "B"])) "f" 1;
                              IField 6 (XSingle (SRef ["A"])) "g" 2]]]%string)].

Theorem C11_first_component_reading_refuted :
  exists st n rest k f d,
    first_declaring st k n /\ nth_error st k = Some f /\ get_member (fmem f) (n :: rest) = None /\
    lookup st (n :: rest) = Some d.
Proof. exact first_component_reading_refuted. Qed.
Print Assumptions C11_first_component_reading_refuted.

(* the same through the whole front end: field f (line 6) gets the top-level A.B of line 3
   (3 bits), field g the inner A of line 5 (1 bit) *)
Example C11_fallthrough_end_to_end :
  let rows := snd (observe (check ex_fall "r" false)) in
  existsb (row_eqb ("Outer.Inner.f"%string, [7; 6; 1; 3; 3], "r"%string)) rows &&
  existsb (row_eqb ("Outer.Inner.g"%string, [7; 6; 2; 1; 5], "r"%string)) rows = true.
Proof. vm_compute. reflexivity. Qed.

(* ONLY EARLIER DEFINITIONS: [reach ... st ps it] says that, while file [items] is parsed,
   statement [it] is processed against stack [st], and [ps] lists scope by scope the
   statements that textually precede it ([FrontProofs.reach_error]: the relation describes the
   run).  Whatever a name resolves to, its first component was declared by one of those. *)
Theorem C11_only_earlier : forall pc kf trad file fstack items st ps it n rest d,
  reach pc kf trad file fstack [] [] (mkframe (FProto None) []) items st ps it ->
  lookup st (n :: rest) = Some d ->
  exists k pre it0, nth_error ps k = Some pre /\ In it0 pre /\ binds pc it0 n.
Proof. exact lookup_only_earlier. Qed.
Print Assumptions C11_only_earlier.

(* a use before (or without) a definition is rejected with ReferencedTypeNotDefined at the
   line of the use, whatever follows it in the file *)
Theorem C11_use_before_definition_rejected : forall pc kf trad file fstack items f st' ps l n rest name num,
  reach pc kf trad file fstack [] [] (mkframe (FProto None) []) items (f :: st') ps
        (IField l (XSingle (SRef (n :: rest))) name num) ->
  is_proto_frame f = false ->
  (forall pre it0, In pre ps -> In it0 pre -> ~ binds pc it0 n) ->
  proc_items pc kf trad file fstack [] (mkframe (FProto None) []) items = Err KRefTypeNotDefined file l.
Proof. exact use_before_definition_rejected. Qed.
Print Assumptions C11_use_before_definition_rejected.

Example C11_later_definition_rejected :
  check [("r"%string, [IProto 1 "r"; IMsg 2 "M" false [IField 3 (XSingle (SRef ["N"])) "x" 1];
                       IMsg 5 "N" false []]%string)] "r" false
  = Err KRefTypeNotDefined "r" 3.
Proof. vm_compute. reflexivity. Qed.

(* THE RESOLVED DEFINITION IS THE ONE USED: the member pushed for a field carries the type of
   exactly the definition lookup returns (so its width, members and encoding are that
   definition's: Spec.wire is a function of this [ty]) and records where that definition is *)
Theorem C11_type_used : forall pc kf trad file fstack outer cur l p name num cur',
  proc_item pc kf trad file fstack outer cur (IField l (XSingle (SRef p)) name num) = Ok cur' ->
  exists d t,
    lookup (cur :: outer) p = Some d /\ def_type d = Some t /\
    fmem cur' = (name, DField (mkloc file l) num t (Some (def_loc d))) :: fmem cur.
Proof. exact field_type_used. Qed.
Print Assumptions C11_type_used.

Theorem C11_array_type_used : forall pc kf trad file fstack outer cur l p c ext name num cur',
  proc_item pc kf trad file fstack outer cur (IField l (XArr (SRef p) c ext) name num) = Ok cur' ->
  exists d t n,
    lookup (cur :: outer) p = Some d /\ def_type d = Some t /\
    resolve_cap file (cur :: outer) l c = Ok n /\
    fmem cur' = (name, DField (mkloc file l) num (TArr ext (Z.to_nat n) t) (Some (def_loc d))) :: fmem cur.
Proof. exact field_array_type_used. Qed.
Print Assumptions C11_array_type_used.

(* and the message's elaborated type is made of exactly those field members *)
Theorem C11_message_type_of_members : forall a ext f d,
  close_msg a ext f = Ok d -> d = DMsg a (TMsg ext (msg_fields (rev (fmem f)))) (rev (fmem f)).
Proof. exact close_msg_fields. Qed.
Print Assumptions C11_message_type_of_members.

(* non-vacuity: shadowing at three depths plus an import under an `as` name *)
Definition ex_shadow : files :=
  [("r"%string,
    [IProto 1 "r"; IImport 2 (Some "L") "lib";
     IEnum 3 "X" (SUint 2) [IEnumField 3 "A" 0];
     IMsg 4 "M" false
       [IEnum 5 "X" (SUint 5) [IEnumField 5 "A" 0];
        IMsg 6 "N" false
          [IField 7 (XSingle (SRef ["X"])) "a" 1;
           IEnum 8 "X" (SUint 7) [IEnumField 8 "A" 0];
           IField 9 (XSingle (SRef ["X"])) "b" 2;
           IField 10 (XSingle (SRef ["L"; "X"])) "c" 3;
           IField 11 (XArr (SRef ["X"]) (CapLit 2) false) "d" 4]];
     IMsg 13 "P" false
       [IField 14 (XSingle (SRef ["M"; "X"])) "e" 1;
        IField 15 (XSingle (SRef ["M"; "N"; "X"])) "g" 2;
        IField 16 (XSingle (SRef ["X"])) "h" 3]]%string);
   ("lib"%string, [IProto 1 "lib"; IEnum 2 "X" (SUint 11) [IEnumField 2 "A" 0]]%string)].

Example C11_shadowing_example :
  let rows := snd (observe (check ex_shadow "r" false)) in
  existsb (row_eqb ("M.N.a"%string, [7; 7; 1; 5; 5], "r"%string)) rows &&      (* M.X, 5 bits *)
  existsb (row_eqb ("M.N.b"%string, [7; 9; 2; 7; 8], "r"%string)) rows &&      (* M.N.X, 7 bits *)
  existsb (row_eqb ("M.N.c"%string, [7; 10; 3; 11; 2], "lib"%string)) rows &&  (* lib's X, 11 bits *)
  existsb (row_eqb ("M.N.d"%string, [7; 11; 4; 14; 8], "r"%string)) rows &&     (* array of M.N.X *)
  existsb (row_eqb ("P.e"%string, [7; 14; 1; 5; 5], "r"%string)) rows &&
  existsb (row_eqb ("P.g"%string, [7; 15; 2; 7; 8], "r"%string)) rows &&
  existsb (row_eqb ("P.h"%string, [7; 16; 3; 2; 3], "r"%string)) rows = true.
Proof. vm_compute. reflexivity. Qed.
