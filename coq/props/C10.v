(* C10 — placeholder while the harness is brought up *)
From Coq Require Import String List ZArith Bool.
From BP Require Import EmitBase EmitNames Emit EmitSpec EmitCheck.
Import ListNotations.
Open Scope string_scope.

Theorem C10_placeholder : snake_case "AB1C" = "ab_1_c".
Proof. reflexivity. Qed.
Print Assumptions C10_placeholder.
