(* C10 — every accepted schema yields code the target toolchains accept (PARTIAL by nature:
   that gcc / g++ / CPython accept a text is the toolchains' semantics; what is proved here is
   about the ORDER and the NAMES of what the renderers emit, for every elaborated schema).

   [render_items s i t flt] is the list of include/import statements and declarations the
   renderer of target t writes for file i of schema s (Emit.v; order and name templates come
   from gen/GenC10.v, re-translated from /repo on every run).  [wf] is what the parser
   guarantees about references, [pre] the property's own precondition, the [g_*] guards are the
   complements of the regions refuted below (DESIGN §5 keys). *)
From Coq Require Import String Ascii List ZArith Bool Arith.
From BP Require Import EmitBase EmitNames Emit EmitSpec EmitCheck EmitProofs EmitDbu EmitDbuMain EmitDbuPy EmitStr EmitUnique EmitUnique2 EmitWitness.
From BPGen Require Import GenC10.
Import ListNotations.
Open Scope string_scope.
Open Scope list_scope.
Open Scope nat_scope.

(* ---- declared before use: every generated name a declaration mentions is declared earlier in
   the same output, or comes from an earlier #include / import (Python: module-level and
   class-level code is "eager", method bodies may refer to any name of the module; Go: package
   level names are visible in the whole file) ---- *)
Theorem C10_declared_before_use :
  forall (s : schema) (i : nat) (t : target) (flt : list string),
    wf s = true -> i < length s -> g_qualify (lang_of t) s i = true ->
    dbu_b s t flt (render_items s i t flt) = true.
Proof.
  intros s i t flt Hwf Hi Hq. destruct t; cbn [lang_of] in Hq.
  - apply dbu_TgH; assumption.
  - apply dbu_TgC; assumption.
  - apply dbu_TgHO; assumption.
  - apply dbu_TgCO; assumption.
  - apply dbu_TgPy; assumption.
  - apply dbu_TgGo; assumption.
Qed.
Print Assumptions C10_declared_before_use.

(* outside the guard: a type nested in a message of an imported file (lib.Outer.Inner), or
   reached through two imports (lib.base.Id), is emitted unqualified / with the wrong
   qualifier in Python and Go; C, which flattens all names, is not affected  [py-nested-import] *)
Theorem C10_declared_before_use_refuted :
  inside_pre w_nested = true /\ inside_pre w_twohop = true /\
  dbu w_nested 0 TgPy = false /\ dbu w_nested 0 TgGo = false /\ dbu w_twohop 0 TgPy = false /\
  dbu w_nested 0 TgH = true /\ dbu w_nested 0 TgC = true /\ dbu w_twohop 0 TgH = true.
Proof. vm_compute. repeat split; reflexivity. Qed.
Print Assumptions C10_declared_before_use_refuted.

(* ---- an include / import statement names the file the compiler generates for that schema ---- *)
Theorem C10_import_refers_to_generated_file :
  forall (s : schema) (i : nat) (t : target) (flt : list string),
    g_import (lang_of t) s i = true -> imports_ok_b s t (render_items s i t flt) = true.
Proof. exact import_refers_to_generated_file. Qed.
Print Assumptions C10_import_refers_to_generated_file.

(* `proto lib` in shared.bitproto: included as lib_bp.h / imported as lib_bp, generated as
   shared_bp.h / shared_bp.py  [import-filename] *)
Theorem C10_import_refers_to_generated_file_refuted :
  inside_pre w_import = true /\
  imports_ok_b w_import TgH (render_items w_import 0 TgH []) = false /\
  imports_ok_b w_import TgPy (render_items w_import 0 TgPy []) = false.
Proof. vm_compute. repeat split; reflexivity. Qed.
Print Assumptions C10_import_refers_to_generated_file_refuted.

(* ---- Python default-value expressions exist, for EVERY schema (the guard "no memberless enum"
   was dropped when the fix of [empty-enum] landed): the renderer does not raise, every field has
   a default, and the default of an enum-typed field is <Enum>.<first member> or the literal 0 ---- *)
Theorem C10_py_defaults_exist :
  forall (s : schema) (i : nat) (flt : list string),
    (exists its, render s i TgPy flt = Some its) /\
    (forall fl, exists us, py_field_default s (fl_ty fl) = Some us) /\
    (forall r eager, r_k r = RkEnum ->
       match enum_members s r with
       | Some (_ :: _) => py_defval s eager (TRef r) = Some [mkUse NsMod (ref_qual LPy r) (ref_name s LPy r) eager]
       | _ => py_defval s eager (TRef r) = Some []
       end).
Proof. exact py_defaults_exist. Qed.
Print Assumptions C10_py_defaults_exist.

(* ---- string constants: the characters that end or corrupt a double-quoted literal (quote,
   backslash, LF, CR) are all in the escape table translated from Formatter.escape_str_value,
   which the three format_str_value apply (checked by the translator); unguarded since the fix
   of [str-escape] ---- *)
Theorem C10_string_constants_escaped : forall (s : schema) (i : nat), str_consts_ok s i = true.
Proof. exact string_constants_escaped. Qed.
Print Assumptions C10_string_constants_escaped.

(* regression: the former witnesses of the two fixed findings now pass every check of the model *)
Theorem C10_fixed_findings_regression :
  inside_pre w_empty_enum = true /\ inside_pre w_empty_enum_unused = true /\ inside_pre w_str = true /\
  render w_empty_enum 0 TgPy [] <> None /\
  forallb (fun t => Z.eqb (verdict w_empty_enum 0 t []) 0) [TgH; TgC; TgPy; TgGo] = true /\
  forallb (fun t => Z.eqb (verdict w_empty_enum_unused 0 t []) 0) [TgH; TgC; TgPy; TgGo] = true /\
  forallb (fun t => Z.eqb (verdict w_str 0 t []) 0) [TgH; TgC; TgPy; TgGo] = true.
Proof. vm_compute. repeat split; try reflexivity. discriminate. Qed.
Print Assumptions C10_fixed_findings_regression.

(* ---- no two generated declarations share a name, for EVERY target.  For C the translation
   unit (header ++ source) is taken, in standard mode and in -O mode with any -F list: defining
   declarations (macros, struct tags, typedefs, function definitions - internal helpers included)
   are pairwise distinct per C name space, and so are the prototypes.  For Python the module-level
   names (classes, bp_processor_* / bp_default_factory_* functions, constants, enum member aliases,
   value-to-name maps); for Go the package-level names (types, consts, size consts, the two vars)
   and the methods per receiver type (name space NsMember T).  Guards: [g_helper] and [g_derived]
   for C, [g_derived] for Python and Go - the complements of the refuted regions below. ---- *)
Theorem C10_names_unique :
  forall (s : schema) (i : nat) (flt : list string),
    wf s = true -> i < length s ->
    (pre LC s i = true -> g_helper s i = true -> g_derived LC s i = true ->
       unique_b (decls_of (render_items s i TgH flt ++ render_items s i TgC flt)) = true /\
       unique_b (decls_of (render_items s i TgHO flt ++ render_items s i TgCO flt)) = true) /\
    (pre LPy s i = true -> g_derived LPy s i = true -> unique_b (decls_of (render_items s i TgPy flt)) = true) /\
    (pre LGo s i = true -> g_derived LGo s i = true -> unique_b (decls_of (render_items s i TgGo flt)) = true).
Proof.
  intros s i flt Hwf Hi. split; [|split].
  - intros Hp Hh Hd. split; [apply names_unique_C | apply names_unique_CO]; assumption.
  - intros Hp Hd. apply names_unique_Py; assumption.
  - intros Hp Hd. apply names_unique_Go; assumption.
Qed.
Print Assumptions C10_names_unique.

(* ---- names inside one class / struct: the attributes of a Python dataclass (BYTES_LENGTH, the
   fields, _enum_field_proxy__<f>, __post_init__, dict_factory, _get_<f> / _set_<f>, the seven
   methods), the members of a Python IntEnum class, and the fields + methods of a Go struct are
   pairwise distinct.  Python needs the guard [g_py_attrs] (no field name starts with "_"). ---- *)
Theorem C10_member_names_unique :
  forall (s : schema) (i : nat) (fd : fdef), In fd (flat_file (getf s i)) ->
    (pre LPy s i = true -> g_py_attrs s i = true -> NoDup (py_class_attrs fd)) /\
    (pre LGo s i = true -> NoDup (go_struct_members fd)).
Proof.
  intros s i fd Hfd. split.
  - intros Hp Hg. apply (py_attrs_unique s i Hp Hg fd Hfd).
  - intros Hp. apply (go_members_unique s i fd Hp Hfd).
Qed.
Print Assumptions C10_member_names_unique.

(* a field called _get_mode next to an enum-typed field mode: the dataclass gets two attributes
   _get_mode (confirmed on CPython: the class instantiates, its default for _get_mode is the getter
   function and encode() raises TypeError)  [py-attr-collision] *)
Theorem C10_member_names_unique_refuted :
  inside_pre w_attr = true /\ g_py_attrs w_attr 0 = false /\
  forallb (fun fd => nodup_str (py_class_attrs fd)) (flat_file (getf w_attr 0)) = false.
Proof. vm_compute. repeat split; reflexivity. Qed.
Print Assumptions C10_member_names_unique_refuted.

(* ---- further refuted regions (each witness is inside [wf] and [pre] for all languages) ---- *)

(* C helper names: message name ++ field number without separator  [helper-collision];
   generated function names vs user typedef names  [derived-name-collision] *)
Theorem C10_names_unique_refuted :
  inside_pre w_helper = true /\ inside_pre w_helper_alias = true /\ inside_pre w_derived = true /\
  tu_unique w_helper 0 TgC = false /\ tu_unique w_helper_alias 0 TgC = false /\ tu_unique w_derived 0 TgC = false.
Proof. vm_compute. repeat split; reflexivity. Qed.
Print Assumptions C10_names_unique_refuted.

(* Go: an import whose only use was a constant  [go-unused-import] *)
Theorem C10_go_imports_used_refuted :
  inside_pre w_go_unused = true /\ go_imports_used_b (render_items w_go_unused 0 TgGo []) = false.
Proof. vm_compute. split; reflexivity. Qed.
Print Assumptions C10_go_imports_used_refuted.

(* a message without fields: struct of size 0 in C, 1 in C++  [empty-struct] *)
Theorem C10_toolchain_regions_refuted :
  inside_pre w_empty_struct = true /\ structs_nonempty_b (render_items w_empty_struct 0 TgH []) = false.
Proof. vm_compute. repeat split; reflexivity. Qed.
Print Assumptions C10_toolchain_regions_refuted.

(* ---- the alignment written into `__attribute__((packed, aligned(n)))` is 0 (no attribute) or a
   power of two, for EVERY accepted schema: the validator of c.struct_packing_alignment translated
   from options.py implies it for every integer (unguarded since the fix of [align-nonpow2]); the
   former witness (alignment 3) is no longer well-formed ---- *)
Theorem C10_struct_alignment_pow2 :
  (forall v : Z, align_valid v = true -> align_ok v = true) /\
  (forall (s : schema) (i : nat), wf s = true -> i < length s -> g_align s i = true) /\
  wf w_align = false.
Proof.
  split; [exact align_valid_pow2 | split; [exact align_of_wf|]]. vm_compute. reflexivity.
Qed.
Print Assumptions C10_struct_alignment_pow2.

(* ---- non-vacuity: a schema with imports (with and without as-name), nesting, aliases, arrays,
   a name prefix and an alignment option satisfies [wf], [pre] and every guard, and every check
   of the model passes for every target ---- *)
Example C10_hypotheses_satisfiable :
  wf ok_schema = true /\ all_guards ok_schema 0 = true /\
  forallb (fun t => Z.eqb (verdict ok_schema 0 t []) 0) all_targets = true.
Proof. exact ok_schema_ok. Qed.
