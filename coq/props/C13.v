(* C13 — Constants evaluate arithmetically and reach every target language intact.
   Only statements, each closed by [exact] of a lemma proved in theories/Const*Proofs.v, followed
   by Print Assumptions; plus Examples showing the hypotheses are satisfiable.

   eval_tokens / run_stmt are the MODEL of the parser (driven by Parser.precedence, the semantic
   actions, the literal bases and escaping_chars translated from the source on every run);
   denote / pretty / the per-language readers are the SPECIFICATION side. *)
From Coq Require Import ZArith List Bool String.
From BPGen Require Import GenC13.
From BP Require Import ConstLit ConstLitProofs ConstExpr ConstExprProofs.
Import ListNotations.
Open Scope list_scope.
Open Scope Z_scope.

(* ---- evaluation ---------------------------------------------------------------------- *)

(* For every expression tree and environment: evaluating the tokens [pretty] prints (only the
   parentheses that standard precedence and left associativity need) gives ordinary arithmetic —
   * and / bind tighter than + and -, left associativity, parentheses group, / is floor division,
   decimal and hexadecimal literals denote their values, a reference denotes the earlier constant.
   Every error outcome agrees as well: undefined / non-integer reference, and a zero divisor is
   the diagnosed error EDivisionByZero (the DIVIDE action raises CalculationExpressionError:
   divide_guard, translated from the source, is true). *)
Theorem C13_parse_eval : forall E e, eval_tokens E (pretty e) = denote e E.
Proof. exact parse_eval_all. Qed.
Print Assumptions C13_parse_eval.

(* the same statement whatever the DIVIDE action does on a zero divisor (crashify is the
   identity when divide_guard = true); kept because it is what the proof goes through *)
Theorem C13_parse_eval_exact : forall E e, eval_tokens E (pretty e) = crashify (denote e E).
Proof. exact eval_pretty. Qed.
Print Assumptions C13_parse_eval_exact.

(* 1 / 0 is a diagnosed error, in the specification and in the model of the parser *)
Theorem C13_div_zero_diagnosed :
  denote (EBin ODivide (EDec 1) (EDec 0)) [] = Err EDivisionByZero /\
  eval_tokens [] (pretty (EBin ODivide (EDec 1) (EDec 0))) = Err EDivisionByZero.
Proof. exact div_zero_diagnosed. Qed.
Print Assumptions C13_div_zero_diagnosed.

(* the evaluated value is the one used for array capacities and option values, also after any
   number of further declarations *)
Theorem C13_used_for_caps_and_options : forall done st x e v ss st'',
  lookup x (own st) = None -> denote e (visible st) = Ok v ->
  exists st', run_stmt done st (SConst x (RCalc (pretty e))) = Ok st' /\
    (run_stmts done st' ss = Ok st'' ->
       cap_value (visible st'') (URef x) = Ok (VInt v) /\
       opt_value (visible st'') (URef x) = Ok (VInt v)).
Proof. exact used_for_caps_and_options. Qed.
Print Assumptions C13_used_for_caps_and_options.

(* the grammar rules and pass-through actions the evaluator stands for are the ones in
   grammars.py / parser.py *)
Theorem C13_grammar_as_modelled :
  grammar_eqb grammar expected_grammar = true /\ passthrough_eqb passthrough expected_passthrough = true.
Proof. exact grammar_as_modelled. Qed.
Print Assumptions C13_grammar_as_modelled.

(* ---- integer and boolean literals ------------------------------------------------------- *)

Theorem C13_int_literal_c : forall z, in_range_c z -> read_int LC (format_int LC z) = Some z.
Proof. exact int_literal_c. Qed.
Print Assumptions C13_int_literal_c.

Theorem C13_int_literal_go : forall bits z, in_range_go bits z ->
  go_read_int bits (format_int LGo z) = Some z.
Proof. exact int_literal_go. Qed.
Print Assumptions C13_int_literal_go.

Theorem C13_int_literal_py : forall z, in_range_py z -> read_int LPy (format_int LPy z) = Some z.
Proof. exact int_literal_py. Qed.
Print Assumptions C13_int_literal_py.

(* outside the ranges the statement is false: 2^63 written as a decimal literal has no exact
   meaning as a C constant (gcc: "so large that it is unsigned") and overflows Go's int *)
Theorem C13_int_literal_out_of_range_refuted :
  read_int LC (format_int LC (2 ^ 63)) = None /\ read_int LGo (format_int LGo (2 ^ 63)) = None.
Proof. exact (conj int_literal_c_out_of_range int_literal_go_out_of_range). Qed.
Print Assumptions C13_int_literal_out_of_range_refuted.

Theorem C13_bool_literal : forall l b, read_bool l (format_bool l b) = Some b.
Proof. exact bool_literal. Qed.
Print Assumptions C13_bool_literal.

(* ---- string literals ---------------------------------------------------------------------- *)

(* every string is declarable: the lexer's escape loop returns v on the canonical spelling of v,
   which lies in the token's regular language *)
Theorem C13_string_declarable : forall v,
  unescape (src_escape v) [] = LexOk v /\ lexable (src_escape v) = true.
Proof. exact (fun v => conj (string_declarable v) (src_escape_lexable v)). Qed.
Print Assumptions C13_string_declarable.

(* the supported escapes and the boolean spellings mean what they conventionally mean: the lexer's
   escape loop (with the translated Lexer.escaping_chars) is the loop over the standard table
   (t TAB, r CR, n LF; backslash, single and double quote stand for themselves); true / yes are true,
   false / no are false *)
Theorem C13_escapes_standard : forall raw,
  lex_string raw = match spec_unescape raw [] with
                   | LexOk v => Ok (VStr v)
                   | LexInvalidEscape => Err EInvalidEscape
                   | LexIndexError => Err ECrashIndex
                   end.
Proof. exact lex_string_standard. Qed.
Print Assumptions C13_escapes_standard.

Theorem C13_bool_spellings : forall sp,
  lex_bool sp = match spec_bool sp with Some b => Ok (VBool b) | None => Err EGrammar end.
Proof. exact bool_spellings_standard. Qed.
Print Assumptions C13_bool_spellings.

(* the escaping helper of the formatters (table, control-character rule and prefix translated from
   Formatter.escape_str_value; the three format_str_value call it) is the standard escaping *)
Theorem C13_escaping_standard : forall l s, format_str l s = format_str_fixed s.
Proof. exact format_str_is_fixed. Qed.
Print Assumptions C13_escaping_standard.

(* every string constant is emitted into C, Go and Python as a literal that the language reads
   back as exactly the declared value — for ALL strings (codes >= 0; bytes >= 128 pass through) *)
Theorem C13_string_literal : forall l s, Forall (fun c => 0 <= c) s ->
  read_string l (format_str l s) = RdOk s.
Proof. exact string_literal. Qed.
Print Assumptions C13_string_literal.

(* ---- non-vacuity ------------------------------------------------------------------------ *)

Definition ex_env : env := [("lib.LA"%string, VInt 7); ("A"%string, VInt 38)].
Definition ex_e : expr :=
  EBin OTimes (EBin OPlus (EDec 1) (EHex 31))
              (EBin ODivide (EBin OMinus (ERef "A") (EBin OMinus (EDec 100) (EDec 2)))
                            (EBin OMinus (EDec 1) (ERef "lib.LA"))).
Example C13_parse_eval_nonvacuous :
  denote ex_e ex_env = Ok 320 /\ eval_tokens ex_env (pretty ex_e) = Ok 320 /\
  List.length (pretty ex_e) = 23%nat.
Proof. vm_compute. repeat split; reflexivity. Qed.

Example C13_used_nonvacuous :
  run_files [] [[SConst "LA" (RCalc [TInt [55]])];
                [SImport "lib" 0; SConst "A" (RCalc (pretty (EBin OTimes (ERef "lib.LA") (EDec 2))));
                 SConst "S" (RStr [104; 92; 110]); SCap (URef "A"); SOpt (URef "lib.LA")]]
  = [Ok ([("LA"%string, VInt 7)], []);
     Ok ([("A"%string, VInt 14); ("S"%string, VStr [104; 10])], [VInt 14; VInt 7])].
Proof. vm_compute. reflexivity. Qed.

Example C13_int_ranges_nonvacuous :
  in_range_c (- (2 ^ 63 - 1)) /\ in_range_go 64 (- 2 ^ 63) /\ in_range_py (10 ^ 4300 - 1).
Proof.
  unfold in_range_c, in_range_go, in_range_py, c_llong_max, py_max_str_digits.
  refine (conj (conj _ _) (conj (conj _ _) _)); vm_compute; (reflexivity || discriminate).
Qed.

Example C13_literals_nonvacuous :
  read_int LC (format_int LC (- (2 ^ 63 - 1))) = Some (- (2 ^ 63 - 1)) /\
  read_int LC (format_int LC (2 ^ 63)) = None /\
  read_int LPy (format_int LPy (- 10 ^ 50)) = Some (- 10 ^ 50) /\
  read_string LPy (format_str LPy [104; 105; 9; 39; 195; 169]) = RdOk [104; 105; 9; 39; 195; 169].
Proof. vm_compute. repeat split; reflexivity. Qed.

Example C13_string_examples :
  let v := [97; 34; 98; 92; 99; 10; 13; 9; 0; 127; 195; 169] in
  format_str LC v = [34; 97; 92; 34; 98; 92; 92; 99; 92; 110; 92; 114; 92; 116; 92; 48; 48; 48;
                     92; 49; 55; 55; 195; 169; 34] /\
  read_string LC (format_str LC v) = RdOk v /\ read_string LGo (format_str LGo v) = RdOk v /\
  read_string LPy (format_str LPy v) = RdOk v.
Proof. vm_compute. repeat split; reflexivity. Qed.

(* why the escaping is needed: the same values written verbatim between quotes (what the
   formatters did before commit 2f32229) are rejected or read as other strings *)
Example C13_verbatim_would_fail :
  read_string LPy (34 :: [97; 92; 98] ++ [34]) = RdOk [97; 8] /\
  read_string LC (34 :: [97; 92; 10; 98] ++ [34]) = RdOk [97; 98] /\
  read_string LC (34 :: [34; 34] ++ [34]) = RdOk [] /\
  read_string LGo (34 :: [97; 10; 98] ++ [34]) = RdErr /\
  read_string LPy (34 :: [97; 13; 98] ++ [34]) = RdErr.
Proof. vm_compute. repeat split; reflexivity. Qed.
