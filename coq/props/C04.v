(* C04 — placeholder while the harness is being built *)
From Coq Require Import ZArith List Bool.
From BP Require Import Bits Schema Spec OpMode.
