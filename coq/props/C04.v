(* C04 — optimization mode (-O) changes how, never what, is encoded (C and Go).
   Only statements, each closed by [exact] of a lemma proved elsewhere, followed by
   Print Assumptions; plus Examples showing the hypotheses are satisfiable.

   Reading guide.  [stmts L enc t] is the statement list the formatter emits for Encode/Decode of
   message type t in target L (CLE: C byte-pointer statements, CBE: C value-based statements, GO);
   its generator (OpMode.leaves / plan_loop / item / post) imports the loop step, masks, shifts and
   constants from BPGen.GenOpMode, which is re-translated from the compiler on every run, and is
   compared statement by statement with the emitted code of every generated schema (tie T1).
   [run_encode l t v] executes l under the C resp. Go semantics of OpMode.exec on the struct memory
   [store (norm t) v] and a zeroed buffer of [nbytes t] bytes; [run_decode l t s] executes l on
   buffer s and a zeroed struct.  "What standard mode produces" is Spec.wire. *)
From Coq Require Import ZArith List Bool.
From BP Require Import Bits Schema Spec OpMode OpModeStep OpModeLeaf OpModeLeafDec OpModeList OpModeProofs.
Import ListNotations.
Open Scope Z_scope.

(* ---- C, --endian little (and the default output without BP_BIG_ENDIAN) ---- *)
Theorem C04_c_le_enc : forall t v,
  opmode_ok (norm t) = true -> wf (norm t) = true -> has_ty (norm t) v = true ->
  run_encode (c_le_body true t) t v = Some (wire t v).
Proof. exact c_le_encode. Qed.
Print Assumptions C04_c_le_enc.

Theorem C04_c_le_dec : forall t v,
  opmode_ok (norm t) = true -> wf (norm t) = true -> has_ty (norm t) v = true ->
  run_decode (c_le_body false t) t (wire t v) = Some (store (norm t) v).
Proof. exact c_le_decode. Qed.
Print Assumptions C04_c_le_dec.

(* ---- C, --endian big (and the default output with BP_BIG_ENDIAN): memset + value statements ---- *)
Theorem C04_c_be_enc : forall t v,
  opmode_ok (norm t) = true -> wf (norm t) = true -> has_ty (norm t) v = true ->
  run_encode (c_be_body true t) t v = Some (wire t v).
Proof. exact c_be_encode. Qed.
Print Assumptions C04_c_be_enc.

Theorem C04_c_be_dec : forall t v,
  opmode_ok (norm t) = true -> wf (norm t) = true -> has_ty (norm t) v = true ->
  run_decode (c_be_body false t) t (wire t v) = Some (store (norm t) v).
Proof. exact c_be_decode. Qed.
Print Assumptions C04_c_be_dec.

(* ---- Go (statement semantics modelled, never executed) ---- *)
Theorem C04_go_enc : forall t v,
  opmode_ok (norm t) = true -> wf (norm t) = true -> has_ty (norm t) v = true ->
  run_encode (go_body true t) t v = Some (wire t v).
Proof. exact go_encode. Qed.
Print Assumptions C04_go_enc.

Theorem C04_go_dec : forall t v,
  opmode_ok (norm t) = true -> wf (norm t) = true -> has_ty (norm t) v = true ->
  run_decode (go_body false t) t (wire t v) = Some (store (norm t) v).
Proof. exact go_decode. Qed.
Print Assumptions C04_go_dec.

(* ---- every --endian setting x BP_BIG_ENDIAN defined or not selects a branch with that result ---- *)
Theorem C04_endian_select : forall t v,
  opmode_ok (norm t) = true -> wf (norm t) = true -> has_ty (norm t) v = true ->
  forall (e : endian) (macro_defined : bool),
  run_encode (select macro_defined (c_body e true t)) t v = Some (wire t v) /\
  run_decode (select macro_defined (c_body e false t)) t (wire t v) = Some (store (norm t) v).
Proof. exact endian_select. Qed.
Print Assumptions C04_endian_select.

(* which statements each setting compiles: little -> byte-pointer; big -> value-based;
   both -> byte-pointer unless BP_BIG_ENDIAN is defined *)
Theorem C04_endian_branch : forall e m enc t,
  select m (c_body e enc t) =
  match branch_of e m with CBE => c_be_body enc t | _ => c_le_body enc t end.
Proof. exact select_branch. Qed.
Print Assumptions C04_endian_branch.

(* ---- one scalar field at an arbitrary bit offset (also the op-mode part of C14): all widths
   1..64, all storage sizes, bool/byte/uint/int/enum, aliased or not, every offset i0, every
   object content u, every language ---- *)
Theorem C04_single_field_enc : forall L lf ch M u i0 s,
  leaf_ok lf -> pat_ok lf u -> mem_get M ch = Some (mkcell (leaf_cty lf) u) ->
  0 <= i0 -> bytes_ok s -> 0 <= bufZ s < 2 ^ i0 ->
  i0 + leaf_bits lf <= 8 * Z.of_nat (length s) ->
  exists s',
    run (leaf_stmts L true (ch, lf) i0) (mkst s M) = Some (mkst s' M) /\
    bytes_ok s' /\ length s' = length s /\
    bufZ s' = bufZ s + 2 ^ i0 * (u mod 2 ^ leaf_bits lf).
Proof. exact leaf_encode. Qed.
Print Assumptions C04_single_field_enc.

Theorem C04_single_field_dec : forall L lf ch M0 S i0,
  leaf_ok lf -> mem_get M0 ch = Some (mkcell (leaf_cty lf) 0) ->
  0 <= i0 -> bytes_ok S -> i0 + leaf_bits lf <= 8 * Z.of_nat (length S) ->
  run (leaf_stmts L false (ch, lf) i0) (mkst S M0) =
  Some (mkst S (mem_set M0 ch (dec_pat lf (bufZ S / 2 ^ i0)))).
Proof. exact leaf_decode. Qed.
Print Assumptions C04_single_field_dec.

(* what the decoder rebuilds from the field's own bits is the stored pattern of the value *)
Theorem C04_single_field_value : forall lf v X,
  cell_ty_ok (lf, v) ->
  X mod 2 ^ leaf_bits lf = leaf_pat lf v mod 2 ^ leaf_bits lf ->
  dec_pat lf X = leaf_pat lf v.
Proof. exact dec_pat_ok. Qed.
Print Assumptions C04_single_field_value.

(* ---- "the same field values": the stored pattern read at its declared type is the value ---- *)
Theorem C04_store_is_value : forall lf v,
  cell_ty_ok (lf, v) ->
  sval (leaf_cty lf) (leaf_pat lf v) =
  match lk lf with KBool => (match v with VB true => 1 | _ => 0 end) | _ => zof v end.
Proof. exact store_value. Qed.
Print Assumptions C04_store_is_value.

Theorem C04_store_in_range : forall t v,
  wf (norm t) = true -> opmode_ok (norm t) = true -> has_ty (norm t) v = true ->
  Forall cell_ty_ok (map snd (cells (norm t) v)).
Proof. exact store_cells_ok. Qed.
Print Assumptions C04_store_in_range.

(* ---- the statement list is the plan: the emitted statements mention the leaves of the sorted
   message in order, and struct memory has one object per leaf with pairwise distinct chains ---- *)
Theorem C04_leaves_of_store : forall t v, map lview (cells t v) = leaves t.
Proof. exact cells_leaves. Qed.
Print Assumptions C04_leaves_of_store.

Theorem C04_chains_distinct : forall t v, wf t = true -> NoDup (map fst (cells t v)).
Proof. exact cells_nodup. Qed.
Print Assumptions C04_chains_distinct.

(* ---- non-vacuity: a nested, aliased, permuted traditional schema meets every hypothesis and
   all six runs compute to the stated results ---- *)
Definition ex_inner : ty := TMsg false [(2, TUint 5); (1, TBool)].
Definition ex_t : ty :=
  TMsg false [ (11, TAlias (TArr false 2 (TInt 5)));
               (1, TEnum 3 [0; 5]);
               (2, TAlias (TInt 13));
               (5, ex_inner);
               (7, TArr false 2 TByte);
               (10, TAlias TBool);
               (14, TArr false 2 ex_inner);
               (12, TInt 63);
               (9, TUint 24) ].
Definition ex_v : val :=
  VM [ (11, VL [VZ (-3); VZ 7]); (1, VZ 5); (2, VZ (-171));
       (5, VM [(2, VZ 19); (1, VB true)]); (7, VL [VZ 255; VZ 1]); (10, VB true);
       (14, VL [VM [(2, VZ 1); (1, VB false)]; VM [(2, VZ 31); (1, VB true)]]);
       (12, VZ (-12345678901234)); (9, VZ 11259375) ].

Example C04_nonvacuous :
  opmode_ok (norm ex_t) = true /\ wf (norm ex_t) = true /\ has_ty (norm ex_t) ex_v = true /\
  length (wire ex_t ex_v) = 19%nat /\
  run_encode (c_le_body true ex_t) ex_t ex_v = Some (wire ex_t ex_v) /\
  run_encode (c_be_body true ex_t) ex_t ex_v = Some (wire ex_t ex_v) /\
  run_encode (go_body true ex_t) ex_t ex_v = Some (wire ex_t ex_v) /\
  run_decode (c_le_body false ex_t) ex_t (wire ex_t ex_v) = Some (store (norm ex_t) ex_v) /\
  run_decode (c_be_body false ex_t) ex_t (wire ex_t ex_v) = Some (store (norm ex_t) ex_v) /\
  run_decode (go_body false ex_t) ex_t (wire ex_t ex_v) = Some (store (norm ex_t) ex_v) /\
  length (stmts CLE false ex_t) = 45%nat.
Proof. vm_compute. repeat split; reflexivity. Qed.

(* the single-field hypotheses are satisfiable: int13 at bit offset 5 *)
Example C04_single_nonvacuous :
  let lf := mkleaf (KInt 13) true in
  leaf_ok lf /\ pat_ok lf 65365 /\ cell_ty_ok (lf, VZ (-171)) /\ leaf_pat lf (VZ (-171)) = 65365 /\
  run (leaf_stmts CBE true ([SF 2], lf) 5) (mkst [21; 0; 0] [([SF 2], mkcell (CS 16) 65365)]) =
    Some (mkst [181; 234; 3] [([SF 2], mkcell (CS 16) 65365)]) /\
  run (leaf_stmts GO false ([SF 2], lf) 5) (mkst [181; 234; 3] [([SF 2], mkcell (CS 16) 0)]) =
    Some (mkst [181; 234; 3] [([SF 2], mkcell (CS 16) 65365)]).
Proof. vm_compute. repeat split; try reflexivity; try (intro; discriminate). Qed.

(* ---- optimization mode = standard mode: the emitted -O statements (C byte-pointer, C
   value-based, Go) and the C runtime driven by the standard-mode descriptors (C03) produce the
   same bytes, and all four decoders turn those bytes back into the stored value ---- *)
From BP Require OpModeStd CMem CRt CTop.

Theorem C04_eq_standard_enc : forall t v,
  OpMode.opmode_ok (norm t) = true -> CTop.c_schema t -> has_ty (norm t) v = true ->
  exists bs,
    OpMode.run_encode (OpMode.c_le_body true t) t v = Some bs /\
    OpMode.run_encode (OpMode.c_be_body true t) t v = Some bs /\
    OpMode.run_encode (OpMode.go_body true t) t v = Some bs /\
    CRt.c_encode_ty CMem.LE CMem.LE t (CRt.store CMem.LE (norm t) v) = CMem.COk bs.
Proof. exact OpModeStd.opmode_eq_standard_enc. Qed.
Print Assumptions C04_eq_standard_enc.

Theorem C04_eq_standard_dec : forall t v,
  OpMode.opmode_ok (norm t) = true -> CTop.c_schema t -> has_ty (norm t) v = true ->
  forall bs, CRt.c_encode_ty CMem.LE CMem.LE t (CRt.store CMem.LE (norm t) v) = CMem.COk bs ->
    OpMode.run_decode (OpMode.c_le_body false t) t bs = Some (OpMode.store (norm t) v) /\
    OpMode.run_decode (OpMode.c_be_body false t) t bs = Some (OpMode.store (norm t) v) /\
    OpMode.run_decode (OpMode.go_body false t) t bs = Some (OpMode.store (norm t) v) /\
    CRt.c_decode_ty CMem.LE CMem.LE t bs = CMem.COk (CRt.store CMem.LE (norm t) v).
Proof. exact OpModeStd.opmode_eq_standard_dec. Qed.
Print Assumptions C04_eq_standard_dec.
