(* C09_lex.v — C09 (compilation is total), TEXT LEVEL: the tokenizer (bitproto.lexer.Lexer driven by
   ply.lex.Lexer.token, modelled in coq/theories/Lex.v from the generated coq/gen/GenLexer.v)
   terminates on EVERY input string — any sequence of code points, for every word-character
   table uw — with a complete token list or exactly one exception. *)
From Coq Require Import String NArith ZArith List Bool.
From BP Require Import TotalBase LexBase Lex LexSpec LexCase LexProofs.
From BPGen Require Import GenLexer.
Import ListNotations.

(* every rule of the master regex consumes: no rule can match the empty string, and every
   repeated sub-expression consumes (so sre's empty-iteration rules never matter) *)
Theorem C09_lex_rules_consume :
  forallb (fun r => consumes (r_rx r) && rx_wf (r_rx r)) lex_rules = true.
Proof. vm_compute. reflexivity. Qed.
Print Assumptions C09_lex_rules_consume.

Theorem C09_lex_rule_progress : forall uw fuel r s s',
  In r lex_rules -> In s' (mres uw fuel (r_rx r) s) -> (length (snd s') < length (snd s))%nat.
Proof. exact rule_progress. Qed.
Print Assumptions C09_lex_rule_progress.

(* the token loop never runs out of fuel |s| + 1: it ends with None (LDone), the LexerError of
   t_error, a ParserError raised by a rule body, or an exception of a rule body *)
Theorem C09_lex_terminates : forall uw s, snd (fst (lex_run uw s)) <> LFuel.
Proof. exact lex_terminates. Qed.
Print Assumptions C09_lex_terminates.

(* the lexeme handed to a rule body is in the language of the rule's regex *)
Theorem C09_lex_lexeme_in_language : forall uw fuel s r s',
  first_rule uw fuel lex_rules s = Some (r, s') ->
  In r lex_rules /\ exists w, snd s = w ++ snd s' /\ fst s' = lastc (fst s) w /\ dm uw (r_rx r) (fst s) w (snd s').
Proof. exact chosen_lexeme_in_language. Qed.
Print Assumptions C09_lex_lexeme_in_language.

(* non-vacuity: a text with every kind of token; an unterminated string; a bad width *)
Example C09_lex_nonvacuous :
  snd (lex uni_word [117;105;110;116;56;32;120;61;34;97;92;34;98;34;47;47;99;10;48;120;49;70]%N) = LDone
  /\ length (fst (lex uni_word [117;105;110;116;56;32;120;61;34;97;92;34;98;34;47;47;99;10;48;120;49;70]%N)) = 7%nat
  /\ lex uni_word [34;97;98;99]%N = ([], LError "LexerError" 34%N 1%Z)
  /\ snd (lex uni_word [105;110;116;48]%N) = LActErr "InvalidIntCap" 1%Z.
Proof. vm_compute. repeat split. Qed.
