(* C09_lex.v — C09 (compilation is total), TEXT LEVEL: the tokenizer (bitproto.lexer.Lexer driven by
   ply.lex.Lexer.token, modelled in coq/theories/Lex.v from the generated coq/gen/GenLexer.v)
   terminates on EVERY input string — any sequence of code points, for every word-character
   table uw — with a complete token list or exactly one exception. *)
From Coq Require Import String NArith ZArith List Bool.
From BP Require Import Re TotalBase LexBase Lex LexSpec LexCase LexProofs LexActions LexRe.
From BPGen Require Import GenLexer.
Import ListNotations.

(* every rule of the master regex consumes: no rule can match the empty string, and every
   repeated sub-expression consumes (so sre's empty-iteration rules never matter) *)
Theorem C09_lex_rules_consume :
  forallb (fun r => consumes (r_rx r) && rx_wf (r_rx r)) lex_rules = true.
Proof. vm_compute. reflexivity. Qed.
Print Assumptions C09_lex_rules_consume.

Theorem C09_lex_rule_progress : forall uw fuel r s s',
  In r lex_rules -> In s' (mres uw fuel (r_rx r) s) -> (length (snd s') < length (snd s))%nat.
Proof. exact rule_progress. Qed.
Print Assumptions C09_lex_rule_progress.

(* the token loop never runs out of fuel |s| + 1: it ends with None (LDone), the LexerError of
   t_error, a ParserError raised by a rule body, or an exception of a rule body *)
Theorem C09_lex_terminates : forall uw s, snd (fst (lex_run uw s)) <> LFuel.
Proof. exact lex_terminates. Qed.
Print Assumptions C09_lex_terminates.

(* the lexeme handed to a rule body is in the language of the rule's regex *)
Theorem C09_lex_lexeme_in_language : forall uw fuel s r s',
  first_rule uw fuel lex_rules s = Some (r, s') ->
  In r lex_rules /\ exists w, snd s = w ++ snd s' /\ fst s' = lastc (fst s) w /\ dm uw (r_rx r) (fst s) w (snd s').
Proof. exact chosen_lexeme_in_language. Qed.
Print Assumptions C09_lex_lexeme_in_language.

(* how a run can end, for EVERY input: token() returns None (LDone); t_error raises its LexerError; a
   rule body raises one of three ParserErrors (width outside 1..64, unknown escape); or — the exact
   guard, known finding huge-literal — int() raises ValueError at a run of more than 4300 DECIMAL
   digits (a literal, or the width after uint / int).  Nothing else: no IndexError / KeyError in the
   escape loop, no ValueError from int() on a hex literal, never out of fuel. *)
Theorem C09_lex_end_good : forall uw s its e rem,
  lex_run uw s = (its, e, rem) ->
  match e with
  | LDone | LError _ _ _ => True
  | LActErr k _ => In k ["InvalidUintCap"; "InvalidIntCap"; "InvalidEscapingChar"]%string
  | LCrash ex => ex = ValueError /\
      exists pre ds post, rem = pre ++ ds ++ post /\ (pre = [] \/ pre = W_uint \/ pre = W_int)
                          /\ forallb dig10 ds = true /\ (py_int_max_str_digits < zlen ds)%Z
  | LFuel => False
  end.
Proof. exact lex_end_good. Qed.
Print Assumptions C09_lex_end_good.

(* every rule body is total on every lexeme its regex admits (same guard) *)
Theorem C09_lex_action_total : forall uw r p w post line,
  In r lex_rules -> dm uw (r_rx r) p w post ->
  act_good (run_action (r_name r) (r_act r) w line) w post.
Proof. exact action_good. Qed.
Print Assumptions C09_lex_action_total.

(* the escape loop on a STRING_LITERAL lexeme: a value or InvalidEscapingChar, never an exception *)
Theorem C09_lex_unescape_total : forall uw p w post,
  dm uw rx_t_STRING_LITERAL p w post ->
  (exists v, unescape_token w = Ok v) \/ unescape_token w = ParserError "InvalidEscapingChar"%string.
Proof. exact unescape_total. Qed.
Print Assumptions C09_lex_unescape_total.

(* the guard is needed: 4301 digits crash, 4300 do not (known finding huge-literal) *)
Theorem C09_lex_huge_literal_refuted : forall uw,
  snd (lex uw (repeat 49%N 4301)) = LCrash ValueError /\ snd (lex uw (repeat 49%N 4300)) = LDone.
Proof. exact huge_literal_witness. Qed.
Print Assumptions C09_lex_huge_literal_refuted.

(* bridge to the declarative semantics of Re.v: every Latin-1 lexeme the backtracking matcher can choose for a
   rule is in the language (Re.matches) of the rule's regex with \b and laziness erased; for the rules the C09
   module translates, the erased regex is syntactically the term of coq/gen/GenC09.v *)
Theorem C09_lex_lexeme_matches : forall uw r p w post,
  dm uw r p w post -> Forall (fun c => (c < 256)%N) w -> matches (erase r) (map Ascii.ascii_of_N w).
Proof. exact dm_matches. Qed.
Print Assumptions C09_lex_lexeme_matches.

Theorem C09_lex_same_regexes_as_GenC09 :
  erase rx_t_STRING_LITERAL = BPGen.GenC09.string_literal_re
  /\ erase rx_t_INT_LITERAL = BPGen.GenC09.int_literal_re
  /\ erase rx_t_HEX_LITERAL = BPGen.GenC09.hex_literal_re.
Proof. repeat split. Qed.
Print Assumptions C09_lex_same_regexes_as_GenC09.

(* non-vacuity: a text with every kind of token; an unterminated string; a bad width *)
Example C09_lex_nonvacuous :
  snd (lex uni_word [117;105;110;116;56;32;120;61;34;97;92;34;98;34;47;47;99;10;48;120;49;70]%N) = LDone
  /\ length (fst (lex uni_word [117;105;110;116;56;32;120;61;34;97;92;34;98;34;47;47;99;10;48;120;49;70]%N)) = 7%nat
  /\ lex uni_word [34;97;98;99]%N = ([], LError "LexerError" 34%N 1%Z)
  /\ snd (lex uni_word [105;110;116;48]%N) = LActErr "InvalidIntCap" 1%Z.
Proof. vm_compute. repeat split. Qed.
