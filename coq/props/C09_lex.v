(* C09_lex.v — text level (tokenizer) theorems of C09; see coq/theories/Lex*.v *)
From Coq Require Import String NArith ZArith List Bool.
From BP Require Import TotalBase LexBase Lex LexSpec.
From BPGen Require Import GenLexer.
Import ListNotations.

Theorem C09_lex_rules_consume : forallb (fun r => consumes (r_rx r) && rx_wf (r_rx r)) lex_rules = true.
Proof. vm_compute. reflexivity. Qed.
Print Assumptions C09_lex_rules_consume.
