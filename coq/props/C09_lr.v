(* C09 at the SYNTAX level: ply's LR driver on the tables built from /repo's grammar never raises
   IndexError / KeyError (only bitproto's GrammarError via p_error) and never hangs: on every
   token sequence it stops within an explicit number of iterations. *)
From Coq Require Import List Arith Bool.
From BP Require Import LR LRProofs LRConcrete.
From BPGen Require Import GenLR.
Import ListNotations.

(* generic *)
Theorem C09_lr_safe : forall G TB H, validate G TB H = true ->
  forall fuel ts e rs, lr_run TB fuel ts <> Crash e rs.
Proof. exact lr_safe. Qed.
Print Assumptions C09_lr_safe.

Theorem C09_lr_terminates : forall G TB H, validate G TB H = true ->
  forall RT nterm W R, validate_rank TB H RT nterm W R = true ->
  forall ts, lr_run TB (lr_bound W R (length ts)) ts <> OutOfFuel.
Proof. exact lr_terminates. Qed.
Print Assumptions C09_lr_terminates.

(* per-run obligations *)
Theorem C09_lr_tables_valid : validate grammar tables hints = true.
Proof. exact tables_valid. Qed.
Print Assumptions C09_lr_tables_valid.

Theorem C09_lr_ranking_valid : validate_rank tables hints rank_tab n_terms rank_weight rank_bound = true.
Proof. exact ranking_valid. Qed.
Print Assumptions C09_lr_ranking_valid.

(* the current tables: no crash with any fuel; with fuel linear in the input never out of fuel;
   the outcome is accept or a syntax error *)
Theorem C09_lr_no_crash : forall fuel ts e rs, lr_run tables fuel ts <> Crash e rs.
Proof. exact no_crash. Qed.
Print Assumptions C09_lr_no_crash.

Theorem C09_lr_never_hangs : forall ts, lr_run tables (fuel_for (length ts)) ts <> OutOfFuel.
Proof. exact terminates. Qed.
Print Assumptions C09_lr_never_hangs.

Theorem C09_lr_total : forall ts,
  (exists rs, parse ts = Accept rs) \/ (exists idx tok rs, parse ts = SyntaxError idx tok rs).
Proof. exact total. Qed.
Print Assumptions C09_lr_total.

Example C09_lr_bound_is_linear : fuel_for 100 = (rank_bound + rank_weight) * 101 + 1.
Proof. reflexivity. Qed.

Example C09_lr_example : exists idx tok rs, parse [3; 3; 3] = SyntaxError idx tok rs.
Proof. do 3 eexists. vm_compute. reflexivity. Qed.
