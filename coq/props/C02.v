From Coq Require Import ZArith List Bool.
From BP Require Import Bits Schema Spec PyRt.
