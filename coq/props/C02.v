(* C02 — Python decode(encode(v)) == v, and re-encoding reproduces the bytes. *)
From Coq Require Import ZArith List Bool.
From BP Require Import Bits Schema Spec PyRt Eqb PyEncTop PyDecLeaf PyDecProofs PyDecTop.
Import ListNotations.
Open Scope Z_scope.

(* encode, decode into a fresh message, compare field by field, re-encode: all four steps
   succeed (no exception) and agree, for every schema tree and every in-range value.
   [dec_guard] excludes exactly the known finding enum-default (an enum whose first declared
   member is not 0), see C02_enum_default_refuted. *)
Theorem C02_roundtrip : forall t v,
  PyEncTop.is_msg t = true -> wf (norm t) = true -> dec_guard (norm t) = true ->
  has_ty (norm t) v = true ->
  exists b v',
    py_encode t v = Ok b /\ py_decode t b = Ok v' /\
    val_sim (norm t) v' v = true /\ py_encode t v' = Ok b.
Proof. exact roundtrip_all. Qed.
Print Assumptions C02_roundtrip.

(* the decoder returns exactly the value, fields in schema order *)
Theorem C02_decode_wire : forall t v,
  PyEncTop.is_msg t = true -> wf (norm t) = true -> dec_guard (norm t) = true ->
  has_ty (norm t) v = true ->
  py_decode t (wire t v) = Ok (canon (norm t) v).
Proof. exact py_decode_wire. Qed.
Print Assumptions C02_decode_wire.

(* sign handling for every width: reading back the n low bits of an in-range signed value
   and sign-extending gives the value *)
Theorem C02_sign : forall n z,
  1 <= n -> - 2 ^ (n - 1) <= z < 2 ^ (n - 1) -> sext' n (z mod 2 ^ n) = z.
Proof. exact sext'_mod. Qed.
Print Assumptions C02_sign.

(* the excluded region is a genuine defect of the current tree (known finding enum-default) *)
Theorem C02_enum_default_refuted :
  exists t v, PyEncTop.is_msg t = true /\ wf (norm t) = true /\ has_ty (norm t) v = true /\
              dec_guard (norm t) = false /\
              py_decode t (wire t v) = Ok (VM [(1, VZ 1)]) /\ v = VM [(1, VZ 0)].
Proof. exact enum_default_refuted. Qed.
Print Assumptions C02_enum_default_refuted.

(* non-vacuity *)
Definition ex_t : ty :=
  TMsg true [ (3, TAlias (TArr true 10 (TUint 3)));
              (1, TEnum 12 [0; 300; 4095]);
              (2, TAlias (TInt 13));
              (5, TMsg true [(2, TInt 64); (1, TBool)]);
              (7, TArr false 2 TByte);
              (8, TArr true 2 (TEnum 9 [0; 257]));
              (9, TInt 32) ].
Definition ex_v : val :=
  VM [ (3, VL [VZ 1; VZ 7; VZ 2; VZ 0; VZ 5; VZ 6; VZ 7; VZ 0; VZ 1; VZ 3]); (1, VZ 300); (2, VZ (-171));
       (5, VM [(2, VZ (-9223372036854775808)); (1, VB true)]); (7, VL [VZ 255; VZ 1]);
       (8, VL [VZ 257; VZ 0]); (9, VZ (-2)) ].
Example C02_nonvacuous :
  PyEncTop.is_msg ex_t = true /\ wf (norm ex_t) = true /\ dec_guard (norm ex_t) = true /\
  has_ty (norm ex_t) ex_v = true /\
  res_val_sim (norm ex_t) (py_decode ex_t (wire ex_t ex_v)) (Ok ex_v) = true.
Proof. vm_compute. repeat split; reflexivity. Qed.
