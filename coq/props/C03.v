(* C03 — C standard mode writes/reads the same bytes as the specification and Python.
   Only statements, each closed by [exact] of a lemma proved elsewhere, followed by
   Print Assumptions; plus Examples showing the hypotheses are satisfiable. *)
From Coq Require Import ZArith List Bool.
From BP Require Import Bits Schema Spec PyRt CMem CRt CCopyProofs CBaseProofs CEncProofs CDecProofs CBatchProofs CTop.
Import ListNotations.
Open Scope Z_scope.

(* BpCopyBufferBits (all five branches, either build) copies exactly bits [si, si+n) of the
   source to bits [di, di+n) of the destination and leaves every other destination bit as
   it was, under the precondition its callers establish (destination bits at and after the
   cursor are zero); it terminates within n iterations (1 <= c <= n each time: fuel n
   suffices) and performs no access outside the exact-size buffers.  [cfg_ok B E]: the word
   fast paths are compiled in only on a little-endian host. *)
Theorem C03_copy_bits : forall B E n dm dp sm sp di si,
  cfg_ok B E ->
  0 <= n -> bytes_ok dm -> bytes_ok sm -> 0 <= dp -> 0 <= sp -> 0 <= di -> 0 <= si ->
  0 <= bufZ dm < 2 ^ (8 * dp + di) ->
  8 * dp + di + n <= 8 * Z.of_nat (length dm) ->
  8 * sp + si + n <= 8 * Z.of_nat (length sm) ->
  exists dm',
    copy_bits B E (copy_fuel n) n dm dp sm sp di si = COk dm' /\
    length dm' = length dm /\ bytes_ok dm' /\
    forall k, 0 <= k ->
      Z.testbit (bufZ dm') k =
      if (8 * dp + di <=? k) && (k <? 8 * dp + di + n)
      then Z.testbit (bufZ sm) (8 * sp + si + (k - (8 * dp + di)))
      else Z.testbit (bufZ dm) k.
Proof. exact copy_bits_bits. Qed.
Print Assumptions C03_copy_bits.

Example C03_copy_nonvacuous :
  cfg_ok LE LE /\ cfg_ok BE BE /\ cfg_ok BE LE /\
  copy_bits LE LE (copy_fuel 45) 45 [5; 0; 0; 0; 0; 0; 0] 0 [171; 205; 239; 18; 52; 86; 120] 0 3 5
    = COk [109; 243; 187; 4; 141; 21; 0].
Proof.
  split; [intros _; reflexivity|]. split; [intros H; discriminate H|]. split; [intros H; discriminate H|].
  vm_compute. reflexivity.
Qed.

(* Encode<Msg> of the generated code over the runtime (model: descriptors of the renderer
   model, bitproto.c line by line, little-endian build and host) writes exactly Spec.wire,
   for every schema tree the compiler accepts and every in-range value laid out in storage
   as [store] does (two's complement in the storage width) *)
Theorem C03_encode : forall t v,
  c_schema t -> has_ty (norm t) v = true ->
  c_encode_ty LE LE t (store LE (norm t) v) = COk (wire t v).
Proof. exact c_encode_le. Qed.
Print Assumptions C03_encode.

(* hence the C encoder and the Python encoder (C01) emit the same bytes *)
Theorem C03_interop_encode : forall t v,
  c_schema t -> has_ty (norm t) v = true ->
  exists bs, c_encode_ty LE LE t (store LE (norm t) v) = COk bs /\ py_encode t v = Ok bs.
Proof. exact c_encode_eq_py_encode. Qed.
Print Assumptions C03_interop_encode.

(* Decode<Msg>, given the specified bytes and a zero-initialised struct, reconstructs exactly
   the stored value: every integer two's complement in its storage width, i.e. signed
   widths sign-extended *)
Theorem C03_decode : forall t v,
  c_schema t -> has_ty (norm t) v = true ->
  c_decode_ty LE LE t (wire t v) = COk (store LE (norm t) v).
Proof. exact c_decode_le. Qed.
Print Assumptions C03_decode.

(* a C peer decodes what a Python peer encoded (with C01) *)
Theorem C03_interop_decode : forall t v,
  c_schema t -> has_ty (norm t) v = true ->
  exists bs, py_encode t v = Ok bs /\ c_decode_ty LE LE t bs = COk (store LE (norm t) v).
Proof. exact c_decode_of_py_encode. Qed.
Print Assumptions C03_interop_decode.

(* the contiguous batch copy for arrays of 8/16/32/64-bit integers equals the per-element
   loop, in both directions *)
Theorem C03_batch_eq_loop_encode : forall ext cap e o x,
  wf (TArr ext cap e) = true -> cwf (TArr ext cap e) = true ->
  batch_pred LE (nbits e) (d_flag (render e)) (d_to_flag (render e)) = true ->
  shape_ok (TArr ext cap e) o -> cenc_pre x (nbits (TArr ext cap e)) ->
  endecode_array LE LE (call_processor LE LE true) true ext (Z.of_nat cap) (render e) x o
  = endecode_array_loop_only LE LE (call_processor LE LE true) true ext (Z.of_nat cap) (render e) x o.
Proof. exact batch_eq_loop_encode. Qed.
Print Assumptions C03_batch_eq_loop_encode.

Theorem C03_batch_eq_loop_decode : forall ext cap e v x,
  wf (TArr ext cap e) = true -> cwf (TArr ext cap e) = true ->
  batch_pred LE (nbits e) (d_flag (render e)) (d_to_flag (render e)) = true ->
  has_ty (TArr ext cap e) v = true -> dec_pre x (nbits (TArr ext cap e)) ->
  seg (xs x) (xi x) (nbits (TArr ext cap e)) = Z_of_bits (enc_bits (TArr ext cap e) v) ->
  endecode_array LE LE (call_processor LE LE false) false ext (Z.of_nat cap) (render e) x (zero_obj (TArr ext cap e))
  = endecode_array_loop_only LE LE (call_processor LE LE false) false ext (Z.of_nat cap) (render e) x (zero_obj (TArr ext cap e)).
Proof. exact batch_eq_loop_decode. Qed.
Print Assumptions C03_batch_eq_loop_decode.

Definition ex_t : ty :=
  TMsg true [ (3, TAlias (TArr true 3 (TUint 3))); (1, TEnum 3 [0; 1; 5]); (2, TAlias (TInt 13));
              (5, TMsg false [(2, TUint 5); (1, TBool)]); (7, TArr false 2 TByte); (9, TInt 32);
              (10, TArr true 2 (TMsg false [(2, TUint 5); (1, TBool)])); (11, TArr false 3 (TInt 16));
              (12, TArr false 2 (TAlias (TArr false 2 (TInt 7)))) ].
Definition ex_v : val :=
  VM [ (3, VL [VZ 1; VZ 7; VZ 2]); (1, VZ 5); (2, VZ (-171)); (5, VM [(2, VZ 19); (1, VB true)]);
       (7, VL [VZ 255; VZ 1]); (9, VZ (-2));
       (10, VL [VM [(2, VZ 3); (1, VB true)]; VM [(2, VZ 30); (1, VB false)]]);
       (11, VL [VZ (-1); VZ 2; VZ (-32768)]); (12, VL [VL [VZ (-64); VZ 63]; VL [VZ (-1); VZ 5]]) ].
Example C03_encode_nonvacuous :
  c_schema ex_t /\ has_ty (norm ex_t) ex_v = true /\
  c_encode_ty LE LE ex_t (store LE (norm ex_t) ex_v) = COk (wire ex_t ex_v) /\ length (wire ex_t ex_v) = 27%nat /\
  c_decode_ty LE LE ex_t (wire ex_t ex_v) = COk (store LE (norm ex_t) ex_v) /\
  batch_pred LE (nbits (TInt 16)) (d_flag (render (TInt 16))) (d_to_flag (render (TInt 16))) = true.
Proof. vm_compute. repeat split; reflexivity. Qed.
