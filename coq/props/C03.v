(* C03 — C standard mode writes/reads the same bytes as the specification and Python.
   Only statements, each closed by [exact] of a lemma proved elsewhere, followed by
   Print Assumptions; plus Examples showing the hypotheses are satisfiable. *)
From Coq Require Import ZArith List Bool.
From BP Require Import Bits Schema Spec CMem CRt CCopyProofs.
Import ListNotations.
Open Scope Z_scope.

(* BpCopyBufferBits (all five branches, either build) copies exactly bits [si, si+n) of the
   source to bits [di, di+n) of the destination and leaves every other destination bit as
   it was, under the precondition its callers establish (destination bits at and after the
   cursor are zero); it terminates within n iterations (1 <= c <= n each time: fuel n
   suffices) and performs no access outside the exact-size buffers.  [cfg_ok B E]: the word
   fast paths are compiled in only on a little-endian host. *)
Theorem C03_copy_bits : forall B E n dm dp sm sp di si,
  cfg_ok B E ->
  0 <= n -> bytes_ok dm -> bytes_ok sm -> 0 <= dp -> 0 <= sp -> 0 <= di -> 0 <= si ->
  0 <= bufZ dm < 2 ^ (8 * dp + di) ->
  8 * dp + di + n <= 8 * Z.of_nat (length dm) ->
  8 * sp + si + n <= 8 * Z.of_nat (length sm) ->
  exists dm',
    copy_bits B E (copy_fuel n) n dm dp sm sp di si = COk dm' /\
    length dm' = length dm /\ bytes_ok dm' /\
    forall k, 0 <= k ->
      Z.testbit (bufZ dm') k =
      if (8 * dp + di <=? k) && (k <? 8 * dp + di + n)
      then Z.testbit (bufZ sm) (8 * sp + si + (k - (8 * dp + di)))
      else Z.testbit (bufZ dm) k.
Proof. exact copy_bits_bits. Qed.
Print Assumptions C03_copy_bits.

Example C03_copy_nonvacuous :
  cfg_ok LE LE /\ cfg_ok BE BE /\ cfg_ok BE LE /\
  copy_bits LE LE (copy_fuel 45) 45 [5; 0; 0; 0; 0; 0; 0] 0 [171; 205; 239; 18; 52; 86; 120] 0 3 5
    = COk [109; 243; 187; 4; 141; 21; 0].
Proof.
  split; [intros _; reflexivity|]. split; [intros H; discriminate H|]. split; [intros H; discriminate H|].
  vm_compute. reflexivity.
Qed.
