(* C08_lex.v — C08 (accepted iff documented), TEXT LEVEL: what the tokenizer makes of a text. *)
From Coq Require Import String NArith ZArith List Bool.
From BP Require Import TotalBase LexBase Lex LexSpec LexCase LexProofs.
From BPGen Require Import GenLexer.
Import ListNotations.

(* tiling: the lexemes and the skipped characters, in order, are exactly the input up to the point
   where the loop stopped (nothing dropped, reordered or read twice); on normal termination that
   is the whole input *)
Theorem C08_lex_tiling : forall uw s its e rem,
  lex_run uw s = (its, e, rem) -> items_text its ++ rem = s /\ (e = LDone -> rem = []).
Proof. exact lex_tiling. Qed.
Print Assumptions C08_lex_tiling.

Example C08_lex_nonvacuous :
  let s := [117;105;110;116;56;32;120;61;34;97;92;34;98;34;47;47;99;10;48;120;49;70]%N in
  items_text (fst (fst (lex_run uni_word s))) = s.
Proof. vm_compute. reflexivity. Qed.
