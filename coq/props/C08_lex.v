(* C08_lex.v — text level (tokenizer) theorems of C08; see coq/theories/Lex*.v *)
From Coq Require Import String NArith ZArith List Bool.
From BP Require Import TotalBase LexBase Lex LexSpec.
From BPGen Require Import GenLexer.
Import ListNotations.

Theorem C08_lex_rules_consume : forallb (fun r => consumes (r_rx r) && rx_wf (r_rx r)) lex_rules = true.
Proof. vm_compute. reflexivity. Qed.
Print Assumptions C08_lex_rules_consume.
