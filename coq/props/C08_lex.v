(* C08_lex.v — C08 (accepted iff documented), TEXT LEVEL: what the tokenizer makes of a text. *)
From Coq Require Import String NArith ZArith List Bool.
From BP Require Import TotalBase LexBase Lex LexSpec LexCase LexProofs LexClass LexMunch LexOrigin LexTyped LexValue.
From BPGen Require Import GenLexer.
Import ListNotations.

(* tiling: the lexemes and the skipped characters, in order, are exactly the input up to the point
   where the loop stopped (nothing dropped, reordered or read twice); on normal termination that
   is the whole input *)
Theorem C08_lex_tiling : forall uw s its e rem,
  lex_run uw s = (its, e, rem) -> items_text its ++ rem = s /\ (e = LDone -> rem = []).
Proof. exact lex_tiling. Qed.
Print Assumptions C08_lex_tiling.

(* only characters of t_ignore are skipped; every token has a non-empty lexeme; positions are consecutive *)
Theorem C08_lex_items_wellformed : forall uw s its e rem,
  lex_run uw s = (its, e, rem) -> pos_ok 0 its /\ line_ok 1 its.
Proof. intros uw s its e rem H. apply lex_run_inv in H. split; apply H. Qed.
Print Assumptions C08_lex_items_wellformed.

(* classification at one position of the master regex: a reserved word standing at word
   boundaries on both sides is matched by its own rule — not by t_IDENTIFIER — and the match
   ends exactly after the word *)
Theorem C08_lex_reserved_word_typed : forall uw fuel p post W,
  In W [W_bool; W_byte; W_true; W_false; W_yes; W_no] ->
  word_opt uw p = false -> word_opt uw (hd_error post) = false ->
  exists r s', first_rule uw fuel lex_rules (p, W ++ post) = Some (r, s')
               /\ cps_eqb (r_name r) T_IDENTIFIER = false /\ snd s' = post.
Proof. exact reserved_word_typed. Qed.
Print Assumptions C08_lex_reserved_word_typed.

(* ... and the guard is needed: directly after a digit there is no word boundary, "1bool" is
   INT_LITERAL 1 followed by IDENTIFIER "bool" (replayed on the implementation on every run:
   boundary catalogue `typeword-prefixed`) *)
Theorem C08_lex_reserved_word_never_identifier_refuted : forall uw,
  map (fun t => (t_type t, t_val t)) (fst (lex uw [49; 98; 111; 111; 108]%N))
  = [(T_INT_LITERAL, VInt 1); (T_IDENTIFIER, VText W_bool)].
Proof. exact reserved_word_identifier_witness. Qed.
Print Assumptions C08_lex_reserved_word_never_identifier_refuted.

(* whole runs, guarded form: an IDENTIFIER token spelled bool / byte / true / false / yes / no is glued to
   a word character directly before or directly after it (every token of a run comes from one
   consultation of the master regex in the context the input gives it: LexOrigin.lex_items_origins) *)
Theorem C08_lex_reserved_identifier_is_glued : forall uw s its e rem a t lx b,
  lex_run uw s = (its, e, rem) -> its = a ++ ITok t lx :: b ->
  cps_eqb (t_type t) T_IDENTIFIER = true -> In lx [W_bool; W_byte; W_true; W_false; W_yes; W_no] ->
  word_opt uw (lastc None (items_text a)) = true \/ word_opt uw (hd_error (items_text b ++ rem)) = true.
Proof. exact reserved_identifier_is_glued. Qed.
Print Assumptions C08_lex_reserved_identifier_is_glued.

(* uintN / intN for EVERY N: at word boundaries, `uint` / `int` + a run of digits is matched by t_UINT_TYPE /
   t_INT_TYPE with the whole run (the greedy [0-9]+ backtracks through shorter runs, none is at a boundary) *)
Theorem C08_lex_uint_typed : forall uw fuel p d0 ds post,
  word_opt uw p = false -> word_opt uw (hd_error post) = false ->
  ok_digit d0 = true -> forallb ok_digit ds = true -> (length (ds ++ post) <= fuel)%nat ->
  exists r, first_rule uw fuel lex_rules (p, W_uint ++ d0 :: ds ++ post) = Some (r, (lastc (Some d0) ds, post))
            /\ r_name r = T_UINT_TYPE.
Proof. exact uint_typed. Qed.
Print Assumptions C08_lex_uint_typed.

Theorem C08_lex_int_typed : forall uw fuel p d0 ds post,
  word_opt uw p = false -> word_opt uw (hd_error post) = false ->
  ok_digit d0 = true -> forallb ok_digit ds = true -> (length (ds ++ post) <= fuel)%nat ->
  exists r, first_rule uw fuel lex_rules (p, W_int ++ d0 :: ds ++ post) = Some (r, (lastc (Some d0) ds, post))
            /\ r_name r = T_INT_TYPE.
Proof. exact int_typed. Qed.
Print Assumptions C08_lex_int_typed.

Theorem C08_lex_width_identifier_is_glued : forall uw s its e rem a t lx b d0 ds,
  lex_run uw s = (its, e, rem) -> its = a ++ ITok t lx :: b ->
  cps_eqb (t_type t) T_IDENTIFIER = true ->
  (lx = W_uint ++ d0 :: ds \/ lx = W_int ++ d0 :: ds) -> ok_digit d0 = true -> forallb ok_digit ds = true ->
  word_opt uw (lastc None (items_text a)) = true \/ word_opt uw (hd_error (items_text b ++ rem)) = true.
Proof. exact width_identifier_is_glued. Qed.
Print Assumptions C08_lex_width_identifier_is_glued.

(* the 8 keywords never come out as IDENTIFIER (t_IDENTIFIER re-types them), in any context *)
Theorem C08_lex_keyword_retyped : forall name a lx line ty v l,
  a_kw a = true -> cps_mem lx lex_keywords = true ->
  run_action name (Some a) lx line = Ok (ty, v, l) -> ty = map cp_upper lx /\ cps_eqb ty T_IDENTIFIER = false.
Proof. exact keyword_retyped. Qed.
Print Assumptions C08_lex_keyword_retyped.

(* "//" starts a comment in every context; a "/" not followed by "/" is DIVIDE *)
Theorem C08_lex_slashes_comment : forall uw fuel p post,
  exists r s', first_rule uw fuel lex_rules (p, 47%N :: 47%N :: post) = Some (r, s') /\ r_name r = T_COMMENT.
Proof. exact slashes_comment. Qed.
Print Assumptions C08_lex_slashes_comment.

Theorem C08_lex_lone_slash_divide : forall uw fuel p post,
  match post with c :: _ => N.eqb c 47 = false | [] => True end ->
  first_rule uw fuel lex_rules (p, 47%N :: post) = Some (mkRule T_DIVIDE rx_t_DIVIDE None, (Some 47%N, post)).
Proof. exact lone_slash_divide. Qed.
Print Assumptions C08_lex_lone_slash_divide.

(* WHICH prefix the backtracking search returns (not the longest in general — here proved per rule):
   the greedy class rules take the maximal run ... *)
Theorem C08_lex_identifier_maximal : forall uw fuel p s, (length s <= S fuel)%nat ->
  rmatch uw fuel rx_t_IDENTIFIER (p, s)
  = match s with
    | c :: r => if ok_idstart c then Some (lastc (Some c) (fst (span ok_idchar r)), snd (span ok_idchar r)) else None
    | [] => None
    end.
Proof. exact identifier_maximal. Qed.
Print Assumptions C08_lex_identifier_maximal.

Theorem C08_lex_int_literal_maximal : forall uw fuel p s, (length s <= S fuel)%nat ->
  rmatch uw fuel rx_t_INT_LITERAL (p, s)
  = match s with
    | c :: r => if ok_digit c then Some (lastc (Some c) (fst (span ok_digit r)), snd (span ok_digit r)) else None
    | [] => None
    end.
Proof. exact int_literal_maximal. Qed.
Print Assumptions C08_lex_int_literal_maximal.

Theorem C08_lex_hex_literal_maximal : forall uw fuel p c r, (length r <= fuel)%nat ->
  rmatch uw fuel rx_t_HEX_LITERAL (p, 48%N :: 120%N :: c :: r)
  = if ok_hex c then Some (lastc (Some c) (fst (span ok_hex r)), snd (span ok_hex r)) else None.
Proof. exact hex_literal_maximal. Qed.
Print Assumptions C08_lex_hex_literal_maximal.

Theorem C08_lex_comment_maximal : forall uw fuel p r, (length r <= fuel)%nat ->
  rmatch uw fuel rx_t_COMMENT (p, 47%N :: 47%N :: r)
  = Some (lastc (Some 47%N) (fst (span ok_notnl r)), snd (span ok_notnl r)).
Proof. exact comment_maximal. Qed.
Print Assumptions C08_lex_comment_maximal.

(* ... and the lazy string rule ends at the FIRST double quote that is not escaped (LexSpec.str_close);
   there is no match — the quote becomes an invalid token — when the line or the input ends first *)
Theorem C08_lex_string_first_close : forall uw fuel p r, (length r <= fuel)%nat ->
  rmatch uw fuel rx_t_STRING_LITERAL (p, 34%N :: r) = close_result r.
Proof. exact string_literal_first_close. Qed.
Print Assumptions C08_lex_string_first_close.

Theorem C08_lex_str_close_split : forall r body rest,
  str_close r = Some (body, rest) -> r = body ++ 34%N :: rest /\ ~ In NL body.
Proof. exact str_close_split. Qed.
Print Assumptions C08_lex_str_close_split.

(* the value of a number token is the Horner value of its digits: int(t.value) / int(t.value, 16) *)
Theorem C08_lex_int_value : forall maxd ds z, npy_int 10 maxd ds = Ok z -> z = digits_val 10 ds.
Proof. exact npy_int_dec_value. Qed.
Print Assumptions C08_lex_int_value.

Theorem C08_lex_hex_value : forall maxd hs z,
  hs <> [] -> npy_int 16 maxd (48 :: 120 :: hs)%N = Ok z -> z = digits_val 16 hs.
Proof. exact npy_int_hex_value. Qed.
Print Assumptions C08_lex_hex_value.

(* the vocabulary of the direct scanner (LexSpec) is the one in lexer.py *)
Theorem C08_lex_vocabulary :
  lex_ignore = S_ignore /\ lex_literals = S_literals /\ lex_keywords = S_keywords
  /\ map (fun e => (fst e, snd e)) escaping_chars = map (fun e => (fst e, [snd e])) S_escapes
  /\ py_int_max_str_digits = S_max_digits.
Proof. repeat split. Qed.
Print Assumptions C08_lex_vocabulary.

(* ---- non-vacuity / worked instances (the general statements behind these —
   equality with LexSpec.spec_lex on every input, the printer round trip — are evaluated per generated input
   against LexSpec.spec_lex on every run, not proved: partial) -------------------------------- *)
Definition types_of (s : list N) := map t_type (fst (lex uni_word s)).
Definition vals_of (s : list N) := map t_val (fst (lex uni_word s)).

Example C08_lex_nonvacuous_tiling :
  let s := [117;105;110;116;56;32;120;61;34;97;92;34;98;34;47;47;99;10;48;120;49;70]%N in
  items_text (fst (fst (lex_run uni_word s))) = s.
Proof. vm_compute. reflexivity. Qed.

(* boolean / uint8x / protocol are single IDENTIFIERs; 0x1F is one HEX_LITERAL with value 31 *)
Example C08_lex_word_boundary_instances :
  types_of (cps_of_string "boolean uint8x protocol") = [T_IDENTIFIER; T_IDENTIFIER; T_IDENTIFIER]
  /\ types_of (cps_of_string "bool uint8 proto") = [T_BOOL_TYPE; T_UINT_TYPE; T_PROTO]
  /\ (types_of (cps_of_string "0x1F"), vals_of (cps_of_string "0x1F")) = ([T_HEX_LITERAL], [VInt 31])
  /\ types_of (cps_of_string "0xg") = [T_INT_LITERAL; T_IDENTIFIER].
Proof. vm_compute. repeat split. Qed.

(* printing a token list with single spaces and lexing it back: same types and values *)
Example C08_lex_roundtrip_instance :
  let s := cps_of_string "message M { uint3 a_b = 12 ; bool [ 4 ] c = 0x1F } const K = true" in
  types_of s = [T_MESSAGE; T_IDENTIFIER; [123%N]; T_UINT_TYPE; T_IDENTIFIER; [61%N]; T_INT_LITERAL; [59%N];
                T_BOOL_TYPE; [91%N]; T_INT_LITERAL; [93%N]; T_IDENTIFIER; [61%N]; T_HEX_LITERAL; [125%N];
                T_CONST; T_IDENTIFIER; [61%N]; T_BOOL_LITERAL]
  /\ snd (lex uni_word s) = LDone.
Proof. vm_compute. split; reflexivity. Qed.
