(* C09 — witnesses of the known findings: on the CURRENT tree each of these operations crashes
   (a Python traceback instead of a diagnostic).  They make the guards of props/C09.v exact.
   When a defect is fixed its witness stops compiling: delete it and flip the entry of
   known_findings.jsonl to "fixed". *)
From Coq Require Import String Ascii ZArith List Bool.
From BP Require Import Re TotalBase Schema Total TotalProofs TotalRefuted.
From BPGen Require Import GenC09.
Import ListNotations.
Open Scope Z_scope.

(* beyond the limit every literal of the token language crashes, not just the witness *)
Theorem C09_int_literal_crashes_beyond_limit :
  forall tv, matches int_literal_re tv -> py_int_max_str_digits < zlen tv ->
             lex_int_literal tv = Crash ValueError.
Proof. exact int_literal_crashes_beyond_limit. Qed.
Print Assumptions C09_int_literal_crashes_beyond_limit.

(* huge-literal: const A = 111…1 (4301 digits) *)
Theorem C09_int_literal_refuted :
  exists tv, matches int_literal_re tv /\ lex_int_literal tv = Crash ValueError.
Proof.
  exists (repeat "1"%char 4301). split; [apply re_matchb_spec|]; vm_compute; reflexivity.
Qed.
Print Assumptions C09_int_literal_refuted.

(* huge-literal: uint111…1 (4301 digits) *)
Theorem C09_uint_width_refuted :
  exists tv, matches uint_type_re tv /\ lex_uint_cap tv = Crash ValueError.
Proof.
  exists (asc [117; 105; 110; 116]%nat ++ repeat "1"%char 4301).
  split; [apply re_matchb_spec|]; vm_compute; reflexivity.
Qed.
Print Assumptions C09_uint_width_refuted.

(* huge-literal: int111…1 (4301 digits) *)
Theorem C09_int_width_refuted :
  exists tv, matches int_type_re tv /\ lex_int_cap tv = Crash ValueError.
Proof.
  exists (asc [105; 110; 116]%nat ++ repeat "1"%char 4301).
  split; [apply re_matchb_spec|]; vm_compute; reflexivity.
Qed.
Print Assumptions C09_int_width_refuted.

(* huge-int-str: p_error *)
Theorem C09_p_error_refuted :            (* uint8[0xFFF…F] : str(p.value) in p_error *)
  exists path z, In path p_error_paths /\ p_error_path_outcome path (TInt z) = Crash ValueError.
Proof. exact p_error_huge. Qed.
Print Assumptions C09_p_error_refuted.

(* huge-int-str: p_array_type *)
Theorem C09_array_token_refuted :        (* uint8[A] with a constant A >= 10^4300 *)
  exists cap, array_type_token cap = Crash ValueError.
Proof. exact array_token_huge. Qed.
Print Assumptions C09_array_token_refuted.

(* huge-int-str: format_int_value *)
Theorem C09_render_huge_int_refuted :     (* const A = 0xFFF…F (>= 10^4300): all three languages *)
  exists c, forall l, render l (TMsg false []) [c] = Crash ValueError.
Proof. exact render_huge. Qed.
Print Assumptions C09_render_huge_int_refuted.

(* non-utf8-source *)
Theorem C09_read_source_refuted : exists bytes, read_source bytes = Crash UnicodeDecodeError.
Proof. exists [255]. vm_compute. reflexivity. Qed.
Print Assumptions C09_read_source_refuted.

(* nul-in-path *)
Theorem C09_import_path_refuted : exists p, import_path p = Crash ValueError.
Proof. exists (asc [97; 0; 98]%nat). vm_compute. reflexivity. Qed.
Print Assumptions C09_import_path_refuted.
