(* C19 — Go standard-mode output describes the same messages as the Python output.
   Only statements, each closed by [exact] of a lemma proved elsewhere, followed by
   Print Assumptions; plus Examples showing the hypotheses are satisfiable.

   The statements are about the model of the Go renderer (GoRt.go_proc_of / go_cls_of /
   go_type_of) and about the helpers TRANSLATED from lib/go/bitproto.go (BPGen.GenGo); the
   emitted .go text is tied to the model by T1 (tools/t1_go.py) on every run.  Go itself is
   never executed. *)
From Coq Require Import ZArith List Bool.
From BP Require Import Bits Schema Spec PyRt Eqb PyEncTop PyDecProofs GoRt GoEqb GoHelpers GoTables GoEncProofs GoDecLeaf
                       GoDecProofs.
From BPGen Require GenPy GenGo.
Import ListNotations.
Open Scope Z_scope.

(* ---- the Go runtime's pure helpers return what the Python runtime's return, on their whole
   domain: ints in 0..2^62 for the unbounded ones (Go's int is 64-bit, / and % truncate),
   k in 0..7, c in 0..8 for getMask; smartShift only AFTER the mask (byte << k truncates) ---- *)
Theorem C19_helpers_eq :
  (forall a b, GenGo.go_min a b = Z.min a b) /\
  (forall i j n, small i -> small j -> small n ->
     GenGo.getNbitsToCopy i j n = GenPy.get_nbits_to_copy i j n) /\
  (forall k c, 0 <= k < 8 -> 0 <= c < 9 -> GenGo.getMask k c = GenPy.get_mask k c) /\
  (forall b s k c, 0 <= b < 256 -> -7 <= s <= 7 -> 0 <= k < 8 -> 0 <= c <= 8 - k ->
     Z.land (GenGo.smartShift b s) (GenGo.wrap_u 8 (GenGo.getMask k c)) =
     Z.land (GenPy.smart_shift b s) (GenPy.get_mask k c)) /\
  (forall b, 0 <= b -> GenGo.Byte2bool b = negb (b =? 0)) /\
  (forall b, GenGo.Bool2byte b = Z.b2z b).
Proof.
  exact (conj go_min_eq (conj getNbitsToCopy_eq (conj getMask_eq (conj smartShift_masked_eq
        (conj Byte2bool_spec Bool2byte_spec))))).
Qed.
Print Assumptions C19_helpers_eq.

(* without the mask the two shifts differ: the guard is exact *)
Theorem C19_smartShift_unmasked_differs : GenGo.smartShift 255 (-1) <> GenPy.smart_shift 255 (-1).
Proof. exact smartShift_unmasked_differs. Qed.
Print Assumptions C19_smartShift_unmasked_differs.

(* the expressions of encodeSingleByte / decodeSingleByte (shift, mask, byte index, accessor
   shift) equal Python's wherever the copy loop evaluates them *)
Theorem C19_single_byte_eq :
  (forall b ci j c, 0 <= b < 256 -> small ci -> small j -> 0 <= c <= 8 - ci mod 8 ->
     GenGo.enc_d b ci j c = GenPy.enc_d b ci j c) /\
  (forall b ci j c, 0 <= b < 256 -> small ci -> small j -> 0 <= c <= 8 - j mod 8 ->
     GenGo.dec_d b ci j c = GenPy.dec_d b ci j c) /\
  (forall ci, small ci -> GenGo.enc_index ci = GenPy.enc_index ci /\ GenGo.dec_index ci = GenPy.dec_index ci) /\
  (forall j, small j -> GenGo.enc_rshift j = GenPy.enc_rshift j /\ GenGo.dec_lshift j = GenPy.dec_lshift j).
Proof. exact (conj go_enc_d_eq (conj go_dec_d_eq (conj go_index_eq go_shift_eq))). Qed.
Print Assumptions C19_single_byte_eq.

(* the two skip formulas and the test (used by C05 for the Go runtime) *)
Theorem C19_ito_eq :
  (forall i ahead, small i -> 0 <= ahead < 65536 -> GenGo.message_ito i ahead = GenPy.message_ito i ahead) /\
  (forall i ahead cap ci, 0 <= i < 2 ^ 40 -> 0 <= ahead < 65536 -> 0 < cap < 65536 -> i + 16 <= ci < 2 ^ 40 ->
     GenGo.array_ito i ahead cap ci = GenPy.array_ito i ahead cap ci) /\
  (forall ito ci, GenGo.ito_taken ito ci = GenPy.ito_taken ito ci).
Proof. exact (conj go_message_ito_eq (conj go_array_ito_eq go_ito_taken_eq)). Qed.
Print Assumptions C19_ito_eq.

(* ---- struct field types: the smallest of 8/16/32/64 covering the width, for all widths ---- *)
Theorem C19_struct_types : forall n, 1 <= n <= 64 ->
  go_type_of (TUint n) = GUint (smallest_cover n) /\
  go_type_of (TInt n) = GInt (smallest_cover n) /\
  (forall ms, go_type_of (TEnum n ms) = GNamed (GUint (smallest_cover n))) /\
  In (smallest_cover n) [8; 16; 32; 64] /\ n <= smallest_cover n /\
  (forall w, In w [8; 16; 32; 64] -> n <= w -> smallest_cover n <= w).
Proof.
  intros n H. exact (conj (go_type_uint n H) (conj (go_type_int n H)
    (conj (fun ms => go_type_enum n ms H) (smallest_cover_spec n H)))).
Qed.
Print Assumptions C19_struct_types.

(* a field's declared Go type is its array layers (through alias names) around the type of the
   innermost type; the size constant is ceil(nbits/8) *)
Theorem C19_struct_layers : forall t, shape_ok t = true ->
  exists g, strip_arrays (go_type_of t) (arr_layers t) = Some g /\
            under g = under (go_type_of (innermost t)).
Proof. exact go_type_layers. Qed.
Print Assumptions C19_struct_layers.

Theorem C19_size_const : forall x fs, 0 <= nbits (TMsg x fs) ->
  gc_size (go_cls_of x fs) = (nbits (TMsg x fs) + 7) / 8 /\ gc_size (go_cls_of x fs) = nbytes (TMsg x fs).
Proof. intros x fs H. split; apply type_nbytes_eq; exact H. Qed.
Print Assumptions C19_size_const.

(* ---- the accessor tables address, for each field number, exactly that field: array depth =
   number of array layers through aliases, conversion type = that of the innermost single
   type, `=` exactly for bool, sign extension exactly for signed n not in {8,16,32,64} ---- *)
Theorem C19_tables_address_fields : forall x fs k ft,
  keys_distinct (map fst fs) = true -> In (k, ft) fs ->
  shape_ok ft = true -> is_single (innermost ft) = true ->
  let c := go_cls_of x fs in
  let s := innermost ft in
  let d := arr_layers ft in
  (exists e, lookup k (gc_set c) = Some e /\ gs_depth e = d /\
             under (gs_conv e) = under (go_type_of s) /\
             gs_kind e = (if is_boolb s then GSBool else GSOr)) /\
  (exists e, lookup k (gc_get c) = Some e /\ gg_depth e = d /\
             (if is_boolb s then exists cv, gg_kind e = GGBool cv else gg_kind e = GGInt)) /\
  lookup k (gc_int c) = (match s with TInt n => sign_entry d n | _ => None end) /\
  lookup k (gc_acc c) = None /\
  lookup k (gc_struct c) = Some (go_type_of ft).
Proof. exact tables_single. Qed.
Print Assumptions C19_tables_address_fields.

Theorem C19_tables_address_messages : forall x fs k ft,
  keys_distinct (map fst fs) = true -> In (k, ft) fs ->
  shape_ok ft = true -> is_msgb (innermost ft) = true ->
  let c := go_cls_of x fs in
  lookup k (gc_acc c) = Some (arr_layers ft) /\
  lookup k (gc_set c) = None /\ lookup k (gc_get c) = None /\ lookup k (gc_int c) = None /\
  lookup k (gc_struct c) = Some (go_type_of ft).
Proof. exact tables_msg. Qed.
Print Assumptions C19_tables_address_messages.

Theorem C19_sign_extension : forall d n, 1 <= n <= 64 ->
  sign_entry d n = if is_std_width n then None
                   else Some {| gi_depth := d; gi_d := smallest_cover n - n |}.
Proof. exact sign_entry_spec. Qed.
Print Assumptions C19_sign_extension.

(* ---- processor tree: same field numbers, widths, capacities, extensible flags, nesting and
   nbits as the Python output's, for every type tree ---- *)
Theorem C19_tree_eq_py : forall t, gskel (go_proc_of t) = pskel (proc_of t).
Proof. exact tree_eq_py. Qed.
Print Assumptions C19_tree_eq_py.

(* ... and the four tables address the same fields at the same depths as Python's *)
Theorem C19_tables_eq_py : forall x fs,
  keys_distinct (map fst fs) = true -> fields_ok fs ->
  depths_get (cls_of fs) = gdepths_get (go_cls_of x fs) /\
  depths_set (cls_of fs) = gdepths_set (go_cls_of x fs) /\
  depths_int (cls_of fs) = gdepths_int (go_cls_of x fs) /\
  c_acc (cls_of fs) = gc_acc (go_cls_of x fs).
Proof.
  intros x fs Hd Hok. exact (conj (agree_get x fs Hok) (conj (agree_set x fs Hok)
    (conj (agree_int x fs Hd Hok) (agree_acc x fs Hok)))).
Qed.
Print Assumptions C19_tables_eq_py.

(* ---- semantics: the Go encoder model (translated helpers + typed accessors as emitted)
   produces the specified wire, for every schema and every in-range value ---- *)
Theorem C19_go_accessors_spec_encode : forall t v,
  is_msg t = true -> wf (norm t) = true -> shape_ok (norm t) = true -> has_ty (norm t) v = true ->
  go_encode t v = Ok (wire t v).
Proof. exact go_encode_is_wire. Qed.
Print Assumptions C19_go_accessors_spec_encode.

(* single-leaf decode: |= of converted, shifted chunks followed by <<= d; >>= d yields the
   sign-extended value, for every Go integer type and every width *)
Theorem C19_go_sign_extend : forall w n u,
  In w [8; 16; 32; 64] -> 1 <= n <= w -> 0 <= u < 2 ^ n ->
  Z.shiftr (GenGo.wrap_s w (Z.shiftl u (w - n))) (w - n) = sext n u.
Proof. exact go_sign_extend. Qed.
Print Assumptions C19_go_sign_extend.

(* single-leaf decode: the operand of the typed `m.F |= (T(b) << lshift)` is exactly what the
   Python accessor ORs in (bp.intW(int(b) << lshift) resp. int(b) << lshift): converting the
   byte to T before the shift loses nothing, for every Go integer type, byte and chunk offset *)
Theorem C19_go_chunk_eq_py : forall w b l,
  In w [8; 16; 32; 64] -> 0 <= b < 256 -> 0 <= l -> l + 8 <= w ->
  conv_to (GInt w) (Z.shiftl (GenGo.wrap_s w b) l) = Ok (cast_w w (Z.shiftl b l)) /\
  conv_to (GUint w) (Z.shiftl (GenGo.wrap_u w b) l) = Ok (Z.shiftl b l).
Proof. exact go_chunk_eq_py. Qed.
Print Assumptions C19_go_chunk_eq_py.

(* ---- semantics, decode half: the Go decoder model (translated helpers, typed accessors as
   emitted, sign extension by <<= d; >>= d, bool via Byte2bool), run on the specified wire of v
   into a zero-valued Go struct, leaves exactly the canonical storage of v:
   [canon (norm t) v] = fields in field-number order, every bool a Go bool, every integer leaf the
   value itself (signed ones sign-extended into their intN), arrays element by element.
   Go's zero value of an enum is 0, so no condition on the first enum member is needed
   (Python's decoder needs dec_guard, finding enum-default). ---- *)
Theorem C19_go_accessors_spec_decode : forall t v,
  is_msg t = true -> wf (norm t) = true -> shape_ok (norm t) = true -> has_ty (norm t) v = true ->
  go_decode t (wire t v) = Ok (canon (norm t) v).
Proof. exact go_decode_wire. Qed.
Print Assumptions C19_go_accessors_spec_decode.

(* at any nested position (inside arrays, aliases, sub-messages) the decoder writes exactly
   canon t v at the addressed place, touches nothing else and advances the cursor by nbits t *)
Theorem C19_go_decode_at_position : forall t g vs fn stk a v s i0,
  wf t = true -> shape_ok t = true -> has_ty t v = true ->
  gdreach t g fn (length stk) -> 1 <= fn ->
  lookup fn vs = Some a -> PyRt.index_val a stk = Ok (go_default t) ->
  bytes_ok s -> 0 <= i0 -> i0 + nbits t <= 8 * Z.of_nat (length s) -> Z.of_nat (length s) < 2 ^ 36 ->
  PyDecStep.slice s i0 (nbits t) = Z_of_bits (enc_bits t v) ->
  go_dec (go_proc_of t) g (VM vs) (Some fn) stk {| cs := s; ci := i0 |} =
  Ok (VM (set_field fn (PyDecStep.set_idx a stk (canon t v)) vs), {| cs := s; ci := i0 + nbits t |}).
Proof. exact go_dec_ok_all. Qed.
Print Assumptions C19_go_decode_at_position.

(* Decode(Encode(v)) equals v field by field, and re-encoding the decoded struct gives the bytes *)
Theorem C19_go_roundtrip : forall t v,
  is_msg t = true -> wf (norm t) = true -> shape_ok (norm t) = true -> has_ty (norm t) v = true ->
  exists b v',
    go_encode t v = Ok b /\ go_decode t b = Ok v' /\
    val_sim (norm t) v' v = true /\ go_encode t v' = Ok b /\ b = wire t v /\ v' = canon (norm t) v.
Proof. exact go_roundtrip. Qed.
Print Assumptions C19_go_roundtrip.

(* non-vacuity: a permuted, extensible, nested example meets every hypothesis *)
Definition ex_t : ty :=
  TMsg true [ (3, TAlias (TArr true 3 (TUint 3)));
              (1, TEnum 3 [0; 1; 5]);
              (2, TAlias (TInt 13));
              (5, TMsg false [(2, TUint 5); (1, TBool)]);
              (7, TArr false 2 (TAlias (TArr false 2 TByte)));
              (8, TArr true 2 (TMsg true [(1, TInt 33)]));
              (9, TInt 32) ].
Definition ex_v : val :=
  VM [ (3, VL [VZ 1; VZ 7; VZ 2]); (1, VZ 5); (2, VZ (-171));
       (5, VM [(2, VZ 19); (1, VB true)]); (7, VL [VL [VZ 255; VZ 1]; VL [VZ 0; VZ 128]]);
       (8, VL [VM [(1, VZ (-4294967296))]; VM [(1, VZ 5)]]); (9, VZ (-2)) ].
Example C19_nonvacuous :
  is_msg ex_t = true /\ wf (norm ex_t) = true /\ shape_ok (norm ex_t) = true /\
  has_ty (norm ex_t) ex_v = true /\
  go_encode ex_t ex_v = Ok (wire ex_t ex_v) /\
  res_val_sim ex_t (go_decode ex_t (wire ex_t ex_v)) (Ok ex_v) = true /\
  go_decode ex_t (wire ex_t ex_v) = Ok (canon (norm ex_t) ex_v) /\
  gproc_diff (go_proc_of (norm ex_t)) (go_proc_of (norm ex_t)) = 0 /\
  lookup 7 (gc_set (go_cls_of true (match norm ex_t with TMsg _ fs => fs | _ => [] end))) =
    Some {| gs_depth := 2; gs_conv := GByte; gs_kind := GSOr |} /\
  lookup 2 (gc_int (go_cls_of true (match norm ex_t with TMsg _ fs => fs | _ => [] end))) =
    Some {| gi_depth := 0; gi_d := 3 |}.
Proof. vm_compute. repeat split; reflexivity. Qed.

(* the statements are for ANY number of array dimensions: a field with six dimensions through
   aliases (the emitted accessors then index di.I(0) .. di.I(5)), and two arrays whose bit totals
   differ exactly by the 16-bit prefix (uint3[8]' / uint5[8]) keep distinct processors *)
Definition ex_deep6 : ty :=
  TAlias (TArr false 1 (TAlias (TArr true 2 (TAlias (TArr false 1 (TAlias (TArr false 2
    (TAlias (TArr true 1 (TAlias (TArr false 2 (TInt 13)))))))))))).
Definition ex_t2 : ty := TMsg false [(4, ex_deep6); (2, TArr true 8 (TUint 3)); (3, TArr false 8 (TUint 5))].
Definition ex_v2 : val :=
  VM [(4, VL [VL [VL [VL [VL [VL [VZ (-4096); VZ 4095]]; VL [VL [VZ 1; VZ (-1)]]]];
                  VL [VL [VL [VL [VZ 0; VZ 7]]; VL [VL [VZ (-2); VZ 2]]]]]]);
      (2, VL [VZ 1; VZ 2; VZ 3; VZ 4; VZ 5; VZ 6; VZ 7; VZ 0]);
      (3, VL [VZ 31; VZ 2; VZ 3; VZ 4; VZ 5; VZ 6; VZ 7; VZ 0])].
Example C19_nonvacuous_deep :
  shape_ok (norm ex_t2) = true /\ wf (norm ex_t2) = true /\ has_ty (norm ex_t2) ex_v2 = true /\
  arr_layers ex_deep6 = 6%nat /\
  lookup 4 (gc_set (go_cls_of false [(4, ex_deep6)])) =
    Some {| gs_depth := 6; gs_conv := GInt 16; gs_kind := GSOr |} /\
  lookup 4 (gc_int (go_cls_of false [(4, ex_deep6)])) = Some {| gi_depth := 6; gi_d := 3 |} /\
  go_encode ex_t2 ex_v2 = Ok (wire ex_t2 ex_v2) /\
  go_decode ex_t2 (wire ex_t2 ex_v2) = Ok (canon (norm ex_t2) ex_v2) /\
  gskel (go_proc_of (TArr true 8 (TUint 3))) <> gskel (go_proc_of (TArr false 8 (TUint 5))) /\
  nbits (TArr true 8 (TUint 3)) = nbits (TArr false 8 (TUint 5)).
Proof. vm_compute. repeat split; try reflexivity. discriminate. Qed.
