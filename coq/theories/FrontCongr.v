(* FrontCongr.v — replacing statements by OBSERVATIONALLY EQUAL statements (same outcome of
   proc_item in every context) anywhere in a schema (any file, any nesting depth) does not change
   Front.check at all.  Instance: a constant written as another expression of equal value. *)
From Coq Require Import ZArith List Bool String Lia.
From BP Require Import Schema FrontBase Front FrontProofs.
From BPGen Require GenFront.
Import ListNotations.
Open Scope Z_scope.

Section Congr.
  Variable B : item -> item -> Prop.
  Hypothesis HB : forall pc kf trad file fstack outer cur it it',
    B it it' -> proc_item pc kf trad file fstack outer cur it = proc_item pc kf trad file fstack outer cur it'.

  (* [irel it it']: it' is it with some statements (at any depth) replaced by B-related ones *)
  Fixpoint irel (it it' : item) {struct it} : Prop :=
    it = it' \/ B it it' \/
    match it, it' with
    | IMsg l n x b, IMsg l' n' x' b' =>
        l = l' /\ n = n' /\ x = x' /\
        (fix go (b b' : list item) : Prop :=
           match b, b' with
           | [], [] => True
           | i :: r, i' :: r' => irel i i' /\ go r r'
           | _, _ => False
           end) b b'
    | IEnum l n s b, IEnum l' n' s' b' =>
        l = l' /\ n = n' /\ s = s' /\
        (fix go (b b' : list item) : Prop :=
           match b, b' with
           | [], [] => True
           | i :: r, i' :: r' => irel i i' /\ go r r'
           | _, _ => False
           end) b b'
    | _, _ => False
    end.

  Fixpoint lrel (b b' : list item) : Prop :=
    match b, b' with
    | [], [] => True
    | i :: r, i' :: r' => irel i i' /\ lrel r r'
    | _, _ => False
    end.

  Lemma lrel_fix b b' :
    (fix go (b b' : list item) : Prop :=
       match b, b' with
       | [], [] => True
       | i :: r, i' :: r' => irel i i' /\ go r r'
       | _, _ => False
       end) b b' = lrel b b'.
  Proof. reflexivity. Qed.

  Lemma lrel_refl b : lrel b b.
  Proof. induction b as [|i r IH]; [exact I|]. split; [|exact IH]. destruct i; now left. Qed.

  Section PI.
    Variable pc pc' : list string -> string -> res def.
    Variable kf : string -> bool.
    Variable trad : bool.
    Variable file : string.
    Variable fstack : list string.
    Hypothesis Hpc : forall g, pc' fstack g = pc fstack g.

    Lemma proc_item_pc_ext : forall it outer cur,
      proc_item pc' kf trad file fstack outer cur it = proc_item pc kf trad file fstack outer cur it.
    Proof.
      induction it as [l nm|l a g|l nm v|l nm v|l nm t|l nm b body IH|l nm x body IH|l t nm k|l nm v]
        using item_ind'; intros outer cur; try reflexivity.
      - cbn [proc_item]. now rewrite Hpc.
      - destruct b; try reflexivity. rewrite !proc_item_enum.
        assert (E : forall f0, proc_items pc' kf trad file fstack (cur :: outer) f0 body =
                               proc_items pc kf trad file fstack (cur :: outer) f0 body).
        { induction body as [|i r IHr]; intros f0; [reflexivity|]. inversion IH; subst.
          cbn [proc_items]. rewrite H1. destruct (proc_item pc kf trad file fstack (cur :: outer) f0 i); cbn [bind]; auto. }
        now rewrite E.
      - rewrite !proc_item_msg.
        assert (E : forall f0, proc_items pc' kf trad file fstack (cur :: outer) f0 body =
                               proc_items pc kf trad file fstack (cur :: outer) f0 body).
        { induction body as [|i r IHr]; intros f0; [reflexivity|]. inversion IH; subst.
          cbn [proc_items]. rewrite H1. destruct (proc_item pc kf trad file fstack (cur :: outer) f0 i); cbn [bind]; auto. }
        now rewrite E.
    Qed.

    Lemma proc_item_irel : forall it it' outer cur,
      irel it it' ->
      proc_item pc' kf trad file fstack outer cur it' = proc_item pc kf trad file fstack outer cur it.
    Proof.
      induction it as [l nm|l a g|l nm v|l nm v|l nm t|l nm b body IH|l nm x body IH|l t nm k|l nm v]
        using item_ind'; intros it' outer cur H; cbn [irel] in H;
        (destruct H as [<-|[H|H]]; [apply proc_item_pc_ext|rewrite proc_item_pc_ext; symmetry; now apply HB|]);
        try contradiction.
      - destruct it'; try contradiction. destruct H as [<- [<- [<- H]]]. rewrite lrel_fix in H.
        destruct b as [| |w|w|p]; try reflexivity.
        rewrite !proc_item_enum.
        assert (E : forall b' f0, lrel body b' ->
                     proc_items pc' kf trad file fstack (cur :: outer) f0 b' =
                     proc_items pc kf trad file fstack (cur :: outer) f0 body).
        { clear H. induction body as [|i r IHr]; intros [|i' r'] f0 Hl; try contradiction; [reflexivity|].
          inversion IH as [|? ? Hi Hr]; subst. destruct Hl as [Hl1 Hl2]. cbn [proc_items]. rewrite (Hi _ _ _ Hl1).
          destruct (proc_item pc kf trad file fstack (cur :: outer) f0 i); cbn [bind]; auto. }
        now rewrite (E _ _ H).
      - destruct it'; try contradiction. destruct H as [<- [<- [<- H]]]. rewrite lrel_fix in H.
        rewrite !proc_item_msg.
        assert (E : forall b' f0, lrel body b' ->
                     proc_items pc' kf trad file fstack (cur :: outer) f0 b' =
                     proc_items pc kf trad file fstack (cur :: outer) f0 body).
        { clear H. induction body as [|i r IHr]; intros [|i' r'] f0 Hl; try contradiction; [reflexivity|].
          inversion IH as [|? ? Hi Hr]; subst. destruct Hl as [Hl1 Hl2]. cbn [proc_items]. rewrite (Hi _ _ _ Hl1).
          destruct (proc_item pc kf trad file fstack (cur :: outer) f0 i); cbn [bind]; auto. }
        now rewrite (E _ _ H).
    Qed.

    Lemma proc_items_lrel : forall its its' outer cur,
      lrel its its' ->
      proc_items pc' kf trad file fstack outer cur its' = proc_items pc kf trad file fstack outer cur its.
    Proof.
      induction its as [|i r IH]; intros [|i' r'] outer cur H; try contradiction; [reflexivity|].
      destruct H as [H1 H2]. cbn [proc_items]. rewrite (proc_item_irel _ _ _ _ H1).
      destruct (proc_item pc kf trad file fstack outer cur i); cbn [bind]; auto.
    Qed.
  End PI.

  (* files: same keys in the same order, related contents *)
  Fixpoint frel (fs fs' : files) : Prop :=
    match fs, fs' with
    | [], [] => True
    | a :: r, a' :: r' => fst a = fst a' /\ lrel (snd a) (snd a') /\ frel r r'
    | _, _ => False
    end.

  Lemma frel_assoc fs : forall fs' f, frel fs fs' ->
    match assoc f fs, assoc f fs' with
    | Some its, Some its' => lrel its its'
    | None, None => True
    | _, _ => False
    end.
  Proof.
    induction fs as [|a r IH]; intros [|a' r'] f H; try contradiction; [exact I|].
    destruct H as [E [Hl Hr]]. cbn [assoc]. rewrite <- E. destruct (String.eqb (fst a) f); [exact Hl|now apply IH].
  Qed.

  Lemma frel_length fs : forall fs', frel fs fs' -> List.length fs' = List.length fs.
  Proof. induction fs as [|a r IH]; intros [|a' r'] H; try contradiction; [reflexivity|]. cbn. f_equal. apply IH, H. Qed.

  Lemma frel_known fs fs' g : frel fs fs' -> known fs' g = known fs g.
  Proof. intros H. pose proof (frel_assoc fs fs' g H) as Ha. unfold known. destruct (assoc g fs), (assoc g fs'); tauto. Qed.

  Lemma proc_item_kf_ext pc kf kf' trad file fstack : (forall g, kf' g = kf g) -> forall it outer cur,
    proc_item pc kf' trad file fstack outer cur it = proc_item pc kf trad file fstack outer cur it.
  Proof.
    intros Hk. induction it as [l nm|l a g|l nm v|l nm v|l nm t|l nm b body IH|l nm x body IH|l t nm k|l nm v]
      using item_ind'; intros outer cur; try reflexivity.
    - cbn [proc_item]. now rewrite Hk.
    - destruct b; try reflexivity. rewrite !proc_item_enum.
      assert (E : forall f0, proc_items pc kf' trad file fstack (cur :: outer) f0 body =
                             proc_items pc kf trad file fstack (cur :: outer) f0 body).
      { induction body as [|i r IHr]; intros f0; [reflexivity|]. inversion IH; subst.
        cbn [proc_items]. rewrite H1. destruct (proc_item pc kf trad file fstack (cur :: outer) f0 i); cbn [bind]; auto. }
      now rewrite E.
    - rewrite !proc_item_msg.
      assert (E : forall f0, proc_items pc kf' trad file fstack (cur :: outer) f0 body =
                             proc_items pc kf trad file fstack (cur :: outer) f0 body).
      { induction body as [|i r IHr]; intros f0; [reflexivity|]. inversion IH; subst.
        cbn [proc_items]. rewrite H1. destruct (proc_item pc kf trad file fstack (cur :: outer) f0 i); cbn [bind]; auto. }
      now rewrite E.
  Qed.

  Lemma proc_items_kf_ext pc kf kf' trad file fstack : (forall g, kf' g = kf g) -> forall its outer cur,
    proc_items pc kf' trad file fstack outer cur its = proc_items pc kf trad file fstack outer cur its.
  Proof.
    intros Hk. induction its as [|i r IH]; intros outer cur; [reflexivity|].
    cbn [proc_items]. rewrite (proc_item_kf_ext pc kf kf' trad file fstack Hk).
    destruct (proc_item pc kf trad file fstack outer cur i); cbn [bind]; auto.
  Qed.

  Theorem parse_file_frel fs fs' trad : frel fs fs' -> forall n fstack f,
    parse_file n fs' trad fstack f = parse_file n fs trad fstack f.
  Proof.
    intros Hf. induction n as [|n IH]; intros fstack f; [reflexivity|].
    cbn [parse_file]. pose proof (frel_assoc fs fs' f Hf) as Ha.
    destruct (assoc f fs) as [its|], (assoc f fs') as [its'|]; try contradiction; [|reflexivity].
    rewrite (proc_items_kf_ext _ (known fs) (known fs') trad f (f :: fstack) (fun g => frel_known fs fs' g Hf)).
    rewrite (proc_items_lrel (parse_file n fs trad) (parse_file n fs' trad) (known fs) trad f (f :: fstack)
               (fun g => IH (f :: fstack) g) its its' [] _ Ha).
    reflexivity.
  Qed.

  Theorem check_frel fs fs' root trad : frel fs fs' -> check fs' root trad = check fs root trad.
  Proof. intros Hf. unfold check. rewrite (frel_length fs fs' Hf). now apply parse_file_frel. Qed.
End Congr.

(* ---------- instance: a constant written as another expression of equal value ---------- *)

(* value of an expression without references, [None] when it divides by zero or mentions a name *)
Fixpoint cvalue (e : cexpr) : option Z :=
  match e with
  | EInt z => Some z
  | ERef _ => None
  | EAdd a b => match cvalue a, cvalue b with Some x, Some y => Some (x + y) | _, _ => None end
  | ESub a b => match cvalue a, cvalue b with Some x, Some y => Some (x - y) | _, _ => None end
  | EMul a b => match cvalue a, cvalue b with Some x, Some y => Some (x * y) | _, _ => None end
  | EDiv a b => match cvalue a, cvalue b with
                | Some x, Some y => if y =? 0 then None else Some (x / y)
                | _, _ => None
                end
  end.

Lemma cvalue_eval file st l e z : cvalue e = Some z -> eval_cexpr file st l e = Ok z.
Proof.
  revert z. induction e as [z0|p|a IHa b IHb|a IHa b IHb|a IHa b IHb|a IHa b IHb]; intros z; cbn [cvalue eval_cexpr];
    try discriminate.
  - intros H; now inversion H.
  - destruct (cvalue a), (cvalue b); try discriminate. intros H; inversion H. now rewrite (IHa _ eq_refl), (IHb _ eq_refl).
  - destruct (cvalue a), (cvalue b); try discriminate. intros H; inversion H. now rewrite (IHa _ eq_refl), (IHb _ eq_refl).
  - destruct (cvalue a), (cvalue b); try discriminate. intros H; inversion H. now rewrite (IHa _ eq_refl), (IHb _ eq_refl).
  - destruct (cvalue a), (cvalue b) as [y|]; try discriminate. destruct (y =? 0) eqn:E; [discriminate|].
    intros H; inversion H. rewrite (IHa _ eq_refl), (IHb _ eq_refl). cbn [bind]. now rewrite E.
Qed.

(* [const_expr_step it it']: the same constant statement, its integer value written as two
   expression trees of equal value (a literal is the tree [EInt z]) *)
Definition const_expr_step (it it' : item) : Prop :=
  exists l n e e' z, it = IConst l n (CExpr e) /\ it' = IConst l n (CExpr e') /\
                     cvalue e = Some z /\ cvalue e' = Some z.

Lemma const_expr_step_obs pc kf trad file fstack outer cur it it' :
  const_expr_step it it' ->
  proc_item pc kf trad file fstack outer cur it = proc_item pc kf trad file fstack outer cur it'.
Proof.
  intros [l [n [e [e' [z [-> [-> [H1 H2]]]]]]]]. cbn [proc_item eval_cvalx].
  now rewrite (cvalue_eval _ _ _ _ _ H1), (cvalue_eval _ _ _ _ _ H2).
Qed.

(* rewriting any number of constants, in any file at any depth: check is UNCHANGED (same
   elaboration, same types, same errors) *)
Theorem const_expr_check fs fs' root trad :
  frel const_expr_step fs fs' -> check fs' root trad = check fs root trad.
Proof. apply check_frel. intros. now apply const_expr_step_obs. Qed.
