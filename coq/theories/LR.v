(* LR.v — the PARSER inside the model: grammar, derivations, an executable model of ply's
   table-driven LALR driver as bitproto uses it, and an executable validator of (grammar,
   tables) in the style of Menhir's Validator_safe.

   What is modelled: `ply.yacc.LRParser.parseopt_notrack` (ply 3.11; bitproto calls
   `self.parser.parse(s)`: no debug, no tracking) —
     * a STATE stack (ply's symbol stack only carries semantic values: `reduce` pops `p.len`
       entries and pushes one, whatever they are);
     * the lookahead is fetched LAZILY: not before the action table is consulted, and not at
       all in a `defaulted state` (a state whose action row has exactly one entry, a
       reduction: `set_defaulted_states`) — this changes WHEN the lexer runs and which
       reductions have already been performed when a syntax error is detected;
     * at end of input the lookahead is `$end` (terminal 0) and stays;
     * `t > 0` shift, `t < 0` reduce by production `-t` (pop `len`, run the p_ function,
       `goto[statestack[-1]][name]`), `t == 0` accept, `t is None`: error.  bitproto's
       `p_error` raises GrammarError immediately (no recovery, ply's error-token machinery is
       never entered): [SyntaxError idx tok] with the index and type of the offending token
       ([idx] = number of tokens when it is `$end`);
     * Python's own failures in the loop — `statestack[-1]` on an emptied stack, `prod[-t]`
       out of range (IndexError), `goto[..][name]` missing (KeyError) — are explicit results
       [Crash]; they are proved unreachable for validated tables (LRProofs.lr_safe).
   Explicit fuel; [OutOfFuel] is proved unreachable with fuel [lr_bound] (LRProofs).

   The generated file gen/GenLR.v holds the grammar read from the docstrings of /repo's
   parser, the tables ply builds from it at run time, and the validator's certificates. *)
From Coq Require Import List Arith Bool.
Import ListNotations.

(* ------------------------------------------------------------------------------------ *)
(* grammar, derivations                                                                   *)
(* ------------------------------------------------------------------------------------ *)

Inductive symbol : Type := T (t : nat) | NT (n : nat).

Definition symbol_eqb (a b : symbol) : bool :=
  match a, b with
  | T x, T y => Nat.eqb x y
  | NT x, NT y => Nat.eqb x y
  | _, _ => false
  end.

Definition osym_eqb (a b : option symbol) : bool :=
  match a, b with
  | Some x, Some y => symbol_eqb x y
  | None, None => true
  | _, _ => false
  end.

(* production number -> (lhs, rhs); production 0 is  S' -> start *)
Definition grammar := list (nat * list symbol).

Definition eof : nat := 0.

(* a sentential form derives a word (leftmost-symbol-first decomposition; no nesting) *)
Inductive derives (G : grammar) : list symbol -> list nat -> Prop :=
| d_nil : derives G [] []
| d_tok : forall t ss w, derives G ss w -> derives G (T t :: ss) (t :: w)
| d_nt : forall A p rhs ss w1 w2, nth_error G p = Some (A, rhs) ->
    derives G rhs w1 -> derives G ss w2 -> derives G (NT A :: ss) (w1 ++ w2).

(* bottom-up (shift/reduce) derivation: symbol stack (top first), tokens consumed (in order),
   productions reduced (in order).  [sr G [NT start] ts rs]: the token sequence [ts] is
   reduced to the start symbol by the reductions [rs], i.e. [rs] is a rightmost derivation
   of [ts] in reverse. *)
Inductive sr (G : grammar) : list symbol -> list nat -> list nat -> Prop :=
| sr_init : sr G [] [] []
| sr_shift : forall st w rs t, sr G st w rs -> sr G (T t :: st) (w ++ [t]) rs
| sr_reduce : forall st w rs p A rhs, nth_error G p = Some (A, rhs) ->
    sr G (rev rhs ++ st) w rs -> sr G (NT A :: st) w (rs ++ [p]).

(* the same as an executable check of a claimed reduction sequence: replay the rightmost
   derivation (last reduction first): expand the rightmost non-terminal of the form *)
Fixpoint all_terms (l : list symbol) : option (list nat) :=
  match l with
  | [] => Some []
  | T t :: l' => match all_terms l' with Some w => Some (t :: w) | None => None end
  | NT _ :: _ => None
  end.

(* form = pre ++ [NT A] ++ map T w *)
Fixpoint split_last_nt (form : list symbol) : option (list symbol * nat * list nat) :=
  match form with
  | [] => None
  | X :: r =>
    match split_last_nt r with
    | Some (pre, A, w) => Some (X :: pre, A, w)
    | None =>
      match X with
      | NT A => match all_terms r with Some w => Some ([], A, w) | None => None end
      | T _ => None
      end
    end
  end.

Fixpoint rm_expand (G : grammar) (rrs : list nat) (form : list symbol) : option (list symbol) :=
  match rrs with
  | [] => Some form
  | p :: rrs' =>
    match nth_error G p, split_last_nt form with
    | Some (A, rhs), Some (pre, A', w) =>
      if Nat.eqb A A' then rm_expand G rrs' (pre ++ rhs ++ map T w) else None
    | _, _ => None
    end
  end.

Fixpoint list_nat_eqb (a b : list nat) : bool :=
  match a, b with
  | [], [] => true
  | x :: a', y :: b' => Nat.eqb x y && list_nat_eqb a' b'
  | _, _ => false
  end.

(* [rm_check G start rs ts]: the reductions [rs] (in the order the parser performed them) are a
   rightmost derivation of [ts] from [start], reversed *)
Definition rm_check (G : grammar) (start : nat) (rs ts : list nat) : bool :=
  match rm_expand G (rev rs) [NT start] with
  | Some form => match all_terms form with Some w => list_nat_eqb w ts | None => false end
  | None => false
  end.

(* ------------------------------------------------------------------------------------ *)
(* ply's run-time tables                                                                  *)
(* ------------------------------------------------------------------------------------ *)

Inductive action : Type := Shift (s : nat) | Reduce (p : nat) | AcceptA.

Record tables : Type := mk_tables {
  t_action : list (list (nat * action));      (* state -> terminal -> action (dict order) *)
  t_goto : list (list (nat * nat));           (* state -> non-terminal -> state *)
  t_prod : list (nat * nat)                   (* production -> (name, len) *)
}.

Fixpoint assoc {A : Type} (k : nat) (l : list (nat * A)) : option A :=
  match l with
  | [] => None
  | (k', v) :: r => if Nat.eqb k k' then Some v else assoc k r
  end.

Definition row (TB : tables) (s : nat) : list (nat * action) := nth s (t_action TB) [].
Definition grow (TB : tables) (s : nat) : list (nat * nat) := nth s (t_goto TB) [].
Definition action_of (TB : tables) (s t : nat) : option action := assoc t (row TB s).
Definition goto_of (TB : tables) (s A : nat) : option nat := assoc A (grow TB s).

(* LRParser.set_defaulted_states: exactly one action, and it is a reduction *)
Definition defaulted (TB : tables) (s : nat) : option nat :=
  match row TB s with
  | [(_, Reduce p)] => Some p
  | _ => None
  end.

(* ------------------------------------------------------------------------------------ *)
(* the driver                                                                             *)
(* ------------------------------------------------------------------------------------ *)

Inductive look : Type := NoLook | Tok (t : nat) | Eof.

Definition look_type (la : look) : nat := match la with Tok t => t | _ => eof end.

Inductive crash : Type := IndexError | KeyError.

Inductive result : Type :=
| Accept (rs : list nat)                           (* productions reduced, in order *)
| SyntaxError (idx tok : nat) (rs : list nat)      (* offending token: index, type; reductions so far *)
| Crash (e : crash) (rs : list nat)
| OutOfFuel.

Record conf : Type := mk_conf {
  c_stack : list nat;       (* statestack, top first *)
  c_look : look;
  c_rest : list nat;        (* tokens the lexer has not been asked for yet *)
  c_pos : nat;              (* number of tokens fetched *)
  c_out : list nat          (* productions reduced, last first *)
}.

Definition fetch (la : look) (rest : list nat) (pos : nat) : look * list nat * nat :=
  match la with
  | NoLook => match rest with
              | t :: r => (Tok t, r, S pos)
              | [] => (Eof, [], pos)
              end
  | _ => (la, rest, pos)
  end.

Definition err_index (la : look) (pos : nat) : nat :=
  match la with Tok _ => pred pos | _ => pos end.

Definition do_reduce (TB : tables) (p : nat) (stack : list nat) (la : look) (rest : list nat)
  (pos : nat) (out : list nat) : conf + result :=
  match nth_error (t_prod TB) p with
  | None => inr (Crash IndexError (rev out))                    (* prod[-t] *)
  | Some (A, k) =>
    match skipn k stack with                                    (* del statestack[-plen:] *)
    | [] => inr (Crash IndexError (rev (p :: out)))             (* statestack[-1] *)
    | q :: below =>
      match goto_of TB q A with
      | None => inr (Crash KeyError (rev (p :: out)))           (* goto[..][pname] *)
      | Some s' => inl (mk_conf (s' :: q :: below) la rest pos (p :: out))
      end
    end
  end.

Definition step (TB : tables) (c : conf) : conf + result :=
  match c_stack c with
  | [] => inr (Crash IndexError (rev (c_out c)))
  | s :: _ =>
    match defaulted TB s with
    | Some p => do_reduce TB p (c_stack c) (c_look c) (c_rest c) (c_pos c) (c_out c)
    | None =>
      match fetch (c_look c) (c_rest c) (c_pos c) with
      | (la, rest, pos) =>
        match action_of TB s (look_type la) with
        | None => inr (SyntaxError (err_index la pos) (look_type la) (rev (c_out c)))
        | Some (Shift s') => inl (mk_conf (s' :: c_stack c) NoLook rest pos (c_out c))
        | Some (Reduce p) => do_reduce TB p (c_stack c) la rest pos (c_out c)
        | Some AcceptA => inr (Accept (rev (c_out c)))
        end
      end
    end
  end.

Fixpoint run (TB : tables) (fuel : nat) (c : conf) : result :=
  match fuel with
  | O => OutOfFuel
  | S f => match step TB c with
           | inr r => r
           | inl c' => run TB f c'
           end
  end.

Definition init (ts : list nat) : conf := mk_conf [0] NoLook ts 0 [].

Definition lr_run (TB : tables) (fuel : nat) (ts : list nat) : result := run TB fuel (init ts).

(* ------------------------------------------------------------------------------------ *)
(* validator (certificate checking)                                                       *)
(* ------------------------------------------------------------------------------------ *)

(* hints: incoming symbol of each state (None for state 0); known stack suffix:
   [past s] = [P1; P2; ...]: whenever s is on the stack there are at least |past s| states
   below it and the i-th one below is a member of Pi *)
Record hints : Type := mk_hints {
  h_incoming : list (option symbol);
  h_past : list (list (list nat))
}.

Definition incoming (H : hints) (s : nat) : option symbol := nth s (h_incoming H) None.
Definition past (H : hints) (s : nat) : list (list nat) := nth s (h_past H) [].

Definition mem (x : nat) (l : list nat) : bool := existsb (Nat.eqb x) l.
Definition subset (a b : list nat) : bool := forallb (fun x => mem x b) a.

Fixpoint levels_ok (claimed avail : list (list nat)) : bool :=
  match claimed, avail with
  | [], _ => true
  | c :: cs, a :: avs => subset a c && levels_ok cs avs
  | _ :: _, [] => false
  end.

Definition target_ok (n : nat) (H : hints) (s : nat) (X : symbol) (s' : nat) : bool :=
  (s' <? n) && negb (s' =? 0) && osym_eqb (incoming H s') (Some X)
  && levels_ok (past H s') ([s] :: past H s).

Definition has_goto (TB : tables) (A q : nat) : bool :=
  match goto_of TB q A with Some _ => true | None => false end.

(* [rrhs] = the right-hand side reversed (top of stack first); [lv] = possible states per depth *)
Fixpoint reduce_ok (TB : tables) (H : hints) (A : nat) (rrhs : list symbol) (lv : list (list nat)) : bool :=
  match rrhs, lv with
  | [], l :: _ => forallb (has_goto TB A) l
  | X :: rr, l :: lv' => forallb (fun q => osym_eqb (incoming H q) (Some X)) l && reduce_ok TB H A rr lv'
  | _, [] => false
  end.

Definition action_ok (G : grammar) (TB : tables) (H : hints) (n start s : nat) (ta : nat * action) : bool :=
  match ta with
  | (t, Shift s') => negb (t =? eof) && target_ok n H s (T t) s'
  | (t, Reduce p) =>
    match nth_error G p, nth_error (t_prod TB) p with
    | Some (A, rhs), Some (A', k) =>
      (A =? A') && (k =? length rhs) && reduce_ok TB H A (rev rhs) ([s] :: past H s)
    | _, _ => false
    end
  | (t, AcceptA) =>
    (t =? eof) && osym_eqb (incoming H s) (Some (NT start))
    && match past H s with [0] :: _ => true | _ => false end
  end.

Definition goto_ok (n : nat) (H : hints) (s : nat) (g : nat * nat) : bool :=
  match g with (A, s') => target_ok n H s (NT A) s' end.

Definition state_ok (G : grammar) (TB : tables) (H : hints) (n start s : nat) : bool :=
  forallb (action_ok G TB H n start s) (row TB s) && forallb (goto_ok n H s) (grow TB s).

Definition start_of (G : grammar) : option nat :=
  match G with
  | (_, [NT st]) :: _ => Some st
  | _ => None
  end.

Definition validate (G : grammar) (TB : tables) (H : hints) : bool :=
  let n := length (t_action TB) in
  match start_of G with
  | Some start =>
    (0 <? n) && osym_eqb (incoming H 0) None
    && match past H 0 with [] => true | _ => false end
    && forallb (state_ok G TB H n start) (seq 0 n)
  | None => false
  end.

(* ------------------------------------------------------------------------------------ *)
(* validated ranking: bounds the reductions between two shifts                            *)
(* ------------------------------------------------------------------------------------ *)

(* [RT]: one row per lookahead 0..nterm (row nterm: any other token), one entry per state *)
Definition rank (RT : list (list nat)) (nterm : nat) (s t : nat) : nat :=
  nth s (nth (Nat.min t nterm) RT []) 0.

Definition red_rank_ok (TB : tables) (H : hints) (RT : list (list nat)) (nterm W : nat) (s t p : nat) : bool :=
  match nth_error (t_prod TB) p with
  | Some (A, k) =>
    match nth_error ([s] :: past H s) k with
    | Some l =>
      forallb (fun q => match goto_of TB q A with
                        | Some s' => rank RT nterm s' t + W + 1 <=? rank RT nterm s t + k * W
                        | None => false
                        end) l
    | None => false
    end
  | None => false
  end.

Definition state_rank_ok (TB : tables) (H : hints) (RT : list (list nat)) (nterm W : nat) (s : nat) : bool :=
  match defaulted TB s with
  | Some p => forallb (fun t => red_rank_ok TB H RT nterm W s t p) (seq 0 (S nterm))
  | None => forallb (fun ta => match ta with
                               | (t, Reduce p) => red_rank_ok TB H RT nterm W s t p
                               | _ => true
                               end) (row TB s)
  end.

Definition validate_rank (TB : tables) (H : hints) (RT : list (list nat)) (nterm W R : nat) : bool :=
  (0 <? R)
  && forallb (fun r => forallb (fun x => x <? R) r) RT
  && forallb (state_rank_ok TB H RT nterm W) (seq 0 (length (t_action TB))).

(* fuel that always suffices for validated tables (LRProofs.lr_terminates) *)
Definition lr_bound (W R : nat) (n : nat) : nat := (R + W) * (n + 1) + 1.
