(* Bits.v — bit lists, bytes, and the arithmetic lemmas every wire-level proof uses.
   Bit lists are LSB first.  Bytes are Z in [0,256).  A byte buffer is a list Z and
   is viewed as one big little-endian number by [bufZ]. *)
From Coq Require Import ZArith List Bool Lia.
Import ListNotations.
Open Scope Z_scope.
Ltac Zify.zify_post_hook ::= Z.div_mod_to_equations.

(* ---------- bit lists ---------- *)

Fixpoint bits_of (n : nat) (z : Z) : list bool :=
  match n with
  | O => []
  | S k => Z.odd z :: bits_of k (Z.div2 z)
  end.

Fixpoint Z_of_bits (l : list bool) : Z :=
  match l with
  | [] => 0
  | b :: r => Z.b2z b + 2 * Z_of_bits r
  end.

(* group a bit list into bytes, zero padding the last one *)
Fixpoint pack_fuel (fuel : nat) (l : list bool) : list Z :=
  match fuel with
  | O => []
  | S f =>
      match l with
      | [] => []
      | _ => Z_of_bits (firstn 8 l) :: pack_fuel f (skipn 8 l)
      end
  end.

Definition pack (l : list bool) : list Z := pack_fuel (length l) l.

(* ---------- byte buffers ---------- *)

Fixpoint bufZ (s : list Z) : Z :=
  match s with
  | [] => 0
  | b :: r => b + 256 * bufZ r
  end.

Definition is_byte (b : Z) : Prop := 0 <= b < 256.
Definition bytes_ok (s : list Z) : Prop := Forall is_byte s.

Fixpoint bytes_of (k : nat) (z : Z) : list Z :=
  match k with
  | O => []
  | S k' => (z mod 256) :: bytes_of k' (z / 256)
  end.

Fixpoint upd {A} (l : list A) (k : nat) (x : A) : list A :=
  match l, k with
  | [], _ => []
  | _ :: r, O => x :: r
  | a :: r, S k' => a :: upd r k' x
  end.

Fixpoint zeros (n : nat) : list Z :=
  match n with O => [] | S k => 0 :: zeros k end.

(* ---------- lemmas: bit lists ---------- *)

Lemma bits_of_length n z : length (bits_of n z) = n.
Proof. revert z; induction n; simpl; intros; [reflexivity|now rewrite IHn]. Qed.

Lemma Z_of_bits_range l : 0 <= Z_of_bits l < 2 ^ Z.of_nat (length l).
Proof.
  induction l as [|b r IH]; [simpl; lia|].
  cbn [Z_of_bits length]. rewrite Nat2Z.inj_succ, Z.pow_succ_r by lia.
  remember (2 ^ Z.of_nat (length r)) as p in *.
  destruct b; cbn [Z.b2z]; lia.
Qed.

Lemma Z_of_bits_app a b :
  Z_of_bits (a ++ b) = Z_of_bits a + 2 ^ Z.of_nat (length a) * Z_of_bits b.
Proof.
  induction a as [|x a IH].
  { cbn [app Z_of_bits length]. change (2 ^ Z.of_nat 0) with 1. lia. }
  cbn [app Z_of_bits length]. rewrite IH, Nat2Z.inj_succ, Z.pow_succ_r by lia. ring.
Qed.

Lemma odd_div2 z : z = Z.b2z (Z.odd z) + 2 * Z.div2 z.
Proof. rewrite (Z.div2_odd z) at 1. lia. Qed.

Lemma Z_of_bits_of n z : Z_of_bits (bits_of n z) = z mod 2 ^ Z.of_nat n.
Proof.
  revert z; induction n as [|n IH]; intros z.
  - simpl. now rewrite Z.mod_1_r.
  - cbn [bits_of Z_of_bits]. rewrite IH, Nat2Z.inj_succ, Z.pow_succ_r by lia.
    assert (H2 : 0 < 2 ^ Z.of_nat n) by (apply Z.pow_pos_nonneg; lia).
    rewrite Z.rem_mul_r by lia. rewrite Z.div2_div, Zmod_odd.
    destruct (Z.odd z); cbn [Z.b2z]; lia.
Qed.

Lemma bits_of_testbit n z k :
  (k < n)%nat -> nth k (bits_of n z) false = Z.testbit z (Z.of_nat k).
Proof.
  revert z k; induction n as [|n IH]; intros z k Hk; [lia|].
  destruct k as [|k]; cbn [bits_of nth].
  - now rewrite Z.bit0_odd.
  - rewrite IH by lia. rewrite Z.div2_spec, Z.shiftr_spec by lia.
    f_equal; lia.
Qed.

Lemma Z_of_bits_testbit l k :
  Z.testbit (Z_of_bits l) (Z.of_nat k) = nth k l false.
Proof.
  revert k; induction l as [|b r IH]; intros k.
  - rewrite Z.testbit_0_l. destruct k; reflexivity.
  - cbn [Z_of_bits]. destruct k as [|k].
    + cbn [nth]. rewrite Z.add_comm, Z.testbit_0_r. reflexivity.
    + cbn [nth]. rewrite Nat2Z.inj_succ, Z.add_comm, Z.testbit_succ_r by lia. apply IH.
Qed.

(* ---------- lemmas: pack ---------- *)

Lemma firstn_skipn_Z_of_bits (l : list bool) k :
  Z_of_bits l = Z_of_bits (firstn k l) + 2 ^ Z.of_nat (length (firstn k l)) * Z_of_bits (skipn k l).
Proof. rewrite <- Z_of_bits_app, firstn_skipn. reflexivity. Qed.

Lemma bufZ_pack_fuel fuel l :
  (length l <= fuel)%nat -> bufZ (pack_fuel fuel l) = Z_of_bits l.
Proof.
  revert l; induction fuel as [|f IH]; intros l Hl.
  - destruct l; [reflexivity|simpl in Hl; lia].
  - cbn [pack_fuel]. destruct l as [|b r]; [reflexivity|].
    cbn [bufZ]. rewrite IH.
    2:{ rewrite skipn_length. simpl length in *. lia. }
    rewrite (firstn_skipn_Z_of_bits (b :: r) 8).
    destruct (Nat.le_gt_cases 8 (length (b :: r))) as [Hge|Hlt].
    + rewrite firstn_length_le by exact Hge. reflexivity.
    + rewrite (skipn_all2 (b :: r)) by lia. cbn [Z_of_bits]. lia.
Qed.

Lemma bufZ_pack l : bufZ (pack l) = Z_of_bits l.
Proof. apply bufZ_pack_fuel. lia. Qed.

Lemma pack_fuel_length fuel l :
  (length l <= fuel)%nat ->
  Z.of_nat (length (pack_fuel fuel l)) = (Z.of_nat (length l) + 7) / 8.
Proof.
  revert l; induction fuel as [|f IH]; intros l Hl.
  - destruct l; [reflexivity|simpl in Hl; lia].
  - cbn [pack_fuel]. destruct l as [|b r]; [reflexivity|].
    remember (b :: r) as l eqn:El.
    assert (Hn : (0 < length l)%nat) by (subst l; simpl; lia).
    cbn [length]. rewrite Nat2Z.inj_succ, IH by (rewrite skipn_length; lia).
    rewrite skipn_length. lia.
Qed.

Lemma pack_length l : Z.of_nat (length (pack l)) = (Z.of_nat (length l) + 7) / 8.
Proof. apply pack_fuel_length. lia. Qed.

Lemma Z_of_bits_firstn8_byte l : is_byte (Z_of_bits (firstn 8 l)).
Proof.
  pose proof (Z_of_bits_range (firstn 8 l)) as H.
  pose proof (firstn_le_length 8 l) as H8.
  unfold is_byte. split; [lia|].
  eapply Z.lt_le_trans; [apply H|].
  change 256 with (2 ^ 8). apply Z.pow_le_mono_r; lia.
Qed.

Lemma pack_fuel_bytes_ok fuel l : bytes_ok (pack_fuel fuel l).
Proof.
  revert l; induction fuel as [|f IH]; intros l; cbn [pack_fuel]; [constructor|].
  destruct l; constructor; [apply Z_of_bits_firstn8_byte | apply IH].
Qed.

Lemma pack_bytes_ok l : bytes_ok (pack l).
Proof. apply pack_fuel_bytes_ok. Qed.

(* ---------- lemmas: byte buffers ---------- *)

Lemma bufZ_range s : bytes_ok s -> 0 <= bufZ s < 256 ^ Z.of_nat (length s).
Proof.
  induction 1 as [|b r Hb Hr IH]; [simpl; lia|].
  cbn [bufZ length]. rewrite Nat2Z.inj_succ, Z.pow_succ_r by lia.
  unfold is_byte in Hb. lia.
Qed.

Lemma bufZ_inj s1 s2 :
  bytes_ok s1 -> bytes_ok s2 -> length s1 = length s2 -> bufZ s1 = bufZ s2 -> s1 = s2.
Proof.
  intros H1; revert s2; induction H1 as [|b r Hb Hr IH]; intros s2 H2 Hl He.
  - destruct s2; [reflexivity|discriminate].
  - destruct s2 as [|b2 r2]; [discriminate|].
    inversion H2 as [|? ? Hb2 Hr2]; subst. cbn [bufZ length] in *.
    unfold is_byte in *.
    assert (b = b2) by lia. subst b2.
    f_equal. apply IH; [assumption|lia|lia].
Qed.

Lemma bufZ_zeros n : bufZ (zeros n) = 0.
Proof. induction n; cbn [bufZ zeros]; lia. Qed.

Lemma zeros_length n : length (zeros n) = n.
Proof. induction n; simpl; congruence. Qed.

Lemma zeros_bytes_ok n : bytes_ok (zeros n).
Proof. induction n; constructor; [unfold is_byte; lia|assumption]. Qed.

Lemma upd_length {A} (l : list A) k x : length (upd l k x) = length l.
Proof. revert k; induction l; intros [|k]; simpl; auto. Qed.

Lemma bufZ_upd s k x :
  (k < length s)%nat ->
  bufZ (upd s k x) = bufZ s + (x - nth k s 0) * 256 ^ Z.of_nat k.
Proof.
  revert k; induction s as [|b r IH]; intros k Hk; [simpl in Hk; lia|].
  destruct k as [|k]; cbn [upd bufZ nth].
  - simpl. lia.
  - rewrite IH by (simpl in Hk; lia).
    rewrite Nat2Z.inj_succ, Z.pow_succ_r by lia. ring.
Qed.

Lemma upd_bytes_ok s k x : bytes_ok s -> is_byte x -> bytes_ok (upd s k x).
Proof.
  intros Hs Hx; revert k; induction Hs as [|b r Hb Hr IH]; intros [|k]; cbn [upd].
  - constructor.
  - constructor.
  - constructor; assumption.
  - constructor; [assumption|apply IH].
Qed.

Lemma nth_bytes_ok s k : bytes_ok s -> is_byte (nth k s 0).
Proof.
  intros Hs; revert k; induction Hs; intros [|k]; simpl; auto; unfold is_byte; lia.
Qed.

(* byte k of a buffer as a slice of the big number *)
Lemma bufZ_nth s k :
  bytes_ok s -> nth k s 0 = (bufZ s / 256 ^ Z.of_nat k) mod 256.
Proof.
  intros Hs; revert k; induction Hs as [|b r Hb Hr IH]; intros k.
  - rewrite Z.div_0_l by (apply Z.pow_nonzero; lia). destruct k; reflexivity.
  - unfold is_byte in Hb. destruct k as [|k]; cbn [nth bufZ].
    + change (256 ^ Z.of_nat 0) with 1. rewrite Z.div_1_r. lia.
    + rewrite IH, Nat2Z.inj_succ, Z.pow_succ_r by lia.
      assert (HP: 0 < 256 ^ Z.of_nat k) by (apply Z.pow_pos_nonneg; lia).
      rewrite <- Z.div_div by lia.
      replace ((b + 256 * bufZ r) / 256) with (bufZ r) by lia.
      reflexivity.
Qed.
