(* CTop.v — top-level statements about the C model: C03 (encode half), C06 (encode half),
   C07 (containment, bounds, size constant). *)
From Coq Require Import ZArith List Bool Lia ZifyBool.
From BP Require Import Bits Schema Spec PyRt CMem CMemProofs CRt ByteStep PyEncStep PyEncProofs PyEncTop CCopyProofs CBaseProofs CEncProofs CStoreProofs.
From BPGen Require Import GenC.
Import ListNotations.
Open Scope Z_scope.

(* a schema tree the C back end can be given: a message, well-formed after sorting,
   expressible in the grammar *)
Definition c_schema (t : ty) : Prop :=
  is_msg t = true /\ wf (norm t) = true /\ cwf (norm t) = true.

(* ---------- C03 / C06: Encode<Msg>(store v) = wire v ---------- *)

Theorem c_encode_is_wire B E t v :
  B = E -> c_schema t -> has_ty (norm t) v = true ->
  c_encode_ty B E t (store E (norm t) v) = COk (wire t v).
Proof.
  intros HBE (Hm & Hw & Hc) Ht.
  destruct (store_ok_all E (norm t) v Hw Ht) as [Hs Hb].
  rewrite (c_encode_is_wire_abs B E t _ HBE Hm Hw Hc Hs). unfold wire. now rewrite Hb.
Qed.

(* interoperation with the Python encoder (C01): same bytes *)
Theorem c_encode_eq_py_encode t v :
  c_schema t -> has_ty (norm t) v = true ->
  exists bs, c_encode_ty LE LE t (store LE (norm t) v) = COk bs /\ py_encode t v = Ok bs.
Proof.
  intros Hs Ht. exists (wire t v). split.
  - apply c_encode_is_wire; auto.
  - destruct Hs as (Hm & Hw & _). apply py_encode_is_wire; assumption.
Qed.

(* the big-endian build on a big-endian host produces the little-endian host's bytes *)
Theorem c_encode_be_eq_le t v :
  c_schema t -> has_ty (norm t) v = true ->
  c_encode_ty BE BE t (store BE (norm t) v) = c_encode_ty LE LE t (store LE (norm t) v).
Proof. intros Hs Ht. rewrite !c_encode_is_wire by auto. reflexivity. Qed.

(* ---------- C07: containment of out-of-range storage contents ---------- *)

(* v1 and v2 agree on the low n bits of every leaf *)
Fixpoint low_eq (t : ty) (v1 v2 : val) : Prop :=
  match t with
  | TBool => (match v1 with VB b => b | _ => false end) = (match v2 with VB b => b | _ => false end)
  | TByte => zof v1 mod 2 ^ 8 = zof v2 mod 2 ^ 8
  | TUint n => zof v1 mod 2 ^ n = zof v2 mod 2 ^ n
  | TInt n => zof v1 mod 2 ^ n = zof v2 mod 2 ^ n
  | TEnum n _ => zof v1 mod 2 ^ n = zof v2 mod 2 ^ n
  | TAlias u => low_eq u v1 v2
  | TArr _ _ e => Forall2 (low_eq e) (vlist v1) (vlist v2)
  | TMsg _ fs =>
      (fix go (l : list (Z * ty)) : Prop :=
         match l with
         | [] => True
         | kf :: r => low_eq (snd kf) (vfield (fst kf) v1) (vfield (fst kf) v2) /\ go r
         end) fs
  end.

Lemma bits_of_low n z1 z2 : 0 <= n -> z1 mod 2 ^ n = z2 mod 2 ^ n ->
  bits_of (Z.to_nat n) z1 = bits_of (Z.to_nat n) z2.
Proof.
  intros Hn H.
  rewrite <- (bits_of_mod (Z.to_nat n) (Z.to_nat n) z1), <- (bits_of_mod (Z.to_nat n) (Z.to_nat n) z2) by lia.
  rewrite Z2Nat.id by lia. now rewrite H.
Qed.

Lemma low_eq_enc_bits t : forall v1 v2, wf t = true -> low_eq t v1 v2 -> enc_bits t v1 = enc_bits t v2.
Proof.
  induction t as [| | n | n | n ms | t IH | x c e IH | x fs IH] using ty_ind'; intros v1 v2 Hw H.
  - cbn [low_eq enc_bits] in *. now rewrite H.
  - cbn [low_eq enc_bits] in *. apply (bits_of_low 8); [lia|exact H].
  - cbn [low_eq enc_bits wf] in *. apply bits_of_low; [lia|exact H].
  - cbn [low_eq enc_bits wf] in *. apply bits_of_low; [lia|exact H].
  - cbn [low_eq enc_bits wf] in *. rewrite !andb_true_iff in Hw. apply bits_of_low; [lia|exact H].
  - cbn [low_eq enc_bits wf] in *. apply IH; assumption.
  - cbn [low_eq enc_bits wf] in *. rewrite !andb_true_iff in Hw. destruct Hw as [_ Hwe]. f_equal.
    induction H as [|a b l1 l2 Hab _ IHl]; [reflexivity|]. cbn [flat_map]. rewrite IHl. f_equal. apply IH; assumption.
  - rewrite wf_msg in Hw. rewrite !andb_true_iff in Hw. destruct Hw as [_ Hwf].
    rewrite !enc_bits_msg. f_equal. cbn [low_eq] in H.
    induction fs as [|kf r IHr]; [reflexivity|].
    inversion IH as [|? ? Hk Hr]; subst. destruct H as [Hh Ht].
    cbn [fields_wf] in Hwf. rewrite !andb_true_iff in Hwf. destruct Hwf as [[[_ _] Hwk] Hwr].
    cbn [fields_bits]. f_equal; [apply Hk; assumption|apply IHr; assumption].
Qed.

(* Encode<Msg> on ARBITRARY storage contents: the bytes are the wire of the value read
   back from storage, which depends on the low n bits of each field only *)
Theorem c_encode_contained B E t o1 o2 :
  B = E -> c_schema t -> shape_ok (norm t) o1 -> shape_ok (norm t) o2 ->
  low_eq (norm t) (abs_val E (norm t) o1) (abs_val E (norm t) o2) ->
  c_encode_ty B E t o1 = COk (wire t (abs_val E (norm t) o1)) /\
  c_encode_ty B E t o2 = c_encode_ty B E t o1.
Proof.
  intros HBE (Hm & Hw & Hc) H1 H2 Hl.
  rewrite (c_encode_is_wire_abs B E t o1 HBE Hm Hw Hc H1), (c_encode_is_wire_abs B E t o2 HBE Hm Hw Hc H2).
  split; [reflexivity|]. unfold wire. now rewrite (low_eq_enc_bits _ _ _ Hw Hl).
Qed.

(* ---------- C07: the size constant ---------- *)

Theorem size_constant t : 0 <= nbits t -> ast_nbytes (nbits t) = nbytes t /\ nbytes t = (nbits t + 7) / 8.
Proof. intros H. unfold ast_nbytes, nbytes. split; [|reflexivity]. destruct (nbits t mod 8 =? 0) eqn:E; lia. Qed.

Theorem wire_length_abs B E t o :
  B = E -> is_msg t = true -> wf (norm t) = true -> cwf (norm t) = true -> shape_ok (norm t) o ->
  Z.of_nat (length (wire t (abs_val E (norm t) o))) = nbytes t.
Proof.
  intros HBE Hm Hw Hc Hs. unfold wire. rewrite pack_length.
  pose proof (nbits_nonneg (norm t) Hw) as Hnn.
  set (x0 := {| xs := zeros (Z.to_nat (nbits (norm t))); xi := 0 |}).
  destruct (enc_ok_all B E HBE (norm t) o x0 Hw Hc Hs) as [Hlen _].
  { unfold cenc_pre, x0. cbn [xs xi]. rewrite zeros_length, bufZ_zeros. change (2 ^ 0) with 1.
    split; [apply zeros_bytes_ok|]. lia. }
  rewrite Hlen. unfold nbytes. now rewrite nbits_norm.
Qed.

(* ---------- instances in the exact form the props files state ---------- *)

Lemma c_encode_le t v : c_schema t -> has_ty (norm t) v = true ->
  c_encode_ty LE LE t (store LE (norm t) v) = COk (wire t v).
Proof. exact (c_encode_is_wire LE LE t v eq_refl). Qed.

Lemma c_encode_be t v : c_schema t -> has_ty (norm t) v = true ->
  c_encode_ty BE BE t (store BE (norm t) v) = COk (wire t v).
Proof. exact (c_encode_is_wire BE BE t v eq_refl). Qed.

Lemma c_no_oob_encode B E t o :
  B = E -> c_schema t -> shape_ok (norm t) o ->
  exists bs, c_encode_ty B E t o = COk bs /\ Z.of_nat (length bs) = nbytes t.
Proof.
  intros HBE Hs Ho. exists (wire t (abs_val E (norm t) o)).
  destruct Hs as (Hm & Hw & Hc). split.
  - exact (c_encode_is_wire_abs B E t o HBE Hm Hw Hc Ho).
  - exact (wire_length_abs B E t o HBE Hm Hw Hc Ho).
Qed.

Lemma be_paths_off : fast_paths BE = false /\ forall a b c, batch_pred BE a b c = false.
Proof. split; [reflexivity|intros; reflexivity]. Qed.

(* ---------- C03 / C06: Decode<Msg> ---------- *)
From BP Require Import CDecProofs.

Lemma c_decode_le t v : c_schema t -> has_ty (norm t) v = true ->
  c_decode_ty LE LE t (wire t v) = COk (store LE (norm t) v).
Proof. intros (Hm & Hw & Hc) Ht. exact (c_decode_wire LE LE t v eq_refl Hm Hw Hc Ht). Qed.

Lemma c_decode_be t v : c_schema t -> has_ty (norm t) v = true ->
  c_decode_ty BE BE t (wire t v) = COk (store BE (norm t) v).
Proof. intros (Hm & Hw & Hc) Ht. exact (c_decode_wire BE BE t v eq_refl Hm Hw Hc Ht). Qed.

(* a C peer decodes what a Python peer encoded *)
Lemma c_decode_of_py_encode t v : c_schema t -> has_ty (norm t) v = true ->
  exists bs, py_encode t v = Ok bs /\ c_decode_ty LE LE t bs = COk (store LE (norm t) v).
Proof.
  intros Hs Ht. exists (wire t v). split.
  - destruct Hs as (Hm & Hw & _). apply py_encode_is_wire; assumption.
  - apply c_decode_le; assumption.
Qed.

(* round trip inside C *)
Lemma c_roundtrip B E t v : B = E -> c_schema t -> has_ty (norm t) v = true ->
  exists bs, c_encode_ty B E t (store E (norm t) v) = COk bs /\
             c_decode_ty B E t bs = COk (store E (norm t) v).
Proof.
  intros HBE Hs Ht. exists (wire t v). split; [apply c_encode_is_wire; assumption|].
  destruct Hs as (Hm & Hw & Hc). apply c_decode_wire; assumption.
Qed.

(* no out-of-bounds access while decoding a buffer produced by the same schema: the stream
   buffer is exactly BYTES_LENGTH bytes, every field object exactly sizeof bytes *)
Lemma c_no_oob_decode B E t v : B = E -> c_schema t -> has_ty (norm t) v = true ->
  Z.of_nat (length (wire t v)) = nbytes t /\
  exists o, c_decode_ty B E t (wire t v) = COk o.
Proof.
  intros HBE (Hm & Hw & Hc) Ht. split.
  - rewrite (wire_length t v Hw Ht). reflexivity.
  - exists (store E (norm t) v). apply c_decode_wire; assumption.
Qed.

(* ---------- C05: forward compatibility of the C decoder ---------- *)
From BP Require Import Evolve CEvolveProofs.
From BPGen Require GenPy.

Lemma c_forward_compat_le t1 t2 v2 :
  c_schema t1 -> c_schema t2 -> evolvesb (norm t1) (norm t2) = true -> has_ty (norm t2) v2 = true ->
  c_decode_ty LE LE t1 (wire t2 v2) = COk (store LE (norm t1) (proj (norm t1) v2)).
Proof.
  intros (Hm & Hw1 & Hc1) (_ & Hw2 & _) He Ht.
  exact (c_forward_compat_gen LE LE t1 t2 v2 eq_refl Hm Hw1 Hc1 Hw2 He Ht).
Qed.

Lemma c_forward_compat_be t1 t2 v2 :
  c_schema t1 -> c_schema t2 -> evolvesb (norm t1) (norm t2) = true -> has_ty (norm t2) v2 = true ->
  c_decode_ty BE BE t1 (wire t2 v2) = COk (store BE (norm t1) (proj (norm t1) v2)).
Proof.
  intros (Hm & Hw1 & Hc1) (_ & Hw2 & _) He Ht.
  exact (c_forward_compat_gen BE BE t1 t2 v2 eq_refl Hm Hw1 Hc1 Hw2 He Ht).
Qed.

(* at every nesting depth and position the old C decoder leaves the cursor after the whole
   evolved node *)
Lemma c_cursor_le t1 : cev_ok LE LE t1.
Proof. exact (cev_ok_all LE LE eq_refl t1). Qed.

(* the skip formulas translated from bitproto.c are the Python ones wherever a decoder can be *)
Lemma c_formulas :
  (forall i ahead, ms_ito i ahead = GenPy.message_ito i ahead) /\
  (forall i ahead cap ci, 0 < cap -> i + 16 <= ci ->
     ar_ito i ahead ci cap = GenPy.array_ito i ahead cap ci) /\
  (forall ito ci, ms_ito_taken ito ci = GenPy.ito_taken ito ci) /\
  (forall ito ci, ar_ito_taken ito ci = GenPy.ito_taken ito ci).
Proof.
  repeat split; try reflexivity.
  intros i ahead cap ci Hc Hi. unfold ar_ito, GenPy.array_ito.
  rewrite Z.quot_div_nonneg by lia. reflexivity.
Qed.
