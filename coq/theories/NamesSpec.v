(* NamesSpec.v — the style-guide name languages of docs/language.rst ("Naming Style") as
   boolean recognisers, the word structure of such names, and the regions in which the
   documented scheme is known NOT to hold (known finding `digit-names`).

   Two families:
   * [is_pascal], [is_lower_snake], [is_upper_snake], [go_tag_ok], [is_prefix]: the sets for
     which the theorems of props/C15.v are proved (letters only);
   * [sg_pascal], [sg_lower], [sg_upper]: what the style guide shows, digits included; the
     difference between the two families is where the scheme can break. *)
From Coq Require Import List Bool NArith Ascii String.
From BP Require Import NamesBase Names.
From BPGen Require Import GenNames.
Import ListNotations.
Open Scope list_scope.

Definition us : ascii := chr 95.          (* "_" *)
Definition is_us (c : ascii) : bool := is_chr 95 c.

(* ---- words ---------------------------------------------------------------------------- *)

Definition lower_word (w : str) : bool := nonempty w && forallb is_lower w.   (* [a-z]+ *)
Definition upper_word (w : str) : bool := nonempty w && forallb is_upper w.   (* [A-Z]+ *)

(* a hump: one capital followed by one or more small letters, [A-Z][a-z]+ *)
Definition is_hump (h : str) : bool :=
  match h with
  | u :: ((_ :: _) as r) => is_upper u && forallb is_lower r
  | _ => false
  end.

(* split before every capital letter *)
Fixpoint humps (s : str) : list str :=
  match s with
  | [] => []
  | c :: r =>
      match r with
      | [] => [[c]]
      | y :: _ =>
          if is_upper y then [c] :: humps r
          else match humps r with
               | h :: hs => (c :: h) :: hs
               | [] => [[c]]
               end
      end
  end.

Definition words (s : str) : list str := split_on 95 s.
Definition join_us (ws : list str) : str := join_with [us] ws.

(* ---- the proved languages ------------------------------------------------------------- *)

(* PascalCase: ([A-Z][a-z]+)+ *)
Definition is_pascal (s : str) : bool := nonempty s && forallb is_hump (humps s).
(* lower_snake_case: [a-z]+(_[a-z]+)* *)
Definition is_lower_snake (s : str) : bool := forallb lower_word (words s).
(* UPPER_SNAKE_CASE: [A-Z]+(_[A-Z]+)* *)
Definition is_upper_snake (s : str) : bool := forallb upper_word (words s).

Definition single (w : str) : bool := match w with [_] => true | _ => false end.
Fixpoint no_adjacent_singles (ws : list str) : bool :=
  match ws with
  | a :: ((b :: _) as r) => negb (single a && single b) && no_adjacent_singles r
  | _ => true
  end.
(* field names whose Go struct tag is the schema name again *)
Definition go_tag_ok (s : str) : bool := is_lower_snake s && no_adjacent_singles (words s).

(* a capital followed by small letters only (possibly none): [A-Z][a-z]* *)
Definition cap_word (w : str) : bool :=
  match w with u :: r => is_upper u && forallb is_lower r | [] => false end.

(* a word of a name prefix: small letters, Capitalised, or CAPITALS *)
Definition pword (w : str) : bool := lower_word w || cap_word w || upper_word w.

(* a name prefix: words of those three kinds, each followed by "_" — the documented
   "my_prefix_", but also "Lib_", "MY_", "My_Lib_" — without two adjacent one-letter words;
   the empty prefix is allowed *)
Fixpoint prefix_ok (ws : list str) : bool :=
  match ws with
  | [] => false
  | [w] => negb (nonempty w)
  | w :: r => pword w && prefix_ok r
  end.
Definition is_prefix (p : str) : bool :=
  match p with
  | [] => true
  | _ => prefix_ok (words p) && no_adjacent_singles (words p)
  end.
Definition prefix_words (p : str) : list str := removelast (words p).

(* the PascalCase form of a prefix word: first letter capital, and a word in CAPITALS keeps
   only that first capital *)
Definition capw (w : str) : str :=
  match w with
  | [] => []
  | c :: r => if nonempty r && forallb is_upper (c :: r) then c :: lower r else to_upper c :: r
  end.

(* a prefix WITHOUT the final "_" ("Bp", "my_lib"): its last word must be small letters or
   Capitalised with at least two letters, otherwise where the prefix ends is ambiguous
   ("MY" + "Link").  Not covered by the theorems; compared with the implementation only. *)
Definition is_prefix_open (p : str) : bool :=
  nonempty p && forallb pword (words p) && no_adjacent_singles (words p) &&
  match rev (words p) with
  | w :: _ => lower_word w || (cap_word w && negb (single w))
  | [] => false
  end.

(* capitalise a word (first letter to upper case) *)
Definition cap (w : str) : str := match w with [] => [] | c :: r => to_upper c :: r end.

(* ---- the style guide as shown, digits included ----------------------------------------- *)

Definition is_alnum_u (c : ascii) : bool := is_upper c || is_digit c.
Definition is_alnum_l (c : ascii) : bool := is_lower c || is_digit c.
Definition first_is (p : ascii -> bool) (s : str) : bool :=
  match s with c :: _ => p c | [] => false end.

Definition sg_upper (s : str) : bool :=
  first_is is_upper s && forallb (fun w => nonempty w && forallb is_alnum_u w) (words s).
Definition sg_lower (s : str) : bool :=
  first_is is_lower s && forallb (fun w => nonempty w && forallb is_alnum_l w) (words s).
Definition sg_pascal (s : str) : bool :=
  first_is is_upper s && forallb (fun c => is_upper c || is_lower c || is_digit c) s.

Definition has_digit (s : str) : bool := existsb is_digit s.

Fixpoint no_adjacent_capitals (s : str) : bool :=
  match s with
  | a :: ((b :: _) as r) => negb (is_upper a && is_upper b) && no_adjacent_capitals r
  | _ => true
  end.
(* Pascal names without acronyms: how such a name splits into words is unambiguous *)
Definition sg_pascal_noacr (s : str) : bool := sg_pascal s && no_adjacent_capitals s.

(* ---- the linter's acceptance (compiler/bitproto/linter.py), on the model ---------------- *)

Definition lint_pascal (s : str) : bool := str_eqb (pascal_case s) s.
Definition lint_snake (s : str) : bool := str_eqb (snake_case s) s.
Definition lint_upper (s : str) : bool := py_isupper s.

(* ---- claims of the property on a single top-level name --------------------------------- *)

(* enum member / constant: the C, Go and Python name is the schema name *)
Definition claim_enum_member (s : str) : bool :=
  str_eqb (def_name LC KEnumField [] [] s) s &&
  str_eqb (def_name LGo KEnumField [] [] s) s &&
  str_eqb (def_name LPy KEnumField [] [] s) s.
Definition claim_constant (s : str) : bool :=
  str_eqb (def_name LC KConstant [] [] s) s &&
  str_eqb (def_name LGo KConstant [] [] s) s &&
  str_eqb (def_name LPy KConstant [] [] s) s.
(* message / enum / alias name *)
Definition claim_type_name (s : str) : bool :=
  str_eqb (def_name LC KMessage [] [] s) s && str_eqb (def_name LC KEnum [] [] s) s &&
  str_eqb (def_name LC KAlias [] [] s) s && str_eqb (def_name LGo KMessage [] [] s) s &&
  str_eqb (def_name LGo KEnum [] [] s) s && str_eqb (def_name LGo KAlias [] [] s) s &&
  str_eqb (def_name LPy KMessage [] [] s) s && str_eqb (def_name LPy KEnum [] [] s) s &&
  str_eqb (def_name LPy KAlias [] [] s) s.
(* message field: C and Python member is the schema name, the Go tag is the schema name *)
Definition claim_field (s : str) : bool :=
  str_eqb (field_name LC s) s && str_eqb (field_name LPy s) s &&
  str_eqb (go_tag (field_name LGo s)) s.

(* the size constant of a top-level message in C/Go is BYTES_LENGTH_ + its humps in upper
   case joined by "_" *)
Definition upper_snake_of_pascal (s : str) : str := join_us (map upper (humps s)).
Definition claim_size_const (s : str) : bool :=
  str_eqb (size_const LC (def_name LC KMessage [] [] s))
          (Str size_const_prefix ++ upper_snake_of_pascal s) &&
  str_eqb (size_const LGo (def_name LGo KMessage [] [] s))
          (Str size_const_prefix ++ upper_snake_of_pascal s).

(* ---- known finding `digit-names`: style-guide names the linter accepts, on which a claim
        fails.  The class is: the name contains a digit, or (field names) two adjacent
        one-letter words. *)
Definition digit_names_class (s : str) : bool :=
  has_digit s || (is_lower_snake s && negb (no_adjacent_singles (words s))).
