(* OpModeStd.v — optimization mode produces what standard mode produces: both the emitted
   -O statements (OpMode) and the C runtime driven by the standard-mode descriptors (CRt)
   encode to Spec.wire, and both decoders consume Spec.wire. *)
From Coq Require Import ZArith List Bool.
From BP Require Import Bits Schema Spec.
From BP Require OpMode OpModeProofs CMem CRt CTop.
Import ListNotations.
Open Scope Z_scope.

Lemma opmode_eq_standard_enc t v :
  OpMode.opmode_ok (norm t) = true -> CTop.c_schema t -> has_ty (norm t) v = true ->
  exists bs,
    OpMode.run_encode (OpMode.c_le_body true t) t v = Some bs /\
    OpMode.run_encode (OpMode.c_be_body true t) t v = Some bs /\
    OpMode.run_encode (OpMode.go_body true t) t v = Some bs /\
    CRt.c_encode_ty CMem.LE CMem.LE t (CRt.store CMem.LE (norm t) v) = CMem.COk bs.
Proof.
  intros Ho Hs Ht. pose proof Hs as (_ & Hw & _). exists (wire t v). repeat split.
  - now apply OpModeProofs.c_le_encode.
  - now apply OpModeProofs.c_be_encode.
  - now apply OpModeProofs.go_encode.
  - now apply CTop.c_encode_le.
Qed.

Lemma opmode_eq_standard_dec t v :
  OpMode.opmode_ok (norm t) = true -> CTop.c_schema t -> has_ty (norm t) v = true ->
  forall bs, CRt.c_encode_ty CMem.LE CMem.LE t (CRt.store CMem.LE (norm t) v) = CMem.COk bs ->
    OpMode.run_decode (OpMode.c_le_body false t) t bs = Some (OpMode.store (norm t) v) /\
    OpMode.run_decode (OpMode.c_be_body false t) t bs = Some (OpMode.store (norm t) v) /\
    OpMode.run_decode (OpMode.go_body false t) t bs = Some (OpMode.store (norm t) v) /\
    CRt.c_decode_ty CMem.LE CMem.LE t bs = CMem.COk (CRt.store CMem.LE (norm t) v).
Proof.
  intros Ho Hs Ht bs Hb. pose proof Hs as (_ & Hw & _).
  rewrite (CTop.c_encode_le t v Hs Ht) in Hb. inversion Hb; subst bs. repeat split.
  - now apply OpModeProofs.c_le_decode.
  - now apply OpModeProofs.c_be_decode.
  - now apply OpModeProofs.go_decode.
  - now apply CTop.c_decode_le.
Qed.
