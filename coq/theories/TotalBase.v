(* TotalBase.v — C09: the three-way outcome and the PARTIAL Python primitives that the
   lexer rules, the semantic actions and the renderers of bitproto use, each with its
   failing branch written out.  coq/gen/GenC09.v (generated from /repo on every run) is
   written in terms of these; Total.v assembles the model. *)
From Coq Require Import String Ascii ZArith List Bool Lia.
Import ListNotations.
Open Scope Z_scope.

(* Python exceptions that are NOT converted into a diagnostic by _main.py *)
Inductive pyexn : Type :=
| IndexError | KeyError | ValueError | ZeroDivisionError | AttributeError | TypeError
| UnicodeDecodeError | InternalError
| OtherExn           (* any other exception class observed on the implementation (case files only) *)
| FuelExhausted.     (* artefact of fuel recursion; the theorems show it is never produced *)

(* Outcome of one operation.  [ParserError k]: a bitproto error class (a subclass of
   ParserError, k = the class name) which _main.py turns into a diagnostic. *)
Inductive outcome (A : Type) : Type :=
| Ok (a : A)
| ParserError (kind : string)
| Crash (e : pyexn).
Arguments Ok {A} a.
Arguments ParserError {A} kind.
Arguments Crash {A} e.

Definition bind {A B} (x : outcome A) (f : A -> outcome B) : outcome B :=
  match x with
  | Ok a => f a
  | ParserError k => ParserError k
  | Crash e => Crash e
  end.

Definition is_crash {A} (x : outcome A) : bool :=
  match x with Crash _ => true | _ => false end.

Definition is_ok {A} (x : outcome A) : bool :=
  match x with Ok _ => true | _ => false end.

(* ---------- sequences ---------- *)

Definition zlen {A} (s : list A) : Z := Z.of_nat (length s).

(* s[i] — negative indices count from the end, out of range raises IndexError *)
Definition py_idx {A} (s : list A) (i : Z) : outcome A :=
  let j := if i <? 0 then zlen s + i else i in
  if j <? 0 then Crash IndexError
  else match nth_error s (Z.to_nat j) with
       | Some x => Ok x
       | None => Crash IndexError
       end.

(* s[a:] for a >= 0 and s[a:-b] for a, b >= 0: slicing never raises *)
Definition py_slice_from {A} (a : nat) (s : list A) : list A := skipn a s.
Definition py_slice {A} (a b : nat) (s : list A) : list A :=
  firstn (length s - b - a) (skipn a s).

(* dict with single-character keys: `k in d` and `d[k]` *)
Fixpoint table_get {V} (d : list (ascii * V)) (k : ascii) : option V :=
  match d with
  | [] => None
  | (k', v) :: r => if Ascii.eqb k k' then Some v else table_get r k
  end.
Definition table_mem {V} (d : list (ascii * V)) (k : ascii) : bool :=
  match table_get d k with Some _ => true | None => false end.
Definition py_dict_get {V} (d : list (ascii * V)) (k : ascii) : outcome V :=
  match table_get d k with Some v => Ok v | None => Crash KeyError end.

(* ---------- integers ---------- *)

(* a // b  (floor division: Z.div has exactly Python's rounding for both signs) *)
Definition py_floordiv (a b : Z) : outcome Z :=
  if b =? 0 then Crash ZeroDivisionError else Ok (a / b).

Definition digit_of (base : Z) (c : ascii) : option Z :=
  let n := Z.of_nat (nat_of_ascii c) in
  let d := if (48 <=? n) && (n <=? 57) then n - 48
           else if (97 <=? n) && (n <=? 122) then n - 87
           else if (65 <=? n) && (n <=? 90) then n - 55
           else 99 in
  if d <? base then Some d else None.

Fixpoint digits_value (base : Z) (acc : Z) (s : list ascii) : option Z :=
  match s with
  | [] => Some acc
  | c :: r => match digit_of base c with
              | Some d => digits_value base (acc * base + d) r
              | None => None
              end
  end.

Definition is_pow2_base (base : Z) : bool :=
  (base =? 2) || (base =? 4) || (base =? 8) || (base =? 16) || (base =? 32).

(* int(s) / int(s, base) on a string of digits (no sign, no blanks, no underscores: the
   token rules guarantee that; anything else is modelled as the ValueError CPython raises).
   CPython >= 3.11 refuses more than [maxd] digits unless the base is a power of two.
   With base 16 a leading "0x" is accepted. *)
Definition strip_0x (base : Z) (s : list ascii) : list ascii :=
  match s with
  | z :: x :: r =>
      if (base =? 16) && Ascii.eqb z "0"%char && (Ascii.eqb x "x"%char || Ascii.eqb x "X"%char)
      then r else s
  | _ => s
  end.

Definition py_int (base maxd : Z) (s0 : list ascii) : outcome Z :=
  let s := strip_0x base s0 in
  match s with
  | [] => Crash ValueError
  | _ =>
      if negb (is_pow2_base base) && (maxd <? zlen s) then Crash ValueError
      else match digits_value base 0 s with
           | Some z => Ok z
           | None => Crash ValueError
           end
  end.

(* 10 ^ n by repeated squaring (Z.pow iterates n multiplications; n = 4300 here) *)
Fixpoint fast_pow (b : Z) (e : positive) : Z :=
  match e with
  | xH => b
  | xO p => let h := fast_pow b p in h * h
  | xI p => let h := fast_pow b p in b * (h * h)
  end.

Definition pow10 (n : Z) : Z :=
  match n with
  | Z0 => 1
  | Zpos p => fast_pow 10 p
  | Zneg _ => 0
  end.

Lemma fast_pow_spec b p : fast_pow b p = b ^ Zpos p.
Proof.
  induction p as [p IH|p IH|]; cbn [fast_pow].
  - rewrite IH. rewrite Pos2Z.inj_xI. rewrite Z.pow_add_r by lia. rewrite Z.pow_mul_r by lia.
    rewrite Z.pow_1_r. rewrite Z.pow_2_r. rewrite <- Z.pow_mul_l. rewrite Z.pow_mul_l. lia.
  - rewrite IH. rewrite Pos2Z.inj_xO. rewrite Z.pow_mul_r by lia. rewrite Z.pow_2_r.
    rewrite <- Z.pow_mul_l. rewrite Z.pow_mul_l. reflexivity.
  - rewrite Z.pow_1_r. reflexivity.
Qed.

Lemma pow10_spec n : 0 <= n -> pow10 n = 10 ^ n.
Proof. destruct n; [reflexivity|intros _; apply fast_pow_spec|lia]. Qed.

(* str(z) / "{0}".format(z): ValueError when z has more than maxd decimal digits *)
Definition py_str_int (maxd : Z) (z : Z) : outcome unit :=
  if Z.abs z <? pow10 maxd then Ok tt else Crash ValueError.

(* try: x = int(..) except ValueError: raise <ParserError subclass k> *)
Definition py_catch_value_error {A} (x : outcome A) (k : string) : outcome A :=
  match x with
  | Crash ValueError => ParserError k
  | _ => x
  end.

(* ---------- shapes of the generated tables ---------- *)

(* index expression of an access p[k] in a semantic action: a literal, or len(p) - c *)
Inductive pindex : Type := KConst (k : Z) | KLenMinus (c : Z).

(* kind of an option's value (from the descriptor's default) *)
Inductive okind : Type := OBool | OInt | OStr.

(* ---------- class hierarchy (errors.py) ---------- *)

Fixpoint subclass_fuel (fuel : nat) (h : list (string * list string)) (c target : string) : bool :=
  String.eqb c target ||
  match fuel with
  | O => false
  | S f =>
      match find (fun e => String.eqb (fst e) c) h with
      | Some (_, bases) => existsb (fun b => subclass_fuel f h b target) bases
      | None => false
      end
  end.

Definition is_subclass (h : list (string * list string)) (c target : string) : bool :=
  subclass_fuel (length h) h c target.

(* ---------- helpers for case files ---------- *)

Definition asc (l : list nat) : list ascii := map ascii_of_nat l.
(* the same from binary numerals (case files: cheap to parse) *)
Definition ascz (l : list Z) : list ascii := map (fun z => ascii_of_nat (Z.to_nat z)) l.

Fixpoint ascii_list_eqb (a b : list ascii) : bool :=
  match a, b with
  | [], [] => true
  | x :: r, y :: s => Ascii.eqb x y && ascii_list_eqb r s
  | _, _ => false
  end.

Definition pyexn_eqb (a b : pyexn) : bool :=
  match a, b with
  | IndexError, IndexError | KeyError, KeyError | ValueError, ValueError
  | ZeroDivisionError, ZeroDivisionError | AttributeError, AttributeError
  | TypeError, TypeError | UnicodeDecodeError, UnicodeDecodeError
  | InternalError, InternalError | FuelExhausted, FuelExhausted => true
  (* OtherExn is never equal to anything: the model cannot predict an unknown exception *)
  | _, _ => false
  end.

Definition outcome_eqb {A} (eq : A -> A -> bool) (a b : outcome A) : bool :=
  match a, b with
  | Ok x, Ok y => eq x y
  | ParserError k, ParserError k' => String.eqb k k'
  | Crash e, Crash e' => pyexn_eqb e e'
  | _, _ => false
  end.
