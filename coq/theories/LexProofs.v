(* LexProofs.v — generic theorems about the tokenizer model (Lex.v), for EVERY input string and
   every word-character predicate [uw]:
     * the backtracking matcher is sound for a declarative semantics [dm] of the regexes
       (context-aware because of \b): every lexeme chosen for rule r is in L(r);
     * a rule whose regex [consumes] never yields an empty lexeme; a [no_nl] regex never yields a
       lexeme containing a newline;
     * the token loop with fuel |s|+1 never runs out of fuel; the items it produces tile the
       input; positions and line numbers are what C08/C20 say.
   The only facts about the generated tables that are used are boolean side conditions
   evaluated by vm_compute (rules_consume, rules_lines, ignore/literals without newline). *)
From Coq Require Import String NArith ZArith List Bool Lia.
From BP Require Import TotalBase LexBase Lex LexSpec LexCase.
From BPGen Require Import GenLexer.
Import ListNotations.

(* the character before the position after reading w *)
Fixpoint lastc (p : option N) (w : list N) : option N :=
  match w with [] => p | c :: r => lastc (Some c) r end.

Lemma lastc_app p a b : lastc p (a ++ b) = lastc (lastc p a) b.
Proof. revert p. induction a as [|x a IH]; intro p; cbn [lastc app]; [reflexivity|apply IH]. Qed.

Lemma zlen_app' {A} (a b : list A) : zlen (a ++ b) = (zlen a + zlen b)%Z.
Proof. unfold zlen. rewrite app_length. lia. Qed.
Lemma zlen_cons' {A} (x : A) (l : list A) : zlen (x :: l) = (1 + zlen l)%Z.
Proof. unfold zlen. cbn [length]. lia. Qed.
Lemma zlen_nonneg' {A} (a : list A) : (0 <= zlen a)%Z.
Proof. unfold zlen. lia. Qed.

Lemma count_nl_app a b : count_nl (a ++ b) = (count_nl a + count_nl b)%Z.
Proof. unfold count_nl. rewrite filter_app. apply zlen_app'. Qed.
Lemma count_nl_nil : count_nl [] = 0%Z.
Proof. reflexivity. Qed.
Lemma count_nl_cons c l : count_nl (c :: l) = ((if N.eqb 10 c then 1 else 0) + count_nl l)%Z.
Proof. unfold count_nl. cbn [filter]. destruct (N.eqb 10 c); [rewrite zlen_cons'|]; lia. Qed.
Lemma count_nl_cons_non c l : c <> NL -> count_nl (c :: l) = count_nl l.
Proof.
  intro H. rewrite count_nl_cons. destruct (N.eqb_spec 10 c) as [K|K]; [|lia].
  exfalso. apply H. unfold NL. symmetry. exact K.
Qed.
Lemma count_nl_none w : ~ In NL w -> count_nl w = 0%Z.
Proof.
  induction w as [|c w IH]; intro H; [reflexivity|]. rewrite count_nl_cons.
  destruct (N.eqb_spec 10 c) as [E|E].
  - exfalso. apply H. left. unfold NL. symmetry. exact E.
  - rewrite IH; [reflexivity|]. intro K. apply H. right. exact K.
Qed.

Lemma firstn_app_exact {A} (w r : list A) : firstn (length (w ++ r) - length r) (w ++ r) = w.
Proof.
  rewrite app_length. replace (length w + length r - length r)%nat with (length w) by lia.
  rewrite firstn_app, Nat.sub_diag, firstn_all. cbn [firstn]. apply app_nil_r.
Qed.

(* ---------- declarative semantics -------------------------------------------------------- *)
Section Sound.
Variable uw : N -> bool.

(* dm r p w post: w is matched by r when the character before is p and the input goes on with post *)
Inductive dm : rx -> option N -> list N -> list N -> Prop :=
| DEps p post : dm XEps p [] post
| DAtom r c p post : is_atom r = true -> atom_ok r c = true -> dm r p [c] post
| DBound p post : boundary uw (p, post) = true -> dm XBound p [] post
| DSeq a b p w1 w2 post :
    dm a p w1 (w2 ++ post) -> dm b (lastc p w1) w2 post -> dm (XSeq a b) p (w1 ++ w2) post
| DAltL a b p w post : dm a p w post -> dm (XAlt a b) p w post
| DAltR a b p w post : dm b p w post -> dm (XAlt a b) p w post
| DStar0 g a p post : dm (XStar g a) p [] post
| DStarS g a p w1 w2 post :
    dm a p w1 (w2 ++ post) -> dm (XStar g a) (lastc p w1) w2 post -> dm (XStar g a) p (w1 ++ w2) post.

Definition good (r : rx) (s s' : mstate) : Prop :=
  exists w, snd s = w ++ snd s' /\ fst s' = lastc (fst s) w /\ dm r (fst s) w (snd s').

Lemma good_atom r s s' :
  is_atom r = true -> In s' (step1 (atom_ok r) s) -> good r s s'.
Proof.
  intros Hat Hin. destruct s as [p l]. unfold step1 in Hin. cbn [snd] in Hin.
  destruct l as [|c t]; [contradiction|].
  destruct (atom_ok r c) eqn:E; [|contradiction].
  destruct Hin as [<-|[]]. exists [c]. cbn [fst snd lastc app]. repeat split.
  constructor; assumption.
Qed.

Lemma star_sound (a : rx) (g : bool) (body : mstate -> list mstate) :
  (forall s s', In s' (body s) -> good a s s') ->
  forall fuel s s', In s' (star_loop body g fuel s) -> good (XStar g a) s s'.
Proof.
  intros Hb. induction fuel as [|f IH]; intros s s' Hin.
  - destruct Hin as [<-|[]]. exists []. cbn [app lastc]. repeat split. constructor.
  - cbn [star_loop] in Hin.
    assert (Hcases : s' = s \/ In s' (flat_map (star_loop body g f) (body s))).
    { destruct g.
      - apply in_app_or in Hin. destruct Hin as [H|[H|[]]]; [right; exact H|left; symmetry; exact H].
      - destruct Hin as [H|H]; [left; symmetry; exact H|right; exact H]. }
    destruct Hcases as [->|Hm].
    + exists []. cbn [app lastc]. repeat split. constructor.
    + apply in_flat_map in Hm. destruct Hm as (s1 & H1 & H2).
      apply Hb in H1. apply IH in H2.
      destruct H1 as (w1 & E1 & L1 & D1). destruct H2 as (w2 & E2 & L2 & D2).
      exists (w1 ++ w2). rewrite E1, E2, app_assoc. split; [reflexivity|]. split.
      * rewrite L2, L1, lastc_app. reflexivity.
      * rewrite E2 in D1. rewrite L1 in D2. econstructor; eassumption.
Qed.

Lemma mres_sound fuel r : forall s s', In s' (mres uw fuel r s) -> good r s s'.
Proof.
  induction r as [| c | c | | ng it | | a IHa b IHb | a IHa b IHb | g a IHa]; intros s s' Hin; cbn [mres] in Hin.
  - destruct Hin as [<-|[]]. exists []. cbn [app lastc]. repeat split. constructor.
  - apply good_atom; [reflexivity|exact Hin].
  - apply good_atom; [reflexivity|exact Hin].
  - apply good_atom; [reflexivity|exact Hin].
  - apply good_atom; [reflexivity|exact Hin].
  - destruct (boundary uw s) eqn:B; [|contradiction]. destruct Hin as [<-|[]].
    exists []. cbn [app lastc]. repeat split. constructor. destruct s; exact B.
  - apply in_flat_map in Hin. destruct Hin as (s1 & H1 & H2).
    apply IHa in H1. apply IHb in H2.
    destruct H1 as (w1 & E1 & L1 & D1). destruct H2 as (w2 & E2 & L2 & D2).
    exists (w1 ++ w2). rewrite E1, E2, app_assoc. split; [reflexivity|]. split.
    + rewrite L2, L1, lastc_app. reflexivity.
    + rewrite E2 in D1. rewrite L1 in D2. econstructor; eassumption.
  - apply in_app_or in Hin. destruct Hin as [H|H].
    + apply IHa in H. destruct H as (w & E & L & D). exists w. repeat split; try assumption. apply DAltL. exact D.
    + apply IHb in H. destruct H as (w & E & L & D). exists w. repeat split; try assumption. apply DAltR. exact D.
  - eapply star_sound; [|exact Hin]. exact IHa.
Qed.

(* ---------- what the syntactic side conditions give -------------------------------------- *)
Lemma dm_consumes r p w post : dm r p w post -> consumes r = true -> w <> [].
Proof.
  induction 1 as [| r c p post Hat Hok | | a b p w1 w2 post _ IH1 _ IH2 | a b p w post _ IH | a b p w post _ IH
                  | | g a p w1 w2 post _ IH1 _ IH2]; cbn [consumes]; intro Hc.
  - discriminate Hc.
  - intro E. discriminate E.
  - discriminate Hc.
  - apply orb_true_iff in Hc. intro E. apply app_eq_nil in E. destruct E as [E1 E2].
    destruct Hc as [Hc|Hc]; [apply (IH1 Hc E1)|apply (IH2 Hc E2)].
  - apply andb_true_iff in Hc. apply IH. apply Hc.
  - apply andb_true_iff in Hc. apply IH. apply Hc.
  - discriminate Hc.
  - discriminate Hc.
Qed.

Lemma atom_no_nl r : is_atom r = true -> no_nl r = negb (atom_ok r NL).
Proof. destruct r; try discriminate; reflexivity. Qed.

Lemma dm_no_nl r p w post : dm r p w post -> no_nl r = true -> ~ In NL w.
Proof.
  induction 1 as [| r c p post Hat Hok | | a b p w1 w2 post _ IH1 _ IH2 | a b p w post _ IH | a b p w post _ IH
                  | | g a p w1 w2 post _ IH1 _ IH2]; intro Hn.
  - intros [].
  - rewrite (atom_no_nl r Hat) in Hn. intros [E|[]]. subst c. rewrite Hok in Hn. discriminate.
  - intros [].
  - cbn [no_nl] in Hn. apply andb_true_iff in Hn. intro K. apply in_app_or in K.
    destruct K as [K|K]; [apply (IH1 (proj1 Hn) K)|apply (IH2 (proj2 Hn) K)].
  - cbn [no_nl] in Hn. apply andb_true_iff in Hn. apply IH. apply Hn.
  - cbn [no_nl] in Hn. apply andb_true_iff in Hn. apply IH. apply Hn.
  - intros [].
  - cbn [no_nl] in Hn. intro K. apply in_app_or in K.
    destruct K as [K|K]; [apply (IH1 Hn K)|apply (IH2 Hn K)].
Qed.

(* all characters of a lexeme satisfy P when every atom of the regex only accepts such characters *)
Fixpoint nrange (lo : N) (n : nat) : list N :=
  match n with O => [] | S k => lo :: nrange (N.succ lo) k end.
Definition range_list (lo hi : N) : list N := nrange lo (N.to_nat (hi + 1 - lo)).

Lemma nrange_in c : forall n lo, (lo <= c < lo + N.of_nat n)%N -> In c (nrange lo n).
Proof.
  induction n as [|n IH]; intros lo H; [lia|]. cbn [nrange].
  destruct (N.eq_dec lo c) as [E|E]; [left; exact E|right]. apply IH. lia.
Qed.

Fixpoint atoms_sat (P : N -> bool) (r : rx) : bool :=
  match r with
  | XEps | XBound => true
  | XChar c => P c
  | XIn false items => forallb (fun it => forallb P (range_list (fst it) (snd it))) items
  | XNotChar _ | XAny | XIn true _ => false
  | XSeq a b | XAlt a b => atoms_sat P a && atoms_sat P b
  | XStar _ a => atoms_sat P a
  end.

Lemma atoms_sat_atom P r c : is_atom r = true -> atoms_sat P r = true -> atom_ok r c = true -> P c = true.
Proof.
  destruct r as [| k | k | | ng it | | | |]; try discriminate; intros _ Hs Hok; cbn [atoms_sat atom_ok] in *.
  - apply N.eqb_eq in Hok. subst. exact Hs.
  - destruct ng; [discriminate|]. cbn [xorb] in Hok. unfold in_ranges in Hok.
    destruct (existsb (fun r : N * N => (fst r <=? c)%N && (c <=? snd r)%N) it) eqn:Hex; [|discriminate].
    clear Hok. rename Hex into Hok.
    apply existsb_exists in Hok. destruct Hok as (rg & Hin & Hrg).
    rewrite forallb_forall in Hs. specialize (Hs rg Hin). rewrite forallb_forall in Hs. apply Hs.
    apply andb_true_iff in Hrg. destruct Hrg as [H1 H2]. apply N.leb_le in H1, H2.
    unfold range_list. apply nrange_in. lia.
Qed.

Lemma dm_atoms_sat P r p w post : dm r p w post -> atoms_sat P r = true -> forallb P w = true.
Proof.
  induction 1 as [| r c p post Hat Hok | | a b p w1 w2 post _ IH1 _ IH2 | a b p w post _ IH | a b p w post _ IH
                  | | g a p w1 w2 post _ IH1 _ IH2]; intro Hs; try reflexivity.
  - cbn [forallb]. rewrite (atoms_sat_atom P r c Hat Hs Hok). reflexivity.
  - cbn [atoms_sat] in Hs. apply andb_true_iff in Hs. rewrite forallb_app, IH1, IH2; [reflexivity|apply Hs|apply Hs].
  - cbn [atoms_sat] in Hs. apply andb_true_iff in Hs. apply IH. apply Hs.
  - cbn [atoms_sat] in Hs. apply andb_true_iff in Hs. apply IH. apply Hs.
  - cbn [atoms_sat] in Hs. rewrite forallb_app, IH1, IH2; [reflexivity|exact Hs|exact Hs].
Qed.

(* inversion of the sequence with a literal head *)
Lemma dm_seq_inv a b p w post :
  dm (XSeq a b) p w post -> exists w1 w2, w = w1 ++ w2 /\ dm a p w1 (w2 ++ post) /\ dm b (lastc p w1) w2 post.
Proof. intro H. inversion H; subst; try discriminate. eexists _, _. eauto. Qed.

Lemma dm_char_inv k p w post : dm (XChar k) p w post -> w = [k].
Proof.
  intro H. inversion H; subst. match goal with Hk : atom_ok _ _ = true |- _ => cbn [atom_ok] in Hk; apply N.eqb_eq in Hk; subst end.
  reflexivity.
Qed.

Lemma dm_bound_inv p w post : dm XBound p w post -> w = [] /\ boundary uw (p, post) = true.
Proof. intro H. inversion H; subst; try discriminate. auto. Qed.

Lemma dm_alt_inv a b p w post : dm (XAlt a b) p w post -> dm a p w post \/ dm b p w post.
Proof. intro H. inversion H; subst; try discriminate; auto. Qed.

Lemma dm_atom_inv r p w post : is_atom r = true -> dm r p w post -> exists c, w = [c] /\ atom_ok r c = true.
Proof. intros Hat H. inversion H; subst; try discriminate. eauto. Qed.

(* ---------- the master alternation ------------------------------------------------------- *)
Lemma first_rule_sound fuel rules s r s' :
  first_rule uw fuel rules s = Some (r, s') -> In r rules /\ good (r_rx r) s s'.
Proof.
  induction rules as [|r0 t IH]; cbn [first_rule]; [discriminate|].
  unfold rmatch. destruct (mres uw fuel (r_rx r0) s) as [|s1 l] eqn:E; cbn [hd_error].
  - intro H. apply IH in H. destruct H. split; [right|]; assumption.
  - intro H. inversion H; subst. split; [left; reflexivity|].
    apply (mres_sound fuel). rewrite E. left. reflexivity.
Qed.

(* ---------- side conditions on the generated tables (by computation) -------------------- *)
Definition is_single_nl (r : rx) : bool := match r with XChar c => N.eqb c NL | _ => false end.
Definition rule_line_ok (r : rule) : bool :=
  let inc := match r_act r with Some a => a_lineinc a | None => 0%Z end in
  if no_nl (r_rx r) then Z.eqb inc 0 else is_single_nl (r_rx r) && Z.eqb inc 1.

Lemma rules_consume : forallb (fun r => consumes (r_rx r)) lex_rules = true.
Proof. vm_compute. reflexivity. Qed.
Lemma rules_wf : forallb (fun r => rx_wf (r_rx r)) lex_rules = true.
Proof. vm_compute. reflexivity. Qed.
Lemma rules_lines : forallb rule_line_ok lex_rules = true.
Proof. vm_compute. reflexivity. Qed.
Lemma ignore_no_nl : cp_mem NL lex_ignore = false.
Proof. vm_compute. reflexivity. Qed.
Lemma literals_no_nl : cp_mem NL lex_literals = false.
Proof. vm_compute. reflexivity. Qed.
Lemma initial_lineno : lexer_initial_lineno = 1%Z.
Proof. reflexivity. Qed.

Lemma run_action_line name act lx line ty v line' :
  run_action name act lx line = Ok (ty, v, line') ->
  line' = (line + match act with Some a => a_lineinc a | None => 0 end)%Z.
Proof.
  unfold run_action. destruct act as [a|].
  - destruct (run_conv (a_conv a) lx line); cbn [bind]; intro H; inversion H; reflexivity.
  - intro H. inversion H. lia.
Qed.

Lemma rule_lexeme_lines r p w post :
  In r lex_rules -> dm (r_rx r) p w post ->
  count_nl w = match r_act r with Some a => a_lineinc a | None => 0%Z end /\ (count_nl w = 0%Z \/ w = [NL]).
Proof.
  intros Hin Hd. pose proof rules_lines as HL. rewrite forallb_forall in HL. specialize (HL r Hin).
  unfold rule_line_ok in HL. destruct (no_nl (r_rx r)) eqn:Hn.
  - apply Z.eqb_eq in HL. rewrite HL. pose proof (count_nl_none w (dm_no_nl _ _ _ _ Hd Hn)) as C. rewrite C. auto.
  - apply andb_true_iff in HL. destruct HL as [H1 H2]. apply Z.eqb_eq in H2. rewrite H2.
    destruct (r_rx r) as [| c | | | | | | |]; try discriminate. cbn [is_single_nl] in H1. apply N.eqb_eq in H1. subst c.
    apply dm_char_inv in Hd. subst w. split; [reflexivity|right; reflexivity].
Qed.

(* ---------- the token loop ---------------------------------------------------------------- *)
Fixpoint pos_ok (pos : Z) (its : list item) : Prop :=
  match its with
  | [] => True
  | IIgn _ :: r => pos_ok (pos + 1)%Z r
  | ITok t lx :: r => t_pos t = pos /\ t_end t = (pos + zlen lx)%Z /\ lx <> [] /\ pos_ok (t_end t) r
  end.

Fixpoint line_ok (line : Z) (its : list item) : Prop :=
  match its with
  | [] => True
  | IIgn c :: r => c <> NL /\ cp_mem c lex_ignore = true /\ line_ok line r
  | ITok t lx :: r => t_line t = line /\ (count_nl lx = 0%Z \/ lx = [NL]) /\ line_ok (line + count_nl lx)%Z r
  end.

Definition items_text (its : list item) : list N := flat_map item_text its.

(* what the end of the run says *)
Definition end_ok (e : lexend) (rem : list N) (line : Z) : Prop :=
  match e with
  | LDone => rem = []
  | LError cls c l => cls = t_error_class /\ l = line /\ exists r, rem = c :: r /\ cp_mem c lex_ignore = false
                      /\ cp_mem c lex_literals = false
  | LActErr _ l => l = line /\ rem <> []
  | LCrash _ => rem <> []
  | LFuel => False
  end.

Lemma cp_mem_nl_false l c : cp_mem NL l = false -> cp_mem c l = true -> c <> NL.
Proof. intros H1 H2 E. subst. rewrite H1 in H2. discriminate. Qed.

Lemma lex_items_inv : forall fuel prev rest pos line its e rem,
  lex_items uw fuel prev rest pos line = (its, e, rem) ->
  (length rest < fuel)%nat ->
  items_text its ++ rem = rest /\ pos_ok pos its /\ line_ok line its
  /\ end_ok e rem (line + count_nl (items_text its))%Z.
Proof.
  induction fuel as [|f IH]; intros prev rest pos line its e rem Heq Hlen; [lia|].
  cbn [lex_items] in Heq. destruct rest as [|c rest'].
  - inversion Heq; subst. cbn. repeat split.
  - destruct (cp_mem c lex_ignore) eqn:Hig.
    + destruct (lex_items uw f (Some c) rest' (pos + 1)%Z line) as [[its' e'] rem'] eqn:Er.
      inversion Heq; subst. apply IH in Er; [|cbn [length] in Hlen; lia].
      destruct Er as (T & P & L & E). unfold items_text in *. cbn [flat_map item_text app pos_ok line_ok].
      repeat split; try assumption.
      * rewrite <- T. reflexivity.
      * eapply cp_mem_nl_false; [exact ignore_no_nl|exact Hig].
      * rewrite count_nl_cons_non; [exact E|]. eapply cp_mem_nl_false; [exact ignore_no_nl|exact Hig].
    + destruct (first_rule uw f lex_rules (prev, c :: rest')) as [[r [prev' rest'']]|] eqn:Efr.
      * apply first_rule_sound in Efr. destruct Efr as [Hin (w & Ew & Lw & Dw)]. cbn [fst snd] in *.
        assert (Hw : w <> []).
        { eapply dm_consumes; [exact Dw|]. pose proof rules_consume as HC. rewrite forallb_forall in HC. apply HC. exact Hin. }
        rewrite Ew in Heq. rewrite firstn_app_exact in Heq.
        assert (Hn : (length (w ++ rest'') - length rest'')%nat = length w) by (rewrite app_length; lia).
        rewrite Hn in Heq.
        destruct (run_action (r_name r) (r_act r) w line) as [[[ty v] line']|k|ex] eqn:Eact.
        -- destruct (lex_items uw f prev' rest'' (pos + Z.of_nat (length w))%Z line') as [[its' e'] rem'] eqn:Er.
           inversion Heq; subst.
           assert (Hl2 : (length rest'' < f)%nat).
           { assert (length (c :: rest') = length (w ++ rest'')) by (rewrite Ew; reflexivity).
             rewrite app_length in H. destruct w; [contradiction|]. cbn [length] in *. lia. }
           apply IH in Er; [|exact Hl2]. destruct Er as (T & P & L & E).
           apply run_action_line in Eact.
           destruct (rule_lexeme_lines r prev w rest'' Hin Dw) as [Cw Sw].
           unfold items_text in *. cbn [flat_map item_text pos_ok line_ok t_pos t_end t_line].
           repeat split; try assumption.
           ++ rewrite <- app_assoc, T. symmetry. exact Ew.
           ++ rewrite Cw. rewrite <- Eact. exact L.
           ++ rewrite count_nl_app. rewrite Cw in *. rewrite Eact in E.
              replace (line + (match r_act r with Some a => a_lineinc a | None => 0 end + count_nl (flat_map item_text its')))%Z
                with (line + match r_act r with Some a => a_lineinc a | None => 0 end + count_nl (flat_map item_text its'))%Z by lia.
              exact E.
        -- inversion Heq; subst. cbn. split; [symmetry; exact Ew|]. repeat split; try lia.
           destruct w; [contradiction|discriminate].
        -- inversion Heq; subst. cbn. split; [symmetry; exact Ew|]. repeat split.
           destruct w; [contradiction|discriminate].
      * destruct (cp_mem c lex_literals) eqn:Hlit.
        -- destruct (lex_items uw f (Some c) rest' (pos + 1)%Z line) as [[its' e'] rem'] eqn:Er.
           inversion Heq; subst. apply IH in Er; [|cbn [length] in Hlen; lia].
           destruct Er as (T & P & L & E). unfold items_text in *.
           cbn [flat_map item_text app pos_ok line_ok t_pos t_end t_line].
           assert (Hc : N.eqb 10 c = false).
           { destruct (N.eqb_spec 10 c) as [K|K]; [|reflexivity]. exfalso.
             apply (cp_mem_nl_false _ _ literals_no_nl Hlit). unfold NL. symmetry. exact K. }
           assert (C1 : count_nl [c] = 0%Z) by (rewrite count_nl_cons, Hc; reflexivity).
           repeat split; try assumption.
           ++ rewrite <- T. reflexivity.
           ++ discriminate.
           ++ left. exact C1.
           ++ rewrite C1. replace (line + 0)%Z with line by lia. exact L.
           ++ change (c :: flat_map item_text its') with ([c] ++ flat_map item_text its').
              rewrite count_nl_app, C1. replace (line + (0 + count_nl (flat_map item_text its')))%Z
                with (line + count_nl (flat_map item_text its'))%Z by lia. exact E.
        -- inversion Heq; subst. cbn. repeat split; try lia. exists rest'. auto.
Qed.

(* ---------- consequences for a whole run ------------------------------------------------- *)
Lemma items_split_tok : forall a pos line t lx b,
  pos_ok pos (a ++ ITok t lx :: b) -> line_ok line (a ++ ITok t lx :: b) ->
  t_pos t = (pos + zlen (items_text a))%Z /\ t_line t = (line + count_nl (items_text a))%Z
  /\ t_end t = (t_pos t + zlen lx)%Z /\ lx <> [] /\ (count_nl lx = 0%Z \/ lx = [NL]).
Proof.
  unfold items_text. induction a as [|i a IH]; intros pos line t lx b HP HL.
  - cbn [app pos_ok line_ok flat_map] in *. destruct HP as (P1 & P2 & P3 & _). destruct HL as (L1 & L2 & _).
    replace (zlen (@nil N)) with 0%Z by reflexivity. rewrite count_nl_nil. repeat split; try assumption; lia.
  - destruct i as [c|t0 lx0]; cbn [app pos_ok line_ok flat_map item_text] in *.
    + destruct HL as (Hc & _ & HL). destruct (IH _ _ _ _ _ HP HL) as (A & B & C & D & E).
      change ([c] ++ flat_map item_text a) with (c :: flat_map item_text a).
      rewrite zlen_cons', (count_nl_cons_non c _ Hc). repeat split; try assumption; lia.
    + destruct HP as (P1 & P2 & P3 & HP). destruct HL as (L1 & L2 & HL).
      destruct (IH _ _ _ _ _ HP HL) as (A & B & C & D & E).
      rewrite zlen_app', count_nl_app. repeat split; try assumption; lia.
Qed.

Lemma tokens_of_in its t : In t (tokens_of its) -> exists a lx b, its = a ++ ITok t lx :: b.
Proof.
  unfold tokens_of. intro H. apply in_flat_map in H. destruct H as (i & Hi & Ht).
  destruct i as [c|t0 lx]; [contradiction|]. destruct Ht as [<-|[]].
  apply in_split in Hi. destruct Hi as (a & b & ->). eauto.
Qed.

Lemma prefix_app (x y : list N) : prefix (zlen x) (x ++ y) = x.
Proof.
  unfold prefix, zlen. rewrite Nat2Z.id, firstn_app, Nat.sub_diag, firstn_all. cbn [firstn]. apply app_nil_r.
Qed.

Lemma slice_app (x l y : list N) : slice (zlen x) (zlen x + zlen l) (x ++ l ++ y) = l.
Proof.
  unfold slice, zlen. replace (Z.of_nat (length x) + Z.of_nat (length l) - Z.of_nat (length x))%Z with (Z.of_nat (length l)) by lia.
  rewrite !Nat2Z.id, skipn_app, Nat.sub_diag, skipn_all. cbn [skipn app].
  rewrite firstn_app, Nat.sub_diag, firstn_all. cbn [firstn]. apply app_nil_r.
Qed.

Theorem lex_run_inv s its e rem :
  lex_run uw s = (its, e, rem) ->
  items_text its ++ rem = s /\ pos_ok 0 its /\ line_ok 1 its /\ end_ok e rem (1 + count_nl (items_text its))%Z.
Proof.
  unfold lex_run. intro H. apply lex_items_inv in H; [|lia]. exact H.
Qed.

(* C09: the loop terminates — fuel |s|+1 is never exhausted *)
Theorem lex_terminates s : snd (fst (lex_run uw s)) <> LFuel.
Proof.
  destruct (lex_run uw s) as [[its e] rem] eqn:E. cbn [fst snd]. apply lex_run_inv in E.
  destruct E as (_ & _ & _ & E). intro K. subst e. exact E.
Qed.

(* C08: tiling — items in order are exactly the input up to where the loop stopped *)
Theorem lex_tiling s its e rem : lex_run uw s = (its, e, rem) -> items_text its ++ rem = s /\ (e = LDone -> rem = []).
Proof.
  intro H. apply lex_run_inv in H. destruct H as (T & _ & _ & E). split; [exact T|]. intro K. subst e. exact E.
Qed.

(* C20/C08: position, line and extent of every token *)
Theorem lex_token_position s its e rem t :
  lex_run uw s = (its, e, rem) -> In t (tokens_of its) ->
  exists lx, lx <> [] /\ slice (t_pos t) (t_end t) s = lx
    /\ t_line t = (1 + count_nl (prefix (t_pos t) s))%Z
    /\ (count_nl lx = 0%Z \/ lx = [NL])
    /\ (0 <= t_pos t < t_end t)%Z /\ (t_end t <= zlen s)%Z.
Proof.
  intros H Hin. apply lex_run_inv in H. destruct H as (T & P & L & _).
  apply tokens_of_in in Hin. destruct Hin as (a & lx & b & ->).
  destruct (items_split_tok a 0%Z 1%Z t lx b P L) as (A & B & C & D & E).
  exists lx. unfold items_text in T. rewrite flat_map_app in T. cbn [flat_map item_text] in T.
  rewrite <- !app_assoc in T. fold (items_text a) in T.
  assert (Hp : t_pos t = zlen (items_text a)) by lia.
  split; [exact D|]. split.
  - rewrite C, Hp, <- T. apply slice_app.
  - split.
    + rewrite B, Hp, <- T. rewrite prefix_app. reflexivity.
    + split; [exact E|]. pose proof (zlen_nonneg' (items_text a)). pose proof (zlen_nonneg' lx).
      assert (zlen lx <> 0)%Z. { unfold zlen. destruct lx; [contradiction|cbn [length]; lia]. }
      split; [lia|]. rewrite <- T. rewrite !zlen_app'. pose proof (zlen_nonneg' (flat_map item_text b)). pose proof (zlen_nonneg' rem). lia.
Qed.

(* C20: a LexerError cites the offending character and the line it is on *)
Theorem lex_error_position s its cls c l rem :
  lex_run uw s = (its, LError cls c l, rem) ->
  cls = t_error_class /\ (exists r, rem = c :: r) /\ s = items_text its ++ rem
  /\ l = (1 + count_nl (prefix (zlen (items_text its)) s))%Z.
Proof.
  intro H. apply lex_run_inv in H. destruct H as (T & _ & _ & E). cbn [end_ok] in E.
  destruct E as (E1 & E2 & r & E3 & _). repeat split; try assumption.
  - exists r. exact E3.
  - symmetry. exact T.
  - rewrite <- T, prefix_app. exact E2.
Qed.

End Sound.

(* no rule can match the empty string: every match of every rule consumes at least one character *)
Lemma rule_progress uw fuel r s s' :
  In r lex_rules -> In s' (mres uw fuel (r_rx r) s) -> (length (snd s') < length (snd s))%nat.
Proof.
  intros Hin H. apply mres_sound in H. destruct H as (w & E & _ & D).
  assert (Hw : w <> []).
  { eapply dm_consumes; [exact D|]. pose proof rules_consume as HC. rewrite forallb_forall in HC. apply HC. exact Hin. }
  rewrite E, app_length. destruct w; [contradiction|cbn [length]; lia].
Qed.

(* the lexeme chosen for a rule is in the rule's language (in its context) *)
Lemma chosen_lexeme_in_language uw fuel s r s' :
  first_rule uw fuel lex_rules s = Some (r, s') ->
  In r lex_rules /\ exists w, snd s = w ++ snd s' /\ fst s' = lastc (fst s) w /\ dm uw (r_rx r) (fst s) w (snd s').
Proof. intro H. apply first_rule_sound in H. exact H. Qed.

Lemma only_newline_rule_spans_lines :
  forallb (fun r => no_nl (r_rx r) || is_single_nl (r_rx r)) lex_rules = true.
Proof. vm_compute. reflexivity. Qed.
