(* LRFacts.v — concrete claims of the language documentation, decided from the CURRENT tables by
   vm_compute (re-evaluated on every run because gen/GenLR.v is regenerated):
     * `;` is optional after every statement, a second `;` is a syntax error, no `;` after `}`;
     * a message field may be named by an IDENTIFIER or by the keyword `type`, by no other token;
       names of messages, enums, constants, aliases, enum members are IDENTIFIERs only;
     * an import / alias / const / proto statement inside a message (and those plus option, enum,
       message, field inside an enum) is PARSED (reduced through `*_item_unsupported`; the
       semantic action then rejects it);
     * calculation expressions: every tree of [expr_domain] (depth <= 2, and depth 3 with one shallow
       operand) over + - * / printed with minimal parentheses is parsed back to the same tree (standard precedence, left associativity). *)
From Coq Require Import List Arith Bool String.
From BP Require Import LR LRConcrete.
From BPGen Require Import GenLR.
Import ListNotations.
Local Open Scope string_scope.
Local Open Scope list_scope.

Definition toks (l : list string) : list nat := map term_id l.

Definition accepts (ts : list nat) : bool := match parse ts with Accept _ => true | _ => false end.

Definition rejects_at (ts : list nat) (i : nat) : bool :=
  match parse ts with
  | SyntaxError i' t' _ => Nat.eqb i i' && Nat.eqb t' (nth i ts eof)
  | _ => false
  end.

Definition reduces_by (ts : list nat) (p : nat) : bool :=
  match parse ts with Accept rs => existsb (Nat.eqb p) rs | _ => false end.

Definition example_tokens : list nat :=
  toks ["PROTO"; "IDENTIFIER"; "NEWLINE"; "MESSAGE"; "IDENTIFIER"; "{"; "UINT_TYPE"; "TYPE"; "="; "INT_LITERAL";
        "}"; "NEWLINE"; "CONST"; "IDENTIFIER"; "="; "INT_LITERAL"; "PLUS"; "INT_LITERAL"; "TIMES"; "INT_LITERAL";
        ";"; "NEWLINE"].
Definition example_bad : list nat :=
  toks ["PROTO"; "IDENTIFIER"; "NEWLINE"; "MESSAGE"; "IDENTIFIER"; "{"; "UINT_TYPE"; "CONST"; "="; "INT_LITERAL"; "}"].

(* ---- `;` ---- *)
Definition head : list nat := toks ["PROTO"; "IDENTIFIER"; "NEWLINE"].

(* statements allowed at file level / in a message / in an enum *)
Definition stmts_global : list (list nat) := map toks [
  ["PROTO"; "IDENTIFIER"];
  ["IMPORT"; "STRING_LITERAL"];
  ["IMPORT"; "IDENTIFIER"; "STRING_LITERAL"];
  ["OPTION"; "IDENTIFIER"; "."; "IDENTIFIER"; "="; "INT_LITERAL"];
  ["OPTION"; "IDENTIFIER"; "="; "BOOL_LITERAL"];
  ["OPTION"; "IDENTIFIER"; "="; "STRING_LITERAL"];
  ["OPTION"; "IDENTIFIER"; "="; "IDENTIFIER"];
  ["TYPE"; "IDENTIFIER"; "="; "UINT_TYPE"];
  ["TYPE"; "IDENTIFIER"; "="; "IDENTIFIER"; "."; "IDENTIFIER"; "["; "INT_LITERAL"; "]"; "'"];
  ["TYPE"; "IDENTIFIER"; "="; "BOOL_TYPE"; "["; "IDENTIFIER"; "]"];
  ["TYPEDEF"; "BYTE_TYPE"; "IDENTIFIER"];
  ["CONST"; "IDENTIFIER"; "="; "INT_LITERAL"];
  ["CONST"; "IDENTIFIER"; "="; "HEX_LITERAL"; "PLUS"; "IDENTIFIER"];
  ["CONST"; "IDENTIFIER"; "="; "STRING_LITERAL"];
  ["CONST"; "IDENTIFIER"; "="; "BOOL_LITERAL"];
  ["CONST"; "IDENTIFIER"; "="; "IDENTIFIER"];
  ["CONST"; "IDENTIFIER"; "="; "("; "IDENTIFIER"; ")"]
].
Definition stmts_message : list (list nat) := map toks [
  ["UINT_TYPE"; "IDENTIFIER"; "="; "INT_LITERAL"];
  ["INT_TYPE"; "["; "INT_LITERAL"; "]"; "TYPE"; "="; "INT_LITERAL"];
  ["IDENTIFIER"; "IDENTIFIER"; "="; "INT_LITERAL"];
  ["OPTION"; "IDENTIFIER"; "="; "INT_LITERAL"]
].
Definition stmts_enum : list (list nat) := map toks [
  ["IDENTIFIER"; "="; "INT_LITERAL"];
  ["IDENTIFIER"; "="; "HEX_LITERAL"]
].

Definition semi := term_id ";".
Definition nl := term_id "NEWLINE".

Definition semi_ok (pre post : list nat) (s : list nat) : bool :=
  accepts (pre ++ s ++ [nl] ++ post)
  && accepts (pre ++ s ++ [semi; nl] ++ post)
  && accepts (pre ++ s ++ [semi] ++ s ++ [nl] ++ post)            (* `a; b` on one line *)
  && accepts (pre ++ s ++ post)                                   (* nothing at all before `}` / eof *)
  && rejects_at (pre ++ s ++ [semi; semi; nl] ++ post) (List.length pre + List.length s + 1).

Definition msg_open := toks ["MESSAGE"; "IDENTIFIER"; "{"].
Definition enum_open := toks ["ENUM"; "IDENTIFIER"; ":"; "UINT_TYPE"; "{"].
Definition close := toks ["}"; "NEWLINE"].

Definition semicolon_facts : bool :=
  forallb (semi_ok head []) stmts_global
  && forallb (semi_ok (head ++ msg_open) close) stmts_message
  && forallb (semi_ok (head ++ enum_open) close) stmts_enum
  && rejects_at (head ++ msg_open ++ toks ["}"; ";"; "NEWLINE"]) (List.length head + 4)
  && rejects_at (head ++ enum_open ++ toks ["}"; ";"; "NEWLINE"]) (List.length head + 6)
  && rejects_at (toks [";"]) 0.

Lemma semicolon_facts_ok : semicolon_facts = true.
Proof. vm_cast_no_check (eq_refl true). Qed.

(* ---- names ---- *)
Definition all_terminals : list nat := seq 0 (S n_terms).     (* including one unknown type *)

Definition name_fact (tmpl : nat -> list nat) (allowed : list nat) : bool :=
  forallb (fun x => Bool.eqb (accepts (tmpl x)) (existsb (Nat.eqb x) allowed)) all_terminals.

Definition ident := term_id "IDENTIFIER".

Definition field_name_facts : bool :=
  name_fact (fun x => head ++ msg_open ++ toks ["UINT_TYPE"] ++ [x] ++ toks ["="; "INT_LITERAL"; "}"; "NEWLINE"])
            [ident; term_id "TYPE"]
  && name_fact (fun x => head ++ toks ["MESSAGE"] ++ [x] ++ toks ["{"; "}"; "NEWLINE"]) [ident]
  && name_fact (fun x => head ++ toks ["ENUM"] ++ [x] ++ toks [":"; "UINT_TYPE"; "{"; "}"; "NEWLINE"]) [ident]
  && name_fact (fun x => head ++ enum_open ++ [x] ++ toks ["="; "INT_LITERAL"; "}"; "NEWLINE"]) [ident]
  && name_fact (fun x => head ++ toks ["CONST"] ++ [x] ++ toks ["="; "INT_LITERAL"; "NEWLINE"]) [ident]
  && name_fact (fun x => head ++ toks ["TYPE"] ++ [x] ++ toks ["="; "BOOL_TYPE"; "NEWLINE"]) [ident]
  && name_fact (fun x => toks ["PROTO"] ++ [x] ++ toks ["NEWLINE"]) [ident]
  (* the base of an enum is a uintN token, nothing else *)
  && name_fact (fun x => head ++ toks ["ENUM"; "IDENTIFIER"; ":"] ++ [x] ++ toks ["{"; "}"; "NEWLINE"])
               [term_id "UINT_TYPE"]
  (* a field number / an array capacity literal is a decimal INT_LITERAL; a capacity may be a name *)
  && name_fact (fun x => head ++ msg_open ++ toks ["BOOL_TYPE"; "IDENTIFIER"; "="] ++ [x] ++ toks ["}"; "NEWLINE"])
               [term_id "INT_LITERAL"]
  && name_fact (fun x => head ++ toks ["TYPE"; "IDENTIFIER"; "="; "BOOL_TYPE"; "["] ++ [x] ++ toks ["]"; "NEWLINE"])
               [term_id "INT_LITERAL"; ident].

Lemma field_name_facts_ok : field_name_facts = true.
Proof. vm_cast_no_check (eq_refl true). Qed.

(* ---- statements a scope does not support are parsed ---- *)
Definition unsup_msg (kind : string) (s : list string) : bool :=
  let ts := head ++ msg_open ++ toks ["NEWLINE"] ++ toks s ++ toks ["NEWLINE"; "}"; "NEWLINE"] in
  reduces_by ts (P "message_item_unsupported" [kind]) && reduces_by ts (P "message_item" ["message_item_unsupported"]).
Definition unsup_enum (kind : string) (s : list string) : bool :=
  let ts := head ++ enum_open ++ toks ["NEWLINE"] ++ toks s ++ toks ["NEWLINE"; "}"; "NEWLINE"] in
  reduces_by ts (P "enum_item_unsupported" [kind]) && reduces_by ts (P "enum_item" ["enum_item_unsupported"]).

Definition unsupported_facts : bool :=
  unsup_msg "import" ["IMPORT"; "STRING_LITERAL"]
  && unsup_msg "import" ["IMPORT"; "IDENTIFIER"; "STRING_LITERAL"]
  && unsup_msg "alias" ["TYPE"; "IDENTIFIER"; "="; "BOOL_TYPE"]
  && unsup_msg "const" ["CONST"; "IDENTIFIER"; "="; "INT_LITERAL"]
  && unsup_msg "proto" ["PROTO"; "IDENTIFIER"]
  && unsup_enum "import" ["IMPORT"; "STRING_LITERAL"]
  && unsup_enum "alias" ["TYPE"; "IDENTIFIER"; "="; "BOOL_TYPE"]
  && unsup_enum "const" ["CONST"; "IDENTIFIER"; "="; "INT_LITERAL"]
  && unsup_enum "proto" ["PROTO"; "IDENTIFIER"]
  && unsup_enum "option" ["OPTION"; "IDENTIFIER"; "="; "INT_LITERAL"]
  && unsup_enum "enum" ["ENUM"; "IDENTIFIER"; ":"; "UINT_TYPE"; "{"; "}"]
  && unsup_enum "message" ["MESSAGE"; "IDENTIFIER"; "{"; "}"]
  && unsup_enum "message_field" ["BOOL_TYPE"; "IDENTIFIER"; "="; "INT_LITERAL"]
  (* but an enum member inside a message, a field or an enum member at file level are syntax errors *)
  && rejects_at (head ++ msg_open ++ toks ["NEWLINE"; "IDENTIFIER"; "="; "INT_LITERAL"; "NEWLINE"; "}"]) (List.length head + 5)
  && rejects_at (head ++ toks ["BOOL_TYPE"; "IDENTIFIER"; "="; "INT_LITERAL"; "NEWLINE"]) (List.length head)
  && rejects_at (head ++ toks ["IDENTIFIER"; "="; "INT_LITERAL"; "NEWLINE"]) (List.length head).

Lemma unsupported_facts_ok : unsupported_facts = true.
Proof. vm_cast_no_check (eq_refl true). Qed.

(* ---- a comment on the last line, without a final newline ---- *)
(* `comment : COMMENT NEWLINE`: at the TOKEN level a sequence ending in COMMENT is never accepted
   (LRConcrete.trailing_comment_rejected, for all sequences).  Since /repo ca58921
   Parser.parse_string terminates the last line, so the TEXT `... // tail` without a final newline
   reaches the driver with a NEWLINE appended and is accepted (finding comment-at-eof, fixed). *)
Definition comment_eof_witness : list nat :=
  toks ["PROTO"; "IDENTIFIER"; "NEWLINE"; "MESSAGE"; "IDENTIFIER"; "{"; "}"; "COMMENT"].

Definition comment_eof_facts : bool :=
  rejects_at comment_eof_witness (List.length comment_eof_witness)       (* the tables, unchanged *)
  && accepts (text_tokens comment_eof_witness false)                      (* the text path *)
  && accepts (text_tokens (toks ["PROTO"; "IDENTIFIER"; "COMMENT"]) false)
  && accepts (text_tokens [] false)
  && accepts (text_tokens (toks ["PROTO"; "IDENTIFIER"; "NEWLINE"]) false)   (* blanks after the last newline *)
  && accepts (text_tokens (toks ["PROTO"; "IDENTIFIER"; "NEWLINE"]) true).

Lemma comment_eof_facts_ok : comment_eof_facts = true.
Proof. vm_cast_no_check (eq_refl true). Qed.

Lemma comment_eof_text_accepted : exists rs, parse_text comment_eof_witness false = Accept rs.
Proof. eexists. vm_compute. reflexivity. Qed.

(* ---- expressions ---- *)
Inductive ex : Type := XInt | XBin (o : nat) (a b : ex).      (* o: 0 + , 1 - , 2 * , 3 / *)

Definition xprec (o : nat) : nat := if Nat.ltb o 2 then 1 else 2.
Definition eprec (e : ex) : nat := match e with XInt => 9 | XBin o _ _ => xprec o end.
Definition op_tok (o : nat) : nat :=
  term_id (match o with 0 => "PLUS" | 1 => "MINUS" | 2 => "TIMES" | _ => "DIVIDE" end).
Definition op_nt (o : nat) : string :=
  match o with 0 => "calculation_expression_plus" | 1 => "calculation_expression_minus"
             | 2 => "calculation_expression_times" | _ => "calculation_expression_divide" end.
Definition op_name (o : nat) : string := match o with 0 => "PLUS" | 1 => "MINUS" | 2 => "TIMES" | _ => "DIVIDE" end.

Definition p_binop : list nat := map (fun o => P (op_nt o) ["calculation_expression"; op_name o; "calculation_expression"]) [0; 1; 2; 3].
Definition p_calc_bin : list nat := map (fun o => P "calculation_expression" [op_nt o]) [0; 1; 2; 3].
Definition p_grp := P "calculation_expression_group" ["("; "calculation_expression"; ")"].
Definition p_calc_grp := P "calculation_expression" ["calculation_expression_group"].
Definition p_intl := P "integer_literal" ["INT_LITERAL"].
Definition p_calc_int := P "calculation_expression" ["integer_literal"].

Section Expr.
Variables (pb pc : list nat) (pg pcg pi pci tl tr ti : nat) (optoks : list nat).

Definition par (x : list nat * list nat) : list nat * list nat :=
  ((tl :: fst x ++ [tr])%list, (snd x ++ [pg; pcg])%list).

Fixpoint ex_tr (e : ex) : list nat * list nat :=
  match e with
  | XInt => ([ti], [pi; pci])
  | XBin o a b =>
    let ta := if Nat.ltb (eprec a) (xprec o) then par (ex_tr a) else ex_tr a in
    let tb := if Nat.leb (eprec b) (xprec o) then par (ex_tr b) else ex_tr b in
    ((fst ta ++ nth o optoks 0 :: fst tb)%list, (snd ta ++ snd tb ++ [nth o pb 0; nth o pc 0])%list)
  end.
End Expr.

Fixpoint all_ex (d : nat) : list ex :=
  match d with
  | O => [XInt]
  | S d' => let sub := all_ex d' in
            XInt :: flat_map (fun o => flat_map (fun a => map (fun b => XBin o a b) sub) sub) [0; 1; 2; 3]
  end.

(* every tree of depth <= 2 (101 trees: all operator pairs in both groupings, (a.b).(c.d)) and every
   tree of depth 3 with one operand of depth <= 1 (4040 trees: chains of four, mixed nests) *)
Definition expr_domain : list ex :=
  all_ex 2 ++ flat_map (fun o => flat_map (fun a => flat_map (fun b => [XBin o a b; XBin o b a]) (all_ex 1)) (all_ex 2))
                       [0; 1; 2; 3].

Definition expr_ok (pre_t post_t : list nat) (pre_r post_r : list nat) (tr : ex -> list nat * list nat) (e : ex) : bool :=
  let x := tr e in
  match parse (pre_t ++ fst x ++ post_t) with
  | Accept rs => list_nat_eqb rs (pre_r ++ snd x ++ post_r)
  | _ => false
  end.

(* the fixed context: `const K = <e> NEWLINE` as the only statement of a file *)
Definition ctx_pre_t : list nat := toks ["CONST"; "IDENTIFIER"; "="].
Definition ctx_post_t : list nat := toks ["NEWLINE"].
Definition ctx_reds : list nat * list nat :=
  match parse (ctx_pre_t ++ toks ["INT_LITERAL"] ++ ctx_post_t) with
  | Accept rs => (firstn 1 rs, skipn 3 rs)        (* open_global_scope | int, calc | the rest *)
  | _ => ([], [])
  end.

Definition expr_facts : bool :=
  let tr := ex_tr p_binop p_calc_bin p_grp p_calc_grp p_intl p_calc_int (term_id "(") (term_id ")")
                  (term_id "INT_LITERAL") (map op_tok [0; 1; 2; 3]) in
  negb (Nat.eqb (List.length (snd ctx_reds)) 0)
  && forallb (expr_ok ctx_pre_t ctx_post_t (fst ctx_reds) (snd ctx_reds) tr) expr_domain.

Lemma expr_facts_ok : expr_facts = true.
Proof. vm_cast_no_check (eq_refl true). Qed.
