(* Json.v — executable models for property C16 (JSON output).

     expected t v     the JSON value the property demands (field names, number order)
     print_sep        printer of JSON trees; print_compact = separators "," and ":"
     store t v        the C object tree after `m.field = value` assignments (little-endian
                      bytes of the storage type the C renderer chooses)
     c_text t o       the characters Json<Msg>() writes: a walk of lib/c/bitproto.c's
                      BpJsonFormat* functions over the descriptors the compiler emits, with a
                      small model of vsprintf for the conversions that occur
     py_asdict/py_tree what MessageBase.to_dict()/to_json() build: dataclasses.asdict +
                      the generated dict_factory + json.dumps

   Every string literal, printf format, cast type, width threshold and case-label group of
   the C functions, the C type-name templates, the storage-width function and the enum
   proxy prefix come from BPGen.GenJson (regenerated from /repo on every run). *)
From Coq Require Import ZArith List Bool String Ascii.
From BP Require Import Schema JsonBase.
From BPGen Require Import GenJson.
Import ListNotations.
Open Scope string_scope.
Open Scope Z_scope.

(* ------------------------------------------------------------------------------------ *)
(* schema trees with field names                                                        *)
(* ------------------------------------------------------------------------------------ *)

Inductive nty : Type :=
| NBool
| NByte
| NUint (n : Z)
| NInt (n : Z)
| NEnum (n : Z) (members : list Z)
| NAlias (t : nty)
| NArr (ext : bool) (cap : nat) (e : nty)
| NMsg (ext : bool) (fs : list (Z * (string * nty))).   (* (number, (name, type)), DECLARATION order *)

Definition fnum (f : Z * (string * nty)) : Z := fst f.
Definition fname (f : Z * (string * nty)) : string := fst (snd f).
Definition ftype (f : Z * (string * nty)) : nty := snd (snd f).

Fixpoint erase (t : nty) : ty :=
  match t with
  | NBool => TBool
  | NByte => TByte
  | NUint n => TUint n
  | NInt n => TInt n
  | NEnum n ms => TEnum n ms
  | NAlias u => TAlias (erase u)
  | NArr x c e => TArr x c (erase e)
  | NMsg x fs => TMsg x (map (fun f => (fnum f, erase (ftype f))) fs)
  end.

(* the shapes the compiler accepts (_ast.py): an alias names bool/byte/int/uint/array, an
   array element is anything but an array *)
Definition is_arr (t : nty) : bool := match t with NArr _ _ _ => true | _ => false end.
Definition is_byte (t : nty) : bool := match t with NByte => true | _ => false end.
Definition alias_target_ok (t : nty) : bool :=
  match t with NBool | NByte | NUint _ | NInt _ | NArr _ _ _ => true | _ => false end.

Fixpoint shape_ok (t : nty) : bool :=
  match t with
  | NAlias u => alias_target_ok u && shape_ok u
  | NArr _ _ e => negb (is_arr e) && shape_ok e
  | NMsg _ fs => forallb (fun f => shape_ok (ftype f)) fs
  | _ => true
  end.

(* ------------------------------------------------------------------------------------ *)
(* JSON trees, decimal numerals, printers                                               *)
(* ------------------------------------------------------------------------------------ *)

Inductive jtree : Type :=
| JNum (z : Z)
| JBool (b : bool)
| JList (l : list jtree)
| JObj (fs : list (string * jtree)).

Definition digit_char (d : Z) : ascii := ascii_of_nat (Z.to_nat (48 + d)).

(* decimal digits, least significant first; fuel bounds the number of digits *)
Fixpoint digits_fuel (fuel : nat) (n : Z) : list Z :=
  match fuel with
  | O => []
  | S f => if n <? 10 then [n] else (n mod 10) :: digits_fuel f (n / 10)
  end.
Definition digits (n : Z) : list Z := digits_fuel (S (Z.to_nat (Z.log2 n))) n.

Fixpoint string_of_digits_msb (l : list Z) : string :=
  match l with
  | [] => ""
  | d :: r => String (digit_char d) (string_of_digits_msb r)
  end.

Definition dec_nonneg (n : Z) : string := string_of_digits_msb (rev (digits n)).
Definition dec_Z (z : Z) : string :=
  if z <? 0 then String "-" (dec_nonneg (- z)) else dec_nonneg z.

Fixpoint join (sep : string) (l : list string) : string :=
  match l with
  | [] => ""
  | x :: r => match r with [] => x | _ => x ++ sep ++ join sep r end
  end.

Definition quote (s : string) : string := String """" (s ++ """").

Fixpoint print_sep (isep ksep : string) (j : jtree) : string :=
  match j with
  | JNum z => dec_Z z
  | JBool b => if b then "true" else "false"
  | JList l => "[" ++ join isep (map (print_sep isep ksep) l) ++ "]"
  | JObj fs =>
      "{" ++ join isep (map (fun kv => quote (fst kv) ++ ksep ++ print_sep isep ksep (snd kv)) fs) ++ "}"
  end.

Definition print_compact : jtree -> string := print_sep "," ":".
Definition print_pydefault : jtree -> string := print_sep ", " ": ".   (* json.dumps defaults *)

(* ------------------------------------------------------------------------------------ *)
(* the specification: which JSON value a message denotes                                *)
(* ------------------------------------------------------------------------------------ *)

Definition vbool (v : val) : bool :=
  match v with VB b => b | VZ z => negb (z =? 0) | _ => false end.

Fixpoint expected (t : nty) (v : val) : jtree :=
  match t with
  | NBool => JBool (vbool v)
  | NByte | NUint _ | NInt _ | NEnum _ _ => JNum (zof v)
  | NAlias u => expected u v
  | NArr _ _ e => JList (map (expected e) (vlist v))
  | NMsg _ fs =>
      JObj (map snd (sort_fields
                       (map (fun f => (fnum f, (fname f, expected (ftype f) (vfield (fnum f) v)))) fs)))
  end.

(* ------------------------------------------------------------------------------------ *)
(* C: objects, stores, loads                                                            *)
(* ------------------------------------------------------------------------------------ *)

(* object tree: a scalar is its bytes in memory order (little-endian host), an array its
   elements in index order, a struct its members keyed by field number *)
Inductive cobj : Type :=
| CBytes (bs : list Z)
| CArr (l : list cobj)
| CStruct (fs : list (Z * cobj)).

(* sizeof and signedness of the C types that occur (LP64, <stdint.h>, <stdbool.h>) *)
Definition ctype_info (name : string) : option (Z * bool) :=
  if (name =? "bool")%string then Some (1, false)
  else if (name =? "unsigned char")%string then Some (1, false)
  else if (name =? "uint8_t")%string then Some (1, false)
  else if (name =? "uint16_t")%string then Some (2, false)
  else if (name =? "uint32_t")%string then Some (4, false)
  else if (name =? "uint64_t")%string then Some (8, false)
  else if (name =? "int8_t")%string then Some (1, true)
  else if (name =? "int16_t")%string then Some (2, true)
  else if (name =? "int32_t")%string then Some (4, true)
  else if (name =? "int64_t")%string then Some (8, true)
  else None.

(* struct member types chosen by the C renderer: "uint{0}_t".format(get_nbits_of_integer(t)) *)
Definition c_uint_type (n : Z) : string := c_uint_pre ++ dec_Z (storage_bits (nbytes_of n)) ++ c_uint_post.
Definition c_int_type (n : Z) : string := c_int_pre ++ dec_Z (storage_bits (nbytes_of n)) ++ c_int_post.

Fixpoint le_bytes (k : nat) (x : Z) : list Z :=
  match k with
  | O => []
  | S k' => (x mod 256) :: le_bytes k' (x / 256)
  end.

Fixpoint load_le (bs : list Z) : Z :=
  match bs with
  | [] => 0
  | b :: r => b + 256 * load_le r
  end.

(* `m.field = z` for a field of C type cty: conversion to the type (modulo 2^N) and the
   object representation *)
Definition store_scalar (cty : string) (z : Z) : cobj :=
  match ctype_info cty with
  | Some (sz, _) => CBytes (le_bytes (Z.to_nat sz) (z mod 2 ^ (8 * sz)))
  | None => CBytes []
  end.

Fixpoint store (t : nty) (v : val) : cobj :=
  match t with
  | NBool => store_scalar c_bool_type (Z.b2z (vbool v))
  | NByte => store_scalar c_byte_type (zof v)
  | NUint n => store_scalar (c_uint_type n) (zof v)
  | NInt n => store_scalar (c_int_type n) (zof v)
  | NEnum n _ => store_scalar (c_uint_type n) (zof v)          (* typedef uintN_t <Enum>; *)
  | NAlias u => store u v
  | NArr _ _ e => CArr (map (store e) (vlist v))
  | NMsg _ fs => CStruct (map (fun f => (fnum f, store (ftype f) (vfield (fnum f) v))) fs)
  end.

(* a variadic argument after the default argument promotions: its width and value *)
Inductive carg : Type :=
| AInt (w : Z) (z : Z)
| AStr (s : string).

(* *((cty * )data), promoted.  Reading more bytes than the object has is an error. *)
Definition c_load (cty : string) (o : cobj) : option carg :=
  match o, ctype_info cty with
  | CBytes bs, Some (sz, sg) =>
      if sz <=? Z.of_nat (List.length bs) then
        let u := load_le (firstn (Z.to_nat sz) bs) in
        let z := if sg && (2 ^ (8 * sz - 1) <=? u) then u - 2 ^ (8 * sz) else u in
        Some (AInt (Z.max 32 (8 * sz)) z)
      else None
  | _, _ => None
  end.

(* ------------------------------------------------------------------------------------ *)
(* vsprintf, for the conversions that occur                                             *)
(* ------------------------------------------------------------------------------------ *)

(* an integer conversion that reads wc bits: the low wc bits of the argument; when the
   argument is narrower (e.g. "%lu" given a uint32_t) the upper half is taken to be zero —
   x86-64 SysV: the 32-bit load that produced the argument zero-extends the register
   (trusted ABI behaviour, exercised by T2 at every width) *)
Definition conv_value (wc : Z) (signed : bool) (a : carg) : option Z :=
  match a with
  | AInt wa z =>
      let raw := if wc <=? wa then z mod 2 ^ wc else z mod 2 ^ wa in
      Some (if signed && (2 ^ (wc - 1) <=? raw) then raw - 2 ^ wc else raw)
  | AStr _ => None
  end.

Definition opt_app (a : string) (r : option string) : option string :=
  match r with Some b => Some (a ++ b) | None => None end.

Definition conv_head (wc : Z) (signed : bool) (args : list carg) : option (string * list carg) :=
  match args with
  | a :: args' =>
      match conv_value wc signed a with
      | Some z => Some (dec_Z z, args')
      | None => None
      end
  | [] => None
  end.

Fixpoint c_printf (fmt : string) (args : list carg) {struct fmt} : option string :=
  match fmt with
  | EmptyString => Some ""
  | String "%" r1 =>
      match r1 with
      | String "%" r => opt_app "%" (c_printf r args)
      | String "s" r =>
          match args with
          | AStr s :: args' => opt_app s (c_printf r args')
          | _ => None
          end
      | String "d" r =>
          match conv_head 32 true args with Some (s, a') => opt_app s (c_printf r a') | None => None end
      | String "u" r =>
          match conv_head 32 false args with Some (s, a') => opt_app s (c_printf r a') | None => None end
      | String "l" r2 =>
          match r2 with
          | String "d" r =>
              match conv_head 64 true args with Some (s, a') => opt_app s (c_printf r a') | None => None end
          | String "u" r =>
              match conv_head 64 false args with Some (s, a') => opt_app s (c_printf r a') | None => None end
          | String "l" r3 =>
              match r3 with
              | String "d" r =>
                  match conv_head 64 true args with Some (s, a') => opt_app s (c_printf r a') | None => None end
              | String "u" r =>
                  match conv_head 64 false args with Some (s, a') => opt_app s (c_printf r a') | None => None end
              | _ => None
              end
          | _ => None
          end
      | _ => None
      end
  | String c r => opt_app (String c "") (c_printf r args)
  end.

(* ------------------------------------------------------------------------------------ *)
(* the BpJsonFormat* walk                                                               *)
(* ------------------------------------------------------------------------------------ *)

Definition flag_of (t : nty) : Z :=
  match t with
  | NBool => BP_TYPE_BOOL
  | NByte => BP_TYPE_BYTE
  | NUint _ => BP_TYPE_UINT
  | NInt _ => BP_TYPE_INT
  | NEnum _ _ => BP_TYPE_ENUM
  | NAlias _ => BP_TYPE_ALIAS
  | NArr _ _ _ => BP_TYPE_ARRAY
  | NMsg _ _ => BP_TYPE_MESSAGE
  end.

(* the nbits member of the BpType the compiler emits for a base type *)
Definition base_nbits (t : nty) : Z :=
  match t with
  | NBool => bool_desc_nbits
  | NByte => byte_desc_nbits
  | NUint n | NInt n | NEnum n _ => n
  | _ => 0
  end.

(* BpJsonFormatBaseType(flag, nbits, ctx, data) *)
Definition base_text (flag nbits : Z) (o : cobj) : option string :=
  match find_group flag base_groups with
  | None => Some ""                           (* no case label matches: nothing is written *)
  | Some (GBool fmt cast tru fls) =>
      match c_load cast o with
      | Some (AInt _ z) => c_printf fmt [AStr (if z =? 0 then fls else tru)]
      | _ => None
      end
  | Some (GConv c) =>
      let fc := conv_eval c nbits in
      match c_load (snd fc) o with
      | Some a => c_printf (fst fc) [a]
      | None => None
      end
  end.

(* the three dispatching switches (+ the generated Json<Msg> entry, which calls the message
   formatter directly) *)
Inductive site : Type := SField | SAlias | SArr | STop.
Definition site_base (s : site) : list Z :=
  match s with SField => field_base_flags | SAlias => alias_base_flags | SArr => arr_base_flags | STop => [] end.
Definition site_fmt (s : site) : list Z :=
  match s with
  | SField => field_fmt_flags | SAlias => alias_fmt_flags | SArr => arr_fmt_flags
  | STop => [BP_TYPE_MESSAGE]
  end.

(* pieces separated the way both loops do it: `if (k + 1 < n) BpJsonFormatString(ctx, sep)` *)
Fixpoint join_opt (sep : string) (l : list (option string)) : option string :=
  match l with
  | [] => Some ""
  | x :: r =>
      match r with
      | [] => x
      | _ => match x, join_opt sep r with
             | Some a, Some b => Some (a ++ sep ++ b)
             | _, _ => None
             end
      end
  end.

(* the first cap elements of the array object; fewer = reading past the object *)
Fixpoint take_exact {A} (cap : nat) (l : list A) : option (list A) :=
  match cap with
  | O => Some []
  | S c => match l with
           | [] => None
           | x :: r => match take_exact c r with Some t => Some (x :: t) | None => None end
           end
  end.

Definition wrap (op cl : string) (body : option string) : option string :=
  match body with Some b => Some (op ++ b ++ cl) | None => None end.

(* BpJsonFormatMessageField: key, then the value *)
Definition field_piece (name : string) (value : option string) : option string :=
  match c_printf key_fmt [AStr name], value with
  | Some k, Some x => Some (k ++ x)
  | _, _ => None
  end.

Fixpoint c_dispatch (s : site) (t : nty) (o : cobj) {struct t} : option string :=
  let fl := flag_of t in
  if zmem fl (site_base s) then base_text fl (base_nbits t) o
  else if zmem fl (site_fmt s) then
    match t with
    | NAlias u => c_dispatch SAlias u o                                   (* BpJsonFormatAlias *)
    | NArr _ cap e =>                                                     (* BpJsonFormatArray *)
        match o with
        | CArr l =>
            match take_exact cap l with
            | Some els => wrap arr_open arr_close (join_opt arr_sep (map (c_dispatch SArr e) els))
            | None => None
            end
        | _ => None
        end
    | NMsg _ fs =>                                                        (* BpJsonFormatMessage *)
        match o with
        | CStruct os =>
            wrap msg_open msg_close
              (join_opt msg_sep
                 (map snd (sort_fields
                    (map (fun f => (fnum f,
                                    match lookup (fnum f) os with
                                    | Some fo => field_piece (fname f) (c_dispatch SField (ftype f) fo)
                                    | None => None
                                    end)) fs))))
        | _ => None
        end
    | _ => None                                   (* json_formatter is NULL for base types *)
    end
  else Some "".                                   (* no case label matches *)

(* int Json<Msg>(struct Msg *m, char *s) *)
Definition c_text (t : nty) (o : cobj) : option string := c_dispatch STop t o.

(* ------------------------------------------------------------------------------------ *)
(* Python: dataclasses.asdict + dict_factory + json.dumps                               *)
(* ------------------------------------------------------------------------------------ *)

(* PyOtherError is never produced by the model: it stands for any other exception observed
   on the implementation and is unequal to everything, itself included *)
Inductive pyexn : Type := PyTypeError | PyValueError | PyOtherError.
Inductive pyres (A : Type) : Type := POk (a : A) | PRaise (e : pyexn).
Arguments POk {A} a.
Arguments PRaise {A} e.

(* what to_dict() returns (IntEnum members are shown as their integer: json.dumps prints
   an int subclass with int.__repr__) *)
Inductive pyj : Type :=
| PJInt (z : Z)
| PJBool (b : bool)
| PJList (l : list pyj)
| PJBytes (l : list Z)                   (* a bytearray: copied as is by asdict *)
| PJDict (kvs : list (string * pyj)).

Fixpoint seq_res {A} (l : list (pyres A)) : pyres (list A) :=
  match l with
  | [] => POk []
  | x :: r => match x with
              | PRaise e => PRaise e
              | POk a => match seq_res r with POk t => POk (a :: t) | PRaise e => PRaise e end
              end
  end.

(* {k: v for k, v in pairs}: a repeated key keeps its first position and its last value *)
Fixpoint dict_set {A} (k : string) (v : A) (d : list (string * A)) : list (string * A) :=
  match d with
  | [] => [(k, v)]
  | kv :: r => if (fst kv =? k)%string then (k, v) :: r else kv :: dict_set k v r
  end.
Definition dict_of_pairs {A} (l : list (string * A)) : list (string * A) :=
  fold_left (fun d kv => dict_set (fst kv) (snd kv) d) l [].

Definition is_member (z : Z) (ms : list Z) : bool := existsb (Z.eqb z) ms.

(* the (name, value) pairs a dataclass field contributes to asdict's list.  An enum-typed
   field is read through the generated property (IntEnum(proxy): ValueError for a non-member)
   and is followed by its integer proxy field *)
Definition field_pairs (name : string) (t : nty) (sub : pyres pyj) (fv : val) : pyres (list (string * pyj)) :=
  match t with
  | NEnum _ ms =>
      if is_member (zof fv) ms
      then POk [(name, PJInt (zof fv)); (proxy_prefix ++ name, PJInt (zof fv))]
      else PRaise PyValueError
  | _ => match sub with POk x => POk [(name, x)] | PRaise e => PRaise e end
  end.

Fixpoint py_asdict (t : nty) (v : val) : pyres pyj :=
  match t with
  | NBool => POk (PJBool (vbool v))
  | NByte | NUint _ | NInt _ | NEnum _ _ => POk (PJInt (zof v))
  | NAlias u => py_asdict u v
  | NArr _ _ e =>
      if is_byte e then POk (PJBytes (map zof (vlist v)))                 (* typed `bytearray` *)
      else match seq_res (map (py_asdict e) (vlist v)) with
           | POk l => POk (PJList l)
           | PRaise e => PRaise e
           end
  | NMsg _ fs =>
      match seq_res (map snd (sort_fields
               (map (fun f => (fnum f, field_pairs (fname f) (ftype f)
                                         (py_asdict (ftype f) (vfield (fnum f) v)) (vfield (fnum f) v))) fs))) with
      | POk pairs =>
          POk (PJDict (dict_of_pairs
                         (filter (fun kv => negb (String.prefix dict_drop_prefix (fst kv))) (List.concat pairs))))
      | PRaise e => PRaise e
      end
  end.

(* what to_dict() is specified to hold: the value tree with names, in number order; a
   `byte[n]` field stays a bytearray object (only to_json() converts it) *)
Fixpoint dict_spec (t : nty) (v : val) : pyj :=
  match t with
  | NBool => PJBool (vbool v)
  | NByte | NUint _ | NInt _ | NEnum _ _ => PJInt (zof v)
  | NAlias u => dict_spec u v
  | NArr _ _ e =>
      if is_byte e then PJBytes (map zof (vlist v)) else PJList (map (dict_spec e) (vlist v))
  | NMsg _ fs =>
      PJDict (map snd (sort_fields
                         (map (fun f => (fnum f, (fname f, dict_spec (ftype f) (vfield (fnum f) v)))) fs)))
  end.

(* json.dumps(to_dict(), default=...): which JSON value is written *)
Fixpoint py_dumps (p : pyj) : pyres jtree :=
  match p with
  | PJInt z => POk (JNum z)
  | PJBool b => POk (JBool b)
  | PJList l => match seq_res (map py_dumps l) with POk x => POk (JList x) | PRaise e => PRaise e end
  | PJBytes l =>
      (* not serializable by itself: json.dumps calls its `default` hook, which to_json() passes
         since fix b3480f8 (GenJson.dumps_bytes_as_list, read from bp.py): list(o) *)
      if dumps_bytes_as_list then POk (JList (map JNum l)) else PRaise PyTypeError
  | PJDict kvs =>
      match seq_res (map (fun kv => match py_dumps (snd kv) with
                                    | POk j => POk (fst kv, j)
                                    | PRaise e => PRaise e
                                    end) kvs) with
      | POk x => POk (JObj x)
      | PRaise e => PRaise e
      end
  end.

Definition py_tree (t : nty) (v : val) : pyres jtree :=
  match py_asdict t v with POk d => py_dumps d | PRaise e => PRaise e end.

(* to_json() / to_json(separators=(",", ":")) *)
Definition py_to_json (isep ksep : string) (t : nty) (v : val) : pyres string :=
  match py_tree t v with POk j => POk (print_sep isep ksep j) | PRaise e => PRaise e end.

(* ------------------------------------------------------------------------------------ *)
(* guards of the theorems                                                               *)
(* ------------------------------------------------------------------------------------ *)

(* no field name begins with the documented proxy prefix (the region of finding
   json-proxy-name).  The literal is written here on purpose: the guard does not move when
   the source changes; JsonProofs proves the translated prefixes equal to it. *)
Definition documented_proxy_prefix : string := "_enum_field_proxy__".

Fixpoint no_proxy_names (t : nty) : bool :=
  match t with
  | NAlias u => no_proxy_names u
  | NArr _ _ e => no_proxy_names e
  | NMsg _ fs =>
      forallb (fun f => negb (String.prefix documented_proxy_prefix (fname f)) && no_proxy_names (ftype f)) fs
  | _ => true
  end.

(* field names of one message are pairwise distinct (the compiler rejects duplicates) *)
Fixpoint str_mem (s : string) (l : list string) : bool :=
  match l with
  | [] => false
  | x :: r => if (x =? s)%string then true else str_mem s r
  end.
Fixpoint str_nodup (l : list string) : bool :=
  match l with
  | [] => true
  | x :: r => negb (str_mem x r) && str_nodup r
  end.
Fixpoint names_distinct (t : nty) : bool :=
  match t with
  | NAlias u => names_distinct u
  | NArr _ _ e => names_distinct e
  | NMsg _ fs =>
      str_nodup (map (fun f => fst (snd f)) (sort_fields (map (fun f => (fnum f, (fname f, tt))) fs)))
      && forallb (fun f => names_distinct (ftype f)) fs
  | _ => true
  end.

(* ------------------------------------------------------------------------------------ *)
(* boolean equalities for the correspondence case files                                 *)
(* ------------------------------------------------------------------------------------ *)

Definition ostr_eqb (a b : option string) : bool :=
  match a, b with
  | Some x, Some y => (x =? y)%string
  | None, None => true
  | _, _ => false
  end.

Definition pyexn_eqb (a b : pyexn) : bool :=
  match a, b with PyTypeError, PyTypeError => true | PyValueError, PyValueError => true | _, _ => false end.

Definition pstr_eqb (a b : pyres string) : bool :=
  match a, b with
  | POk x, POk y => (x =? y)%string
  | PRaise e, PRaise f => pyexn_eqb e f
  | _, _ => false
  end.
