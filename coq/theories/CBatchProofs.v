(* CBatchProofs.v — the contiguous batch copy of BpEndecodeArray (arrays of 8/16/32/64-bit
   integers, little-endian build) gives exactly what the per-element loop gives. *)
From Coq Require Import ZArith List Bool Lia ZifyBool.
From BP Require Import Bits Schema Spec CMem CMemProofs CRt ByteStep PyEncStep PyEncProofs PyEncTop CCopyProofs CBaseProofs CEncProofs CStoreProofs CDecProofs.
From BPGen Require Import GenC.
Import ListNotations.
Open Scope Z_scope.

(* BpEndecodeArray with the batch branch deleted: always the per-element loop (L210-228) *)
Definition endecode_array_loop_only (B E : endian) (cp : desc -> cctx -> obj -> cres (cctx * obj))
           (enc ext : bool) (cap : Z) (elem : desc) (x : cctx) (o : obj) : cres (cctx * obj) :=
  let i := xi x in
  xa <-- (if ext then
            if enc then x' <-- encode_ahead B E (ah_arr_val cap) x ;; COk (x', 0)
            else decode_ahead B E x
          else COk (x, 0)) ;;
  r <-- elems_loop B E cp enc elem (Z.to_nat cap) O (fst xa) o ;;
  if ext && negb enc then
    let ito := ar_ito i (snd xa) (xi (fst r)) cap in
    if ar_ito_taken ito (xi (fst r)) then COk ({| xs := xs (fst r); xi := ito |}, snd r)
    else COk r
  else COk r.

Lemma cenc_post_unique x n bits o r1 r2 : cenc_post x n bits o r1 -> cenc_post x n bits o r2 -> r1 = r2.
Proof.
  intros (s1 & E1 & L1 & O1 & B1) (s2 & E2 & L2 & O2 & B2). rewrite E1, E2. f_equal. f_equal. f_equal.
  apply bufZ_inj; try assumption; congruence.
Qed.

Section Batch.
  Let cpe := call_processor LE LE true.
  Let cpd := call_processor LE LE false.

  Lemma enc_array_loop_only ext cap e o x :
    wf (TArr ext cap e) = true -> cwf (TArr ext cap e) = true -> flat e = true ->
    shape_ok (TArr ext cap e) o -> cenc_pre x (nbits (TArr ext cap e)) ->
    cenc_post x (nbits (TArr ext cap e)) (enc_bits (TArr ext cap e) (abs_val LE (TArr ext cap e) o)) o
              (endecode_array_loop_only LE LE cpe true ext (Z.of_nat cap) (render e) x o).
  Proof.
    intros Hw Hc Hfl Hs Hpre.
    pose proof (enc_ok_all LE LE eq_refl e) as IH.
    cbn [wf] in Hw. rewrite !andb_true_iff in Hw. destruct Hw as [[Hc1 Hc2] Hwe].
    cbn [cwf] in Hc. apply andb_true_iff in Hc. destruct Hc as [Hel Hce].
    pose proof (nbits_nonneg e Hwe) as Hn. pose proof (csize_nonneg e Hwe) as Hcs.
    assert (Hcap : 0 <= Z.of_nat cap < 65536) by lia.
    destruct (ah_val_facts _ Hcap) as [Hav _].
    cbn [nbits] in Hpre |- *. unfold endecode_array_loop_only. rewrite andb_false_r, Hav.
    cbn [shape_ok abs_val] in Hs |- *. rewrite Hfl in *.
    destruct Hs as (bs & -> & Hbs & Hlen). cbn [obytes].
    cbn [enc_bits vlist]. rewrite flat_map_concat_map, map_map, <- flat_map_concat_map.
    apply (cenc_post_prefix LE LE eq_refl); try assumption; try nia.
    intros x1 Hp1. cbn [fst snd]. rewrite cbind_ret, Nat2Z.id.
    pose proof (enc_elems_OB LE LE e IH Hwe Hce Hel Hfl bs cap 0 x1 Hbs ltac:(lia) Hp1) as Hpost.
    cbn [Nat.mul skipn] in Hpost. exact Hpost.
  Qed.

  (* encode: same stream, object untouched *)
  Theorem batch_eq_loop_encode ext cap e o x :
    wf (TArr ext cap e) = true -> cwf (TArr ext cap e) = true ->
    batch_pred LE (nbits e) (d_flag (render e)) (d_to_flag (render e)) = true ->
    shape_ok (TArr ext cap e) o -> cenc_pre x (nbits (TArr ext cap e)) ->
    endecode_array LE LE cpe true ext (Z.of_nat cap) (render e) x o
    = endecode_array_loop_only LE LE cpe true ext (Z.of_nat cap) (render e) x o.
  Proof.
    intros Hw Hc Hbp Hs Hpre.
    assert (Hfl : flat e = true).
    { cbn [wf] in Hw. rewrite !andb_true_iff in Hw. cbn [cwf] in Hc. apply andb_true_iff in Hc.
      cbn [batch_pred] in Hbp. exact (proj1 (batch_inv e (proj2 Hw) (proj2 Hc) Hbp)). }
    destruct (enc_ok_all LE LE eq_refl (TArr ext cap e) o x Hw Hc Hs Hpre) as [_ H1].
    pose proof (enc_array_loop_only ext cap e o x Hw Hc Hfl Hs Hpre) as H2.
    exact (cenc_post_unique _ _ _ _ _ _ H1 H2).
  Qed.

  (* decode: same cursor, same storage *)
  Theorem batch_eq_loop_decode ext cap e v x :
    wf (TArr ext cap e) = true -> cwf (TArr ext cap e) = true ->
    batch_pred LE (nbits e) (d_flag (render e)) (d_to_flag (render e)) = true ->
    has_ty (TArr ext cap e) v = true -> dec_pre x (nbits (TArr ext cap e)) ->
    seg (xs x) (xi x) (nbits (TArr ext cap e)) = Z_of_bits (enc_bits (TArr ext cap e) v) ->
    endecode_array LE LE cpd false ext (Z.of_nat cap) (render e) x (zero_obj (TArr ext cap e))
    = endecode_array_loop_only LE LE cpd false ext (Z.of_nat cap) (render e) x (zero_obj (TArr ext cap e)).
  Proof.
    intros Hw Hc Hbp Ht Hpre Hseg.
    pose proof (dec_ok_all LE LE eq_refl (TArr ext cap e) v x Hw Hc Ht Hpre Hseg) as H1.
    cbn [core] in H1. fold cpd in H1. rewrite H1. symmetry.
    (* the loop-only variant, by the same steps as dec_array *)
    pose proof (dec_ok_all LE LE eq_refl e) as IH.
    cbn [wf] in Hw. rewrite !andb_true_iff in Hw. destruct Hw as [[Hc1 Hc2] Hwe].
    cbn [cwf] in Hc. apply andb_true_iff in Hc. destruct Hc as [Hel Hce].
    cbn [batch_pred] in Hbp. destruct (batch_inv e Hwe Hce Hbp) as (Hfl & _).
    cbn [has_ty] in Ht. destruct v as [| |l|]; try discriminate.
    apply andb_true_iff in Ht. destruct Ht as [Hlen Hall]. apply Nat.eqb_eq in Hlen. subst cap.
    rewrite forallb_forall in Hall.
    pose proof (nbits_nonneg e Hwe) as Hn.
    assert (Hl2 : Z.of_nat (length (flat_map (enc_bits e) l)) = Z.of_nat (length l) * nbits e).
    { rewrite (flat_map_length_const _ _ (Z.to_nat (nbits e))); [lia|].
      intros b Hb. pose proof (enc_bits_length e b Hwe (Hall b Hb)). lia. }
    cbn [nbits enc_bits vlist] in Hpre, Hseg |- *. unfold endecode_array_loop_only.
    cbn [negb]. rewrite andb_true_r, Nat2Z.id. cbn [zero_obj store vlist]. rewrite Hfl.
    destruct Hpre as (Hs & Hi & Hl).
    destruct ext; cbn [ext_bits] in *.
    - replace (16 + Z.of_nat (length l) * nbits e) with (Z.of_nat (length (bits_of 16 (Z.of_nat (length l)))) + Z.of_nat (length (flat_map (enc_bits e) l))) in Hseg
        by (rewrite Hl2; reflexivity).
      destruct (seg_app _ _ _ _ Hi Hseg) as [Hseg1 Hseg2].
      change (Z.of_nat (length (bits_of 16 (Z.of_nat (length l))))) with 16 in Hseg1, Hseg2. rewrite Hl2 in Hseg2.
      rewrite (bits16 (Z.of_nat (length l))) in Hseg1 by lia.
      rewrite (dec_ahead LE LE eq_refl x (Z.of_nat (length l))); [|unfold dec_pre; repeat split; try assumption; nia|exact Hseg1].
      cbn [cbind fst snd].
      pose proof (dec_elems_OB LE LE e IH Hwe Hce Hel Hfl l [] {| xs := xs x; xi := xi x + 16 |} ltac:(intros a []) Hall) as Hb.
      cbn [length flat_map app xs xi] in Hb. fold cpd in Hb. rewrite Hb;
        [|unfold dec_pre; cbn [xs xi]; repeat split; try assumption; nia|exact Hseg2].
      cbn [cbind fst snd xs xi].
      assert (Hito : ar_ito (xi x) (Z.of_nat (length l)) (xi x + 16 + Z.of_nat (length l) * nbits e) (Z.of_nat (length l))
                     = xi x + 16 + Z.of_nat (length l) * nbits e).
      { unfold ar_ito. replace (xi x + 16 + Z.of_nat (length l) * nbits e - xi x - 16) with (nbits e * Z.of_nat (length l)) by lia.
        rewrite Z.quot_mul by lia. lia. }
      rewrite Hito. unfold ar_ito_taken. rewrite Z.geb_leb, Z.leb_refl.
      f_equal. f_equal. f_equal. lia.
    - rewrite Z.add_0_l in *. cbn [cbind fst snd].
      pose proof (dec_elems_OB LE LE e IH Hwe Hce Hel Hfl l [] x ltac:(intros a []) Hall) as Hb.
      cbn [length flat_map app] in Hb. fold cpd in Hb. rewrite Hb; [reflexivity|unfold dec_pre; repeat split; assumption|exact Hseg].
  Qed.
End Batch.
