(* JsonWf.v — a recogniser [wf_json] for JSON texts: the grammar of RFC 8259 restricted to what
   can occur in the output of bitproto's formatters — no white space, integers without
   leading zeros, true/false, arrays, objects whose keys are strings of unescaped characters.
   Definitions only; JsonText.v proves that it accepts everything print_compact writes. *)
From Coq Require Import ZArith List Bool String Ascii.
Import ListNotations.
Open Scope string_scope.

Definition is_digit (c : ascii) : bool :=
  (48 <=? nat_of_ascii c)%nat && (nat_of_ascii c <=? 57)%nat.

(* ------------------------------------------------------------------------------------ *)
(* a recogniser for JSON texts                                                          *)
(* ------------------------------------------------------------------------------------ *)

(* p ++ r  |->  Some r *)
Fixpoint strip (p s : string) : option string :=
  match p with
  | EmptyString => Some s
  | String a p' =>
      match s with
      | String b s' => if (a =? b)%char then strip p' s' else None
      | EmptyString => None
      end
  end.

(* characters allowed unescaped inside a JSON string (ASCII part): not the double quote
   (34), not the backslash (92), not a control character *)
Definition safe_char (c : ascii) : bool :=
  let n := nat_of_ascii c in
  (32 <=? n)%nat && (n <? 127)%nat && negb (n =? 34)%nat && negb (n =? 92)%nat.

Fixpoint safe_string (s : string) : bool :=
  match s with
  | EmptyString => true
  | String c r => safe_char c && safe_string r
  end.

(* after the opening quote: up to and including the closing quote *)
Fixpoint skip_string_body (s : string) : option string :=
  match s with
  | EmptyString => None
  | String c r =>
      if (c =? """")%char then Some r
      else if safe_char c then skip_string_body r else None
  end.

Fixpoint skip_digits (s : string) : string :=
  match s with
  | EmptyString => EmptyString
  | String c r => if is_digit c then skip_digits r else s
  end.

(* int = zero / ( digit1-9 *DIGIT ) *)
Definition skip_int (s : string) : option string :=
  match s with
  | EmptyString => None
  | String c r =>
      if (c =? "0")%char then Some r
      else if is_digit c then Some (skip_digits r) else None
  end.

(* number = [ minus ] int      (no fraction, no exponent: they never occur) *)
Definition skip_number (s : string) : option string :=
  match s with
  | EmptyString => None
  | String c r => if (c =? "-")%char then skip_int r else skip_int s
  end.

Fixpoint skip_value (fuel : nat) (s : string) {struct fuel} : option string :=
  match fuel with
  | O => None
  | S f =>
      match s with
      | EmptyString => None
      | String c r =>
          if (c =? "[")%char then
            match strip "]" r with Some r' => Some r' | None => skip_elems f r end
          else if (c =? "{")%char then
            match strip "}" r with Some r' => Some r' | None => skip_members f r end
          else match strip "true" s with
               | Some r' => Some r'
               | None => match strip "false" s with
                         | Some r' => Some r'
                         | None => skip_number s
                         end
               end
      end
  end
with skip_elems (fuel : nat) (s : string) {struct fuel} : option string :=
  match fuel with
  | O => None
  | S f =>
      match skip_value f s with
      | Some (String c r) =>
          if (c =? ",")%char then skip_elems f r
          else if (c =? "]")%char then Some r else None
      | _ => None
      end
  end
with skip_members (fuel : nat) (s : string) {struct fuel} : option string :=
  match fuel with
  | O => None
  | S f =>
      match s with
      | String q r =>
          if (q =? """")%char then
            match skip_string_body r with
            | Some (String k r2) =>
                if (k =? ":")%char then
                  match skip_value f r2 with
                  | Some (String c r3) =>
                      if (c =? ",")%char then skip_members f r3
                      else if (c =? "}")%char then Some r3 else None
                  | _ => None
                  end
                else None
            | _ => None
            end
          else None
      | EmptyString => None
      end
  end.

(* the whole text is one JSON value *)
Definition wf_json (s : string) : bool :=
  match skip_value (S (String.length s)) s with
  | Some EmptyString => true
  | _ => false
  end.

