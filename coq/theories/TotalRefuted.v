(* TotalRefuted.v — C09: witnesses of the KNOWN FINDINGS on the current tree (each lemma must be
   deleted, together with its known_findings.jsonl entry, when the defect is fixed). *)
From Coq Require Import String Ascii ZArith List Bool Lia.
From BP Require Import Re TotalBase Schema Total TotalProofs.
From BPGen Require Import GenC09.
Import ListNotations.
Open Scope Z_scope.

(* beyond CPython's digit limit EVERY decimal literal / width crashes the token rule *)
Theorem int_literal_crashes_beyond_limit tv :
  matches int_literal_re tv -> py_int_max_str_digits < zlen tv -> lex_int_literal tv = Crash ValueError.
Proof.
  intros H Hl. destruct (py_int_dec tv (plus_class_inv dec_class tv eq_refl H)) as [_ H2].
  unfold lex_int_literal. exact (H2 Hl).
Qed.

Theorem uint_width_crashes_beyond_limit tv :
  matches uint_type_re tv -> py_int_max_str_digits + 4 < zlen tv -> lex_uint_cap tv = Crash ValueError.
Proof.
  intros H Hl. destruct (uint_type_inv tv H) as (ds & -> & Hd).
  destruct (py_int_dec ds (plus_class_inv dec_class ds eq_refl Hd)) as [_ H2].
  cbn [map app] in Hl. rewrite !zlen_cons in Hl.
  unfold lex_uint_cap. cbn [map app py_slice_from skipn]. apply H2. lia.
Qed.

Theorem int_width_crashes_beyond_limit tv :
  matches int_type_re tv -> py_int_max_str_digits + 3 < zlen tv -> lex_int_cap tv = Crash ValueError.
Proof.
  intros H Hl. destruct (int_type_inv tv H) as (ds & -> & Hd).
  destruct (py_int_dec ds (plus_class_inv dec_class ds eq_refl Hd)) as [_ H2].
  cbn [map app] in Hl. rewrite !zlen_cons in Hl.
  unfold lex_int_cap. cbn [map app py_slice_from skipn]. apply H2. lia.
Qed.

(* witnesses at the digit limit, without evaluating 10^4300 *)
Definition huge : Z := 10 ^ py_int_max_str_digits.

Lemma str_int_huge : str_int huge = Crash ValueError.
Proof.
  apply str_int_big. unfold huge. rewrite Z.abs_eq; [lia|].
  apply Z.pow_nonneg. lia.
Qed.

Lemma p_error_huge :
  exists path z, In path p_error_paths /\ p_error_path_outcome path (TInt z) = Crash ValueError.
Proof.
  destruct (find (fun p => snd (fst p)) p_error_paths) as [path|] eqn:E; [|vm_compute in E; discriminate].
  apply find_some in E. destruct E as [Hin Hu]. exists path, huge. split; [exact Hin|].
  destruct path as [[c u] l]. cbn [fst snd] in Hu. subst u.
  unfold p_error_path_outcome. rewrite str_int_huge. reflexivity.
Qed.

Lemma array_token_huge : exists cap, array_type_token cap = Crash ValueError.
Proof.
  exists huge. unfold array_type_token. change array_type_formats_cap with true. cbv iota.
  exact str_int_huge.
Qed.

Lemma render_huge : exists c, forall l, render l (TMsg false []) [c] = Crash ValueError.
Proof.
  exists huge. intro l. unfold render. cbn [render_ints]. unfold render_int.
  change format_int_value_guarded with false. cbv iota. rewrite str_int_huge. reflexivity.
Qed.
