(* OpMode.v — optimization mode (-O) of the C and Go renderers.

   1. the compile-time copy plan: [leaves] (the recursion over message / array / alias of
      Formatter.format_op_mode_endecode_*, arrays unrolled, alias passes the alias down) and
      [plan_loop] (the (i, j, c) loop; its step size, exit test and the five per-item
      numbers come from BPGen.GenOpMode, regenerated from the compiler on every run);
   2. what each target formatter prints for a plan item ([stmt]: the C little-endian
      byte-pointer statements, the C big-endian value statements, memset, the C sign
      statement, the Go statements), and the --endian / BP_BIG_ENDIAN selection;
   3. what those statements MEAN in C resp. Go ([exec]): explicit integer promotion,
      conversion and wrap-around at exactly the places where the language has them.

   Everything is total and executable; proofs live in OpMode*Proofs.v. *)
From Coq Require Import ZArith List Bool Lia.
From BP Require Import Bits Schema Spec.
From BPGen Require Import GenOpMode.
Import ListNotations.
Open Scope Z_scope.

(* ---------- field name chains ---------- *)

Inductive sel := SF (n : Z) | SI (k : nat).     (* .field(number)   [index] *)
Definition chain := list sel.

Definition sel_eqb (a b : sel) : bool :=
  match a, b with
  | SF x, SF y => x =? y
  | SI x, SI y => Nat.eqb x y
  | _, _ => false
  end.

Fixpoint chain_eqb (a b : chain) : bool :=
  match a, b with
  | [], [] => true
  | x :: r, y :: s => sel_eqb x y && chain_eqb r s
  | _, _ => false
  end.

(* ---------- scalar types of the target languages ---------- *)

(* bool | unsigned sz-bit | signed sz-bit   (C: bool, uintN_t / unsigned char, intN_t;
   Go: bool, uintN / byte, intN; typedef / named types are resolved by the T1 parsers) *)
Inductive cty := CBool | CU (sz : Z) | CS (sz : Z).

Definition cty_eqb (a b : cty) : bool :=
  match a, b with
  | CBool, CBool => true
  | CU x, CU y => x =? y
  | CS x, CS y => x =? y
  | _, _ => false
  end.

(* what a single-type field is, as far as the formatters look at it *)
Inductive lkind := KBool | KByte | KUint (n : Z) | KInt (n : Z) | KEnum (n : Z).
Record leaf := mkleaf { lk : lkind; lalias : bool }.

(* Formatter.get_nbits_of_integer over Type.nbytes (both translated) *)
Definition storage_bits (n : Z) : Z := storage_bits_of_nbytes (type_nbytes n).

Definition leaf_bits (lf : leaf) : Z :=
  match lk lf with
  | KBool => bool_nbits
  | KByte => byte_nbits
  | KUint n | KInt n | KEnum n => n
  end.

(* format_type: declared type of the struct member (typedefs resolved) *)
Definition leaf_cty (lf : leaf) : cty :=
  match lk lf with
  | KBool => CBool
  | KByte => CU 8
  | KUint n | KEnum n => CU (storage_bits n)
  | KInt n => CS (storage_bits n)
  end.

(* CFormatter._format_unsigned_chain_type *)
Definition leaf_uty (lf : leaf) : cty :=
  match lk lf with
  | KBool => CU 8
  | KByte => CU 8
  | KUint n | KEnum n | KInt n => CU (storage_bits n)
  end.

(* ---------- the recursion over message / array / alias ---------- *)

Definition single_leaf (t : ty) (al : bool) : option leaf :=
  match t with
  | TBool => Some (mkleaf KBool al)
  | TByte => Some (mkleaf KByte al)
  | TUint n => Some (mkleaf (KUint n) al)
  | TInt n => Some (mkleaf (KInt n) al)
  | TEnum n _ => Some (mkleaf (KEnum n) al)
  | _ => None
  end.

Definition one_leaf (t : ty) (al : bool) : list (chain * leaf) :=
  match single_leaf t al with Some lf => [([], lf)] | None => [] end.

Definition pre {A} (s : sel) (x : chain * A) : chain * A := (s :: fst x, snd x).

(* leaves in the order the formatter visits them; the formatter walks
   [sorted_fields()], i.e. this is applied to [norm t] *)
Fixpoint leaves (t : ty) : list (chain * leaf) :=
  match t with
  | TAlias t' =>
      match t' with
      | TArr _ _ _ => leaves t'                 (* format_op_mode_endecode_array(t_, chain) *)
      | _ => one_leaf t' true                   (* single type: the alias itself is passed *)
      end
  | TArr _ cap e => flat_map (fun k => map (pre (SI k)) (leaves e)) (seq 0 cap)
  | TMsg _ fs =>
      (fix go (l : list (Z * ty)) : list (chain * leaf) :=
         match l with
         | [] => []
         | kf :: r => map (pre (SF (fst kf))) (leaves (snd kf)) ++ go r
         end) fs
  | _ => one_leaf t false
  end.

(* the schemas -O accepts and the formatter can walk: no extensible marker anywhere,
   alias targets are base types or arrays, an array element is not directly an array *)
Fixpoint opmode_ok (t : ty) : bool :=
  match t with
  | TAlias t' =>
      match t' with
      | TArr _ _ _ => opmode_ok t'
      | TBool | TByte | TUint _ | TInt _ => true
      | _ => false
      end
  | TArr x _ e => negb x && match e with TArr _ _ _ => false | _ => true end && opmode_ok e
  | TMsg x fs =>
      negb x &&
      (fix go (l : list (Z * ty)) : bool :=
         match l with
         | [] => true
         | kf :: r => opmode_ok (snd kf) && go r
         end) fs
  | _ => true
  end.

(* ---------- the (i, j, c) loop ---------- *)

Fixpoint plan_loop (fuel : nat) (i j n : Z) : list (Z * Z * Z) :=
  match fuel with
  | O => []
  | S f =>
      if plan_continue j n then
        let c := plan_step i j n in (i, j, c) :: plan_loop f (i + c) (j + c) n
      else []
  end.

Definition leaf_plan (i0 n : Z) : list (Z * Z * Z) := plan_loop (Z.to_nat n) i0 0 n.

(* where the cursor i[0] stands after the loop *)
Definition plan_end (i0 : Z) (p : list (Z * Z * Z)) : Z :=
  fold_left (fun a x => a + snd x) p i0.

(* ---------- statements ---------- *)

Inductive goconv := GPlain | GB2B | GB2BCast.
   (* byte(f ..) | bool2byte(f) / byte2bool(..) | bool2byte(bool(f)) / T(byte2bool(..)) *)

(* shifts are signed: sh > 0 is `>> sh`, sh < 0 is `<< -sh`, 0 is no operator *)
Inductive stmt :=
| SEncLE (si : Z) (asg : bool) (ch : chain) (fi sh mask : Z)
    (* s[si] (=||=) (bytes_of(ch)[fi] sh) & mask;     bytes_of(x) is the cast of &x to unsigned char pointer *)
| SDecLE (ch : chain) (fi : Z) (asg : bool) (si sh mask : Z)
    (* bytes_of(ch)[fi] (=||=) (s[si] sh) & mask; *)
| SEncBE (si : Z) (asg : bool) (ut : cty) (ch : chain) (sh mask : Z)
    (* s[si] (=||=) ((ut)(ch) sh) & mask; *)
| SDecBE (ch : chain) (ct : cty) (ut : option cty) (si sh mask fish : Z)
    (* ch |= (ct)((ut)(((unsigned)(s[si]) sh) & mask) << fish);   resp. without (ut) ... << fish *)
| SSignC (ch : chain) (k mask : Z) (special : bool)
    (* if ((ch >> k) & 1) ch |= mask;   special: mask spelled (-9223372036854775807 - 1) *)
| SMemset
    (* memset(m, 0, sizeof( *m)); *)
| SEncGo (si : Z) (cv : goconv) (ch : chain) (bsh sh mask : Z)
    (* s[si] |= (byte(ch >> bsh) sh) & mask *)
| SDecGo (ch : chain) (asg : bool) (ct : cty) (cv : goconv) (si sh mask fish : Z)
    (* ch (=||=) ct(byte(s[si] sh) & mask) << fish *)
| SShlGo (ch : chain) (d : Z)      (* ch <<= d *)
| SShrGo (ch : chain) (d : Z).     (* ch >>= d *)

Inductive lang := CLE | CBE | GO.

Definition go_conv_of (lf : leaf) : goconv :=
  match lk lf with
  | KBool => if lalias lf then GB2BCast else GB2B
  | _ => GPlain
  end.

Definition is_kbool (lf : leaf) : bool := match lk lf with KBool => true | _ => false end.

Definition item (L : lang) (enc : bool) (lf : leaf) (ch : chain) (p : Z * Z * Z) : stmt :=
  let '(i, j, c) := p in
  match L, enc with
  | CLE, true =>
      SEncLE (enc_si i j c) (c_le_enc_assign (enc_r i j c)) ch (enc_fi i j c) (enc_shift i j c) (enc_mask i j c)
  | CLE, false =>
      SDecLE ch (dec_fi i j c) (c_le_dec_assign (dec_r i j c)) (dec_si i j c) (dec_shift i j c) (dec_mask i j c)
  | CBE, true =>
      SEncBE (enc_si i j c) (c_be_enc_assign (enc_r i j c)) (leaf_uty lf) ch
             (c_be_total_shift (enc_fi i j c) (enc_shift i j c)) (enc_mask i j c)
  | CBE, false =>
      let fish := c_be_fi_shift (dec_fi i j c) in
      SDecBE ch (leaf_cty lf) (if c_be_has_fi_shift fish then Some (leaf_uty lf) else None)
             (dec_si i j c) (dec_shift i j c) (dec_mask i j c) (if c_be_has_fi_shift fish then fish else 0)
  | GO, true =>
      SEncGo (enc_si i j c) (go_conv_of lf) ch
             (if go_enc_has_bshift (enc_fi i j c) then go_enc_bshift (enc_fi i j c) else 0)
             (enc_shift i j c) (enc_mask i j c)
  | GO, false =>
      SDecGo ch (is_kbool lf) (leaf_cty lf) (go_conv_of lf) (dec_si i j c) (dec_shift i j c) (dec_mask i j c)
             (if go_dec_has_bshift (dec_fi i j c) then go_dec_bshift (dec_fi i j c) else 0)
  end.

(* post_format_op_mode_endecode_single_type / _int *)
Definition post (L : lang) (enc : bool) (lf : leaf) (ch : chain) : list stmt :=
  match lk lf with
  | KInt n =>
      if enc then [] else
      match L with
      | GO => if go_no_sign_stmt n then [] else
              [SShlGo ch (go_sign_d (storage_bits n) n); SShrGo ch (go_sign_d (storage_bits n) n)]
      | _ => if c_no_sign_stmt n then [] else [SSignC ch (n - 1) (c_sign_mask n) (c_sign_special n)]
      end
  | _ => []
  end.

Definition leaf_stmts (L : lang) (enc : bool) (x : chain * leaf) (i0 : Z) : list stmt :=
  map (item L enc (snd x) (fst x)) (leaf_plan i0 (leaf_bits (snd x))) ++ post L enc (snd x) (fst x).

Fixpoint all_stmts (L : lang) (enc : bool) (ls : list (chain * leaf)) (i : Z) : list stmt :=
  match ls with
  | [] => []
  | x :: r => leaf_stmts L enc x i ++
              all_stmts L enc r (plan_end i (leaf_plan i (leaf_bits (snd x))))
  end.

(* the statement list of Encode<Msg> / Decode<Msg> for message type t *)
Definition stmts (L : lang) (enc : bool) (t : ty) : list stmt := all_stmts L enc (leaves (norm t)) 0.

(* ---------- renderer_c.py: --endian and the preprocessor skeleton ---------- *)

Inductive endian := ELittle | EBig | EBoth.
Inductive cbody :=
| BPlain (l : list stmt)
| BIfndef (le be : list stmt).     (* #ifndef BP_BIG_ENDIAN  le  #else  be  #endif *)

Definition c_le_body (enc : bool) (t : ty) : list stmt := stmts CLE enc t.
Definition c_be_body (enc : bool) (t : ty) : list stmt :=
  (if enc then [] else [SMemset]) ++ stmts CBE enc t.

Definition c_body (e : endian) (enc : bool) (t : ty) : cbody :=
  match e with
  | ELittle => BPlain (c_le_body enc t)
  | EBig => BPlain (c_be_body enc t)
  | EBoth => BIfndef (c_le_body enc t) (c_be_body enc t)
  end.

(* what the preprocessor leaves when BP_BIG_ENDIAN is / is not defined *)
Definition select (macro_defined : bool) (b : cbody) : list stmt :=
  match b with
  | BPlain l => l
  | BIfndef le be => if macro_defined then be else le
  end.

Definition go_body (enc : bool) (t : ty) : list stmt := stmts GO enc t.

(* ---------- memory ---------- *)

(* one scalar object: declared type and bit pattern (0 <= pat < 2^size); on a little-endian
   host byte k of the object is bits [8k, 8k+8) of pat *)
Record cell := mkcell { cty_of : cty; pat : Z }.
Definition mem := list (chain * cell).
Record state := mkst { buf : list Z; objs : mem }.

Fixpoint mem_get (m : mem) (ch : chain) : option cell :=
  match m with
  | [] => None
  | x :: r => if chain_eqb (fst x) ch then Some (snd x) else mem_get r ch
  end.

Fixpoint mem_set (m : mem) (ch : chain) (u : Z) : mem :=
  match m with
  | [] => []
  | x :: r => if chain_eqb (fst x) ch then (fst x, mkcell (cty_of (snd x)) u) :: r
              else x :: mem_set r ch u
  end.

Definition csz (T : cty) : Z := match T with CBool => 8 | CU sz | CS sz => sz end.

(* value of an object of type T holding pattern u *)
Definition sval (T : cty) (u : Z) : Z :=
  match T with
  | CS sz => if u <? 2 ^ (sz - 1) then u else u - 2 ^ sz
  | _ => u
  end.

(* conversion of an integer value to type T, as the pattern stored (C: modular for unsigned,
   implementation-defined = modular for signed (gcc); bool: != 0.  Go: same for integers) *)
Definition upat (T : cty) (z : Z) : Z :=
  match T with
  | CBool => if z =? 0 then 0 else 1
  | CU sz | CS sz => z mod 2 ^ sz
  end.

Definition conv (T : cty) (z : Z) : Z := sval T (upat T z).

Definition get_byte (u fi : Z) : Z := (u / 2 ^ (8 * fi)) mod 256.
Definition set_byte (u fi b : Z) : Z := u - get_byte u fi * 2 ^ (8 * fi) + b * 2 ^ (8 * fi).

Definition bind {A B} (o : option A) (f : A -> option B) : option B :=
  match o with Some a => f a | None => None end.
Notation "x <- e ;; f" := (bind e (fun x => f)) (at level 61, e at next level, right associativity).

Definition rd (s : list Z) (k : Z) : option Z :=
  if k <? 0 then None else nth_error s (Z.to_nat k).
Definition wr (s : list Z) (k : Z) (b : Z) : list Z := upd s (Z.to_nat k) b.

(* C: E sh  for an operand of type T holding value z (z >= 0), after integer promotion.
   Types narrower than int are promoted to 32-bit signed int, where overflow of << is
   undefined behaviour (None); unsigned 32/64-bit operands wrap.  A shift count >= the
   promoted width is undefined. *)
Definition c_shift (T : cty) (z sh : Z) : option Z :=
  let w := Z.max 32 (csz T) in
  if sh =? 0 then Some z
  else if 0 <? sh then (if sh <? w then Some (Z.shiftr z sh) else None)
  else
    let k := - sh in
    if w <=? k then None else
    match T with
    | CU sz => if sz <? 32 then (if z * 2 ^ k <? 2 ^ 31 then Some (z * 2 ^ k) else None)
               else Some ((z * 2 ^ k) mod 2 ^ sz)
    | _ => if (0 <=? z) && (z * 2 ^ k <? 2 ^ (w - 1)) then Some (z * 2 ^ k) else None
    end.

(* C: s[si] = e  /  s[si] |= e  on unsigned char *)
Definition store_byte (asg : bool) (old e : Z) : Z := (if asg then e else Z.lor old e) mod 256.

(* Go: byte-typed shift (8-bit result) *)
Definition go_shift8 (b sh : Z) : Z :=
  if sh <? 0 then (b * 2 ^ (- sh)) mod 256 else Z.shiftr b sh.

Definition is_unsigned (T : cty) : bool := match T with CU _ => true | _ => false end.
Definition is_cbool (T : cty) : bool := match T with CBool => true | _ => false end.

Definition exec (st : state) (x : stmt) : option state :=
  match x with
  | SEncLE si asg ch fi sh mask =>
      c <- mem_get (objs st) ch ;;
      if (0 <=? fi) && (8 * fi <? csz (cty_of c)) then
        e1 <- c_shift (CU 8) (get_byte (pat c) fi) sh ;;
        old <- rd (buf st) si ;;
        Some (mkst (wr (buf st) si (store_byte asg old (Z.land e1 mask))) (objs st))
      else None
  | SDecLE ch fi asg si sh mask =>
      b <- rd (buf st) si ;;
      e1 <- c_shift (CU 8) b sh ;;
      c <- mem_get (objs st) ch ;;
      if (0 <=? fi) && (8 * fi <? csz (cty_of c)) then
        Some (mkst (buf st)
                (mem_set (objs st) ch
                   (set_byte (pat c) fi (store_byte asg (get_byte (pat c) fi) (Z.land e1 mask)))))
      else None
  | SEncBE si asg ut ch sh mask =>
      c <- mem_get (objs st) ch ;;
      if is_unsigned ut then
        e1 <- c_shift ut (upat ut (sval (cty_of c) (pat c))) sh ;;
        old <- rd (buf st) si ;;
        Some (mkst (wr (buf st) si (store_byte asg old (Z.land e1 mask))) (objs st))
      else None
  | SDecBE ch ct ut si sh mask fish =>
      b <- rd (buf st) si ;;
      e1 <- c_shift (CU 32) b sh ;;
      let bv := Z.land e1 mask in
      x3 <- match ut with
            | Some uT => if is_unsigned uT && (0 <? fish) then c_shift uT (upat uT bv) (- fish) else None
            | None => if fish =? 0 then Some bv else None
            end ;;
      c <- mem_get (objs st) ch ;;
      let T := cty_of c in
      Some (mkst (buf st) (mem_set (objs st) ch (upat T (Z.lor (sval T (pat c)) (conv ct x3)))))
  | SSignC ch k mask _ =>
      c <- mem_get (objs st) ch ;;
      let T := cty_of c in
      if (0 <=? k) && (k <? Z.max 32 (csz T)) then
        let v := sval T (pat c) in
        if Z.land (Z.shiftr v k) 1 =? 0 then Some st
        else Some (mkst (buf st) (mem_set (objs st) ch (upat T (Z.lor v mask))))
      else None
  | SMemset =>
      Some (mkst (buf st) (map (fun x => (fst x, mkcell (cty_of (snd x)) 0)) (objs st)))
  | SEncGo si cv ch bsh sh mask =>
      c <- mem_get (objs st) ch ;;
      let T := cty_of c in
      v <- match cv with
           | GPlain => if is_cbool T then None else Some (sval T (pat c))
           | _ => if is_cbool T then Some (if pat c =? 0 then 0 else 1) else None
           end ;;
      if (0 <=? bsh) && (0 <=? mask) && (mask <? 256) then
        let b := (Z.shiftr v bsh) mod 256 in
        old <- rd (buf st) si ;;
        Some (mkst (wr (buf st) si (Z.lor old (Z.land (go_shift8 b sh) mask))) (objs st))
      else None
  | SDecGo ch asg ct cv si sh mask fish =>
      b <- rd (buf st) si ;;
      c <- mem_get (objs st) ch ;;
      let T := cty_of c in
      if (0 <=? fish) && (0 <=? mask) && (mask <? 256) && cty_eqb ct T then
        let bv := Z.land (go_shift8 b sh) mask in
        match cv with
        | GPlain =>
            if is_cbool T then None else
            let x2 := conv T (conv T bv * 2 ^ fish) in
            Some (mkst (buf st)
                    (mem_set (objs st) ch (upat T (if asg then x2 else Z.lor (sval T (pat c)) x2))))
        | _ =>
            if is_cbool T && asg && (fish =? 0) then
              Some (mkst (buf st) (mem_set (objs st) ch (if 0 <? bv then 1 else 0)))
            else None
        end
      else None
  | SShlGo ch d =>
      c <- mem_get (objs st) ch ;;
      let T := cty_of c in
      if is_cbool T || (d <? 0) then None
      else Some (mkst (buf st) (mem_set (objs st) ch (upat T (sval T (pat c) * 2 ^ d))))
  | SShrGo ch d =>
      c <- mem_get (objs st) ch ;;
      let T := cty_of c in
      if is_cbool T || (d <? 0) then None
      else Some (mkst (buf st) (mem_set (objs st) ch (upat T (Z.shiftr (sval T (pat c)) d))))
  end.

Fixpoint run (l : list stmt) (st : state) : option state :=
  match l with
  | [] => Some st
  | x :: r => st' <- exec st x ;; run r st'
  end.

(* ---------- the storage a value tree occupies ---------- *)

Definition leaf_pat (lf : leaf) (v : val) : Z :=
  match lk lf with
  | KBool => match v with VB true => 1 | _ => 0 end
  | _ => zof v mod 2 ^ csz (leaf_cty lf)
  end.

(* the scalar objects of a value tree: chain, what the field is, its value *)
Definition one_cell (t : ty) (al : bool) (v : val) : list (chain * (leaf * val)) :=
  match single_leaf t al with
  | Some lf => [([], (lf, v))]
  | None => []
  end.

Fixpoint cells (t : ty) (v : val) : list (chain * (leaf * val)) :=
  match t with
  | TAlias t' =>
      match t' with
      | TArr _ _ _ => cells t' v
      | _ => one_cell t' true v
      end
  | TArr _ cap e =>
      flat_map (fun k => map (pre (SI k)) (cells e (nth k (vlist v) (VZ 0)))) (seq 0 cap)
  | TMsg _ fs =>
      (fix go (l : list (Z * ty)) : list (chain * (leaf * val)) :=
         match l with
         | [] => []
         | kf :: r => map (pre (SF (fst kf))) (cells (snd kf) (vfield (fst kf) v)) ++ go r
         end) fs
  | _ => one_cell t false v
  end.

Definition cell_of (x : chain * (leaf * val)) : chain * cell :=
  (fst x, mkcell (leaf_cty (fst (snd x))) (leaf_pat (fst (snd x)) (snd (snd x)))).

(* the struct memory holding value v (every member, declared type and bit pattern) *)
Definition store (t : ty) (v : val) : mem := map cell_of (cells t v).

Definition zero_mem (t : ty) : mem :=
  map (fun x => (fst x, mkcell (leaf_cty (snd x)) 0)) (leaves t).

(* the declared member types, in order (compared with the parsed struct declarations) *)
Definition member_types (t : ty) : list (chain * cty) :=
  map (fun x => (fst x, leaf_cty (snd x))) (leaves (norm t)).

(* entry points used by the theorems and by the case files *)
Definition run_encode (l : list stmt) (t : ty) (v : val) : option (list Z) :=
  st <- run l (mkst (zeros (Z.to_nat (nbytes t))) (store (norm t) v)) ;; Some (buf st).

Definition run_decode (l : list stmt) (t : ty) (s : list Z) : option mem :=
  st <- run l (mkst s (zero_mem (norm t))) ;; Some (objs st).

(* decode into a target whose objects hold arbitrary patterns (tie only) *)
Definition run_decode_from (l : list stmt) (m0 : mem) (s : list Z) : option mem :=
  st <- run l (mkst s m0) ;; Some (objs st).

(* ---------- decidable equality on statements (T1 comparison) ---------- *)

Definition sel_eq_dec (a b : sel) : {a = b} + {a <> b}.
Proof. decide equality; [apply Z.eq_dec | apply Nat.eq_dec]. Defined.
Definition cty_eq_dec (a b : cty) : {a = b} + {a <> b}.
Proof. decide equality; apply Z.eq_dec. Defined.
Definition stmt_eq_dec (a b : stmt) : {a = b} + {a <> b}.
Proof.
  decide equality;
    try apply Z.eq_dec; try apply bool_dec; try apply (list_eq_dec sel_eq_dec);
    try apply cty_eq_dec; try (decide equality; apply cty_eq_dec);
    try (decide equality).
Defined.

Definition stmts_eqb (a b : list stmt) : bool :=
  if list_eq_dec stmt_eq_dec a b then true else false.

Definition cbody_eqb (a b : cbody) : bool :=
  match a, b with
  | BPlain x, BPlain y => stmts_eqb x y
  | BIfndef x1 x2, BIfndef y1 y2 => stmts_eqb x1 y1 && stmts_eqb x2 y2
  | _, _ => false
  end.

Fixpoint mtypes_eqb (a b : list (chain * cty)) : bool :=
  match a, b with
  | [], [] => true
  | x :: r, y :: s => chain_eqb (fst x) (fst y) && cty_eqb (snd x) (snd y) && mtypes_eqb r s
  | _, _ => false
  end.

Fixpoint mem_eqb (a b : mem) : bool :=
  match a, b with
  | [], [] => true
  | x :: r, y :: s =>
      chain_eqb (fst x) (fst y) && cty_eqb (cty_of (snd x)) (cty_of (snd y)) &&
      (pat (snd x) =? pat (snd y)) && mem_eqb r s
  | _, _ => false
  end.

Fixpoint zlist_eqb (a b : list Z) : bool :=
  match a, b with
  | [], [] => true
  | x :: r, y :: s => (x =? y) && zlist_eqb r s
  | _, _ => false
  end.

Definition opt_zlist_eqb (a : option (list Z)) (b : list Z) : bool :=
  match a with Some x => zlist_eqb x b | None => false end.

Definition opt_mem_eqb (a : option mem) (b : mem) : bool :=
  match a with Some x => mem_eqb x b | None => false end.

(* the patterns of a memory, in order (what the T2 harness reads back from the struct) *)
Definition mem_pats (m : mem) : list Z := map (fun x => pat (snd x)) m.
Definition opt_pats_eqb (a : option mem) (b : list Z) : bool :=
  match a with Some x => zlist_eqb (mem_pats x) b | None => false end.
