(* CMemProofs.v — facts about the byte memory of CMem.v in the bit-vector view: a byte
   list is one little-endian number [bufZ]; a w-byte little-endian load at byte p is
   (M / 256^p) mod 256^w; stores replace exactly that slice. *)
From Coq Require Import ZArith List Bool Lia.
From BP Require Import Bits CMem.
Import ListNotations.
Open Scope Z_scope.
Ltac Zify.zify_post_hook ::= Z.div_mod_to_equations.

Lemma pow256_pos k : 0 <= k -> 0 < 256 ^ k.
Proof. intros; apply Z.pow_pos_nonneg; lia. Qed.

Lemma pow256_2 k : 0 <= k -> 256 ^ k = 2 ^ (8 * k).
Proof. intros. change 256 with (2 ^ 8). rewrite <- Z.pow_mul_r by lia. reflexivity. Qed.

(* ---------- lists as numbers ---------- *)

Lemma bufZ_app a b : bufZ (a ++ b) = bufZ a + 256 ^ Z.of_nat (length a) * bufZ b.
Proof.
  induction a as [|x a IH]; cbn [app bufZ length].
  - change (256 ^ Z.of_nat 0) with 1. lia.
  - rewrite IH, Nat2Z.inj_succ, Z.pow_succ_r by lia. ring.
Qed.

Lemma bytes_ok_app a b : bytes_ok a -> bytes_ok b -> bytes_ok (a ++ b).
Proof. intros; apply Forall_app; split; assumption. Qed.

Lemma bytes_ok_app_inv a b : bytes_ok (a ++ b) -> bytes_ok a /\ bytes_ok b.
Proof. intros H; apply Forall_app in H; exact H. Qed.

Lemma bytes_ok_firstn n s : bytes_ok s -> bytes_ok (firstn n s).
Proof.
  intros H. rewrite <- (firstn_skipn n s) in H. apply bytes_ok_app_inv in H. tauto.
Qed.

Lemma bytes_ok_skipn n s : bytes_ok s -> bytes_ok (skipn n s).
Proof.
  intros H. rewrite <- (firstn_skipn n s) in H. apply bytes_ok_app_inv in H. tauto.
Qed.

Lemma bytes_ok_rev s : bytes_ok s -> bytes_ok (rev s).
Proof. intros H. apply Forall_rev. exact H. Qed.

Lemma bytes_of_length w v : length (bytes_of w v) = w.
Proof. revert v; induction w; intros; cbn [bytes_of length]; [reflexivity|now rewrite IHw]. Qed.

Lemma bytes_of_ok w v : bytes_ok (bytes_of w v).
Proof.
  revert v; induction w; intros; cbn [bytes_of]; constructor; [|apply IHw].
  unfold is_byte. apply Z.mod_pos_bound. lia.
Qed.

Lemma bufZ_bytes_of w v : bufZ (bytes_of w v) = v mod 256 ^ Z.of_nat w.
Proof.
  revert v; induction w as [|w IH]; intros v.
  - cbn. now rewrite Z.mod_1_r.
  - cbn [bytes_of bufZ]. rewrite IH, Nat2Z.inj_succ, Z.pow_succ_r by lia.
    pose proof (pow256_pos (Z.of_nat w) ltac:(lia)).
    rewrite Z.rem_mul_r by lia. lia.
Qed.

Lemma bytes_of_bufZ s : bytes_ok s -> bytes_of (length s) (bufZ s) = s.
Proof.
  intros H. apply bufZ_inj; try assumption.
  - apply bytes_of_ok.
  - apply bytes_of_length.
  - rewrite bufZ_bytes_of. apply Z.mod_small. apply bufZ_range. exact H.
Qed.

Lemma skipn_skipn' {A} (a b : nat) (l : list A) : skipn a (skipn b l) = skipn (b + a) l.
Proof.
  revert l; induction b as [|b IH]; intros l; [reflexivity|].
  destruct l as [|x l]; [now rewrite !skipn_nil|]. cbn [skipn plus]. apply IH.
Qed.

(* the three-way split of an object around the slice [p, p+w) *)
Lemma split3 (m : list Z) (p w : nat) :
  (p + w <= length m)%nat ->
  m = firstn p m ++ firstn w (skipn p m) ++ skipn (p + w) m /\
  length (firstn p m) = p /\ length (firstn w (skipn p m)) = w.
Proof.
  intros H. split; [|split].
  - rewrite <- (firstn_skipn p m) at 1. f_equal.
    rewrite <- (firstn_skipn w (skipn p m)) at 1. f_equal.
    rewrite skipn_skipn'. reflexivity.
  - apply firstn_length_le. lia.
  - apply firstn_length_le. rewrite skipn_length. lia.
Qed.

(* the slice as a number *)
Lemma slice_number (m : list Z) (p w : nat) :
  bytes_ok m -> (p + w <= length m)%nat ->
  bufZ (firstn w (skipn p m)) = (bufZ m / 256 ^ Z.of_nat p) mod 256 ^ Z.of_nat w.
Proof.
  intros Hok Hlen.
  destruct (split3 m p w Hlen) as (E & L1 & L2).
  set (pre := firstn p m) in *. set (mid := firstn w (skipn p m)) in *. set (post := skipn (p + w) m) in *.
  rewrite E in Hok. apply bytes_ok_app_inv in Hok. destruct Hok as [Hpre Hrest].
  apply bytes_ok_app_inv in Hrest. destruct Hrest as [Hmid Hpost].
  rewrite E, !bufZ_app, L1, L2.
  pose proof (bufZ_range pre Hpre) as R1. rewrite L1 in R1.
  pose proof (bufZ_range mid Hmid) as R2. rewrite L2 in R2.
  pose proof (pow256_pos (Z.of_nat p) ltac:(lia)) as P1.
  pose proof (pow256_pos (Z.of_nat w) ltac:(lia)) as P2.
  set (A := 256 ^ Z.of_nat p) in *. set (Bw := 256 ^ Z.of_nat w) in *.
  replace (bufZ pre + A * (bufZ mid + Bw * bufZ post)) with (bufZ pre + (bufZ mid + Bw * bufZ post) * A) by ring.
  rewrite Z.div_add by lia. rewrite (Z.div_small (bufZ pre)) by lia. cbn [Z.add].
  replace (bufZ mid + Bw * bufZ post) with (bufZ mid + bufZ post * Bw) by ring.
  rewrite Z.mod_add by lia. symmetry. apply Z.mod_small. lia.
Qed.

(* ---------- single bytes ---------- *)

Lemma in_obj_true m p : 0 <= p < Z.of_nat (length m) -> in_obj m p = true.
Proof. intros. unfold in_obj. apply andb_true_iff. split; [apply Z.leb_le|apply Z.ltb_lt]; lia. Qed.

Lemma rd_ok m p : 0 <= p < Z.of_nat (length m) -> rd m p = COk (nth (Z.to_nat p) m 0).
Proof. intros. unfold rd. now rewrite in_obj_true. Qed.

Lemma wr_ok m p v :
  0 <= p < Z.of_nat (length m) -> wr m p v = COk (upd m (Z.to_nat p) (v mod 256)).
Proof. intros. unfold wr. now rewrite in_obj_true. Qed.

Lemma upd_app_mid {A} (pre : list A) x post y :
  upd (pre ++ x :: post) (length pre) y = pre ++ y :: post.
Proof. induction pre; cbn [app length upd]; [reflexivity|now rewrite IHpre]. Qed.

Lemma nth_app_mid {A} (pre : list A) x post d : nth (length pre) (pre ++ x :: post) d = x.
Proof. induction pre; cbn [app length nth]; auto. Qed.

(* ---------- little-endian loads and stores at the list level ---------- *)

Lemma ld_le_list (w : nat) : forall pre mid post,
  length mid = w ->
  ld_le w (pre ++ mid ++ post) (Z.of_nat (length pre)) = COk (bufZ mid).
Proof.
  induction w as [|w IH]; intros pre mid post Hm.
  - destruct mid; [reflexivity|discriminate].
  - destruct mid as [|x mid]; [discriminate|]. cbn [length] in Hm.
    cbn [ld_le]. rewrite rd_ok.
    2:{ rewrite !app_length. cbn [length]. lia. }
    rewrite Nat2Z.id. cbn [app]. rewrite nth_app_mid. cbn [cbind].
    replace (pre ++ x :: mid ++ post) with ((pre ++ [x]) ++ mid ++ post) by (rewrite <- app_assoc; reflexivity).
    replace (Z.of_nat (length pre) + 1) with (Z.of_nat (length (pre ++ [x]))) by (rewrite app_length; cbn; lia).
    rewrite IH by lia. reflexivity.
Qed.

Lemma st_le_list (w : nat) : forall pre mid post v,
  length mid = w ->
  st_le w (pre ++ mid ++ post) (Z.of_nat (length pre)) v = COk (pre ++ bytes_of w v ++ post).
Proof.
  induction w as [|w IH]; intros pre mid post v Hm.
  - destruct mid; [reflexivity|discriminate].
  - destruct mid as [|x mid]; [discriminate|]. cbn [length] in Hm.
    cbn [st_le]. rewrite wr_ok.
    2:{ rewrite !app_length. cbn [length]. lia. }
    rewrite Nat2Z.id. cbn [app]. rewrite upd_app_mid. cbn [cbind].
    replace (pre ++ v mod 256 :: mid ++ post) with ((pre ++ [v mod 256]) ++ mid ++ post)
      by (rewrite <- app_assoc; reflexivity).
    replace (Z.of_nat (length pre) + 1) with (Z.of_nat (length (pre ++ [v mod 256])))
      by (rewrite app_length; cbn; lia).
    rewrite IH by lia. cbn [bytes_of]. rewrite <- app_assoc. reflexivity.
Qed.

(* ---------- the same in the number view ---------- *)

Lemma ld_le_number (w : nat) m p :
  bytes_ok m -> 0 <= p -> p + Z.of_nat w <= Z.of_nat (length m) ->
  ld_le w m p = COk ((bufZ m / 256 ^ p) mod 256 ^ Z.of_nat w).
Proof.
  intros Hok Hp Hlen.
  destruct (split3 m (Z.to_nat p) w ltac:(lia)) as (E & L1 & L2).
  pose proof (slice_number m (Z.to_nat p) w Hok ltac:(lia)) as Hs.
  rewrite Z2Nat.id in Hs by lia. rewrite <- Hs.
  set (pre := firstn (Z.to_nat p) m) in *. set (mid := firstn w (skipn (Z.to_nat p) m)) in *.
  set (post := skipn (Z.to_nat p + w) m) in *.
  rewrite E. replace p with (Z.of_nat (length pre)) by lia.
  apply ld_le_list. exact L2.
Qed.

Lemma st_le_number (w : nat) m p v :
  bytes_ok m -> 0 <= p -> p + Z.of_nat w <= Z.of_nat (length m) ->
  exists m',
    st_le w m p v = COk m' /\ length m' = length m /\ bytes_ok m' /\
    bufZ m' = bufZ m + (v mod 256 ^ Z.of_nat w - (bufZ m / 256 ^ p) mod 256 ^ Z.of_nat w) * 256 ^ p.
Proof.
  intros Hok Hp Hlen.
  destruct (split3 m (Z.to_nat p) w ltac:(lia)) as (E & L1 & L2).
  pose proof (slice_number m (Z.to_nat p) w Hok ltac:(lia)) as Hs.
  rewrite Z2Nat.id in Hs by lia.
  set (pre := firstn (Z.to_nat p) m) in *. set (mid := firstn w (skipn (Z.to_nat p) m)) in *.
  set (post := skipn (Z.to_nat p + w) m) in *.
  exists (pre ++ bytes_of w v ++ post).
  assert (Hok' := Hok). rewrite E in Hok'. apply bytes_ok_app_inv in Hok'. destruct Hok' as [Hpre Hrest].
  apply bytes_ok_app_inv in Hrest. destruct Hrest as [Hmid Hpost].
  split.
  { rewrite E. replace p with (Z.of_nat (length pre)) by lia. apply st_le_list. exact L2. }
  split.
  { rewrite E. rewrite !app_length, bytes_of_length, L2. reflexivity. }
  split.
  { apply bytes_ok_app; [assumption|]. apply bytes_ok_app; [apply bytes_of_ok|assumption]. }
  rewrite <- Hs. rewrite E. rewrite !bufZ_app, bufZ_bytes_of, bytes_of_length, L1, L2.
  rewrite Z2Nat.id by lia. ring.
Qed.

(* ---------- single-byte store in the number view ---------- *)

Lemma wr_number m p v :
  bytes_ok m -> 0 <= p < Z.of_nat (length m) ->
  exists m',
    wr m p v = COk m' /\ length m' = length m /\ bytes_ok m' /\
    bufZ m' = bufZ m + (v mod 256 - nth (Z.to_nat p) m 0) * 256 ^ p.
Proof.
  intros Hok Hp. exists (upd m (Z.to_nat p) (v mod 256)).
  split; [apply wr_ok; lia|]. split; [apply upd_length|].
  split; [apply upd_bytes_ok; [assumption|]; unfold is_byte; apply Z.mod_pos_bound; lia|].
  rewrite bufZ_upd by lia. rewrite Z2Nat.id by lia. reflexivity.
Qed.

(* ---------- big-endian loads and stores ---------- *)

Lemma ld_be_list (w : nat) : forall pre mid post acc,
  length mid = w ->
  ld_be w (pre ++ mid ++ post) (Z.of_nat (length pre)) acc = COk (acc * 256 ^ Z.of_nat w + bufZ (rev mid)).
Proof.
  induction w as [|w IH]; intros pre mid post acc Hm.
  - destruct mid; [|discriminate]. cbn. f_equal. lia.
  - destruct mid as [|x mid]; [discriminate|]. cbn [length] in Hm.
    cbn [ld_be]. rewrite rd_ok.
    2:{ rewrite !app_length. cbn [length]. lia. }
    rewrite Nat2Z.id. cbn [app]. rewrite nth_app_mid. cbn [cbind].
    replace (pre ++ x :: mid ++ post) with ((pre ++ [x]) ++ mid ++ post) by (rewrite <- app_assoc; reflexivity).
    replace (Z.of_nat (length pre) + 1) with (Z.of_nat (length (pre ++ [x]))) by (rewrite app_length; cbn; lia).
    rewrite IH by lia. f_equal. cbn [rev]. rewrite bufZ_app, rev_length. cbn [bufZ].
    replace (length mid) with w by lia.
    rewrite Nat2Z.inj_succ, Z.pow_succ_r by lia. ring.
Qed.

Lemma st_be_list (w : nat) : forall pre mid post v,
  length mid = w ->
  st_be w (pre ++ mid ++ post) (Z.of_nat (length pre)) v = COk (pre ++ rev (bytes_of w v) ++ post).
Proof.
  induction w as [|w IH]; intros pre mid post v Hm.
  - destruct mid; [reflexivity|discriminate].
  - destruct mid as [|x mid]; [discriminate|]. cbn [length] in Hm.
    cbn [st_be]. rewrite wr_ok.
    2:{ rewrite !app_length. cbn [length]. lia. }
    rewrite Nat2Z.id. cbn [app]. rewrite upd_app_mid. cbn [cbind].
    set (b := (v / 256 ^ Z.of_nat w) mod 256).
    replace (pre ++ b :: mid ++ post) with ((pre ++ [b]) ++ mid ++ post) by (rewrite <- app_assoc; reflexivity).
    replace (Z.of_nat (length pre) + 1) with (Z.of_nat (length (pre ++ [b]))) by (rewrite app_length; cbn; lia).
    rewrite IH by lia. rewrite <- app_assoc. cbn [app]. f_equal. f_equal.
    (* rev (bytes_of (S w) v) = b :: rev (bytes_of w v) *)
    assert (Hsnoc : forall k u, bytes_of (S k) u = bytes_of k u ++ [(u / 256 ^ Z.of_nat k) mod 256]).
    { clear. induction k as [|k IHk]; intros u.
      - cbn. now rewrite Z.div_1_r.
      - change (bytes_of (S (S k)) u) with (u mod 256 :: bytes_of (S k) (u / 256)).
        rewrite IHk. cbn [bytes_of app]. f_equal. f_equal. f_equal. f_equal.
        rewrite Nat2Z.inj_succ, Z.pow_succ_r by lia. rewrite Z.div_div by (try apply pow256_pos; lia). reflexivity. }
    rewrite Hsnoc, rev_app_distr. reflexivity.
Qed.

(* whole-object versions used for native integers *)
Lemma ld_whole E m : bytes_ok m -> ld E (length m) m 0 = COk (native_val E m).
Proof.
  intros Hok. destruct E; cbn [ld native_val].
  - pose proof (ld_le_list (length m) [] m [] eq_refl) as H. cbn [app length] in H.
    rewrite app_nil_r in H. exact H.
  - pose proof (ld_be_list (length m) [] m [] 0 eq_refl) as H. cbn [app length] in H.
    rewrite app_nil_r in H. change (Z.of_nat 0) with 0 in H. rewrite H. reflexivity.
Qed.

Lemma st_whole E m v : st E (length m) m 0 v = COk (native_bytes E (length m) v).
Proof.
  destruct E; cbn [st native_bytes bytes_le].
  - pose proof (st_le_list (length m) [] m [] v eq_refl) as H. cbn [app length] in H.
    rewrite !app_nil_r in H. exact H.
  - pose proof (st_be_list (length m) [] m [] v eq_refl) as H. cbn [app length] in H.
    rewrite !app_nil_r in H. exact H.
Qed.

Lemma native_val_bytes E w v : native_val E (native_bytes E w v) = v mod 256 ^ Z.of_nat w.
Proof.
  destruct E; cbn [native_val native_bytes bytes_le].
  - apply bufZ_bytes_of.
  - rewrite rev_involutive. apply bufZ_bytes_of.
Qed.

Lemma native_bytes_length E w v : length (native_bytes E w v) = w.
Proof. destruct E; cbn [native_bytes bytes_le]; [|rewrite rev_length]; apply bytes_of_length. Qed.

Lemma native_bytes_ok E w v : bytes_ok (native_bytes E w v).
Proof. destruct E; cbn [native_bytes bytes_le]; [|apply bytes_ok_rev]; apply bytes_of_ok. Qed.

Lemma native_val_range E m : bytes_ok m -> 0 <= native_val E m < 256 ^ Z.of_nat (length m).
Proof.
  intros H. destruct E; cbn [native_val]; [apply bufZ_range; exact H|].
  rewrite <- rev_length. apply bufZ_range. apply bytes_ok_rev. exact H.
Qed.

(* a native object is determined by its value *)
Lemma native_bytes_val E m : bytes_ok m -> native_bytes E (length m) (native_val E m) = m.
Proof.
  intros H. destruct E; cbn [native_val native_bytes bytes_le].
  - apply bytes_of_bufZ. exact H.
  - rewrite <- (rev_length m). rewrite bytes_of_bufZ by (apply bytes_ok_rev; exact H). apply rev_involutive.
Qed.
