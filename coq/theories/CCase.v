(* CCase.v — boolean comparisons and case evaluators used by the generated T2 case files of
   C03 / C06 / C07 (tools/cside.py).  Nothing here is used by a theorem. *)
From Coq Require Import ZArith List Bool.
From BP Require Import Bits Schema Spec CMem CRt CBeExact.
From BPGen Require Import GenC.
Import ListNotations.
Open Scope Z_scope.

Fixpoint lz_eqb (a b : list Z) : bool :=
  match a, b with
  | [], [] => true
  | x :: r, y :: s => (x =? y) && lz_eqb r s
  | _, _ => false
  end.

Fixpoint obj_eqb (a b : obj) : bool :=
  match a, b with
  | OB x, OB y => lz_eqb x y
  | OL x, OL y =>
      (fix go (l1 l2 : list obj) : bool :=
         match l1, l2 with
         | [], [] => true
         | p :: r, q :: s => obj_eqb p q && go r s
         | _, _ => false
         end) x y
  | OS x, OS y =>
      (fix go (l1 l2 : list (Z * obj)) : bool :=
         match l1, l2 with
         | [], [] => true
         | p :: r, q :: s => (fst p =? fst q) && obj_eqb (snd p) (snd q) && go r s
         | _, _ => false
         end) x y
  | _, _ => false
  end.

Fixpoint desc_eqb (a b : desc) : bool :=
  match a, b with
  | DBase f n s, DBase f' n' s' => (f =? f') && (n =? n') && (s =? s')
  | DAlias n s tf t, DAlias n' s' tf' t' => (n =? n') && (s =? s') && (tf =? tf') && desc_eqb t t'
  | DArray n s x c e, DArray n' s' x' c' e' =>
      (n =? n') && (s =? s') && Bool.eqb x x' && (c =? c') && desc_eqb e e'
  | DMsg n x nf dn fds, DMsg n' x' nf' dn' fds' =>
      (n =? n') && Bool.eqb x x' && (nf =? nf') && (dn =? dn') &&
      (fix go (l1 l2 : list (Z * desc)) : bool :=
         match l1, l2 with
         | [], [] => true
         | p :: r, q :: s => (fst p =? fst q) && desc_eqb (snd p) (snd q) && go r s
         | _, _ => false
         end) fds fds'
  | _, _ => false
  end.

(* T1: the descriptors parsed from the EMITTED C equal the renderer model's *)
Definition t1_case (t : ty) (d : desc) : Z := if desc_eqb d (render (norm t)) then 0 else 8.

(* what the implementation was observed to do: Some bytes, or None when the harness saw a
   guard zone damaged (which can only equal a model outcome MemErr) *)
Definition res_lz_eqb (r : cres (list Z)) (obs : list Z) : bool :=
  match r with COk l => lz_eqb l obs | _ => false end.
Definition res_obj_eqb (r : cres obj) (obs : obj) : bool :=
  match r with COk o => obj_eqb o obs | _ => false end.

Definition code (tie_ok spec_ok : bool) : Z := (if tie_ok then 0 else 1) + (if spec_ok then 0 else 2).

(* ---- direct runtime calls ---- *)

(* specification of the copier for a destination whose bits >= di are zero (dp = sp = 0):
   bits [di, di+n) := bits [si, si+n) of src, everything else unchanged *)
Definition copy_spec (n : Z) (dst src : list Z) (di si : Z) : list Z :=
  bytes_of (length dst) (bufZ dst + 2 ^ di * ((bufZ src / 2 ^ si) mod 2 ^ n)).

Definition dst_clear_above (dst : list Z) (di : Z) : bool := bufZ dst <? 2 ^ di.

Definition copy_case (B E : endian) (n : Z) (dst : list Z) (dp : Z) (src : list Z) (sp di si : Z)
           (obs : list Z) (guards_ok : bool) : Z :=
  let m := copy_bits B E (copy_fuel n) n dst dp src sp di si in
  code (res_lz_eqb m obs && guards_ok)
       (if (dp =? 0) && (sp =? 0) && dst_clear_above dst di
        then lz_eqb (copy_spec n dst src di si) obs && guards_ok else true).

Definition ctx_eqb (r : cres (cctx * list Z)) (s : list Z) (i : Z) (data : list Z) : bool :=
  match r with
  | COk (x, d) => lz_eqb (xs x) s && (xi x =? i) && lz_eqb d data
  | _ => false
  end.

Definition base_case (B E : endian) (enc : bool) (nbits i : Z) (s data : list Z)
           (os : list Z) (oi : Z) (odata : list Z) (guards_ok : bool) : Z :=
  code (ctx_eqb (base_type B E enc nbits {| xs := s; xi := i |} data) os oi odata && guards_ok) true.

(* specification of a base-type transfer when build and host agree *)
Definition base_spec_ok (E : endian) (enc : bool) (nbits i : Z) (s data os odata : list Z) : bool :=
  if enc
  then lz_eqb os (bytes_of (length s) (bufZ s + 2 ^ i * (native_val E data mod 2 ^ nbits))) && lz_eqb odata data
  else lz_eqb os s && (native_val E odata =? (bufZ s / 2 ^ i) mod 2 ^ nbits).

Definition base_case_spec (B E : endian) (enc : bool) (nbits i : Z) (s data : list Z)
           (os : list Z) (oi : Z) (odata : list Z) (guards_ok : bool) : Z :=
  code (ctx_eqb (base_type B E enc nbits {| xs := s; xi := i |} data) os oi odata && guards_ok)
       (base_spec_ok E enc nbits i s data os odata && (oi =? i + nbits) && guards_ok).

Definition int_case (B E : endian) (enc : bool) (size nbits i : Z) (s data : list Z)
           (os : list Z) (oi : Z) (odata : list Z) (guards_ok : bool) : Z :=
  code (ctx_eqb (endecode_int B E enc size nbits {| xs := s; xi := i |} data) os oi odata && guards_ok) true.

Definition sign_case (E : endian) (size nbits : Z) (data odata : list Z) (guards_ok : bool) : Z :=
  code (res_lz_eqb (sign_after E false size nbits data) odata && guards_ok) true.

Definition arr_eqb (r : cres (cctx * obj)) (s : list Z) (i : Z) (data : list Z) : bool :=
  match r with
  | COk (x, OB d) => lz_eqb (xs x) s && (xi x =? i) && lz_eqb d data
  | _ => false
  end.

Definition array_case (B E : endian) (enc ext : bool) (cap flag nbits size to_flag i : Z) (s data : list Z)
           (os : list Z) (oi : Z) (odata : list Z) (guards_ok : bool) : Z :=
  let elem := if to_flag =? 0 then DBase flag nbits size else DAlias nbits size to_flag (DBase to_flag nbits size) in
  code (arr_eqb (call_processor B E enc (DArray 0 0 ext cap elem) {| xs := s; xi := i |} (OB data)) os oi odata
        && guards_ok) true.

(* ---- generated code: Encode<Msg> / Decode<Msg> on raw struct memory ---- *)

(* bit 0: implementation <> model; bit 1: implementation <> specification *)
Definition enc_case (B E : endian) (with_spec : bool) (t : ty) (o : obj) (obs : list Z) (clean : bool) : Z :=
  code (res_lz_eqb (c_encode_ty B E t o) obs && clean)
       (if with_spec then lz_eqb (wire t (abs_val LE (norm t) o)) obs && clean else true).

(* the harness laid the value out as the model's [store] does *)
Definition store_case (t : ty) (v : val) (o : obj) : Z :=
  if obj_eqb (store LE (norm t) v) o then 0 else 4.

Definition enc_val_case (t : ty) (v : val) (obs : list Z) : Z :=
  if lz_eqb (wire t v) obs then 0 else 2.

Definition dec_case (B E : endian) (t : ty) (inp : list Z) (obs : obj) (clean : bool) : Z :=
  code (res_obj_eqb (c_decode_ty B E t inp) obs && clean) true.

Definition dec_val_case (t : ty) (v : val) (obs : obj) (clean : bool) : Z :=
  if obj_eqb (store LE (norm t) v) obs && clean then 0 else 2.

Definition size_case (t : ty) (c go gosz py : Z) : Z :=
  if (c =? nbytes t) && (go =? nbytes t) && (gosz =? nbytes t) && (py =? nbytes t) then 0 else 2.

(* ---- the same with the storage byte order E explicit (E = BE: the BP_BIG_ENDIAN build fed
   big-endian storage on schemas where no native multi-byte access is executed) ---- *)
Definition enc_case_h (B E : endian) (with_spec : bool) (t : ty) (o : obj) (obs : list Z) (clean : bool) : Z :=
  code (res_lz_eqb (c_encode_ty B E t o) obs && clean)
       (if with_spec then lz_eqb (wire t (abs_val E (norm t) o)) obs && clean else true).

Definition store_case_h (E : endian) (t : ty) (v : val) (o : obj) : Z :=
  if obj_eqb (store E (norm t) v) o then 0 else 4.

Definition dec_val_case_h (E : endian) (t : ty) (v : val) (obs : obj) (clean : bool) : Z :=
  if obj_eqb (store E (norm t) v) obs && clean then 0 else 2.

(* the schema is in the class on which the BE build does not depend on the host byte order
   (CBeExact.call_processor_be): only then is a run on x86 with big-endian storage an observation of (BE,BE) *)
Definition bex_case (t : ty) : Z := if dexact (render (norm t)) then 0 else 4.
