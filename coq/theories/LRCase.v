(* LRCase.v — evaluation of T2 cases: what the real ply parser built from /repo did on a token
   sequence (observed by tools/run_lr.py) against the model (tie) and against the documented
   grammar (property: the p_ functions called are a rightmost derivation in reverse). *)
From Coq Require Import List Arith Bool NArith.
From BP Require Import LR LRConcrete.
From BPGen Require Import GenLR.
Import ListNotations.

(* outcome (0 accept, 1 syntax error, 2 crash, 3 out of fuel), index, token type, reductions *)
Definition obs : Type := (nat * nat * nat * list nat)%type.

Definition model_obs (ts : list nat) : obs :=
  match parse ts with
  | Accept rs => (0, 0, 0, rs)
  | SyntaxError i t rs => (1, i, t, rs)
  | Crash _ rs => (2, 0, 0, rs)
  | OutOfFuel => (3, 0, 0, [])
  end.

Definition obs_eqb (a b : obs) : bool :=
  match a, b with
  | (o1, i1, t1, r1), (o2, i2, t2, r2) =>
    Nat.eqb o1 o2 && Nat.eqb i1 i2 && Nat.eqb t1 t2 && list_nat_eqb r1 r2
  end.

(* bit 0: model and implementation differ (tie); bit 1: the implementation accepted but its
   reductions are not a derivation of the input in the documented grammar (property);
   bit 2: the model itself crashed / ran out of fuel (refuted by LRConcrete, never expected) *)
Definition case_code (c : list nat * obs) : nat :=
  let (ts, o) := c in
  let m := model_obs ts in
  (if obs_eqb m o then 0 else 1)
  + (match o with
     | (0, _, _, rs) => if rm_check grammar start_symbol rs ts then 0 else 2
     | _ => 0
     end)
  + (match m with (2, _, _, _) | (3, _, _, _) => 4 | _ => 0 end).

(* case files carry binary numbers (cheap to parse and type-check); converted here *)
Definition obsN : Type := (N * N * N * list N)%type.
Definition obs_of_N (o : obsN) : obs :=
  match o with (a, b, c, l) => (N.to_nat a, N.to_nat b, N.to_nat c, map N.to_nat l) end.
Definition case_code_N (c : list N * obsN) : nat :=
  case_code (map N.to_nat (fst c), obs_of_N (snd c)).

(* text cases: raw = token types of the text as written (real lexer), ends_nl = the text ends
   with a newline character, types = what ply fetched inside Parser.parse_string.
   bit 3: the model of parse_string's normalisation (LRConcrete.text_tokens) differs from the
   tokens really parsed *)
Definition text_case_code_N (c : list N * bool * list N * obsN) : nat :=
  let '(raw, ends_nl, types, o) := c in
  let ts := text_tokens (map N.to_nat raw) ends_nl in
  case_code (ts, obs_of_N o)
  + (if list_nat_eqb ts (map N.to_nat types) then 0 else 8).
