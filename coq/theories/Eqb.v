(* Eqb.v — boolean equalities used by the correspondence (T1/T2) case files. *)
From Coq Require Import ZArith List Bool.
From BP Require Import Bits Schema PyRt.
Import ListNotations.
Open Scope Z_scope.

Fixpoint list_eqb {A} (e : A -> A -> bool) (l1 l2 : list A) : bool :=
  match l1, l2 with
  | [], [] => true
  | a :: r1, b :: r2 => e a b && list_eqb e r1 r2
  | _, _ => false
  end.

Definition zlist_eqb := list_eqb Z.eqb.

Fixpoint val_eqb (v1 v2 : val) : bool :=
  match v1, v2 with
  | VB a, VB b => Bool.eqb a b
  | VZ a, VZ b => a =? b
  | VL l1, VL l2 =>
      (fix go (l1 l2 : list val) : bool :=
         match l1, l2 with
         | [], [] => true
         | a :: r1, b :: r2 => val_eqb a b && go r1 r2
         | _, _ => false
         end) l1 l2
  | VM l1, VM l2 =>
      (fix go (l1 l2 : list (Z * val)) : bool :=
         match l1, l2 with
         | [], [] => true
         | a :: r1, b :: r2 => (fst a =? fst b) && val_eqb (snd a) (snd b) && go r1 r2
         | _, _ => false
         end) l1 l2
  | _, _ => false
  end.

(* Python's == between a bool field holding True/False and ints: values read back from
   the implementation are canonicalised by the harness, so plain equality is used. *)

Definition gent_eqb (a b : gent) := Nat.eqb (g_depth a) (g_depth b) && Bool.eqb (g_bool a) (g_bool b).
Definition skind_eqb (a b : skind) :=
  match a, b with
  | SKBool, SKBool => true
  | SKInt, SKInt => true
  | SKCast x, SKCast y => x =? y
  | SKProxy, SKProxy => true
  | _, _ => false
  end.
Definition sent_eqb (a b : sent) := Nat.eqb (s_depth a) (s_depth b) && skind_eqb (s_kind a) (s_kind b).
Definition ient_eqb (a b : ient) :=
  Nat.eqb (i_depth a) (i_depth b) && (i_shift a =? i_shift b) && (i_mask a =? i_mask b).
Definition pair_eqb {A} (e : A -> A -> bool) (a b : Z * A) := (fst a =? fst b) && e (snd a) (snd b).
Definition cls_eqb (a b : cls) :=
  list_eqb (pair_eqb gent_eqb) (c_get a) (c_get b) &&
  list_eqb (pair_eqb sent_eqb) (c_set a) (c_set b) &&
  list_eqb (pair_eqb ient_eqb) (c_int a) (c_int b) &&
  list_eqb (pair_eqb Nat.eqb) (c_acc a) (c_acc b) &&
  list_eqb (pair_eqb zlist_eqb) (c_proxy a) (c_proxy b).

Fixpoint proc_eqb (a b : proc) : bool :=
  match a, b with
  | PBool, PBool => true
  | PByte, PByte => true
  | PInt x, PInt y => x =? y
  | PUint x, PUint y => x =? y
  | PArray x1 c1 e1, PArray x2 c2 e2 => Bool.eqb x1 x2 && Nat.eqb c1 c2 && proc_eqb e1 e2
  | PEnum x, PEnum y => proc_eqb x y
  | PAlias x, PAlias y => proc_eqb x y
  | PMsg x1 n1 f1 c1, PMsg x2 n2 f2 c2 =>
      Bool.eqb x1 x2 && (n1 =? n2) && cls_eqb c1 c2 &&
      (fix go (l1 l2 : list (Z * proc)) : bool :=
         match l1, l2 with
         | [], [] => true
         | p :: r1, q :: r2 => (fst p =? fst q) && proc_eqb (snd p) (snd q) && go r1 r2
         | _, _ => false
         end) f1 f2
  | _, _ => false
  end.

Definition exn_code (e : exn) : Z :=
  match e with
  | IndexError => 1 | ValueError => 2 | TypeError => 3 | AttributeError => 4
  | AssertionError => 5 | NilAccessorReached => 6 | OutOfFuel => 7
  end.

Definition res_bytes_eqb (r : res (list Z)) (exp : res (list Z)) : bool :=
  match r, exp with
  | Ok a, Ok b => zlist_eqb a b
  | Raise a, Raise b => exn_code a =? exn_code b
  | _, _ => false
  end.

Definition res_val_eqb (r : res val) (exp : res val) : bool :=
  match r, exp with
  | Ok a, Ok b => val_eqb a b
  | Raise a, Raise b => exn_code a =? exn_code b
  | _, _ => false
  end.

(* compare a value read back from an implementation (fields listed by number in the
   order the harness chose) with a model value: lookup by number *)
Fixpoint val_sim (t : ty) (a b : val) : bool :=
  match t with
  | TBool => match a, b with VB x, VB y => Bool.eqb x y | _, _ => false end
  | TByte | TUint _ | TInt _ | TEnum _ _ => match a, b with VZ x, VZ y => x =? y | _, _ => false end
  | TAlias t' => val_sim t' a b
  | TArr _ _ e =>
      match a, b with
      | VL l1, VL l2 =>
          (fix go (l1 l2 : list val) : bool :=
             match l1, l2 with
             | [], [] => true
             | x :: r1, y :: r2 => val_sim e x y && go r1 r2
             | _, _ => false
             end) l1 l2
      | _, _ => false
      end
  | TMsg _ fs =>
      match a, b with
      | VM l1, VM l2 =>
          (fix go (l : list (Z * ty)) : bool :=
             match l with
             | [] => true
             | kf :: r =>
                 match lookup (fst kf) l1, lookup (fst kf) l2 with
                 | Some x, Some y => val_sim (snd kf) x y
                 | _, _ => false
                 end && go r
             end) fs
      | _, _ => false
      end
  end.

Definition res_val_sim (t : ty) (r : res val) (exp : res val) : bool :=
  match r, exp with
  | Ok a, Ok b => val_sim t a b
  | Raise a, Raise b => exn_code a =? exn_code b
  | _, _ => false
  end.
