(* PyEncShape.v (derived from PyEncProofs.v by s/has_ty/shape_ty/: same proof, weaker hypothesis)
   PyEncProofs.v — the Python encoder model (PyRt.p_enc over the renderer model proc_of)
   produces exactly Spec.enc_bits at the cursor, for every schema tree and every in-range
   value: induction over [ty], no bound on nesting, widths, capacities. *)
From Coq Require Import ZArith List Bool Lia ZifyBool.
From BP Require Import Bits Schema Spec PyRt ByteStep PyEncStep.
From BPGen Require Import GenPy.
Import ListNotations.
Open Scope Z_scope.

(* ---------- named versions of the anonymous inner fixpoints ---------- *)

Definition p_enc_fields (c' : cls) (acc' : val) :=
  fix go (l : list (Z * proc)) (x : ctx) : res ctx :=
    match l with
    | [] => Ok x
    | kf :: r => x' <- p_enc (snd kf) c' acc' (fst kf) [] x ;; go r x'
    end.

Definition p_enc_arr (e : proc) (c : cls) (acc : val) (fn : Z) (stk : list nat) :=
  fix loop (m k : nat) (x : ctx) : res ctx :=
    match m with
    | O => Ok x
    | S m' => x' <- p_enc e c acc fn (stk ++ [k]) x ;; loop m' (S k) x'
    end.

Definition map_proc :=
  fix go (l : list (Z * ty)) : list (Z * proc) :=
    match l with
    | [] => []
    | kf :: r => (fst kf, proc_of (snd kf)) :: go r
    end.

Definition fields_bits (v : val) :=
  fix go (l : list (Z * ty)) : list bool :=
    match l with
    | [] => []
    | kf :: r => enc_bits (snd kf) (vfield (fst kf) v) ++ go r
    end.

Definition fields_wf :=
  fix go (l : list (Z * ty)) : bool :=
    match l with
    | [] => true
    | kf :: r => (1 <=? fst kf) && (fst kf <=? 255) && wf (snd kf) && go r
    end.

Definition fields_shape_ty (vs : list (Z * val)) :=
  fix go (l : list (Z * ty)) : bool :=
    match l with
    | [] => true
    | kf :: r =>
        match lookup (fst kf) vs with
        | Some fv => shape_ty (snd kf) fv
        | None => false
        end && go r
    end.

Lemma p_enc_msg x nb fs c' c acc fn stk x0 :
  p_enc (PMsg x nb fs c') c acc fn stk x0 =
  (acc' <- (if di_is_valid fn then get_accessor c acc fn stk else Ok acc) ;;
   x1 <- (if x then enc_ahead nb x0 else Ok x0) ;;
   p_enc_fields c' acc' fs x1).
Proof. reflexivity. Qed.

Lemma p_enc_array x cap e c acc fn stk x0 :
  p_enc (PArray x cap e) c acc fn stk x0 =
  (x1 <- (if x then enc_ahead (Z.of_nat cap) x0 else Ok x0) ;;
   p_enc_arr e c acc fn stk cap O x1).
Proof. reflexivity. Qed.

Lemma proc_of_msg x fs :
  proc_of (TMsg x fs) = PMsg x (nbits (TMsg x fs)) (map_proc fs) (cls_of fs).
Proof. reflexivity. Qed.

Lemma enc_bits_msg x fs v :
  enc_bits (TMsg x fs) v =
  (if x then bits_of 16 (nbits (TMsg x fs)) else []) ++ fields_bits v fs.
Proof. reflexivity. Qed.

Lemma wf_msg x fs :
  wf (TMsg x fs) =
  keys_distinct (map fst fs) && (nbits (TMsg x fs) <=? 65535) && fields_wf fs.
Proof. reflexivity. Qed.

Lemma shape_ty_msg x fs vs : shape_ty (TMsg x fs) (VM vs) = fields_shape_ty vs fs.
Proof. reflexivity. Qed.

(* ---------- sizes ---------- *)

Lemma nbits_nonneg t : wf t = true -> 0 <= nbits t.
Proof.
  induction t as [| | n | n | n ms | t IH | x c e IH | x fs IH] using ty_ind'; intros H.
  - cbn [nbits wf] in *; lia.
  - cbn [nbits wf] in *; lia.
  - cbn [nbits wf] in *; lia.
  - cbn [nbits wf] in *; lia.
  - cbn [nbits wf] in *; lia.
  - cbn [nbits wf] in *; apply IH, H.
  - cbn [nbits wf] in *; rewrite !andb_true_iff in H. destruct H as [_ He]. specialize (IH He).
    unfold ext_bits. destruct x; nia.
  - rewrite wf_msg in H. rewrite !andb_true_iff in H.
    destruct H as [[_ _] Hf].
    assert (0 <= fields_nbits fs).
    { induction fs as [|kf r IHr]; [cbn; lia|].
      inversion IH as [|? ? Hk Hr]; subst. cbn [fields_wf] in Hf. rewrite !andb_true_iff in Hf.
      destruct Hf as [[[_ _] Hw] Hrest]. cbn [fields_nbits fold_right].
      specialize (Hk Hw). specialize (IHr Hr Hrest). unfold fields_nbits in IHr. lia. }
    rewrite nbits_msg. unfold ext_bits. destruct x; lia.
Qed.

Lemma flat_map_length_const {A B} (f : A -> list B) (l : list A) (n : nat) :
  (forall a, In a l -> length (f a) = n) -> length (flat_map f l) = (length l * n)%nat.
Proof.
  induction l as [|a r IH]; intros H; [reflexivity|].
  cbn [flat_map length]. rewrite app_length, H, IH by (intros; try apply H; cbn; auto). lia.
Qed.

Lemma enc_bits_length t : forall v,
  wf t = true -> shape_ty t v = true -> Z.of_nat (length (enc_bits t v)) = nbits t.
Proof.
  induction t as [| | n | n | n ms | t IH | x c e IH | x fs IH] using ty_ind'; intros v Hw Ht.
  - reflexivity.
  - cbn [enc_bits nbits]. rewrite bits_of_length. reflexivity.
  - cbn [enc_bits nbits wf] in *. rewrite bits_of_length. lia.
  - cbn [enc_bits nbits wf] in *. rewrite bits_of_length. lia.
  - cbn [enc_bits nbits wf] in *. rewrite bits_of_length. rewrite !andb_true_iff in Hw. lia.
  - cbn [enc_bits nbits wf shape_ty] in *. apply IH; assumption.
  - cbn [enc_bits nbits wf] in *.
    rewrite !andb_true_iff in Hw. destruct Hw as [_ He].
    cbn [shape_ty] in Ht. destruct v as [?|?|l|?]; try discriminate.
    rewrite andb_true_iff in Ht. destruct Ht as [Hlen Hall]. apply Nat.eqb_eq in Hlen.
    rewrite forallb_forall in Hall. cbn [vlist].
    rewrite app_length, (flat_map_length_const _ _ (Z.to_nat (nbits e))).
    2:{ intros a Ha. specialize (IH a He (Hall a Ha)). lia. }
    pose proof (nbits_nonneg e He). unfold ext_bits.
    destruct x; cbn [length]; rewrite ?bits_of_length; subst c; nia.
  - rewrite wf_msg in Hw. rewrite !andb_true_iff in Hw.
    destruct Hw as [[_ _] Hf].
    destruct v as [?|?|?|vs]; try discriminate.
    rewrite shape_ty_msg in Ht.
    rewrite enc_bits_msg, nbits_msg, app_length, Nat2Z.inj_add.
    assert (Z.of_nat (length (fields_bits (VM vs) fs)) = fields_nbits fs) as ->.
    { induction fs as [|kf r IHr]; [reflexivity|].
      inversion IH as [|? ? Hk Hr]; subst.
      cbn [fields_wf fields_shape_ty] in Hf, Ht. rewrite !andb_true_iff in Hf. rewrite !andb_true_iff in Ht.
      destruct Hf as [[[_ _] Hwk] Hrest]. destruct Ht as [Htk Htr].
      cbn [fields_bits fields_nbits fold_right]. rewrite app_length, Nat2Z.inj_add.
      rewrite (IHr Hr Hrest Htr). f_equal.
      unfold vfield. destruct (lookup (fst kf) vs) as [fv|]; [|discriminate].
      apply Hk; assumption. }
    unfold ext_bits. destruct x; cbn [length]; rewrite ?bits_of_length; lia.
Qed.

(* ---------- accessor tables built by the renderer model ---------- *)

Lemma lookup_filter_map {B} (f : Z * ty -> option (Z * B)) (fs : list (Z * ty)) k ft :
  (forall kf b, f kf = Some b -> fst b = fst kf) ->
  keys_distinct (map fst fs) = true -> In (k, ft) fs ->
  lookup k (filter_map f fs) = option_map snd (f (k, ft)).
Proof.
  intros Hf. induction fs as [|h r IH]; intros Hd Hin; [destruct Hin|].
  cbn [map keys_distinct] in Hd. rewrite andb_true_iff in Hd. destruct Hd as [Hnot Hd].
  cbn [filter_map]. destruct Hin as [->|Hin].
  - destruct (f (k, ft)) as [b|] eqn:E.
    + cbn [lookup option_map]. rewrite (Hf _ _ E). cbn [fst]. now rewrite Z.eqb_refl.
    + cbn [option_map].
      (* k does not occur in r *)
      clear IH Hd. induction r as [|h2 r2 IH2]; [reflexivity|].
      cbn [map existsb] in Hnot. rewrite negb_true_iff, orb_false_iff in Hnot.
      destruct Hnot as [Hne Hnot]. cbn [filter_map].
      destruct (f h2) as [b2|] eqn:E2.
      * cbn [lookup]. rewrite (Hf _ _ E2). cbn [fst] in Hne. rewrite Z.eqb_sym, Hne.
        apply IH2. now rewrite negb_true_iff.
      * apply IH2. now rewrite negb_true_iff.
  - assert (Hne : fst h =? k = false).
    { rewrite negb_true_iff in Hnot. apply Z.eqb_neq. intros Heq. subst k.
      assert (existsb (Z.eqb (fst h)) (map fst r) = true).
      { apply existsb_exists. exists (fst h). split; [|apply Z.eqb_refl].
        apply in_map_iff. exists (fst h, ft). auto. }
      congruence. }
    destruct (f h) as [b|] eqn:E.
    + cbn [lookup]. rewrite (Hf _ _ E), Hne. apply IH; assumption.
    + apply IH; assumption.
Qed.

Lemma stack_prefix_full stk : stack_prefix stk (length stk) = Ok stk.
Proof. induction stk as [|k r IH]; [reflexivity|]. cbn [length stack_prefix]. now rewrite IH. Qed.

Lemma index_val_app v s1 s2 :
  index_val v (s1 ++ s2) = (w <- index_val v s1 ;; index_val w s2).
Proof.
  revert v; induction s1 as [|k r IH]; intros v; [reflexivity|].
  cbn [app index_val]. destruct v; try reflexivity.
  destruct (nth_error l k); [apply IH|reflexivity].
Qed.

(* ---------- reach: what the walker may assume about the accessor at a position ---------- *)

Fixpoint reach (t : ty) (c : cls) (acc : val) (fn : Z) (stk : list nat) (v : val) {struct t} : Prop :=
  match t with
  | TAlias t' => reach t' c acc fn stk v
  | TArr _ cap e =>
      forall k, (k < cap)%nat -> reach e c acc fn (stk ++ [k]) (nth k (vlist v) (VZ 0))
  | TMsg _ _ => (if di_is_valid fn then get_accessor c acc fn stk else Ok acc) = Ok v
  | _ => forall r, 0 <= r -> get_byte c acc fn stk r = Ok (Z.land (Z.shiftr (zof v) r) 255)
  end.

Definition is_leaf (t : ty) : bool :=
  match t with TBool | TByte | TUint _ | TInt _ | TEnum _ _ => true | _ => false end.

Definition proxy_ok (ft : ty) (fv : val) : Prop :=
  match ft with
  | TEnum _ ms => exists z, fv = VZ z /\ is_member z ms = true
  | _ => True
  end.

Lemma read_attr_ok fs vs k ft fv :
  keys_distinct (map fst fs) = true -> In (k, ft) fs -> lookup k vs = Some fv ->
  proxy_ok ft fv -> read_attr (cls_of fs) (VM vs) k = Ok fv.
Proof.
  intros Hd Hin Hl Hp. unfold read_attr. rewrite Hl.
  cbn [cls_of c_proxy].
  rewrite (lookup_filter_map _ fs k ft); try assumption.
  2:{ intros kf b. destruct (snd kf); intros E; inversion E; reflexivity. }
  cbn [snd fst]. destruct ft; cbn [option_map]; try reflexivity.
  destruct Hp as (z & -> & Hm). cbn [snd]. now rewrite Hm.
Qed.

Lemma read_ref_ok fs vs k ft fv stk v' :
  keys_distinct (map fst fs) = true -> In (k, ft) fs -> lookup k vs = Some fv ->
  proxy_ok ft fv -> index_val fv stk = Ok v' ->
  read_ref (cls_of fs) (VM vs) k stk (length stk) = Ok v'.
Proof.
  intros Hd Hin Hl Hp Hi. unfold read_ref. rewrite stack_prefix_full. cbn [bind].
  rewrite (read_attr_ok fs vs k ft fv) by assumption. cbn [bind]. exact Hi.
Qed.

Lemma shape_ty_leaf_int t v : is_leaf t = true -> shape_ty t v = true -> int_of v = Ok (zof v).
Proof. destruct t, v; cbn; intros; try discriminate; reflexivity. Qed.

Lemma leaf_of_leaf t d : is_leaf t = true -> leaf_of t d = Some (d, t).
Proof. destruct t; cbn; intros; try discriminate; reflexivity. Qed.

Lemma msg_depth_leaf t d : is_leaf t = true -> msg_depth_of t d = None.
Proof. destruct t; cbn; intros; try discriminate; reflexivity. Qed.

Lemma reach_leaf t c acc fn stk v :
  is_leaf t = true ->
  (forall r, 0 <= r -> get_byte c acc fn stk r = Ok (Z.land (Z.shiftr (zof v) r) 255)) ->
  reach t c acc fn stk v.
Proof. destruct t; cbn; intros; try discriminate; auto. Qed.

Lemma reach_sub fs vs k ft fv :
  keys_distinct (map fst fs) = true -> In (k, ft) fs -> lookup k vs = Some fv ->
  proxy_ok ft fv -> 1 <= k ->
  forall t' stk v',
    leaf_of t' (length stk) = leaf_of ft 0%nat ->
    msg_depth_of t' (length stk) = msg_depth_of ft 0%nat ->
    index_val fv stk = Ok v' -> shape_ty t' v' = true ->
    reach t' (cls_of fs) (VM vs) k stk v'.
Proof.
  intros Hd Hin Hl Hp Hk1.
  assert (Leaf : forall t' stk v', is_leaf t' = true ->
            leaf_of t' (length stk) = leaf_of ft 0%nat ->
            index_val fv stk = Ok v' -> shape_ty t' v' = true ->
            reach t' (cls_of fs) (VM vs) k stk v').
  { intros t' stk v' Hleaf Hlo Hi Ht. apply reach_leaf; [assumption|]. intros r Hr.
    unfold get_byte. cbn [cls_of c_get].
    rewrite (lookup_filter_map _ fs k ft); try assumption.
    2:{ intros kf b. destruct (leaf_of (snd kf) 0) as [[d lt]|]; intros E; inversion E; reflexivity. }
    cbn [snd fst]. rewrite <- Hlo, (leaf_of_leaf t' _ Hleaf). cbn [option_map snd g_depth].
    rewrite (read_ref_ok fs vs k ft fv stk v') by assumption. cbn [bind].
    rewrite (shape_ty_leaf_int t' v' Hleaf Ht). reflexivity. }
  induction t' as [| | n | n | n ms | t IH | x c e IH | x fs' IH] using ty_ind';
    intros stk v' Hlo Hmd Hi Ht; try (apply Leaf; [reflexivity|assumption..]).
  - cbn [reach]. apply IH; assumption.
  - cbn [reach]. intros j Hj. cbn [shape_ty] in Ht.
    destruct v' as [?|?|l|?]; try discriminate.
    rewrite andb_true_iff in Ht. destruct Ht as [Hlen Hall]. apply Nat.eqb_eq in Hlen.
    rewrite forallb_forall in Hall. cbn [vlist].
    assert (Hnth : nth_error l j = Some (nth j l (VZ 0))) by (apply nth_error_nth'; lia).
    apply IH.
    + rewrite app_length, Nat.add_1_r. exact Hlo.
    + rewrite app_length, Nat.add_1_r. exact Hmd.
    + rewrite index_val_app, Hi. cbn [bind index_val]. now rewrite Hnth.
    + apply Hall. eapply nth_error_In; eassumption.
  - cbn [reach]. replace (di_is_valid k) with true by (unfold di_is_valid; symmetry; lia).
    unfold get_accessor. cbn [cls_of c_acc].
    rewrite (lookup_filter_map _ fs k ft); try assumption.
    2:{ intros kf b. destruct (msg_depth_of (snd kf) 0); intros E; inversion E; reflexivity. }
    cbn [snd fst]. rewrite <- Hmd. cbn [msg_depth_of option_map snd].
    apply (read_ref_ok fs vs k ft fv); assumption.
Qed.

Lemma shape_ty_enum_proxy ft fv : shape_ty ft fv = true -> proxy_ok ft fv.
Proof.
  destruct ft; cbn [proxy_ok]; auto. cbn [shape_ty]. destruct fv; try discriminate.
  intros H. eexists; split; [reflexivity|exact H].
Qed.

Lemma reach_field fs vs k ft fv :
  keys_distinct (map fst fs) = true -> In (k, ft) fs -> lookup k vs = Some fv ->
  shape_ty ft fv = true -> 1 <= k ->
  reach ft (cls_of fs) (VM vs) k [] fv.
Proof.
  intros. apply (reach_sub fs vs k ft fv); try assumption; try reflexivity.
  now apply shape_ty_enum_proxy.
Qed.

(* ---------- the main invariant ---------- *)

Definition enc_post (x : ctx) (n : Z) (bits : list bool) (r : res ctx) : Prop :=
  exists s',
    r = Ok {| cs := s'; ci := ci x + n |} /\
    length s' = length (cs x) /\ bytes_ok s' /\
    bufZ s' = bufZ (cs x) + 2 ^ ci x * Z_of_bits bits.

Definition enc_pre (x : ctx) (n : Z) : Prop :=
  bytes_ok (cs x) /\ 0 <= ci x /\ 0 <= bufZ (cs x) < 2 ^ ci x /\
  ci x + n <= 8 * Z.of_nat (length (cs x)).

Definition enc_ok (t : ty) : Prop :=
  forall c acc fn stk v x,
    wf t = true -> shape_ty t v = true -> reach t c acc fn stk v ->
    enc_pre x (nbits t) ->
    enc_post x (nbits t) (enc_bits t v) (p_enc (proc_of t) c acc fn stk x).

(* after a successful step the precondition holds again for what follows *)
Lemma enc_pre_next x n bits s' m :
  enc_pre x (n + m) -> 0 <= n -> 0 <= m -> Z.of_nat (length bits) = n ->
  length s' = length (cs x) -> bytes_ok s' ->
  bufZ s' = bufZ (cs x) + 2 ^ ci x * Z_of_bits bits ->
  enc_pre {| cs := s'; ci := ci x + n |} m.
Proof.
  intros (Hs & Hci & Hb & Hlen) Hn Hm Hbits Hl Hok Hbuf.
  unfold enc_pre. cbn [cs ci]. repeat split; try assumption; try lia.
  - rewrite Hbuf. pose proof (Z_of_bits_range bits). pose proof (pow2_pos (ci x) Hci). nia.
  - rewrite Hbuf, Z.pow_add_r by lia.
    pose proof (Z_of_bits_range bits) as Hr. rewrite Hbits in Hr.
    pose proof (pow2_pos (ci x) Hci). nia.
Qed.

Lemma enc_pre_weaken x n m : enc_pre x (n + m) -> 0 <= m -> enc_pre x n.
Proof. unfold enc_pre. intuition lia. Qed.

Lemma enc_leaf (t : ty) (n : Z) c acc fn stk v x :
  is_leaf t = true -> 0 <= n ->
  reach t c acc fn stk v -> enc_pre x n ->
  enc_post x n (bits_of (Z.to_nat n) (zof v)) (pbt_enc (fuel_of n) n c acc fn stk 0 x).
Proof.
  intros Hleaf Hn Hr (Hs & Hci & Hb & Hlen).
  assert (Hget : forall r, 0 <= r -> get_byte c acc fn stk r = Ok (Z.land (Z.shiftr (zof v) r) 255)).
  { destruct t; try discriminate; exact Hr. }
  destruct (pbt_enc_spec c acc fn stk (zof v) Hget n x Hn Hs Hci Hb Hlen) as (s' & E & L & O & B).
  exists s'. repeat split; try assumption.
  rewrite B, Z_of_bits_of, Z2Nat.id by lia. reflexivity.
Qed.

Lemma enc_ahead_ok nb x :
  enc_pre x 16 -> enc_post x 16 (bits_of 16 nb) (enc_ahead nb x).
Proof.
  intros (Hs & Hci & Hb & Hlen). unfold enc_ahead.
  assert (Hget : forall r, 0 <= r ->
            get_byte int_cls (VM [(1, VZ nb)]) 1 [] r = Ok (Z.land (Z.shiftr nb r) 255)).
  { intros r Hr. reflexivity. }
  destruct (pbt_enc_spec int_cls (VM [(1, VZ nb)]) 1 [] nb Hget 16 x ltac:(lia) Hs Hci Hb Hlen)
    as (s' & E & L & O & B).
  exists s'. change (fuel_of 16) with 16%nat in E. repeat split; try assumption.
  rewrite B, Z_of_bits_of. reflexivity.
Qed.

Lemma enc_post_app x n1 n2 b1 b2 r1 (k : ctx -> res ctx) :
  enc_post x n1 b1 r1 -> Z.of_nat (length b1) = n1 ->
  (forall s', r1 = Ok {| cs := s'; ci := ci x + n1 |} ->
              length s' = length (cs x) -> bytes_ok s' ->
              bufZ s' = bufZ (cs x) + 2 ^ ci x * Z_of_bits b1 ->
              enc_post {| cs := s'; ci := ci x + n1 |} n2 b2 (k {| cs := s'; ci := ci x + n1 |})) ->
  0 <= ci x -> 0 <= n1 ->
  enc_post x (n1 + n2) (b1 ++ b2) (bind r1 k).
Proof.
  intros (s1 & E1 & L1 & O1 & B1) Hlen Hk Hci Hn1.
  destruct (Hk s1 E1 L1 O1 B1) as (s2 & E2 & L2 & O2 & B2). cbn [cs ci] in *.
  exists s2. rewrite E1. cbn [bind]. rewrite E2. repeat split; try assumption.
  - f_equal. f_equal. lia.
  - congruence.
  - rewrite B2, B1, Z_of_bits_app, Hlen, Z.pow_add_r by lia. ring.
Qed.

Theorem enc_ok_all t : enc_ok t.
Proof.
  induction t as [| | n | n | n ms | t IH | x cap e IH | x fs IH] using ty_ind';
    unfold enc_ok; intros c acc fn stk v x0 Hw Ht Hr Hpre.
  - (* bool *)
    cbn [proc_of p_enc nbits enc_bits].
    pose proof (enc_leaf TBool 1 c acc fn stk v x0 eq_refl ltac:(lia) Hr Hpre) as H.
    destruct v as [b|?|?|?]; try discriminate. cbn [zof] in H.
    replace (bits_of (Z.to_nat 1) (Z.b2z b)) with [b] in H by (destruct b; reflexivity).
    exact H.
  - cbn [proc_of p_enc nbits enc_bits].
    exact (enc_leaf TByte 8 c acc fn stk v x0 eq_refl ltac:(lia) Hr Hpre).
  - cbn [proc_of p_enc nbits enc_bits]. cbn [wf] in Hw.
    apply (enc_leaf (TUint n) n c acc fn stk v x0 eq_refl ltac:(lia) Hr Hpre).
  - cbn [proc_of p_enc nbits enc_bits]. cbn [wf] in Hw.
    apply (enc_leaf (TInt n) n c acc fn stk v x0 eq_refl ltac:(lia) Hr Hpre).
  - cbn [proc_of p_enc nbits enc_bits]. cbn [wf] in Hw. rewrite !andb_true_iff in Hw.
    apply (enc_leaf (TEnum n ms) n c acc fn stk v x0 eq_refl ltac:(lia) Hr Hpre).
  - (* alias *) cbn [proc_of p_enc nbits enc_bits]. apply IH; assumption.
  - (* array *)
    cbn [proc_of]. rewrite p_enc_array. cbn [nbits enc_bits]. cbn [nbits] in Hpre.
    cbn [wf] in Hw. rewrite !andb_true_iff in Hw. destruct Hw as [[Hc1 Hc2] Hwe].
    cbn [shape_ty] in Ht. destruct v as [?|?|l|?]; try discriminate.
    rewrite andb_true_iff in Ht. destruct Ht as [Hlen Hall]. apply Nat.eqb_eq in Hlen.
    rewrite forallb_forall in Hall. cbn [vlist]. cbn [reach vlist] in Hr.
    pose proof (nbits_nonneg e Hwe) as Hne.
    (* the element loop, generalised over the start index *)
    assert (Loop : forall m k x1,
               (k + m = cap)%nat ->
               enc_pre x1 (Z.of_nat m * nbits e) ->
               enc_post x1 (Z.of_nat m * nbits e) (flat_map (enc_bits e) (skipn k l))
                        (p_enc_arr (proc_of e) c acc fn stk m k x1)).
    { induction m as [|m IHm]; intros k x1 Hkm Hp1.
      - cbn [p_enc_arr]. rewrite skipn_all2 by lia. cbn [flat_map].
        exists (cs x1). destruct x1 as [s i]; cbn [cs ci] in *.
        repeat split; try (destruct Hp1 as (? & ? & ? & ?); assumption).
        + f_equal. f_equal. lia.
        + cbn [Z_of_bits]. lia.
      - cbn [p_enc_arr].
        assert (Hk : (k < length l)%nat) by lia.
        assert (Hnth : nth_error l k = Some (nth k l (VZ 0))) by (apply nth_error_nth'; lia).
        assert (Hsk : skipn k l = nth k l (VZ 0) :: skipn (S k) l).
        { clear - Hk. revert k Hk; induction l as [|a r IHl]; intros k Hk; [cbn in Hk; lia|].
          destruct k; [reflexivity|]. cbn [skipn nth]. apply IHl. cbn in Hk. lia. }
        rewrite Hsk. cbn [flat_map].
        replace (Z.of_nat (S m) * nbits e) with (nbits e + Z.of_nat m * nbits e) in * by lia.
        assert (Hin : In (nth k l (VZ 0)) l) by (eapply nth_error_In; eassumption).
        apply enc_post_app.
        + apply IH; try assumption.
          * apply Hall, Hin.
          * apply Hr. lia.
          * eapply enc_pre_weaken; [eassumption|nia].
        + apply enc_bits_length; [assumption|apply Hall, Hin].
        + intros s' E L O B. apply IHm; [lia|].
          eapply enc_pre_next; try eassumption; try nia.
          apply enc_bits_length; [assumption|apply Hall, Hin].
        + destruct Hp1 as (? & ? & ? & ?); assumption.
        + assumption. }
    unfold ext_bits in *. destruct x; cbv iota in *.
    + apply enc_post_app.
      * apply enc_ahead_ok. eapply enc_pre_weaken; [eassumption|nia].
      * rewrite bits_of_length. reflexivity.
      * intros s' E L O B. change l with (skipn 0 l). apply Loop; [lia|].
        eapply enc_pre_next; try eassumption; try nia. rewrite bits_of_length. reflexivity.
      * destruct Hpre as (? & ? & ? & ?); assumption.
      * lia.
    + cbn [bind app]. rewrite Z.add_0_l in *. change l with (skipn 0 l). apply Loop; [lia|assumption].
  - (* message *)
    rewrite proc_of_msg, p_enc_msg, enc_bits_msg, nbits_msg.
    cbn [reach] in Hr. rewrite Hr. cbn [bind].
    rewrite wf_msg in Hw. rewrite !andb_true_iff in Hw. destruct Hw as [[Hd Hsz] Hfw].
    destruct v as [?|?|?|vs]; try discriminate. rewrite shape_ty_msg in Ht.
    rewrite nbits_msg in Hpre.
    assert (Fields : forall l x1,
               (forall kf, In kf l -> In kf fs) ->
               Forall (fun kf => enc_ok (snd kf)) l ->
               fields_wf l = true -> fields_shape_ty vs l = true ->
               enc_pre x1 (fields_nbits l) ->
               enc_post x1 (fields_nbits l) (fields_bits (VM vs) l)
                        (p_enc_fields (cls_of fs) (VM vs) (map_proc l) x1)).
    { induction l as [|kf r IHr]; intros x1 Hsub HF Hlw Hlt Hp1.
      - cbn [map_proc p_enc_fields fields_bits fields_nbits fold_right].
        exists (cs x1). destruct x1 as [s i]; cbn [cs ci] in *.
        repeat split; try (destruct Hp1 as (? & ? & ? & ?); assumption).
        + f_equal. f_equal. lia.
        + cbn [Z_of_bits]. lia.
      - inversion HF as [|? ? Hk HFr]; subst.
        cbn [fields_wf fields_shape_ty] in Hlw, Hlt. rewrite !andb_true_iff in Hlw. rewrite !andb_true_iff in Hlt.
        destruct Hlw as [[[Hk1 Hk2] Hwk] Hwr]. destruct Hlt as [Htk Htr].
        destruct (lookup (fst kf) vs) as [fv|] eqn:Hlk; [|discriminate].
        cbn [map_proc p_enc_fields fields_bits fields_nbits fold_right fst snd].
        assert (Hvf : vfield (fst kf) (VM vs) = fv) by (unfold vfield; now rewrite Hlk).
        rewrite Hvf.
        assert (Hnr : 0 <= fields_nbits r).
        { clear - Hwr. induction r as [|a r IH]; [cbn; lia|].
          cbn [fields_wf] in Hwr. rewrite !andb_true_iff in Hwr. destruct Hwr as [[[_ _] Ha] Hr].
          cbn [fields_nbits fold_right]. pose proof (nbits_nonneg _ Ha). specialize (IH Hr).
          unfold fields_nbits in IH. lia. }
        pose proof (nbits_nonneg _ Hwk) as Hnk.
        change (fold_right (fun kf0 acc0 => nbits (snd kf0) + acc0) 0 r) with (fields_nbits r) in *.
        apply enc_post_app.
        + apply Hk; try assumption.
          * apply reach_field; try assumption; try lia.
            destruct kf as [k ft]. apply Hsub. left. reflexivity.
          * eapply enc_pre_weaken; [exact Hp1|assumption].
        + apply enc_bits_length; assumption.
        + intros s' E L O B. apply IHr; try assumption.
          * intros kf' Hin'. apply Hsub. right. exact Hin'.
          * eapply enc_pre_next; try eassumption. apply enc_bits_length; assumption.
        + destruct Hp1 as (? & ? & ? & ?); assumption.
        + assumption. }
    assert (Hnf : 0 <= fields_nbits fs).
    { clear - Hfw. induction fs as [|a r IH]; [cbn; lia|].
      cbn [fields_wf] in Hfw. rewrite !andb_true_iff in Hfw. destruct Hfw as [[[_ _] Ha] Hr].
      cbn [fields_nbits fold_right]. pose proof (nbits_nonneg _ Ha). specialize (IH Hr).
      unfold fields_nbits in IH. lia. }
    unfold ext_bits in *. destruct x; cbv iota in *.
    + apply enc_post_app.
      * apply enc_ahead_ok. eapply enc_pre_weaken; [eassumption|assumption].
      * rewrite bits_of_length. reflexivity.
      * intros s' E L O B. apply Fields; try assumption; auto.
        eapply enc_pre_next; try eassumption; try lia. rewrite bits_of_length. reflexivity.
      * destruct Hpre as (? & ? & ? & ?); assumption.
      * lia.
    + cbn [bind app]. rewrite Z.add_0_l in *. apply Fields; auto.
Qed.
