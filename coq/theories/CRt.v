(* CRt.v — executable model of the C runtime lib/c/bitproto.c (standard mode), function by
   function, with source line references (bitproto.c as of the tree under test; the control
   skeleton of every modelled function is pinned by a digest in tools/translate_crt.py and
   every expression below named [cp_*], [bt_*], [sg_*], [ar_*], [ms_*], [ah_*], [Bp*] is
   TRANSLATED from the source on every run into BPGen.GenC).

   Parameters:  B = build flag (BE: compiled with BP_BIG_ENDIAN, LE: without);
                E = byte order of the host executing the code;
                enc = ctx->is_encode.
   C integers are [Z]; every conversion that truncates is written in the translated
   expressions ([mod 2^w]) or happens at a store ([wr] truncates to a byte, [st] writes
   only the low w bytes).  [int] arithmetic is not wrapped: all quantities are bounded by
   65535 + 64 for schemas the compiler accepts (message size <= 65535 bits).

   DATA MODEL: an object tree.  [OB bs]  = one C object of [length bs] bytes: a scalar
   field, or a contiguous C array of scalars (element k is the slice
   [k*size, (k+1)*size), bounds-checked against that slice);  [OL l] = a C array whose
   elements are structs (or arrays of structs);  [OS fs] = a struct, fields keyed by field
   number.  [data_ptr += element_size] over an [OL] is "next element": that the element
   stride equals sizeof(struct ...) is gcc's business, not modelled. *)
From Coq Require Import ZArith List Bool.
From BP Require Import Bits Schema CMem.
From BPGen Require Import GenC.
Import ListNotations.
Open Scope Z_scope.

Record cctx := { xs : list Z; xi : Z }.       (* ctx->s (the stream buffer object), ctx->i *)

Inductive obj : Type :=
| OB (bs : list Z)
| OL (l : list obj)
| OS (fs : list (Z * obj)).

(* What the generated code hands to the runtime: struct BpType together with the descriptor
   its processor function builds (renderer_c.py / impls/c/formatter.py:133-252). *)
Inductive desc : Type :=
| DBase (flag nbits size : Z)                                   (* BpBool/BpUint/BpInt/BpByte/BpEnum; processor NULL *)
| DAlias (nbits size to_flag : Z) (to : desc)                   (* BpAlias(..., to_flag); processor: BpAliasDescriptor(to) *)
| DArray (nbits size : Z) (ext : bool) (cap : Z) (elem : desc)  (* BpArray(...); processor: BpArrayDescriptor(ext, cap, elem) *)
| DMsg (nbits : Z) (ext : bool) (nfields dnbits : Z) (fds : list (Z * desc)).
                                                                (* BpMessage(...); processor: BpMessageDescriptor(ext, nfields, dnbits, fds);
                                                                   fds: (field number whose storage &m->f is addressed, type) in table order *)

Definition d_flag (d : desc) : Z :=
  match d with
  | DBase f _ _ => f
  | DAlias _ _ _ _ => BP_TYPE_ALIAS
  | DArray _ _ _ _ _ => BP_TYPE_ARRAY
  | DMsg _ _ _ _ _ => BP_TYPE_MESSAGE
  end.
Definition d_nbits (d : desc) : Z :=
  match d with DBase _ n _ => n | DAlias n _ _ _ => n | DArray n _ _ _ _ => n | DMsg n _ _ _ _ => n end.
Definition d_size (d : desc) : Z :=
  match d with DBase _ _ s => s | DAlias _ s _ _ => s | DArray _ s _ _ _ => s | DMsg _ _ _ _ _ => 0 end.
Definition d_to_flag (d : desc) : Z :=
  match d with DAlias _ _ tf _ => tf | _ => 0 end.

Definition flag_in (f : Z) (l : list Z) : bool := existsb (Z.eqb f) l.

Section RT.
  Variables (B E : endian).

  Definition fast_paths : bool := match B with LE => cp_fast_le_build | BE => cp_fast_be_build end.

  (* ---- BpCopyBufferBits, bitproto.c:249-343.  dm/sm: the destination/source objects,
     dp/sp: byte offsets of the pointers dst/src inside them. ---- *)
  (* one iteration of the loop body after the pointer bumps: (new destination object, c) *)
  Definition copy_step (n : Z) (dm : list Z) (dp : Z) (sm : list Z) (sp : Z) (di si : Z)
    : cres (list Z * Z) :=
    if cp_aligned di then                                                  (* L266 if (di == 0) *)
      let bits := cp_bits n si in                                          (* L271 *)
      if fast_paths && cp_thr32 bits then                                  (* L274,279 *)
        w <-- ld E (Z.to_nat cp_w32) sm sp ;;                              (* L282 *)
        dm' <-- st E (Z.to_nat cp_w32) dm dp (cp_v32 w si) ;;
        COk (dm', cp_c32 si)                                               (* L283 *)
      else if fast_paths && cp_thr16 bits then                             (* L285 *)
        w <-- ld E (Z.to_nat cp_w16) sm sp ;;                              (* L287 *)
        dm' <-- st E (Z.to_nat cp_w16) dm dp (cp_v16 w si) ;;
        COk (dm', cp_c16 si)                                               (* L288 *)
      else if cp_thr8 bits then                                            (* L293-294 *)
        b <-- rd sm sp ;;
        dm' <-- wr dm dp (cp_v8 b si) ;;                                   (* L296 *)
        COk (dm', cp_c8 si)                                                (* L297 *)
      else
        let c := cp_c_part si n in                                         (* L307 *)
        b <-- rd sm sp ;;
        old <-- rd dm dp ;;
        dm' <-- wr dm dp (cp_v_part old b si c) ;;                         (* L309 *)
        COk (dm', c)
    else
      let c := cp_c_un di si n in                                          (* L322 *)
      ch <-- rd sm sp ;;                                                   (* L334 *)
      if cp_nonzero ch then                                                (* L335 if (ch) *)
        old <-- rd dm dp ;;
        dm' <-- wr dm dp (cp_v_un old ch si di c) ;;
        COk (dm', c)
      else COk (dm, c).

  Fixpoint copy_bits (fuel : nat) (n : Z) (dm : list Z) (dp : Z) (sm : list Z) (sp : Z) (di si : Z)
    : cres (list Z) :=
    if n =? 0 then COk dm                                                  (* L252 while (n) *)
    else
      match fuel with
      | O => CFuel
      | S f =>
          let dp := dp + cp_dst_bump di in                                 (* L255 dst += di >> 3 *)
          let sp := sp + cp_src_bump si in                                 (* L256 src += si >> 3 *)
          let di := cp_di_low di in                                        (* L260 di &= 7 *)
          let si := cp_si_low si in                                        (* L261 si &= 7 *)
          r <-- copy_step n dm dp sm sp di si ;;                           (* L264-336 *)
          copy_bits f (n - snd r) (fst r) dp sm sp (di + snd r) (si + snd r)   (* L339-341 *)
      end.

  Definition copy_fuel (n : Z) : nat := Z.to_nat n.

  (* ---- BpEndecodeBaseType, bitproto.c:350-376 ---- *)
  Fixpoint stage_in (cnt : nat) (k size : Z) (p le : list Z) : cres (list Z) :=   (* L360 *)
    match cnt with
    | O => COk le
    | S c => b <-- rd p (bt_enc_src size k) ;; le' <-- wr le k b ;; stage_in c (k + 1) size p le'
    end.

  Fixpoint stage_out (cnt : nat) (k size : Z) (le p : list Z) : cres (list Z) :=  (* L365 *)
    match cnt with
    | O => COk p
    | S c => b <-- rd le k ;; p' <-- wr p (bt_dec_dst size k) b ;; stage_out c (k + 1) size le p'
    end.

  Definition base_type (enc : bool) (nbits : Z) (x : cctx) (data : list Z) : cres (cctx * list Z) :=
    match B with
    | BE =>
        let size := BpBaseTypeStorageSize nbits in                          (* L355 *)
        let le := zeros (Z.to_nat bt_stage_len) in                          (* L356 *)
        if enc then
          le' <-- stage_in (Z.to_nat size) 0 size data le ;;                (* L360 *)
          s' <-- copy_bits (copy_fuel nbits) nbits (xs x) 0 le' 0 (xi x) 0 ;;   (* L361 *)
          COk ({| xs := s'; xi := xi x + nbits |}, data)                    (* L367 *)
        else
          le' <-- copy_bits (copy_fuel nbits) nbits le 0 (xs x) 0 0 (xi x) ;;   (* L363 *)
          data' <-- stage_out (Z.to_nat size) 0 size le' data ;;            (* L365 *)
          COk ({| xs := xs x; xi := xi x + nbits |}, data')                 (* L367 *)
    | LE =>
        if enc then
          s' <-- copy_bits (copy_fuel nbits) nbits (xs x) 0 data 0 (xi x) 0 ;;  (* L370 *)
          COk ({| xs := s'; xi := xi x + nbits |}, data)                    (* L374 *)
        else
          data' <-- copy_bits (copy_fuel nbits) nbits data 0 (xs x) 0 0 (xi x) ;;   (* L372 *)
          COk ({| xs := xs x; xi := xi x + nbits |}, data')
    end.

  (* ---- BpHandleIntSignAfterEndecode, bitproto.c:384-428 ---- *)
  Definition sign_after (enc : bool) (size nbits : Z) (data : list Z) : cres (list Z) :=
    if enc then COk data                                                    (* L387 *)
    else if sg_skip nbits then COk data                                     (* L391 *)
    else
      let n := sg_n size in                                                 (* L394 *)
      match lookup n sg_cases with                                          (* L396 switch (n) *)
      | None => COk data
      | Some w =>
          x <-- ld E (Z.to_nat w) data 0 ;;                                 (* L408/413/418/423 *)
          if negb (Z.land x (sg_testmask n nbits) =? 0)
          then st E (Z.to_nat w) data 0 (Z.lor x (sg_ormask n nbits))       (* L409/414/419/424 *)
          else COk data
      end.

  (* ---- BpEndecodeInt, bitproto.c:431-437 ---- *)
  Definition endecode_int (enc : bool) (size nbits : Z) (x : cctx) (data : list Z) : cres (cctx * list Z) :=
    r <-- base_type enc nbits x data ;;                                     (* L434 *)
    data' <-- sign_after enc size nbits (snd r) ;;                          (* L436 *)
    COk (fst r, data').

  (* ---- extensible-ahead helpers, bitproto.c:441-475: a native uint16_t local ---- *)
  Definition encode_ahead (v : Z) (x : cctx) : cres cctx :=                 (* L445-446 / L464-465 *)
    o <-- st E (Z.to_nat ah_size) (zeros (Z.to_nat ah_size)) 0 v ;;
    r <-- base_type true ah_nbits x o ;;
    COk (fst r).

  Definition decode_ahead (x : cctx) : cres (cctx * Z) :=                   (* L453-455 / L472-474 *)
    r <-- base_type false ah_nbits x (zeros (Z.to_nat ah_size)) ;;
    v <-- ld E (Z.to_nat ah_size) (snd r) 0 ;;
    COk (fst r, v).

  (* ---- data access in the object tree ---- *)
  Definition on_bytes (o : obj) (f : list Z -> cres (cctx * list Z)) : cres (cctx * obj) :=
    match o with
    | OB bs => r <-- f bs ;; COk (fst r, OB (snd r))
    | _ => CStuck
    end.

  Definition get_elem (o : obj) (k : nat) (esize : Z) : cres obj :=        (* data_ptr = data + k*element_size *)
    match o with
    | OB bs => s <-- slice bs (Z.of_nat k * esize) esize ;; COk (OB s)
    | OL l => match nth_error l k with Some e => COk e | None => MemErr end
    | OS _ => CStuck
    end.

  Definition set_elem (o : obj) (k : nat) (esize : Z) (e : obj) : cres obj :=
    match o, e with
    | OB bs, OB s => r <-- splice bs (Z.of_nat k * esize) s ;; COk (OB r)
    | OL l, _ => if Nat.ltb k (length l) then COk (OL (upd l k e)) else MemErr
    | _, _ => CStuck
    end.

  Definition get_fld (o : obj) (fn : Z) : cres obj :=
    match o with
    | OS fs => match lookup fn fs with Some x => COk x | None => CStuck end
    | _ => CStuck
    end.

  Fixpoint set_assoc (k : Z) (nv : obj) (fs : list (Z * obj)) : list (Z * obj) :=
    match fs with
    | [] => []
    | h :: r => if fst h =? k then (k, nv) :: r else h :: set_assoc k nv r
    end.

  Definition set_fld (o : obj) (fn : Z) (nv : obj) : cres obj :=
    match o with OS fs => COk (OS (set_assoc fn nv fs)) | _ => CStuck end.

  Definition base_flags_field : list Z := [BP_TYPE_BOOL; BP_TYPE_UINT; BP_TYPE_BYTE; BP_TYPE_ENUM].   (* L104-107, L212-215 *)
  Definition base_flags_alias : list Z := [BP_TYPE_BOOL; BP_TYPE_UINT; BP_TYPE_BYTE].                 (* L129-131 *)
  Definition proc_flags_field : list Z := [BP_TYPE_ALIAS; BP_TYPE_ARRAY; BP_TYPE_MESSAGE].            (* L114-116 *)
  Definition proc_flags_elem : list Z := [BP_TYPE_ALIAS; BP_TYPE_MESSAGE].                            (* L221-222 *)

  Definition batch_pred (element_nbits flag to_flag : Z) : bool :=                                    (* L175-186 *)
    match B with
    | LE => ar_batch_le_build element_nbits flag to_flag
    | BE => ar_batch_be_build element_nbits flag to_flag
    end.

  (* the sign loop of the batch path, L200-204 *)
  Fixpoint batch_sign (enc : bool) (cnt : nat) (k : nat) (esize enbits : Z) (bs : list Z) : cres (list Z) :=
    match cnt with
    | O => COk bs
    | S c =>
        s <-- slice bs (Z.of_nat k * esize) esize ;;
        s' <-- sign_after enc esize enbits s ;;
        bs' <-- splice bs (Z.of_nat k * esize) s' ;;
        batch_sign enc c (S k) esize enbits bs'
    end.

  (* The walkers below take [cp], the meaning of `type.processor(data, ctx)` for a BpType
     (tied into a knot by [call_processor] further down), so that each C function is one
     named definition. *)
  Section Walk.
    Variable cp : desc -> cctx -> obj -> cres (cctx * obj).
    Variable enc : bool.

    (* ---- BpEndecodeMessageField, bitproto.c:101-120 ---- *)
    Definition field_step (fd : desc) (x : cctx) (fo : obj) : cres (cctx * obj) :=
      if flag_in (d_flag fd) base_flags_field then                          (* L104-109 *)
        on_bytes fo (base_type enc (d_nbits fd) x)
      else if d_flag fd =? BP_TYPE_INT then                                 (* L110-113 *)
        on_bytes fo (endecode_int enc (d_size fd) (d_nbits fd) x)
      else if flag_in (d_flag fd) proc_flags_field then                     (* L114-118 *)
        cp fd x fo
      else COk (x, fo).

    (* the field loop of BpEndecodeMessage, L85-89; fds[k].data = &(m->field) *)
    Fixpoint fields_loop (l : list (Z * desc)) (cnt : nat) (x : cctx) (o : obj) {struct l}
      : cres (cctx * obj) :=
      match cnt, l with
      | O, _ => COk (x, o)                                                  (* k == nfields *)
      | S _, [] => CStuck                                                   (* nfields > table length *)
      | S cnt', (fn, fd) :: rest =>
          fo <-- get_fld o fn ;;
          r <-- field_step fd x fo ;;
          o' <-- set_fld o fn (snd r) ;;
          fields_loop rest cnt' (fst r) o'
      end.

    (* ---- BpEndecodeMessage, bitproto.c:67-98 ---- *)
    Definition endecode_message (ext : bool) (nfields dnbits : Z) (fds : list (Z * desc))
               (x : cctx) (o : obj) : cres (cctx * obj) :=
      let i := xi x in                                                      (* L70 *)
      xa <-- (if ext then                                                   (* L74 *)
                if enc then x' <-- encode_ahead (ah_msg_val dnbits) x ;; COk (x', 0)   (* L77 *)
                else decode_ahead x                                         (* L80 *)
              else COk (x, 0)) ;;
      r <-- fields_loop fds (Z.to_nat nfields) (fst xa) o ;;                (* L85-89 *)
      if ext && negb enc then                                               (* L92 *)
        let ito := ms_ito i (snd xa) in                                     (* L93 *)
        if ms_ito_taken ito (xi (fst r)) then COk ({| xs := xs (fst r); xi := ito |}, snd r)   (* L94-95 *)
        else COk r
      else COk r.

    (* the switch inside the per-element loop of BpEndecodeArray, L211-225 *)
    Definition elem_step (elem : desc) (x : cctx) (e : obj) : cres (cctx * obj) :=
      let flag := d_flag elem in
      if flag_in flag base_flags_field then                                 (* L212-217 *)
        on_bytes e (base_type enc (d_nbits elem) x)
      else if flag =? BP_TYPE_INT then                                      (* L218-220 *)
        on_bytes e (endecode_int enc (d_size elem) (d_nbits elem) x)
      else if flag_in flag proc_flags_elem then                             (* L221-224 *)
        cp elem x e
      else COk (x, e).

    (* the per-element loop, L210-228 *)
    Definition elems_loop (elem : desc) : nat -> nat -> cctx -> obj -> cres (cctx * obj) :=
      fix loop (cnt : nat) (k : nat) (x : cctx) (o : obj) {struct cnt} : cres (cctx * obj) :=
        match cnt with
        | O => COk (x, o)
        | S c =>
            e <-- get_elem o k (d_size elem) ;;
            r <-- elem_step elem x e ;;
            o' <-- set_elem o k (d_size elem) (snd r) ;;
            loop c (S k) (fst r) o'                                         (* L227 *)
        end.

    (* ---- BpEndecodeArray, bitproto.c:146-240 ---- *)
    Definition endecode_array (ext : bool) (cap : Z) (elem : desc) (x : cctx) (o : obj)
      : cres (cctx * obj) :=
      let i := xi x in                                                      (* L149 *)
      xa <-- (if ext then                                                   (* L153 *)
                if enc then x' <-- encode_ahead (ah_arr_val cap) x ;; COk (x', 0)   (* L156 *)
                else decode_ahead x                                         (* L159 *)
              else COk (x, 0)) ;;
      let element_nbits := d_nbits elem in                                  (* L164 *)
      let element_size := d_size elem in                                    (* L165 *)
      let flag := d_flag elem in                                            (* L168 *)
      let to_flag := d_to_flag elem in                                      (* L171 *)
      r <-- (if batch_pred element_nbits flag to_flag then                  (* L175-186 *)
               on_bytes o (fun bs =>
                 r0 <-- base_type enc (ar_batch_nbits element_nbits cap) (fst xa) bs ;;   (* L196 *)
                 if ar_sign_needed flag to_flag then                        (* L198 *)
                   bs' <-- batch_sign enc (Z.to_nat cap) 0 element_size element_nbits (snd r0) ;;
                   COk (fst r0, bs')
                 else COk r0)
             else elems_loop elem (Z.to_nat cap) O (fst xa) o) ;;           (* L210-228 *)
      if ext && negb enc then                                               (* L232 *)
        let ito := ar_ito i (snd xa) (xi (fst r)) cap in                    (* L235 *)
        if ar_ito_taken ito (xi (fst r)) then COk ({| xs := xs (fst r); xi := ito |}, snd r)   (* L236-237 *)
        else COk r
      else COk r.

    (* ---- BpEndecodeAlias, bitproto.c:126-142 ---- *)
    Definition endecode_alias (to : desc) (x : cctx) (o : obj) : cres (cctx * obj) :=
      let f := d_flag to in
      if flag_in f base_flags_alias then                                    (* L129-133 *)
        on_bytes o (base_type enc (d_nbits to) x)
      else if f =? BP_TYPE_INT then                                         (* L134-137 *)
        on_bytes o (endecode_int enc (d_size to) (d_nbits to) x)
      else if f =? BP_TYPE_ARRAY then                                       (* L138-140 *)
        cp to x o
      else COk (x, o).
  End Walk.

  (* [call_processor enc d x o] = descriptor->type.processor(data, ctx) for a BpType described
     by d: the generated BpXXXProcess* function builds the descriptor and calls
     BpEndecodeAlias / BpEndecodeArray / BpEndecodeMessage. *)
  Fixpoint call_processor (enc : bool) (d : desc) (x : cctx) (o : obj) {struct d} : cres (cctx * obj) :=
    match d with
    | DBase _ _ _ => CStuck                                                 (* processor is NULL *)
    | DAlias _ _ _ to => endecode_alias (call_processor enc) enc to x o
    | DArray _ _ ext cap elem => endecode_array (call_processor enc) enc ext cap elem x o
    | DMsg _ ext nfields dnbits fds => endecode_message (call_processor enc) enc ext nfields dnbits fds x o
    end.

  (* Encode<Msg>(m, s) / Decode<Msg>(m, s): ctx = {is_encode, 0, s}; BpXXXProcess<Msg>(m, &ctx) *)
  Definition c_encode (d : desc) (o : obj) (s : list Z) : cres (list Z) :=
    r <-- call_processor true d {| xs := s; xi := 0 |} o ;; COk (xs (fst r)).

  Definition c_decode (d : desc) (s : list Z) (o : obj) : cres obj :=
    r <-- call_processor false d {| xs := s; xi := 0 |} o ;; COk (snd r).
End RT.

(* ---------- the renderer: descriptors and storage layout of a resolved schema ---------- *)

Definition int_storage_bits (n : Z) : Z := get_nbits_of_integer (ast_nbytes n).    (* formatter.py:330-344 *)
Definition int_size (n : Z) : Z := int_storage_bits n / 8.                           (* sizeof(uintN_t) *)

Fixpoint csize (t : ty) : Z :=                     (* sizeof of the C type; structs: not modelled (0) *)
  match t with
  | TBool => 1 | TByte => 1
  | TUint n => int_size n | TInt n => int_size n | TEnum n _ => int_size n
  | TAlias t => csize t
  | TArr _ cap e => Z.of_nat cap * csize e
  | TMsg _ _ => 0
  end.

Definition bp_flag (t : ty) : Z :=
  match t with
  | TBool => BP_TYPE_BOOL | TByte => BP_TYPE_BYTE | TUint _ => BP_TYPE_UINT | TInt _ => BP_TYPE_INT
  | TEnum _ _ => BP_TYPE_ENUM | TAlias _ => BP_TYPE_ALIAS | TArr _ _ _ => BP_TYPE_ARRAY | TMsg _ _ => BP_TYPE_MESSAGE
  end.

(* [render t] for t already normalised (fields sorted by number = sorted_fields()) *)
Fixpoint render (t : ty) : desc :=
  match t with
  | TBool => DBase BP_TYPE_BOOL BpBool_nbits 1
  | TByte => DBase BP_TYPE_BYTE BpByte_nbits 1
  | TUint n => DBase BP_TYPE_UINT n (int_size n)
  | TInt n => DBase BP_TYPE_INT n (int_size n)
  | TEnum n _ => DBase BP_TYPE_ENUM n (int_size n)
  | TAlias u => DAlias (nbits u) (csize u) (bp_flag u) (render u)
  | TArr x cap e => DArray (nbits t) (Z.of_nat cap * csize e) x (Z.of_nat cap) (render e)
  | TMsg x fs =>
      DMsg (nbits t) x (Z.of_nat (length fs)) (nbits t)
           ((fix go (l : list (Z * ty)) : list (Z * desc) :=
               match l with
               | [] => []
               | kf :: r => (fst kf, render (snd kf)) :: go r
               end) fs)
  end.

(* does the storage of t consist of scalars only (one contiguous byte object)? *)
Fixpoint flat (t : ty) : bool :=
  match t with
  | TAlias u => flat u
  | TArr _ _ e => flat e
  | TMsg _ _ => false
  | _ => true
  end.

Definition obytes (o : obj) : list Z := match o with OB bs => bs | _ => [] end.

Section Store.
  Variable E : endian.

  Definition store_int (n z : Z) : obj := OB (native_bytes E (Z.to_nat (int_size n)) z).

  (* [store t v]: the C object holding value v of type t, every integer two's complement in
     its storage width, in host order *)
  Fixpoint store (t : ty) (v : val) : obj :=
    match t with
    | TBool => OB [Z.b2z (match v with VB b => b | _ => false end)]
    | TByte => OB [zof v mod 256]
    | TUint n => store_int n (zof v)
    | TInt n => store_int n (zof v)
    | TEnum n _ => store_int n (zof v)
    | TAlias u => store u v
    | TArr _ cap e =>
        if flat e then OB (flat_map (fun x => obytes (store e x)) (vlist v))
        else OL (map (store e) (vlist v))
    | TMsg _ fs =>
        OS ((fix go (l : list (Z * ty)) : list (Z * obj) :=
               match l with
               | [] => []
               | kf :: r => (fst kf, store (snd kf) (vfield (fst kf) v)) :: go r
               end) fs)
    end.
End Store.

(* a zero-initialised object of type t *)
Fixpoint zero_obj (t : ty) : obj :=
  match t with
  | TBool => OB [0] | TByte => OB [0]
  | TUint n => OB (zeros (Z.to_nat (int_size n)))
  | TInt n => OB (zeros (Z.to_nat (int_size n)))
  | TEnum n _ => OB (zeros (Z.to_nat (int_size n)))
  | TAlias u => zero_obj u
  | TArr _ cap e =>
      if flat e then OB (zeros (cap * Z.to_nat (csize e)))
      else OL (repeat (zero_obj e) cap)
  | TMsg _ fs =>
      OS ((fix go (l : list (Z * ty)) : list (Z * obj) :=
             match l with
             | [] => []
             | kf :: r => (fst kf, zero_obj (snd kf)) :: go r
             end) fs)
  end.

(* the whole pipeline for a schema tree t (declaration order): descriptors of norm t *)
Definition c_encode_ty (B E : endian) (t : ty) (o : obj) : cres (list Z) :=
  c_encode B E (render (norm t)) o (zeros (Z.to_nat (nbytes t))).
Definition c_decode_ty (B E : endian) (t : ty) (s : list Z) : cres obj :=
  c_decode B E (render (norm t)) s (zero_obj (norm t)).

(* ---------- reading storage back as a value (arbitrary storage contents) ---------- *)

Fixpoint chunks (cnt : nat) (sz : nat) (bs : list Z) : list (list Z) :=
  match cnt with
  | O => []
  | S c => firstn sz bs :: chunks c sz (skipn sz bs)
  end.

Section Abs.
  Variable E : endian.

  (* the value a C object holds, integers read UNSIGNED in their storage width (the wire
     keeps the low n bits only, see Spec.enc_bits) *)
  Fixpoint abs_val (t : ty) (o : obj) : val :=
    match t with
    | TBool => VB (Z.odd (hd 0 (obytes o)))
    | TByte => VZ (hd 0 (obytes o))
    | TUint _ | TInt _ | TEnum _ _ => VZ (native_val E (obytes o))
    | TAlias u => abs_val u o
    | TArr _ cap e =>
        if flat e
        then VL (map (fun c => abs_val e (OB c)) (chunks cap (Z.to_nat (csize e)) (obytes o)))
        else VL (map (abs_val e) (match o with OL l => l | _ => [] end))
    | TMsg _ fs =>
        VM ((fix go (l : list (Z * ty)) : list (Z * val) :=
               match l with
               | [] => []
               | kf :: r =>
                   (fst kf, abs_val (snd kf)
                              (match o with
                               | OS ofs => match lookup (fst kf) ofs with Some x => x | None => OB [] end
                               | _ => OB []
                               end)) :: go r
               end) fs)
    end.
End Abs.

(* ---------- schemas the bitproto grammar can express (on top of Schema.wf) ---------- *)
(* an alias names bool / byte / uintN / intN / an array; an array element is never directly
   an array (two-dimensional arrays only through an alias) *)
Definition alias_target_ok (t : ty) : bool :=
  match t with TBool | TByte | TUint _ | TInt _ | TArr _ _ _ => true | _ => false end.
Definition elem_ok (t : ty) : bool :=
  match t with TArr _ _ _ => false | _ => true end.

Fixpoint cwf (t : ty) : bool :=
  match t with
  | TAlias u => alias_target_ok u && cwf u
  | TArr _ _ e => elem_ok e && cwf e
  | TMsg _ fs =>
      (fix go (l : list (Z * ty)) : bool :=
         match l with
         | [] => true
         | kf :: r => cwf (snd kf) && go r
         end) fs
  | _ => true
  end.
