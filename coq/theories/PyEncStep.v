(* PyEncStep.v — process_base_type (encode direction) writes exactly the low n bits of
   the accessor's integer at the cursor, for every n, cursor and integer (no bound). *)
From Coq Require Import ZArith List Bool Lia.
From BP Require Import Bits Schema PyRt ByteStep.
From BPGen Require Import GenPy.
Import ListNotations.
Open Scope Z_scope.

Lemma pow2_pos k : 0 <= k -> 0 < 2 ^ k.
Proof. intros; apply Z.pow_pos_nonneg; lia. Qed.

Lemma pow256 k : 0 <= k -> 256 ^ k = 2 ^ (8 * k).
Proof. intros. change 256 with (2 ^ 8). rewrite <- Z.pow_mul_r by lia. reflexivity. Qed.

(* bits [j, j+c) of z, read through the byte the accessor hands out *)
Lemma byte_slice z j c :
  0 <= j -> 0 <= c -> c <= 8 - j mod 8 ->
  Z.shiftr (Z.land (Z.shiftr z (j / 8 * 8)) 255) (j mod 8) mod 2 ^ c = (z / 2 ^ j) mod 2 ^ c.
Proof.
  intros Hj Hc Hle.
  pose proof (Z.mod_pos_bound j 8 ltac:(lia)) as Hm.
  pose proof (Z.div_mod j 8 ltac:(lia)) as Hdm.
  rewrite <- (Z.shiftr_div_pow2 z j) by lia.
  apply Z.bits_inj'. intros i Hi.
  destruct (Z.lt_ge_cases i c) as [Hlt|Hge].
  - rewrite !Z.mod_pow2_bits_low by lia.
    rewrite !Z.shiftr_spec by lia.
    rewrite Z.land_spec, Z.shiftr_spec by lia.
    change 255 with (Z.ones 8). rewrite Z.ones_spec_low by lia.
    rewrite andb_true_r. f_equal. lia.
  - rewrite !Z.mod_pow2_bits_high by lia. reflexivity.
Qed.

(* the byte under the cursor has nothing at or above the cursor's bit position *)
Lemma cursor_byte_small s ci :
  bytes_ok s -> 0 <= ci -> 0 <= bufZ s < 2 ^ ci ->
  0 <= nth (Z.to_nat (ci / 8)) s 0 < 2 ^ (ci mod 8).
Proof.
  intros Hs Hci Hb.
  pose proof (Z.mod_pos_bound ci 8 ltac:(lia)) as Hm.
  pose proof (Z.div_mod ci 8 ltac:(lia)) as Hdm.
  assert (Hq : 0 <= ci / 8) by (apply Z.div_pos; lia).
  rewrite bufZ_nth by assumption.
  rewrite Z2Nat.id by assumption. rewrite pow256 by assumption.
  set (q := ci / 8) in *. set (r := ci mod 8) in *.
  assert (Hp : 0 < 2 ^ (8 * q)) by (apply pow2_pos; lia).
  assert (Hr : 0 < 2 ^ r) by (apply pow2_pos; lia).
  assert (Hsplit : 2 ^ ci = 2 ^ (8 * q) * 2 ^ r).
  { rewrite <- Z.pow_add_r by lia. f_equal. lia. }
  assert (Hd : 0 <= bufZ s / 2 ^ (8 * q) < 2 ^ r).
  { split; [apply Z.div_pos; lia|]. apply Z.div_lt_upper_bound; [lia|]. lia. }
  assert (H8 : 2 ^ r <= 256).
  { change 256 with (2 ^ 8). apply Z.pow_le_mono_r; lia. }
  rewrite Z.mod_small by lia. exact Hd.
Qed.

Section PBT.
  Variables (c : cls) (acc : val) (fn : Z) (stk : list nat) (z : Z).
  Hypothesis Hget :
    forall r, 0 <= r -> get_byte c acc fn stk r = Ok (Z.land (Z.shiftr z r) 255).

  Lemma enc_single_byte_spec j cnt x :
    bytes_ok (cs x) -> 0 <= ci x -> ci x / 8 < Z.of_nat (length (cs x)) ->
    0 <= bufZ (cs x) < 2 ^ ci x ->
    0 <= j -> 1 <= cnt -> cnt <= 8 - j mod 8 -> cnt <= 8 - ci x mod 8 ->
    exists s',
      enc_single_byte c acc fn stk j cnt x = Ok {| cs := s'; ci := ci x |} /\
      length s' = length (cs x) /\ bytes_ok s' /\
      bufZ s' = bufZ (cs x) + 2 ^ ci x * ((z / 2 ^ j) mod 2 ^ cnt).
  Proof.
    intros Hs Hci Hlen Hb Hj Hc1 Hc2 Hc3.
    pose proof (Z.mod_pos_bound (ci x) 8 ltac:(lia)) as Hmi.
    pose proof (Z.mod_pos_bound j 8 ltac:(lia)) as Hmj.
    pose proof (Z.div_mod (ci x) 8 ltac:(lia)) as Hdm.
    assert (Hq : 0 <= ci x / 8) by (apply Z.div_pos; lia).
    unfold enc_single_byte.
    assert (Hr0 : 0 <= enc_rshift j).
    { unfold enc_rshift. assert (0 <= j / 8) by (apply Z.div_pos; lia). lia. }
    rewrite (Hget _ Hr0). cbn [bind].
    set (b := Z.land (Z.shiftr z (enc_rshift j)) 255).
    assert (Hbr : 0 <= b < 256).
    { unfold b. change 255 with (Z.ones 8). rewrite Z.land_ones by lia.
      change (2 ^ 8) with 256. apply Z.mod_pos_bound. lia. }
    set (k := Z.to_nat (enc_index (ci x))).
    assert (Hk : (k < length (cs x))%nat).
    { unfold k, enc_index. lia. }
    destruct (nth_error (cs x) k) as [old|] eqn:Hnth.
    2:{ apply nth_error_None in Hnth. lia. }
    assert (Hold : old = nth k (cs x) 0).
    { symmetry. apply nth_error_nth. exact Hnth. }
    pose proof (cursor_byte_small (cs x) (ci x) Hs Hci Hb) as Hsmall.
    fold (enc_index (ci x)) in Hsmall. fold k in Hsmall. rewrite <- Hold in Hsmall.
    set (m := (z / 2 ^ j) mod 2 ^ cnt).
    assert (Hd : enc_d b (ci x) j cnt = m * 2 ^ (ci x mod 8)).
    { rewrite enc_d_mod, enc_d_small by lia. f_equal.
      unfold b, enc_rshift, m. apply byte_slice; lia. }
    rewrite Hd.
    assert (Hm : 0 <= m < 2 ^ cnt) by (unfold m; apply Z.mod_pos_bound, pow2_pos; lia).
    assert (Hp8 : 0 < 2 ^ (ci x mod 8)) by (apply pow2_pos; lia).
    assert (Hprod : m * 2 ^ (ci x mod 8) < 256).
    { assert (2 ^ cnt * 2 ^ (ci x mod 8) <= 256).
      { rewrite <- Z.pow_add_r by lia. change 256 with (2 ^ 8). apply Z.pow_le_mono_r; lia. }
      nia. }
    rewrite lor_disjoint_byte by lia.
    replace ((0 <=? old + m * 2 ^ (ci x mod 8)) && (old + m * 2 ^ (ci x mod 8) <? 256)) with true.
    2:{ symmetry. apply andb_true_iff. split; [apply Z.leb_le|apply Z.ltb_lt]; try nia.
        (* old < 2^i8, m < 2^cnt: old + m*2^i8 < 2^(i8+cnt) <= 256 *)
        assert (2 ^ cnt * 2 ^ (ci x mod 8) <= 256).
        { rewrite <- Z.pow_add_r by lia. change 256 with (2 ^ 8). apply Z.pow_le_mono_r; lia. }
        nia. }
    eexists. split; [reflexivity|].
    split; [apply upd_length|].
    split.
    { apply upd_bytes_ok; [assumption|]. unfold is_byte.
      assert (2 ^ cnt * 2 ^ (ci x mod 8) <= 256).
      { rewrite <- Z.pow_add_r by lia. change 256 with (2 ^ 8). apply Z.pow_le_mono_r; lia. }
      nia. }
    rewrite bufZ_upd by exact Hk. rewrite <- Hold.
    replace (old + m * 2 ^ (ci x mod 8) - old) with (m * 2 ^ (ci x mod 8)) by lia.
    unfold k, enc_index. rewrite Z2Nat.id by assumption. rewrite pow256 by assumption.
    replace (2 ^ ci x) with (2 ^ (ci x mod 8) * 2 ^ (8 * (ci x / 8))).
    2:{ rewrite <- Z.pow_add_r by lia. f_equal. lia. }
    ring.
  Qed.

  (* the loop: invariant  bufZ = B0 + 2^i0 * (z mod 2^j),  cursor = i0 + j *)
  Lemma pbt_enc_loop n i0 B0 :
    forall fuel j x,
      (Z.to_nat (n - j) <= fuel)%nat ->
      0 <= j <= n -> 0 <= i0 -> 0 <= B0 < 2 ^ i0 ->
      bytes_ok (cs x) -> ci x = i0 + j ->
      i0 + n <= 8 * Z.of_nat (length (cs x)) ->
      bufZ (cs x) = B0 + 2 ^ i0 * (z mod 2 ^ j) ->
      exists s',
        pbt_enc fuel n c acc fn stk j x = Ok {| cs := s'; ci := i0 + n |} /\
        length s' = length (cs x) /\ bytes_ok s' /\
        bufZ s' = B0 + 2 ^ i0 * (z mod 2 ^ n).
  Proof.
    induction fuel as [|f IH]; intros j x Hfuel Hj Hi0 HB Hs Hci Hlen Hbuf.
    - assert (j = n) by lia. subst j. cbn [pbt_enc]. rewrite Z.ltb_irrefl.
      exists (cs x). destruct x as [s i]; cbn in *. subst i. auto.
    - cbn [pbt_enc]. destruct (j <? n) eqn:Hjn.
      2:{ apply Z.ltb_ge in Hjn. assert (j = n) by lia. subst j.
          exists (cs x). destruct x as [s i]; cbn in *. subst i. auto. }
      apply Z.ltb_lt in Hjn.
      pose proof (nbits_to_copy_range (ci x) j n ltac:(lia)) as (Hc1 & Hc2 & Hc3 & Hc4).
      set (cnt := get_nbits_to_copy (ci x) j n) in *.
      assert (Hp0 : 0 < 2 ^ i0) by (apply pow2_pos; lia).
      assert (Hpj : 0 < 2 ^ j) by (apply pow2_pos; lia).
      assert (Hzj : 0 <= z mod 2 ^ j < 2 ^ j) by (apply Z.mod_pos_bound; lia).
      assert (Hcur : 0 <= bufZ (cs x) < 2 ^ ci x).
      { rewrite Hbuf, Hci, Z.pow_add_r by lia. nia. }
      assert (Hidx : ci x / 8 < Z.of_nat (length (cs x))).
      { apply Z.div_lt_upper_bound; lia. }
      destruct (enc_single_byte_spec j cnt x Hs ltac:(lia) Hidx Hcur ltac:(lia) Hc1 Hc3 Hc4)
        as (s1 & E1 & L1 & O1 & B1).
      rewrite E1. cbn [bind cs ci].
      destruct (IH (j + cnt) {| cs := s1; ci := ci x + cnt |}) as (s2 & E2 & L2 & O2 & B2);
        cbn [cs ci]; try lia; try assumption.
      + rewrite B1, Hbuf, Hci.
        rewrite (Z.pow_add_r 2 j cnt) by lia.
        rewrite (Z.rem_mul_r z (2 ^ j) (2 ^ cnt)) by (try apply Z.pow_nonzero; try apply pow2_pos; lia).
        rewrite (Z.pow_add_r 2 i0 j) by lia. ring.
      + exists s2. rewrite E2. cbn [cs] in L2. repeat split; try assumption. congruence.
  Qed.

  Lemma pbt_enc_spec n x :
    0 <= n -> bytes_ok (cs x) -> 0 <= ci x -> 0 <= bufZ (cs x) < 2 ^ ci x ->
    ci x + n <= 8 * Z.of_nat (length (cs x)) ->
    exists s',
      pbt_enc (fuel_of n) n c acc fn stk 0 x = Ok {| cs := s'; ci := ci x + n |} /\
      length s' = length (cs x) /\ bytes_ok s' /\
      bufZ s' = bufZ (cs x) + 2 ^ ci x * (z mod 2 ^ n).
  Proof.
    intros Hn Hs Hci Hb Hlen.
    apply (pbt_enc_loop n (ci x) (bufZ (cs x))); try lia; try assumption;
      try (unfold fuel_of; lia);
      try (change (2 ^ 0) with 1; rewrite Z.mod_1_r; lia).
  Qed.
End PBT.
