(* GoDecProofs.v — the Go decoder model (GoRt.go_dec over go_proc_of / go_cls_of), run on a
   buffer whose bits at the cursor are Spec.enc_bits t v, into a Go struct holding zero values,
   leaves exactly [canon t v] at the addressed position and advances the cursor by nbits t.
   Induction over [ty]; the structure follows PyDecProofs.dec_ok_all (same path algebra), the
   leaves are GoDecStep's (typed |=, <<= d; >>= d, Byte2bool).  Go's zero value of an enum is
   0, so — unlike Python — no guard on the first declared enum member is needed. *)
From Coq Require Import ZArith List Bool Lia ZifyBool.
From BP Require Import Bits Schema Spec PyRt Eqb ByteStep PyEncStep PyEncProofs PyEncTop
                       PyDecStep PyDecLeaf PyDecProofs PyDecTop
                       GoRt GoHelpers GoTables GoEncProofs GoDecLeaf GoDecStep.
From BPGen Require GenPy GenGo.
Import ListNotations.
Open Scope Z_scope.

(* ---------- named inner fixpoints ---------- *)

Definition go_default_fields :=
  fix go (l : list (Z * ty)) : list (Z * val) :=
    match l with
    | [] => []
    | kf :: r => (fst kf, go_default (snd kf)) :: go r
    end.

Lemma go_default_msg x fs : go_default (TMsg x fs) = VM (go_default_fields fs).
Proof. reflexivity. Qed.

Definition go_dec_fields (c' : gcls) :=
  fix go (l : list (Z * gproc)) (a : val) (x : ctx) : res (val * ctx) :=
    match l with
    | [] => Ok (a, x)
    | kf :: r => r1 <- go_dec (snd kf) c' a (Some (fst kf)) [] x ;; go r (fst r1) (snd r1)
    end.

Definition go_dec_arr (e : gproc) (c : gcls) (di : option Z) (stk : list nat) :=
  fix loop (m k : nat) (acc : val) (x : ctx) : res (val * ctx) :=
    match m with
    | O => Ok (acc, x)
    | S m' => r <- go_dec e c acc di (stk ++ [k]) x ;; loop m' (S k) (fst r) (snd r)
    end.

Lemma go_dec_msg x nb fs c' c acc fn stk x0 :
  go_dec (GPMsg x nb fs c') c acc (Some fn) stk x0 =
  (child <- go_get_accessor c acc fn stk ;;
   let i0 := ci x0 in
   r0 <- (if x then go_dec_ahead x0 else Ok (0, x0)) ;;
   r <- go_dec_fields c' fs child (snd r0) ;;
   acc' <- go_put_accessor c acc fn stk (fst r) ;;
   Ok (acc', if x then go_skip_to (GenGo.message_ito i0 (fst r0)) (snd r) else snd r)).
Proof. reflexivity. Qed.

Lemma go_dec_msg_top x nb fs c' c acc stk x0 :
  go_dec (GPMsg x nb fs c') c acc None stk x0 =
  (let i0 := ci x0 in
   r0 <- (if x then go_dec_ahead x0 else Ok (0, x0)) ;;
   r <- go_dec_fields c' fs acc (snd r0) ;;
   Ok (fst r, if x then go_skip_to (GenGo.message_ito i0 (fst r0)) (snd r) else snd r)).
Proof. reflexivity. Qed.

Lemma go_dec_array x cap e c acc fn stk x0 :
  go_dec (GPArray x cap e) c acc (Some fn) stk x0 =
  (let i0 := ci x0 in
   r0 <- (if x then go_dec_ahead x0 else Ok (0, x0)) ;;
   r <- go_dec_arr e c (Some fn) stk cap O acc (snd r0) ;;
   Ok (fst r, if x then go_skip_to (GenGo.array_ito i0 (fst r0) (Z.of_nat cap) (ci (snd r))) (snd r)
              else snd r)).
Proof. reflexivity. Qed.

(* ---------- the tables at a position ---------- *)

Definition gleaf_tab (lt : ty) (g : gcls) (fn : Z) (d : nat) : Prop :=
  (exists e, lookup fn (gc_set g) = Some e /\ gs_depth e = d /\
             under (gs_conv e) = under (go_type_of lt) /\
             gs_kind e = (if is_boolb lt then GSBool else GSOr)) /\
  lookup fn (gc_int g) = (match lt with TInt n => sign_entry d n | _ => None end) /\
  (exists gt ge, lookup fn (gc_struct g) = Some gt /\ elem_gty gt d = Some ge /\
                 under ge = under (go_type_of lt)).

Fixpoint gdreach (t : ty) (g : gcls) (fn : Z) (d : nat) {struct t} : Prop :=
  match t with
  | TAlias t' => gdreach t' g fn d
  | TArr _ _ e => gdreach e g fn (S d)
  | TMsg _ _ => lookup fn (gc_acc g) = Some d
  | TBool => gleaf_tab TBool g fn d
  | TByte => gleaf_tab TByte g fn d
  | TUint n => gleaf_tab (TUint n) g fn d
  | TInt n => gleaf_tab (TInt n) g fn d
  | TEnum n ms => gleaf_tab (TEnum n ms) g fn d
  end.

Lemma gdreach_shift t g fn : forall d,
  (if is_msgb (innermost t) then lookup fn (gc_acc g) = Some (d + arr_layers t)%nat
   else gleaf_tab (innermost t) g fn (d + arr_layers t)%nat) ->
  gdreach t g fn d.
Proof.
  induction t as [| | n | n | n ms | t IH | x c e IH | x fs IH] using ty_ind'; intros d H;
    cbn [gdreach innermost arr_layers is_msgb] in *; rewrite ?Nat.add_0_r in H; try exact H.
  - apply IH. exact H.
  - apply IH. replace (S d + arr_layers e)%nat with (d + S (arr_layers e))%nat by lia. exact H.
Qed.

Lemma gdreach_field x fs k ft :
  keys_distinct (map fst fs) = true -> In (k, ft) fs -> shape_ok ft = true ->
  gdreach ft (go_cls_of x fs) k 0%nat.
Proof.
  intros Hd Hin Hs. apply gdreach_shift. cbn [Nat.add].
  destruct (innermost_kind ft) as [Hi|Hi].
  - replace (is_msgb (innermost ft)) with false by (destruct (innermost ft); try discriminate; reflexivity).
    destruct (tables_single x fs k ft Hd Hin Hs Hi) as (Hset & _ & Hint & _ & Hst).
    unfold gleaf_tab. split; [exact Hset|]. split; [exact Hint|].
    destruct (go_type_layers ft Hs) as (g' & E & U).
    exists (go_type_of ft), g'. split; [exact Hst|]. split; [|exact U].
    rewrite elem_gty_strip. exact E.
  - rewrite Hi. exact (proj1 (tables_msg x fs k ft Hd Hin Hs Hi)).
Qed.

(* ---------- leaves ---------- *)

(* an unsigned leaf (byte, uint, enum): typed |= at an unsigned Go type of width w >= n *)
Lemma go_dec_leaf_unsigned g vs fn stk a z s i0 n w e :
  lookup fn (gc_set g) = Some e -> gs_depth e = length stk -> gs_kind e = GSOr ->
  (under (gs_conv e) = GUint w \/ (under (gs_conv e) = GByte /\ w = 8)) ->
  In w [8; 16; 32; 64] -> 1 <= n <= w -> 0 <= z < 2 ^ n ->
  lookup fn vs = Some a -> index_val a stk = Ok (VZ 0) ->
  bytes_ok s -> 0 <= i0 -> i0 + n <= 8 * Z.of_nat (length s) -> Z.of_nat (length s) < 2 ^ 50 ->
  slice s i0 n = Z_of_bits (bits_of (Z.to_nat n) z) ->
  go_pbt_dec (fuel_of n) n g (VM vs) fn stk 0 {| cs := s; ci := i0 |} =
  Ok (VM (set_field fn (set_idx a stk (VZ z)) vs), {| cs := s; ci := i0 + n |}).
Proof.
  intros He Hde Hke Hue Hw Hn Hz Hl Hi Hs Hi0 Hlen Hsm Hslice.
  rewrite <- (at_leaf_id vs fn stk a Hl (VZ 0) Hi).
  assert (Hu : slice s i0 n = z).
  { rewrite Hslice, Z_of_bits_of, Z2Nat.id by lia. apply Z.mod_small. exact Hz. }
  rewrite <- Hu.
  apply (go_dec_unsigned g vs fn stk a s i0 n Hs Hi0 ltac:(lia) Hlen Hsm w Hw ltac:(lia)).
  apply (go_set_or_unsigned g vs fn stk a Hl (VZ 0) Hi e w); assumption.
Qed.

Lemma go_dec_ahead_spec s i0 :
  bytes_ok s -> 0 <= i0 -> i0 + 16 <= 8 * Z.of_nat (length s) -> Z.of_nat (length s) < 2 ^ 50 ->
  go_dec_ahead {| cs := s; ci := i0 |} = Ok (slice s i0 16, {| cs := s; ci := i0 + 16 |}).
Proof.
  intros Hs Hi0 Hlen Hsm. unfold go_dec_ahead.
  pose proof (go_dec_unsigned u16_cls [(1, VZ 0)] 1 [] (VZ 0) s i0 16 Hs Hi0
                ltac:(lia) Hlen Hsm 16 ltac:(cbn; tauto) ltac:(lia)) as H.
  change (fuel_of 16) with 16%nat in H.
  change (at_leaf [(1, VZ 0)] 1 [] (VZ 0) (VZ 0)) with (VM [(1, VZ 0)]) in H.
  rewrite H; [reflexivity|].
  apply (go_set_or_unsigned u16_cls [(1, VZ 0)] 1 [] (VZ 0) eq_refl (VZ 0) eq_refl
           {| gs_depth := 0; gs_conv := GUint 16; gs_kind := GSOr |} 16);
    try reflexivity; [left; reflexivity|cbn; tauto].
Qed.

Lemma cover_in n : 1 <= n <= 64 -> In (smallest_cover n) [8; 16; 32; 64] /\ n <= smallest_cover n.
Proof. intros H. destruct (smallest_cover_spec n H) as (A & B & _). auto. Qed.

(* ---------- the main invariant ---------- *)

Definition go_dec_ok (t : ty) : Prop :=
  forall g vs fn stk a v s i0,
    wf t = true -> shape_ok t = true -> has_ty t v = true ->
    gdreach t g fn (length stk) -> 1 <= fn ->
    lookup fn vs = Some a -> index_val a stk = Ok (go_default t) ->
    bytes_ok s -> 0 <= i0 -> i0 + nbits t <= 8 * Z.of_nat (length s) ->
    Z.of_nat (length s) < 2 ^ 36 ->
    slice s i0 (nbits t) = Z_of_bits (enc_bits t v) ->
    go_dec (go_proc_of t) g (VM vs) (Some fn) stk {| cs := s; ci := i0 |} =
    Ok (VM (set_field fn (set_idx a stk (canon t v)) vs), {| cs := s; ci := i0 + nbits t |}).

Theorem go_dec_ok_all t : go_dec_ok t.
Proof.
  assert (P36 : 2 ^ 36 = 68719476736) by reflexivity.
  assert (P40 : 2 ^ 40 = 1099511627776) by reflexivity.
  assert (P50 : 2 ^ 50 = 1125899906842624) by reflexivity.
  assert (P62 : 2 ^ 62 = 4611686018427387904) by reflexivity.
  induction t as [| | n | n | n ms | t IH | x cap e IH | x fs IH] using ty_ind';
    unfold go_dec_ok; intros g vs fn stk a v s i0 Hw Hsh Ht Hr Hfn Hl Hi Hs Hi0 Hlen Hsm Hslice.
  - (* bool *)
    cbn [go_proc_of go_dec need_di nbits canon gdreach go_default] in *.
    destruct Hr as ((e & He & Hde & Hue & Hke) & _ & _). cbn [go_type_of under is_boolb] in *.
    destruct v as [b|?|?|?]; try discriminate. cbn [enc_bits Z_of_bits] in Hslice.
    rewrite (go_dec_bool g vs fn stk a _ s i0 e Hl Hi He Hde Hke Hue Hs Hi0 Hlen ltac:(lia)).
    unfold at_leaf. rewrite Hslice. destruct b; reflexivity.
  - (* byte *)
    cbn [go_proc_of go_dec need_di nbits canon gdreach go_default] in *.
    destruct Hr as ((e & He & Hde & Hue & Hke) & _ & _). cbn [go_type_of under is_boolb] in *.
    pose proof (leaf_bits_value TByte v eq_refl Hw Ht) as Hz. cbn beta iota in Hz.
    apply (go_dec_leaf_unsigned g vs fn stk a (zof v) s i0 8 8 e); try assumption; try lia.
    + right. split; [assumption|reflexivity].
    + cbn; tauto.
  - (* uint *)
    cbn [go_proc_of go_dec need_di nbits canon gdreach go_default] in *.
    destruct Hr as ((e & He & Hde & Hue & Hke) & _ & _). cbn [go_type_of under is_boolb wf] in *.
    assert (Hn : 1 <= n <= 64) by lia.
    rewrite get_nbits_of_integer_eq in Hue by assumption.
    destruct (cover_in n Hn) as [Hin Hnw].
    pose proof (leaf_bits_value (TUint n) v eq_refl Hw Ht) as Hz. cbn beta iota in Hz.
    apply (go_dec_leaf_unsigned g vs fn stk a (zof v) s i0 n (smallest_cover n) e); try assumption; try lia.
    left. assumption.
  - (* int *)
    cbn [go_proc_of go_dec need_di nbits canon gdreach go_default] in *.
    destruct Hr as ((e & He & Hde & Hue & Hke) & Hint & (gt & ge & Hst & Hel & Hge)).
    cbn [go_type_of under is_boolb wf] in *.
    assert (Hn : 1 <= n <= 64) by lia.
    rewrite get_nbits_of_integer_eq in Hue, Hge by assumption.
    rewrite (sign_entry_spec _ n Hn) in Hint.
    destruct (cover_in n Hn) as [Hin Hnw].
    destruct (int_storage_bits_std n Hn) as (_ & _ & Hstd & Hnstd).
    change (int_storage_bits n) with (smallest_cover n) in Hstd, Hnstd.
    set (w := smallest_cover n) in *.
    pose proof (leaf_bits_value (TInt n) v eq_refl ltac:(cbn [wf]; lia) Ht) as Hz. cbn beta iota in Hz.
    assert (Hu : slice s i0 n = zof v mod 2 ^ n).
    { rewrite Hslice. cbn [enc_bits]. rewrite Z_of_bits_of, Z2Nat.id by lia. reflexivity. }
    rewrite <- (at_leaf_id vs fn stk a Hl (VZ 0) Hi).
    rewrite (go_dec_cast g vs fn stk a s i0 n Hs Hi0 ltac:(lia) Hlen ltac:(lia) w Hin Hnw
               (go_set_or_signed g vs fn stk a Hl (VZ 0) Hi e w He Hde Hke Hue Hin)).
    cbn [bind fst snd].
    destruct (is_std_width n) eqn:Estd.
    + rewrite (Hstd eq_refl), Z.eqb_refl in *.
      rewrite (go_process_int_none g vs fn stk a _ Hint). cbn [bind].
      unfold at_leaf. rewrite Hu, sext'_mod by lia. reflexivity.
    + specialize (Hnstd eq_refl). replace (n =? w) with false by (symmetry; lia).
      rewrite (go_process_int_sign g vs fn stk a Hl (VZ 0) Hi s i0 n ltac:(lia) w gt ge Hin Hnstd Hint Hst Hel Hge).
      cbn [bind]. unfold at_leaf. rewrite Hu, sext'_mod by lia. reflexivity.
  - (* enum *)
    cbn [go_proc_of go_dec need_di nbits canon gdreach go_default] in *.
    destruct Hr as ((e & He & Hde & Hue & Hke) & _ & _). cbn [go_type_of under is_boolb wf] in *.
    rewrite !andb_true_iff in Hw.
    assert (Hn : 1 <= n <= 64) by lia.
    rewrite get_nbits_of_integer_eq in Hue by assumption.
    destruct (cover_in n Hn) as [Hin Hnw].
    pose proof (leaf_bits_value (TEnum n ms) v eq_refl ltac:(cbn [wf]; rewrite !andb_true_iff; tauto) Ht) as Hz.
    cbn beta iota in Hz.
    apply (go_dec_leaf_unsigned g vs fn stk a (zof v) s i0 n (smallest_cover n) e); try assumption; try lia.
    left. assumption.
  - (* alias *)
    cbn [go_proc_of go_dec nbits canon enc_bits wf has_ty gdreach go_default] in *.
    cbn [shape_ok] in Hsh.
    assert (Hs' : shape_ok t = true) by (destruct t; try discriminate; exact Hsh).
    apply IH; assumption.
  - (* array *)
    cbn [go_proc_of]. rewrite go_dec_array. cbn zeta. cbn [ci cs].
    cbn [wf] in Hw. rewrite !andb_true_iff in Hw. destruct Hw as [[Hc1 Hc2] Hwe].
    cbn [shape_ok] in Hsh.
    assert (Hs' : shape_ok e = true) by (destruct e; try discriminate; exact Hsh).
    cbn [has_ty] in Ht. destruct v as [?|?|l|?]; try discriminate.
    rewrite andb_true_iff in Ht. destruct Ht as [Hlenl Hall]. apply Nat.eqb_eq in Hlenl.
    rewrite forallb_forall in Hall. cbn [gdreach] in Hr. cbn [go_default] in Hi.
    cbn [nbits enc_bits vlist canon] in *.
    pose proof (nbits_nonneg e Hwe) as Hne.
    (* the element loop *)
    assert (Loop : forall m k i,
               (k + m = cap)%nat -> 0 <= i ->
               i + Z.of_nat m * nbits e <= 8 * Z.of_nat (length s) ->
               slice s i (Z.of_nat m * nbits e) = Z_of_bits (flat_map (enc_bits e) (skipn k l)) ->
               go_dec_arr (go_proc_of e) g (Some fn) stk m k
                 (VM (set_field fn (set_idx a stk
                        (VL (map (canon e) (firstn k l) ++ repeat (go_default e) m))) vs))
                 {| cs := s; ci := i |} =
               Ok (VM (set_field fn (set_idx a stk (VL (map (canon e) l))) vs),
                   {| cs := s; ci := i + Z.of_nat m * nbits e |})).
    { induction m as [|m IHm]; intros k i Hkm Hi' Hlen' Hsl.
      - cbn [go_dec_arr repeat]. rewrite firstn_all2 by lia. rewrite app_nil_r.
        do 3 f_equal. lia.
      - cbn [go_dec_arr].
        assert (Hk : (k < length l)%nat) by lia.
        assert (Hnth : nth_error l k = Some (nth k l (VZ 0))) by (apply nth_error_nth'; lia).
        assert (Hin : In (nth k l (VZ 0)) l) by (eapply nth_error_In; eassumption).
        assert (Hsk : skipn k l = nth k l (VZ 0) :: skipn (S k) l).
        { clear - Hk. revert k Hk; induction l as [|a0 r IHl]; intros k Hk; [cbn in Hk; lia|].
          destruct k; [reflexivity|]. cbn [skipn nth]. apply IHl. cbn in Hk. lia. }
        rewrite Hsk in Hsl. cbn [flat_map] in Hsl.
        replace (Z.of_nat (S m) * nbits e) with (nbits e + Z.of_nat m * nbits e) in * by lia.
        destruct (slice_app_split s i (nbits e) (Z.of_nat m * nbits e) _ _ Hi' ltac:(nia)
                    (enc_bits_length e _ Hwe (Hall _ Hin)) Hsl) as [Hs1 Hs2].
        set (done := map (canon e) (firstn k l)).
        assert (Hdl : length done = k) by (unfold done; rewrite map_length, firstn_length; lia).
        set (ak := set_idx a stk (VL (done ++ repeat (go_default e) (S m)))).
        assert (Hlk : lookup fn (set_field fn ak vs) = Some ak) by (eapply lookup_set_field_same; eassumption).
        assert (Hik : index_val ak (stk ++ [k]) = Ok (go_default e)).
        { rewrite index_val_snoc. unfold ak. rewrite (index_set_idx _ _ _ _ Hi). cbn [bind index_val].
          rewrite <- Hdl. now rewrite nth_error_app_repeat. }
        rewrite (IH g (set_field fn ak vs) fn (stk ++ [k]) ak (nth k l (VZ 0)) s i Hwe Hs' (Hall _ Hin)).
        + cbn [bind fst snd]. rewrite set_field_twice. unfold ak.
          rewrite (set_idx_snoc a stk _ k _ _ Hi) by (rewrite app_length, repeat_length; lia).
          pose proof (upd_app_repeat done (go_default e) (canon e (nth k l (VZ 0))) m) as Hupd.
          rewrite Hdl in Hupd. rewrite Hupd.
          replace (done ++ [canon e (nth k l (VZ 0))]) with (map (canon e) (firstn (S k) l)).
          2:{ unfold done. clear - Hk. revert k Hk. induction l as [|a0 r IHl]; intros k Hk; [cbn in Hk; lia|].
              destruct k; [reflexivity|]. cbn [firstn map nth app]. f_equal. apply IHl. cbn in Hk. lia. }
          rewrite (IHm (S k) (i + nbits e)); try lia; try assumption.
          do 3 f_equal. lia.
        + rewrite app_length, Nat.add_1_r. exact Hr.
        + assumption.
        + exact Hlk.
        + exact Hik.
        + assumption.
        + assumption.
        + nia.
        + assumption.
        + exact Hs1. }
    assert (Hstart : VM vs = VM (set_field fn (set_idx a stk
                        (VL (map (canon e) (firstn 0 l) ++ repeat (go_default e) cap))) vs)).
    { cbn [firstn map app]. rewrite (set_idx_id _ _ _ Hi). now rewrite (set_field_id _ _ _ Hl). }
    unfold ext_bits in *. destruct x; cbv iota in *.
    + (* extensible: 16-bit capacity prefix, then the skip (a no-op for the same schema) *)
      assert (Hb16 : Z.of_nat (length (bits_of 16 (Z.of_nat cap))) = 16)
        by (rewrite bits_of_length; reflexivity).
      destruct (slice_app_split s i0 16 (Z.of_nat cap * nbits e) _ _ Hi0 ltac:(nia) Hb16 Hslice)
        as [Hp1 Hp2].
      assert (Hahead : go_dec_ahead {| cs := s; ci := i0 |} = Ok (Z.of_nat cap, {| cs := s; ci := i0 + 16 |})).
      { rewrite go_dec_ahead_spec by (try assumption; nia). rewrite Hp1, Z_of_bits_of. do 2 f_equal.
        apply Z.mod_small. change (2 ^ Z.of_nat 16) with 65536. lia. }
      rewrite Hahead. cbn [bind fst snd].
      rewrite Hstart at 1.
      rewrite (Loop cap 0%nat (i0 + 16)); try lia; try nia; try assumption.
      cbn [bind fst snd ci cs]. do 2 f_equal.
      unfold go_skip_to. cbn [ci cs].
      rewrite go_array_ito_eq by nia.
      unfold GenPy.array_ito, GenGo.ito_taken.
      replace (i0 + 16 + Z.of_nat cap * nbits e - i0 - 16) with (nbits e * Z.of_nat cap) by lia.
      rewrite Z.div_mul by lia.
      replace (i0 + 16 + Z.of_nat cap * nbits e >=? i0 + 16 + Z.of_nat cap * nbits e) with true
        by (symmetry; lia).
      f_equal. lia.
    + cbn [bind fst snd]. rewrite Z.add_0_l in *. rewrite Hstart at 1.
      cbn [app] in Hslice.
      rewrite (Loop cap 0%nat i0); try lia; try assumption. reflexivity.
  - (* message *)
    rewrite go_proc_of_msg, go_dec_msg, canon_msg, nbits_msg. cbn zeta. cbn [ci cs].
    cbn [gdreach] in Hr.
    rewrite go_default_msg in Hi.
    rewrite wf_msg in Hw. rewrite !andb_true_iff in Hw. destruct Hw as [[Hd Hsz] Hfw].
    rewrite shape_ok_msg in Hsh.
    destruct v as [?|?|?|vvs]; try discriminate. rewrite has_ty_msg in Ht.
    rewrite enc_bits_msg, nbits_msg in Hslice. rewrite nbits_msg in Hlen, Hsz.
    (* child accessor *)
    assert (Hget : go_get_accessor g (VM vs) fn stk = Ok (VM (go_default_fields fs))).
    { unfold go_get_accessor. rewrite Hr.
      rewrite <- (at_leaf_id vs fn stk a Hl _ Hi).
      apply (go_read_ref_at vs fn stk a Hl _ Hi). }
    rewrite Hget. cbn [bind].
    (* the fields loop *)
    assert (Fields : forall rest done i,
               fs = done ++ rest -> 0 <= i ->
               i + fields_nbits rest <= 8 * Z.of_nat (length s) ->
               slice s i (fields_nbits rest) = Z_of_bits (fields_bits (VM vvs) rest) ->
               go_dec_fields (go_cls_of x fs) (go_proc_fields rest)
                            (VM (canon_fields (VM vvs) done ++ go_default_fields rest))
                            {| cs := s; ci := i |} =
               Ok (VM (canon_fields (VM vvs) fs), {| cs := s; ci := i + fields_nbits rest |})).
    { induction rest as [|kf rest' IHr]; intros done i Hfs Hi' Hlen' Hsl.
      - cbn [go_proc_fields go_dec_fields go_default_fields fields_nbits fold_right].
        rewrite app_nil_r in *. subst done. do 3 f_equal. lia.
      - cbn [go_proc_fields go_dec_fields fst snd].
        assert (Hin : In kf fs) by (rewrite Hfs; apply in_or_app; right; now left).
        pose proof (proj1 (Forall_forall _ _) IH kf Hin) as Hk.
        assert (Hfacts : 1 <= fst kf <= 255 /\ wf (snd kf) = true /\ shape_ok (snd kf) = true /\
                         exists fv, lookup (fst kf) vvs = Some fv /\ has_ty (snd kf) fv = true).
        { clear - Hin Hfw Hsh Ht. induction fs as [|h r IHf]; [destruct Hin|].
          cbn [fields_wf fields_shape fields_has_ty] in *.
          rewrite !andb_true_iff in Hfw. rewrite !andb_true_iff in Hsh. rewrite !andb_true_iff in Ht.
          destruct Hfw as [[[H1 H2] H3] H4]. destruct Hsh as [H5 H6]. destruct Ht as [H7 H8].
          destruct Hin as [->|Hin].
          - repeat split; try lia; try assumption.
            destruct (lookup (fst kf) vvs) as [fv|]; [|discriminate]. exists fv. auto.
          - apply IHf; assumption. }
        destruct Hfacts as (Hk12 & Hwk & Hgk & fv & Hlk & Htk).
        assert (Hnotin : forall y, In y (canon_fields (VM vvs) done) -> fst y <> fst kf).
        { intros y Hy Heq. apply canon_fields_keys in Hy. rewrite Heq in Hy.
          rewrite Hfs, map_app in Hd. cbn [map] in Hd.
          exact (keys_distinct_app_notin _ _ _ Hd Hy). }
        cbn [go_default_fields fields_nbits fold_right fields_bits] in *.
        change (fold_right (fun kf0 acc0 => nbits (snd kf0) + acc0) 0 rest') with (fields_nbits rest') in *.
        assert (Hnr : 0 <= fields_nbits rest').
        { assert (Hwr : fields_wf rest' = true).
          { clear - Hfs Hfw. subst fs. induction done as [|h r IHd]; cbn [app fields_wf] in Hfw.
            - rewrite !andb_true_iff in Hfw. tauto.
            - rewrite !andb_true_iff in Hfw. apply IHd. tauto. }
          clear - Hwr. induction rest' as [|h r IHr']; [cbn; lia|].
          cbn [fields_wf] in Hwr. rewrite !andb_true_iff in Hwr. destruct Hwr as [[[_ _] Ha] Hr].
          cbn [fields_nbits fold_right]. pose proof (nbits_nonneg _ Ha). specialize (IHr' Hr).
          unfold fields_nbits in IHr'. lia. }
        pose proof (nbits_nonneg _ Hwk) as Hnk.
        assert (Hvf : vfield (fst kf) (VM vvs) = fv) by (unfold vfield; now rewrite Hlk).
        rewrite Hvf in Hsl.
        destruct (slice_app_split s i (nbits (snd kf)) (fields_nbits rest') _ _ Hi' Hnr
                    (enc_bits_length _ _ Hwk Htk) Hsl) as [Hs1 Hs2].
        set (cur := canon_fields (VM vvs) done ++ (fst kf, go_default (snd kf)) :: go_default_fields rest').
        assert (Hlc : lookup (fst kf) cur = Some (go_default (snd kf))).
        { unfold cur. rewrite lookup_app_skip by exact Hnotin. cbn [lookup fst snd].
          now rewrite Z.eqb_refl. }
        rewrite (Hk (go_cls_of x fs) cur (fst kf) [] (go_default (snd kf)) fv s i); try assumption; try lia.
        + cbn [bind fst snd set_idx]. unfold cur.
          rewrite set_field_app_skip by exact Hnotin. cbn [set_field fst]. rewrite Z.eqb_refl.
          replace (canon_fields (VM vvs) done ++ (fst kf, canon (snd kf) fv) :: go_default_fields rest')
            with (canon_fields (VM vvs) (done ++ [kf]) ++ go_default_fields rest').
          2:{ rewrite canon_fields_app. cbn [canon_fields]. rewrite Hvf, <- app_assoc. reflexivity. }
          rewrite (IHr (done ++ [kf]) (i + nbits (snd kf))); try lia; try assumption.
          * do 3 f_equal. lia.
          * rewrite <- app_assoc. exact Hfs.
        + cbn [length]. destruct kf as [k ft]. apply gdreach_field; assumption.
        + reflexivity. }
    assert (Hnf : 0 <= fields_nbits fs).
    { clear - Hfw. induction fs as [|h r IHf]; [cbn; lia|].
      cbn [fields_wf] in Hfw. rewrite !andb_true_iff in Hfw. destruct Hfw as [[[_ _] Ha] Hr].
      cbn [fields_nbits fold_right]. pose proof (nbits_nonneg _ Ha). specialize (IHf Hr).
      unfold fields_nbits in IHf. lia. }
    assert (Hput : forall child, go_put_accessor g (VM vs) fn stk child =
                                 Ok (VM (set_field fn (set_idx a stk child) vs))).
    { intros child. unfold go_put_accessor. rewrite Hr.
      rewrite <- (at_leaf_id vs fn stk a Hl _ Hi) at 1.
      apply (go_write_ref_at vs fn stk a Hl _ Hi). }
    unfold ext_bits in *. destruct x; cbv iota in *.
    + assert (Hb16 : Z.of_nat (length (bits_of 16 (nbits (TMsg true fs)))) = 16)
        by (rewrite bits_of_length; reflexivity).
      destruct (slice_app_split s i0 16 (fields_nbits fs) _ _ Hi0 Hnf Hb16 Hslice) as [Hp1 Hp2].
      assert (Hahead : go_dec_ahead {| cs := s; ci := i0 |} =
                       Ok (16 + fields_nbits fs, {| cs := s; ci := i0 + 16 |})).
      { rewrite go_dec_ahead_spec by (try assumption; lia). rewrite Hp1, Z_of_bits_of. do 2 f_equal.
        rewrite nbits_msg. unfold ext_bits.
        apply Z.mod_small. change (2 ^ Z.of_nat 16) with 65536. lia. }
      rewrite Hahead. cbn [bind fst snd].
      pose proof (Fields fs [] (i0 + 16) eq_refl ltac:(lia) ltac:(lia) Hp2) as HF.
      cbn [canon_fields app] in HF. rewrite HF.
      cbn [bind fst snd]. rewrite Hput. cbn [bind]. do 2 f_equal.
      unfold go_skip_to. cbn [ci cs].
      rewrite go_message_ito_eq by (unfold small; lia).
      unfold GenPy.message_ito, GenGo.ito_taken.
      replace (i0 + (16 + fields_nbits fs) >=? i0 + 16 + fields_nbits fs) with true by (symmetry; lia).
      f_equal; lia.
    + cbn [bind fst snd]. rewrite Z.add_0_l in *. cbn [app] in Hslice.
      pose proof (Fields fs [] i0 eq_refl ltac:(lia) ltac:(lia) Hslice) as HF.
      cbn [canon_fields app] in HF. rewrite HF.
      cbn [bind fst snd]. rewrite Hput. reflexivity.
Qed.

(* ---------- top level: Decode(Encode(v)) is the canonical Go storage of v ---------- *)

Lemma go_top_from_nested x fs R s X :
  go_dec (go_proc_of (TMsg x fs)) (go_cls_of false [(1, TMsg x fs)]) (VM [(1, go_default (TMsg x fs))])
         (Some 1) [] {| cs := s; ci := 0 |} = Ok (VM [(1, R)], X) ->
  go_dec (go_proc_of (TMsg x fs)) go_nil_cls (go_default (TMsg x fs)) None [] {| cs := s; ci := 0 |} =
  Ok (R, X).
Proof.
  rewrite go_proc_of_msg, go_dec_msg, go_dec_msg_top. cbn zeta.
  change (go_get_accessor (go_cls_of false [(1, TMsg x fs)]) (VM [(1, go_default (TMsg x fs))]) 1 [])
    with (Ok (go_default (TMsg x fs))).
  cbn [bind].
  destruct (if x then go_dec_ahead {| cs := s; ci := 0 |} else Ok (0, {| cs := s; ci := 0 |})) as [r0|e];
    [|discriminate].
  cbn [bind].
  destruct (go_dec_fields (go_cls_of x fs) (go_proc_fields fs) (go_default (TMsg x fs)) (snd r0)) as [r|e];
    [|discriminate].
  cbn [bind].
  change (go_put_accessor (go_cls_of false [(1, TMsg x fs)]) (VM [(1, go_default (TMsg x fs))]) 1 [] (fst r))
    with (Ok (VM [(1, fst r)])).
  cbn [bind]. intros H. injection H as H1 H2. rewrite H1, <- H2. reflexivity.
Qed.

Theorem go_decode_wire t v :
  is_msg t = true -> wf (norm t) = true -> shape_ok (norm t) = true -> has_ty (norm t) v = true ->
  go_decode t (wire t v) = Ok (canon (norm t) v).
Proof.
  intros Hm Hw Hsh Ht. unfold go_decode, go_decode_proc.
  set (T := norm t) in *.
  assert (HT : exists x fs, T = TMsg x fs).
  { subst T. destruct t; try discriminate. cbn [norm]. eauto. }
  destruct HT as (x & fs & ET).
  pose proof (nbits_nonneg T Hw) as Hnn.
  pose proof (wire_length t v Hw Ht) as Hlen. fold T in Hlen.
  assert (Hlen8 : nbits T <= 8 * Z.of_nat (length (wire t v))).
  { rewrite Hlen. unfold T. rewrite nbits_norm. pose proof (Z.div_mod (nbits t + 7) 8 ltac:(lia)).
    pose proof (Z.mod_pos_bound (nbits t + 7) 8 ltac:(lia)). lia. }
  assert (Hsmall : Z.of_nat (length (wire t v)) < 2 ^ 36).
  { rewrite Hlen. change (2 ^ 36) with 68719476736.
    assert (nbits t <= 65535).
    { rewrite <- nbits_norm. fold T. pose proof Hw as Hw'. rewrite ET in Hw' |- *. rewrite wf_msg in Hw'.
      rewrite !andb_true_iff in Hw'. lia. }
    apply Z.div_lt_upper_bound; lia. }
  assert (Hslice : slice (wire t v) 0 (nbits T) = Z_of_bits (enc_bits T v)).
  { unfold slice, wire. fold T. rewrite bufZ_pack. change (2 ^ 0) with 1. rewrite Z.div_1_r.
    apply Z.mod_small. pose proof (Z_of_bits_range (enc_bits T v)) as Hr.
    rewrite (enc_bits_length T v Hw Ht) in Hr. exact Hr. }
  pose proof (go_dec_ok_all T (go_cls_of false [(1, T)]) [(1, go_default T)] 1 [] (go_default T) v (wire t v) 0
                            Hw Hsh Ht) as H.
  rewrite ET in *.
  rewrite (go_top_from_nested x fs (canon (TMsg x fs) v) (wire t v)
             {| cs := wire t v; ci := 0 + nbits (TMsg x fs) |}).
  - reflexivity.
  - apply H; try lia; try reflexivity; try apply pack_bytes_ok; try exact Hslice; try exact Hsmall.
Qed.

(* Decode(Encode(v)) = v field by field, and re-encoding the decoded struct reproduces the bytes *)
Theorem go_roundtrip t v :
  is_msg t = true -> wf (norm t) = true -> shape_ok (norm t) = true -> has_ty (norm t) v = true ->
  exists b v',
    go_encode t v = Ok b /\ go_decode t b = Ok v' /\
    val_sim (norm t) v' v = true /\ go_encode t v' = Ok b /\ b = wire t v /\ v' = canon (norm t) v.
Proof.
  intros Hm Hw Hsh Ht. exists (wire t v), (canon (norm t) v). repeat split.
  - now apply go_encode_is_wire.
  - now apply go_decode_wire.
  - now apply val_sim_canon.
  - rewrite (go_encode_is_wire t _ Hm Hw Hsh (has_ty_canon _ v Hw Ht)).
    unfold wire. now rewrite (enc_bits_canon _ v Hw Ht).
Qed.
