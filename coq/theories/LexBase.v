(* LexBase.v — text level of the compiler front end: the data the generated file
   coq/gen/GenLexer.v is written in (regular expressions over CODE POINTS with the constructs
   bitproto's token rules use, rule-action descriptors, token values) and the Python
   primitives of the rule actions over code points.

   DOMAIN.  A Python `str` is a sequence of Unicode code points; a code point is modelled as
   an [N] (no upper bound is assumed anywhere).  For `str` patterns `\b` / `\w` are Unicode
   aware: a word character is `_` or a character with str.isalnum().  The ASCII part of that
   predicate is written out below ([ascii_word]); the non-ASCII part is a PARAMETER [uw] of
   the model (a Section variable in Lex.v / LexProofs*.v: every theorem holds for EVERY such
   predicate), instantiated in the case files by the table [uni_word] that the translator
   reads off the interpreter that runs the implementation. *)
From Coq Require Import NArith ZArith List Bool String Ascii Lia.
From BP Require Import TotalBase.
Import ListNotations.

(* ---------- regular expressions (what re._parser.parse yields for the token rules) ------ *)
Inductive rx : Type :=
| XEps
| XChar (c : N)                           (* LITERAL c *)
| XNotChar (c : N)                        (* NOT_LITERAL c *)
| XAny                                    (* `.` without DOTALL: anything but "\n" *)
| XIn (neg : bool) (items : list (N * N)) (* [...] / [^...]: inclusive ranges; a literal c is (c,c) *)
| XBound                                  (* \b *)
| XSeq (a b : rx)
| XAlt (a b : rx)                         (* ordered alternation *)
| XStar (greedy : bool) (a : rx).         (* a* (greedy) / a*? (lazy) *)

(* a+ / a+? : MAX_REPEAT / MIN_REPEAT with lower bound 1 *)
Definition XPlus (greedy : bool) (a : rx) : rx := XSeq a (XStar greedy a).

Definition NL : N := 10%N.

Definition in_ranges (items : list (N * N)) (c : N) : bool :=
  existsb (fun r => N.leb (fst r) c && N.leb c (snd r)) items.

Definition is_atom (r : rx) : bool :=
  match r with XChar _ | XNotChar _ | XAny | XIn _ _ => true | _ => false end.

Definition atom_ok (r : rx) (c : N) : bool :=
  match r with
  | XChar k => N.eqb c k
  | XNotChar k => negb (N.eqb c k)
  | XAny => negb (N.eqb c NL)
  | XIn neg items => xorb neg (in_ranges items c)
  | _ => false
  end.

(* the ASCII part of \w *)
Definition ascii_word (c : N) : bool :=
  (N.leb 48 c && N.leb c 57) || (N.leb 65 c && N.leb c 90) || (N.leb 97 c && N.leb c 122) || N.eqb c 95.

(* ---------- rule actions ---------------------------------------------------------------- *)
(* what a rule function does to t.value *)
Inductive conv : Type :=
| CvKeep                                   (* t.value stays the lexeme *)
| CvNode (cls : string)                    (* t.value = Cls(token=t.value, lineno=t.lineno, filepath=..) *)
| CvCapNode (cls : string) (skip : nat)    (* cap = int(t.value[skip:]); t.value = Cls(cap=cap, token=.., lineno=..) *)
| CvInt (base : Z)                         (* t.value = int(t.value[, base]) *)
| CvBoolIn (l : list (list N))             (* t.value = t.value in (..) *)
| CvUnescape.                              (* the escape loop of t_STRING_LITERAL *)

Record action : Type := mkAct {
  a_lineinc : Z;                 (* t.lexer.lineno += k   (0 when the rule does not touch it) *)
  a_settype : option (list N);   (* t.type = "..." *)
  a_conv : conv;
  a_kw : bool }.                 (* if t.value in self.keywords: t.type = t.value.upper() *)

(* a rule of the master regular expression: token name, regex, action (None: a string rule) *)
Record rule : Type := mkRule {
  r_name : list N;
  r_rx : rx;
  r_act : option action }.

(* token values *)
Inductive tvalue : Type :=
| VText (s : list N)
| VInt (z : Z)
| VBool (b : bool)
| VNode (cls : string) (cap : option Z) (tok : list N) (line : Z).

(* ---------- helpers over code points ---------------------------------------------------- *)
Fixpoint cps_eqb (a b : list N) : bool :=
  match a, b with
  | [], [] => true
  | x :: r, y :: s => N.eqb x y && cps_eqb r s
  | _, _ => false
  end.

Lemma cps_eqb_eq a : forall b, cps_eqb a b = true <-> a = b.
Proof.
  induction a as [|x a IH]; intros [|y b]; cbn [cps_eqb]; try (split; [discriminate|discriminate]);
    try (split; reflexivity).
  rewrite andb_true_iff, N.eqb_eq, IH. split.
  - intros [-> ->]. reflexivity.
  - intro H. inversion H. auto.
Qed.

Definition cp_mem (c : N) (l : list N) : bool := existsb (N.eqb c) l.
Definition cps_mem (w : list N) (l : list (list N)) : bool := existsb (cps_eqb w) l.

(* str.upper() on the ASCII letters (the translator checks that the keywords are ASCII) *)
Definition cp_upper (c : N) : N := if N.leb 97 c && N.leb c 122 then (c - 32)%N else c.

(* dict with single-character keys over code points *)
Fixpoint ntable_get {V} (d : list (N * V)) (k : N) : option V :=
  match d with
  | [] => None
  | (k', v) :: r => if N.eqb k k' then Some v else ntable_get r k
  end.
Definition ntable_mem {V} (d : list (N * V)) (k : N) : bool :=
  match ntable_get d k with Some _ => true | None => false end.
Definition npy_dict_get {V} (d : list (N * V)) (k : N) : outcome V :=
  match ntable_get d k with Some v => Ok v | None => Crash KeyError end.

(* int(s, base) on code points: exactly TotalBase.py_int, for the digits a token rule can
   hand over (ASCII digits / letters; anything else is the ValueError CPython raises — the
   theorems show that branch is never taken on a lexeme of the rule's regex) *)
Definition ndigit_of (base : Z) (c : N) : option Z :=
  let n := Z.of_N c in
  let d := if (48 <=? n)%Z && (n <=? 57)%Z then (n - 48)%Z
           else if (97 <=? n)%Z && (n <=? 122)%Z then (n - 87)%Z
           else if (65 <=? n)%Z && (n <=? 90)%Z then (n - 55)%Z
           else 99%Z in
  if (d <? base)%Z then Some d else None.

Fixpoint ndigits_value (base : Z) (acc : Z) (s : list N) : option Z :=
  match s with
  | [] => Some acc
  | c :: r => match ndigit_of base c with
              | Some d => ndigits_value base (acc * base + d)%Z r
              | None => None
              end
  end.

Definition nstrip_0x (base : Z) (s : list N) : list N :=
  match s with
  | z :: x :: r =>
      if (base =? 16)%Z && N.eqb z 48 && (N.eqb x 120 || N.eqb x 88) then r else s
  | _ => s
  end.

Definition npy_int (base maxd : Z) (s0 : list N) : outcome Z :=
  let s := nstrip_0x base s0 in
  match s with
  | [] => Crash ValueError
  | _ =>
      if negb (is_pow2_base base) && (maxd <? zlen s)%Z then Crash ValueError
      else match ndigits_value base 0 s with
           | Some z => Ok z
           | None => Crash ValueError
           end
  end.

(* range table lookup (the non-ASCII word characters) *)
Definition in_table (t : list (N * N)) (c : N) : bool := in_ranges t c.

(* Coq string -> code points (names in generated tables) *)
Fixpoint cps_of_string (s : string) : list N :=
  match s with
  | EmptyString => []
  | String a r => N_of_ascii a :: cps_of_string r
  end.
