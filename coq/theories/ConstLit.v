(* ConstLit.v — literals of constants (property C13): how the compiler WRITES an integer, a
   boolean and a string constant into C, Go and Python (templates translated from the
   formatters, BPGen.GenC13) and how each language READS such a literal back.

   Texts are lists of byte codes (UTF-8 bytes of the emitted file; bytes >= 128 are passed
   through by every reader: trusted for well-formed UTF-8 without BOM).

   Readers are models of the languages, not of bitproto:
     C      ISO C11 6.4.4.1 / 6.4.5 with gcc's choices where the standard leaves them open
            (unknown escape -> the character, `\e`, CR ends a line, NUL kept); tied to gcc by T2
     Python CPython 3.12 lexical analysis 2.4.1 / 2.4.5, int_max_str_digits = 4300; tied by T2
     Go     The Go Programming Language Specification, "Integer literals", "String literals",
            "Constants" — never executed in this sandbox (no toolchain): spec reading only. *)
From Coq Require Import ZArith List Bool Lia.
From BPGen Require Import GenC13.
Import ListNotations.
Open Scope Z_scope.

Definition text := list Z.

Fixpoint text_eqb (a b : text) : bool :=
  match a, b with
  | [], [] => true
  | x :: r, y :: s => (x =? y) && text_eqb r s
  | _, _ => false
  end.

Fixpoint text_mem (a : text) (l : list text) : bool :=
  match l with [] => false | b :: r => text_eqb a b || text_mem a r end.

(* ------------------------------------------------------------------------------------ *)
(* digits                                                                               *)
(* ------------------------------------------------------------------------------------ *)

Definition digit_char (d : Z) : Z := if d <? 10 then 48 + d else 87 + d.

Definition digit_val (c : Z) : option Z :=
  if (48 <=? c) && (c <=? 57) then Some (c - 48)
  else if (97 <=? c) && (c <=? 102) then Some (c - 87)
  else if (65 <=? c) && (c <=? 70) then Some (c - 55)
  else None.

(* Python int(text, base) / the positional value every language gives a digit string *)
Fixpoint horner (base acc : Z) (s : text) : option Z :=
  match s with
  | [] => Some acc
  | c :: r => match digit_val c with
              | Some d => if d <? base then horner base (acc * base + d) r else None
              | None => None
              end
  end.

Definition int_of_text (base : Z) (s : text) : option Z :=
  match s with [] => None | _ => horner base 0 s end.

(* little-endian digits of n >= 0 *)
Fixpoint le_digits (fuel : nat) (base n : Z) : list Z :=
  match fuel with
  | O => []
  | S f => (n mod base) :: (if n / base =? 0 then [] else le_digits f base (n / base))
  end.

Definition le_val (base : Z) (ds : list Z) : Z := fold_right (fun d a => d + base * a) 0 ds.

Definition nat_digits (base n : Z) : text :=
  map digit_char (rev (le_digits (S (Z.to_nat (Z.log2 n))) base n)).

(* Python "{0}".format(z) / str(z) for an int *)
Definition dec_text (z : Z) : text :=
  if z <? 0 then 45 :: nat_digits 10 (- z) else nat_digits 10 z.

(* ------------------------------------------------------------------------------------ *)
(* what the compiler writes (templates from the formatters, T0)                          *)
(* ------------------------------------------------------------------------------------ *)

Inductive lang := LC | LGo | LPy.

Definition int_prefix (l : lang) := match l with LC => c_int_prefix | LGo => go_int_prefix | LPy => py_int_prefix end.
Definition int_suffix (l : lang) := match l with LC => c_int_suffix | LGo => go_int_suffix | LPy => py_int_suffix end.
Definition str_prefix (l : lang) := match l with LC => c_str_prefix | LGo => go_str_prefix | LPy => py_str_prefix end.
Definition str_suffix (l : lang) := match l with LC => c_str_suffix | LGo => go_str_suffix | LPy => py_str_suffix end.
Definition bool_true (l : lang) := match l with LC => c_bool_true | LGo => go_bool_true | LPy => py_bool_true end.
Definition bool_false (l : lang) := match l with LC => c_bool_false | LGo => go_bool_false | LPy => py_bool_false end.
Definition str_escaped (l : lang) := match l with LC => c_str_escaped | LGo => go_str_escaped | LPy => py_str_escaped end.

(* Formatter.escape_str_value (table, control-character condition and prefix translated, T0):
   a character of the table is replaced; a control character becomes <prefix> + "{0:03o}" of its
   code (exactly three octal digits below 512); anything else is written as it is *)
Fixpoint lookup_rep (c : Z) (tbl : list (Z * list Z)) : option (list Z) :=
  match tbl with
  | [] => None
  | (k, r) :: t => if c =? k then Some r else lookup_rep c t
  end.
Definition octal3 (c : Z) : text := [48 + c / 64; 48 + (c / 8) mod 8; 48 + c mod 8].
Definition esc_char (c : Z) : text :=
  match lookup_rep c str_escapes with
  | Some r => r
  | None => if str_ctrl c then str_ctrl_prefix ++ octal3 c else [c]
  end.

(* format_str_value: "<pre>{0}<suf>".format(self.escape_str_value(value)), or the value verbatim
   when the formatter does not call the helper (str_escaped = false) *)
Definition format_str (l : lang) (s : text) : text :=
  str_prefix l ++ (if str_escaped l then flat_map esc_char s else s) ++ str_suffix l.

(* "<pre>{0}<suf>".format(value) *)
Definition format_int (l : lang) (z : Z) : text := int_prefix l ++ dec_text z ++ int_suffix l.
Definition format_bool (l : lang) (b : bool) : text := if b then bool_true l else bool_false l.

Inductive cvalue := VInt (z : Z) | VBool (b : bool) | VStr (s : text).

Definition cvalue_eqb (a b : cvalue) : bool :=
  match a, b with
  | VInt x, VInt y => x =? y
  | VBool x, VBool y => Bool.eqb x y
  | VStr x, VStr y => text_eqb x y
  | _, _ => false
  end.

(* Formatter.format_value: bool first (True/False are ints in Python), then str, then int *)
Definition format_value (l : lang) (v : cvalue) : text :=
  match v with
  | VBool b => format_bool l b
  | VStr s => format_str l s
  | VInt z => format_int l z
  end.

Definition type_name (l : lang) (v : cvalue) : text :=
  match l, v with
  | LC, _ => []
  | LGo, VInt _ => go_int_type | LGo, VStr _ => go_str_type | LGo, VBool _ => go_bool_type
  | LPy, VInt _ => py_int_type | LPy, VStr _ => py_str_type | LPy, VBool _ => py_bool_type
  end.

Definition const_template (l : lang) :=
  match l with LC => c_const_template | LGo => go_const_template | LPy => py_const_template end.

(* the line BlockConstant pushes: template instantiated with name, type name, literal *)
Definition emit_const (l : lang) (name : text) (v : cvalue) : text :=
  flat_map (fun p : Z * text =>
              let (k, t) := p in
              if k =? 0 then t else if k =? 1 then name else if k =? 2 then type_name l v
              else format_value l v) (const_template l).

(* SPECIFICATION of an escaping that is valid in all three languages (written independently of the
   source; ConstLitProofs.esc_char_is_std compares the translated helper with it): backslash,
   double quote, LF, CR, TAB by their two-character escapes, other control characters as exactly
   three octal digits *)
Definition esc_char_std (c : Z) : text :=
  if c =? 92 then [92; 92]
  else if c =? 34 then [92; 34]
  else if c =? 10 then [92; 110]
  else if c =? 13 then [92; 114]
  else if c =? 9 then [92; 116]
  else if (c <? 32) || (c =? 127) then [92; 48 + c / 64; 48 + (c / 8) mod 8; 48 + c mod 8]
  else [c].
Definition format_str_fixed (s : text) : text := 34 :: flat_map esc_char_std s ++ [34].

(* ------------------------------------------------------------------------------------ *)
(* integer and boolean readers                                                           *)
(* ------------------------------------------------------------------------------------ *)

Definition split_sign (s : text) : bool * text :=
  match s with c :: r => if c =? 45 then (true, r) else (false, s) | [] => (false, []) end.

Definition signed (neg : bool) (v : Z) : Z := if neg then - v else v.

(* C: decimal-constant | octal-constant (leading 0) | hexadecimal-constant, no suffix; the type of
   an unsuffixed decimal constant is the first of int, long, long long that holds it: above
   LLONG_MAX there is no exact standard meaning (gcc warns) -> None.  A leading `-` is the unary
   operator applied to the constant. *)
Definition c_llong_max : Z := 2 ^ 63 - 1.
Definition c_read_unsigned (s : text) : option Z :=
  match s with
  | c0 :: c1 :: r =>
    if c0 =? 48 then
      if (c1 =? 120) || (c1 =? 88) then int_of_text 16 r else int_of_text 8 (c1 :: r)
    else int_of_text 10 s
  | _ => int_of_text 10 s
  end.
Definition c_read_int (s : text) : option Z :=
  let (neg, r) := split_sign s in
  match c_read_unsigned r with
  | Some v => if v <=? c_llong_max then Some (signed neg v) else None
  | None => None
  end.
Definition in_range_c (z : Z) : Prop := - c_llong_max <= z <= c_llong_max.

(* Go: int_lit = decimal ("0" | nonzero digits) | 0b | 0o | legacy octal 0[0-7]+ | 0x; untyped
   constant arithmetic is exact, then the constant must be representable in `int`
   (bits = 32 or 64 depending on the platform) *)
Definition go_read_unsigned (s : text) : option Z :=
  match s with
  | c0 :: c1 :: r =>
    if c0 =? 48 then
      if (c1 =? 120) || (c1 =? 88) then int_of_text 16 r
      else if (c1 =? 111) || (c1 =? 79) then int_of_text 8 r
      else if (c1 =? 98) || (c1 =? 66) then int_of_text 2 r
      else int_of_text 8 (c1 :: r)
    else int_of_text 10 s
  | _ => int_of_text 10 s
  end.
Definition go_read_int (bits : Z) (s : text) : option Z :=
  let (neg, r) := split_sign s in
  match go_read_unsigned r with
  | Some v => let z := signed neg v in
              if (- 2 ^ (bits - 1) <=? z) && (z <? 2 ^ (bits - 1)) then Some z else None
  | None => None
  end.
Definition in_range_go (bits z : Z) : Prop := - 2 ^ (bits - 1) <= z < 2 ^ (bits - 1).

(* Python 3: decinteger = nonzero digits | "0"+ ; 0x 0o 0b; a decimal literal of more than
   int_max_str_digits digits is a SyntaxError (and str(int) of such a number a ValueError) *)
Definition py_max_str_digits : Z := 4300.
Definition all_zero (s : text) : bool := forallb (fun c => c =? 48) s.
Definition py_read_decimal (s : text) : option Z :=
  if Z.of_nat (length s) <=? py_max_str_digits then int_of_text 10 s else None.
Definition py_read_unsigned (s : text) : option Z :=
  match s with
  | c0 :: c1 :: r =>
    if c0 =? 48 then
      if (c1 =? 120) || (c1 =? 88) then int_of_text 16 r
      else if (c1 =? 111) || (c1 =? 79) then int_of_text 8 r
      else if (c1 =? 98) || (c1 =? 66) then int_of_text 2 r
      else if all_zero (c1 :: r) then Some 0 else None
    else py_read_decimal s
  | _ => py_read_decimal s
  end.
Definition py_read_int (s : text) : option Z :=
  let (neg, r) := split_sign s in
  match py_read_unsigned r with Some v => Some (signed neg v) | None => None end.
Definition in_range_py (z : Z) : Prop := Z.abs z < 10 ^ py_max_str_digits.

Definition read_int (l : lang) (s : text) : option Z :=
  match l with LC => c_read_int s | LGo => go_read_int 64 s | LPy => py_read_int s end.

(* booleans: C with <stdbool.h> (the generated header includes it): true / false; Go: the
   predeclared constants true / false; Python: True / False *)
Definition kw_true : text := [116; 114; 117; 101].
Definition kw_false : text := [102; 97; 108; 115; 101].
Definition kw_True : text := [84; 114; 117; 101].
Definition kw_False : text := [70; 97; 108; 115; 101].
Definition read_bool (l : lang) (s : text) : option bool :=
  match l with
  | LC | LGo => if text_eqb s kw_true then Some true else if text_eqb s kw_false then Some false else None
  | LPy => if text_eqb s kw_True then Some true else if text_eqb s kw_False then Some false else None
  end.

(* ------------------------------------------------------------------------------------ *)
(* string readers                                                                        *)
(* ------------------------------------------------------------------------------------ *)

(* RdOk s: the text is one expression of string type denoting s;  RdErr: the language rejects
   it;  RdUnmodelled: outside this model (\u \U \N escapes, code points above 127 produced by
   escapes, triple quotes, prefixes, anything but adjacent double-quoted literals after the first one) *)
Inductive rd := RdOk (s : text) | RdErr | RdUnmodelled.

Definition is_oct (c : Z) : bool := (48 <=? c) && (c <=? 55).
Definition is_hex (c : Z) : bool := match digit_val c with Some _ => true | None => false end.
Definition hexv (c : Z) : Z := match digit_val c with Some d => d | None => 0 end.
Definition is_blank (c : Z) : bool := (c =? 32) || (c =? 9).

(* simple escapes shared by the three languages: \a \b \f \n \r \t \v, escaped backslash, escaped double quote *)
Definition common_escape (e : Z) : option Z :=
  if e =? 97 then Some 7 else if e =? 98 then Some 8 else if e =? 102 then Some 12
  else if e =? 110 then Some 10 else if e =? 114 then Some 13 else if e =? 116 then Some 9
  else if e =? 118 then Some 11 else if e =? 92 then Some 92 else if e =? 34 then Some 34
  else None.

Definition starts_two_quotes (s : text) : bool :=
  match s with a :: b :: _ => (a =? 34) && (b =? 34) | _ => false end.

(* ---- Python: double-quoted literal (not raw, no prefix); adjacent literals are concatenated -- *)
Fixpoint py_scan (s : text) (inlit : bool) (acc : text) : rd :=
  match s with
  | [] => if inlit then RdErr else RdOk (rev acc)
  | c :: r =>
    if inlit then
      if c =? 34 then py_scan r false acc
      else if (c =? 10) || (c =? 13) || (c =? 0) then RdErr
      else if c =? 92 then
        match r with
        | [] => RdErr
        | e :: r1 =>
          if e =? 10 then py_scan r1 true acc                     (* backslash-newline: ignored *)
          else if e =? 13 then                                    (* CR and CR LF are newlines too *)
            match r1 with
            | d :: r2 => if d =? 10 then py_scan r2 true acc else py_scan r1 true acc
            | [] => py_scan r1 true acc
            end
          else if e =? 0 then RdErr
          else match common_escape e with
          | Some v => py_scan r1 true (v :: acc)
          | None =>
            if e =? 39 then py_scan r1 true (39 :: acc)
            else if is_oct e then                                  (* \o, \oo, \ooo *)
              match r1 with
              | d2 :: r2 =>
                if is_oct d2 then
                  match r2 with
                  | d3 :: r3 =>
                    if is_oct d3 then
                      let v := (e - 48) * 64 + (d2 - 48) * 8 + (d3 - 48) in
                      if v <? 128 then py_scan r3 true (v :: acc) else RdUnmodelled
                    else py_scan r2 true ((e - 48) * 8 + (d2 - 48) :: acc)
                  | [] => py_scan r2 true ((e - 48) * 8 + (d2 - 48) :: acc)
                  end
                else py_scan r1 true (e - 48 :: acc)
              | [] => py_scan r1 true (e - 48 :: acc)
              end
            else if e =? 120 then                                  (* \xhh: exactly two *)
              match r1 with
              | h1 :: h2 :: r3 =>
                if is_hex h1 && is_hex h2 then
                  let v := hexv h1 * 16 + hexv h2 in
                  if v <? 128 then py_scan r3 true (v :: acc) else RdUnmodelled
                else RdErr
              | _ => RdErr
              end
            else if (e =? 117) || (e =? 85) || (e =? 78) then RdUnmodelled   (* \u \U \N *)
            else if e <? 128 then py_scan r1 true (e :: 92 :: acc)  (* unknown: backslash kept *)
            else RdUnmodelled
          end
        end
      else py_scan r true (c :: acc)
    else
      if is_blank c then py_scan r false acc
      else if c =? 34 then
        if starts_two_quotes r then RdUnmodelled else py_scan r true acc
      else RdUnmodelled
  end.

Definition py_read_string (s : text) : rd :=
  match s with
  | c :: r => if c =? 34 then (if starts_two_quotes r then RdUnmodelled else py_scan r true [])
              else RdUnmodelled
  | [] => RdUnmodelled
  end.

(* ---- C (gcc): translation phase 2 removes backslash-newline everywhere, then adjacent
        string literals are concatenated; the macro body ends at the end of the line --------- *)
Fixpoint c_splice (s : text) : text :=
  match s with
  | c :: r =>
    if c =? 92 then
      match r with
      | d :: r1 =>
        if d =? 10 then c_splice r1
        else if d =? 13 then                                      (* gcc: CR and CR LF end a line too *)
          match r1 with
          | d2 :: r2 => if d2 =? 10 then c_splice r2 else c_splice r1
          | [] => []
          end
        else c :: c_splice r
      | [] => [c]
      end
    else c :: c_splice r
  | [] => []
  end.

Definition c_blank (c : Z) : bool := (c =? 32) || (c =? 9) || (c =? 11) || (c =? 12).

Fixpoint c_hex_run (s : text) (acc : Z) : Z * text :=
  match s with
  | h :: r => if is_hex h then c_hex_run r (acc * 16 + hexv h) else (acc, s)
  | [] => (acc, [])
  end.

(* fuel only for the greedy \x run, whose continuation is not a pattern sub-term *)
Fixpoint c_scan (fuel : nat) (s : text) (inlit : bool) (acc : text) : rd :=
  match fuel with
  | O => RdUnmodelled
  | S f =>
  match s with
  | [] => if inlit then RdErr else RdOk (rev acc)
  | c :: r =>
    if inlit then
      if c =? 34 then c_scan f r false acc
      else if (c =? 10) || (c =? 13) then RdErr                    (* missing terminating quote *)
      else if c =? 92 then
        match r with
        | [] => RdErr
        | e :: r1 =>
          if (e =? 10) || (e =? 13) then RdErr
          else if c_blank e then RdUnmodelled        (* gcc splices `\ <blanks> newline` with a warning *)
          else match common_escape e with
          | Some v => c_scan f r1 true (v :: acc)
          | None =>
            if e =? 39 then c_scan f r1 true (39 :: acc)
            else if e =? 63 then c_scan f r1 true (63 :: acc)       (* \? *)
            else if (e =? 101) || (e =? 69) then c_scan f r1 true (27 :: acc)   (* \e and \E, GNU *)
            else if is_oct e then
              match r1 with
              | d2 :: r2 =>
                if is_oct d2 then
                  match r2 with
                  | d3 :: r3 =>
                    if is_oct d3 then
                      let v := (e - 48) * 64 + (d2 - 48) * 8 + (d3 - 48) in
                      if v <? 256 then c_scan f r3 true (v :: acc) else RdUnmodelled
                    else c_scan f r2 true ((e - 48) * 8 + (d2 - 48) :: acc)
                  | [] => c_scan f r2 true ((e - 48) * 8 + (d2 - 48) :: acc)
                  end
                else c_scan f r1 true (e - 48 :: acc)
              | [] => c_scan f r1 true (e - 48 :: acc)
              end
            else if e =? 120 then                                  (* \x then as many hex digits as follow *)
              match r1 with
              | h :: _ =>
                if is_hex h then
                  let (v, r2) := c_hex_run r1 0 in
                  if v <? 256 then c_scan f r2 true (v :: acc) else RdUnmodelled
                else RdErr
              | [] => RdErr
              end
            else if (e =? 117) || (e =? 85) then RdUnmodelled
            else if e <? 128 then c_scan f r1 true (e :: acc)       (* gcc: unknown escape -> the character *)
            else RdUnmodelled
          end
        end
      else c_scan f r true (c :: acc)
    else
      if c_blank c then c_scan f r false acc
      else if c =? 34 then c_scan f r true acc
      else RdUnmodelled
  end
  end.

Definition c_read_string (s : text) : rd :=
  match c_splice s with
  | c :: r => if c =? 34 then c_scan (S (length r)) r true [] else RdUnmodelled
  | [] => RdUnmodelled
  end.

(* ---- Go: interpreted string literal; no implicit concatenation -------------------------- *)
Fixpoint go_scan (s : text) (inlit : bool) (acc : text) : rd :=
  match s with
  | [] => if inlit then RdErr else RdOk (rev acc)
  | c :: r =>
    if inlit then
      if c =? 34 then go_scan r false acc
      else if (c =? 10) || (c =? 0) then RdErr                     (* newline in string; NUL *)
      else if c =? 92 then
        match r with
        | [] => RdErr
        | e :: r1 =>
          match common_escape e with
          | Some v => go_scan r1 true (v :: acc)
          | None =>
            if is_oct e then                                       (* exactly three octal digits *)
              match r1 with
              | d2 :: d3 :: r3 =>
                if is_oct d2 && is_oct d3 then
                  let v := (e - 48) * 64 + (d2 - 48) * 8 + (d3 - 48) in
                  if v <? 256 then go_scan r3 true (v :: acc) else RdErr
                else RdErr
              | _ => RdErr
              end
            else if e =? 120 then
              match r1 with
              | h1 :: h2 :: r3 =>
                if is_hex h1 && is_hex h2 then go_scan r3 true (hexv h1 * 16 + hexv h2 :: acc) else RdErr
              | _ => RdErr
              end
            else if (e =? 117) || (e =? 85) then RdUnmodelled
            else RdErr                                             (* unknown escape, including \' *)
          end
        end
      else go_scan r true (c :: acc)
    else
      if is_blank c then go_scan r false acc
      else if c =? 34 then RdErr                                   (* a second literal: syntax error *)
      else RdUnmodelled
  end.

Definition go_read_string (s : text) : rd :=
  match s with
  | c :: r => if c =? 34 then go_scan r true [] else RdUnmodelled
  | [] => RdUnmodelled
  end.

Definition read_string (l : lang) (s : text) : rd :=
  match l with LC => c_read_string s | LGo => go_read_string s | LPy => py_read_string s end.

(* characters that may NOT appear verbatim between the quotes, per language *)
Definition unsafe_chars (l : lang) : list Z :=
  match l with
  | LC => [10; 13; 34; 92]
  | LGo => [0; 10; 34; 92]
  | LPy => [0; 10; 13; 34; 92]
  end.
Definition safe_char (l : lang) (c : Z) : bool := negb (existsb (Z.eqb c) (unsafe_chars l)).
Definition safe_string_in (l : lang) (s : text) : bool := forallb (safe_char l) s.
(* safe in every target language *)
Definition safe_string (s : text) : bool :=
  forallb (fun c => negb (existsb (Z.eqb c) [0; 10; 13; 34; 92])) s.

Definition rd_eqb (a b : rd) : bool :=
  match a, b with
  | RdOk x, RdOk y => text_eqb x y
  | RdErr, RdErr => true
  | RdUnmodelled, RdUnmodelled => true
  | _, _ => false
  end.

(* ------------------------------------------------------------------------------------ *)
(* the lexer's escape loop (t_STRING_LITERAL) on the text between the quotes              *)
(* ------------------------------------------------------------------------------------ *)

Inductive lex_res := LexOk (v : text) | LexInvalidEscape | LexIndexError.

Fixpoint lookup_esc (c : Z) (tbl : list (Z * Z)) : option Z :=
  match tbl with
  | [] => None
  | (k, v) :: r => if k =? c then Some v else lookup_esc c r
  end.

Fixpoint unescape (s : text) (acc : text) : lex_res :=
  match s with
  | [] => LexOk (rev acc)
  | c :: r =>
    if c =? 92 then
      match r with
      | [] => LexIndexError                    (* s[i] one past the end; excluded by the token regex *)
      | e :: r1 => match lookup_esc e escaping_chars with
                   | Some v => unescape r1 (v :: acc)
                   | None => LexInvalidEscape
                   end
      end
    else unescape r (c :: acc)
  end.

(* the regular language of the token body: any character but backslash and newline, or a backslash
   followed by any character but newline; with no bare double quote inside *)
Fixpoint lexable (s : text) : bool :=
  match s with
  | [] => true
  | c :: r =>
    if c =? 92 then match r with [] => false | e :: r1 => negb (e =? 10) && lexable r1 end
    else negb (c =? 10) && negb (c =? 34) && lexable r
  end.

(* canonical source spelling of a value: every character that the table can produce is written
   as its escape, everything else verbatim *)
Fixpoint rev_lookup_esc (c : Z) (tbl : list (Z * Z)) : option Z :=
  match tbl with
  | [] => None
  | (k, v) :: r => if v =? c then Some k else rev_lookup_esc c r
  end.
Definition src_char (c : Z) : text :=
  match rev_lookup_esc c escaping_chars with Some k => [92; k] | None => [c] end.
Definition src_escape (v : text) : text := flat_map src_char v.

Definition lex_res_eqb (a b : lex_res) : bool :=
  match a, b with
  | LexOk x, LexOk y => text_eqb x y
  | LexInvalidEscape, LexInvalidEscape => true
  | LexIndexError, LexIndexError => true
  | _, _ => false
  end.

(* ------------------------------------------------------------------------------------ *)
(* SPECIFICATION of the supported escapes and of the boolean spellings: their conventional  *)
(* meaning, written down independently of the source (compared with the translated tables  *)
(* by ConstLitProofs.escapes_standard / ConstExprProofs.bool_spellings_standard)           *)
(* ------------------------------------------------------------------------------------ *)

(* backslash-t TAB, backslash-r CR, backslash-n LF, and backslash, single quote, double quote escape themselves *)
Definition std_escapes : list (Z * Z) := [(116, 9); (114, 13); (110, 10); (92, 92); (39, 39); (34, 34)].

Fixpoint spec_unescape (s : text) (acc : text) : lex_res :=
  match s with
  | [] => LexOk (rev acc)
  | c :: r =>
    if c =? 92 then
      match r with
      | [] => LexIndexError
      | e :: r1 => match lookup_esc e std_escapes with
                   | Some v => spec_unescape r1 (v :: acc)
                   | None => LexInvalidEscape
                   end
      end
    else spec_unescape r (c :: acc)
  end.

Definition kw_yes : text := [121; 101; 115].
Definition kw_no : text := [110; 111].
(* true / yes mean true, false / no mean false *)
Definition spec_bool (sp : text) : option bool :=
  if text_eqb sp kw_true || text_eqb sp kw_yes then Some true
  else if text_eqb sp kw_false || text_eqb sp kw_no then Some false
  else None.
