(* OpModeLeaf.v — one scalar field at an arbitrary bit offset: the statements every target
   formatter emits for it copy exactly its bits, for every width 1..64, every offset, every
   value (no bound on the offset or on the buffer).  Encode: invariant "buffer = prefix";
   decode: invariant "object = low j bits of the field". *)
From Coq Require Import ZArith List Bool Lia ZifyBool.
From BP Require Import Bits Schema OpMode OpModeStep.
From BPGen Require Import GenOpMode.
Import ListNotations.
Open Scope Z_scope.

(* ---------- memory ---------- *)

Lemma sel_eqb_refl s : sel_eqb s s = true.
Proof. destruct s; cbn; [apply Z.eqb_refl | apply Nat.eqb_refl]. Qed.

Lemma chain_eqb_refl c : chain_eqb c c = true.
Proof. induction c as [|s r IH]; cbn; [reflexivity|]. now rewrite sel_eqb_refl, IH. Qed.

Lemma sel_eqb_eq a b : sel_eqb a b = true -> a = b.
Proof.
  destruct a, b; cbn; intros H; try discriminate.
  - apply Z.eqb_eq in H. now subst.
  - apply Nat.eqb_eq in H. now subst.
Qed.

Lemma chain_eqb_eq a : forall b, chain_eqb a b = true -> a = b.
Proof.
  induction a as [|x r IH]; intros [|y s] H; cbn in H; try discriminate; [reflexivity|].
  apply andb_true_iff in H. destruct H as [H1 H2].
  apply sel_eqb_eq in H1. apply IH in H2. now subst.
Qed.

Lemma cty_eqb_refl T : cty_eqb T T = true.
Proof. destruct T; cbn; try reflexivity; apply Z.eqb_refl. Qed.

Lemma mem_get_set M ch c u :
  mem_get M ch = Some c -> mem_get (mem_set M ch u) ch = Some (mkcell (cty_of c) u).
Proof.
  induction M as [|x r IH]; cbn [mem_get mem_set]; [discriminate|].
  destruct (chain_eqb (fst x) ch) eqn:E; intros H.
  - injection H as <-. cbn [mem_get fst snd]. now rewrite E.
  - cbn [mem_get]. rewrite E. now apply IH.
Qed.

Lemma mem_set_set M ch u u' : mem_set (mem_set M ch u) ch u' = mem_set M ch u'.
Proof.
  induction M as [|x r IH]; cbn [mem_set]; [reflexivity|].
  destruct (chain_eqb (fst x) ch) eqn:E; cbn [mem_set fst snd cty_of]; rewrite E; [reflexivity|].
  now rewrite IH.
Qed.

Lemma mem_set_same M ch T u : mem_get M ch = Some (mkcell T u) -> mem_set M ch u = M.
Proof.
  induction M as [|x r IH]; cbn [mem_get mem_set]; [reflexivity|].
  destruct (chain_eqb (fst x) ch) eqn:E; intros H.
  - injection H as H. destruct x as [c0 [T0 u0]]. cbn in *. congruence.
  - now rewrite IH.
Qed.

(* ---------- run ---------- *)

Lemma run_app l1 l2 st : run (l1 ++ l2) st = (st' <- run l1 st ;; run l2 st').
Proof.
  revert st; induction l1 as [|x r IH]; intros st; cbn [app run]; [reflexivity|].
  destruct (exec st x); cbn [bind]; [apply IH|reflexivity].
Qed.

(* ---------- the loop ---------- *)

Section Loop.
  Variables (f : Z * Z * Z -> stmt) (Inv : Z -> state -> Prop) (i0 n : Z).
  Hypothesis Hstep :
    forall j st, 0 <= j < n -> Inv j st ->
      exists st', exec st (f (i0 + j, j, plan_step (i0 + j) j n)) = Some st' /\
                  Inv (j + plan_step (i0 + j) j n) st'.

  Lemma plan_loop_inv :
    forall fuel j st, (Z.to_nat (n - j) <= fuel)%nat -> 0 <= j <= n -> Inv j st ->
      exists st', run (map f (plan_loop fuel (i0 + j) j n)) st = Some st' /\ Inv n st'.
  Proof.
    induction fuel as [|fu IH]; intros j st Hfuel Hj HI.
    - assert (j = n) by lia. subst j. exists st. cbn. auto.
    - cbn [plan_loop]. rewrite plan_continue_spec.
      destruct (j <? n) eqn:Hjn.
      2:{ apply Z.ltb_ge in Hjn. assert (j = n) by lia. subst j. exists st. cbn. auto. }
      apply Z.ltb_lt in Hjn.
      pose proof (plan_step_range (i0 + j) j n ltac:(lia)) as (Hc1 & Hc2 & Hc3 & Hc4).
      destruct (Hstep j st ltac:(lia) HI) as (st1 & E1 & I1).
      cbn [map run]. rewrite E1. cbn [bind].
      replace (i0 + j + plan_step (i0 + j) j n) with (i0 + (j + plan_step (i0 + j) j n)) by lia.
      apply IH; [lia|lia|exact I1].
  Qed.
End Loop.

Lemma plan_loop_end i0 n :
  forall fuel j a, (Z.to_nat (n - j) <= fuel)%nat -> 0 <= j <= n ->
    fold_left (fun a x => a + snd x) (plan_loop fuel (i0 + j) j n) a = a + (n - j).
Proof.
  induction fuel as [|fu IH]; intros j a Hfuel Hj.
  - assert (j = n) by lia. subst j. cbn. lia.
  - cbn [plan_loop]. rewrite plan_continue_spec.
    destruct (j <? n) eqn:Hjn.
    2:{ apply Z.ltb_ge in Hjn. cbn. lia. }
    apply Z.ltb_lt in Hjn.
    pose proof (plan_step_range (i0 + j) j n ltac:(lia)) as (Hc1 & Hc2 & Hc3 & Hc4).
    cbn [fold_left snd].
    replace (i0 + j + plan_step (i0 + j) j n) with (i0 + (j + plan_step (i0 + j) j n)) by lia.
    rewrite IH by lia. lia.
Qed.

Lemma plan_end_leaf i0 n : 0 <= n -> plan_end i0 (leaf_plan i0 n) = i0 + n.
Proof.
  intros Hn. unfold plan_end, leaf_plan.
  pose proof (plan_loop_end i0 n (Z.to_nat n) 0 i0 ltac:(lia) ltac:(lia)) as H.
  rewrite Z.add_0_r in H. rewrite H. lia.
Qed.

(* ---------- arithmetic of prefixes ---------- *)

Lemma mod_pow_split u j c :
  0 <= j -> 0 <= c -> u mod 2 ^ (j + c) = u mod 2 ^ j + 2 ^ j * chunk u j c.
Proof.
  intros Hj Hc. unfold chunk. rewrite Z.pow_add_r by lia.
  apply Z.rem_mul_r; [apply Z.pow_nonzero; lia | apply pow2_pos; lia].
Qed.

Lemma chunk_div X i0 j c S :
  0 <= i0 -> 0 <= j -> X = S / 2 ^ i0 -> chunk S (i0 + j) c = chunk X j c.
Proof.
  intros Hi Hj ->. unfold chunk. rewrite Z.pow_add_r, Z.div_div by (try apply pow2_pos; lia).
  reflexivity.
Qed.

(* ---------- encode: committing one chunk at the cursor ---------- *)

Lemma rd_nth s k : 0 <= k < Z.of_nat (length s) -> rd s k = Some (nth (Z.to_nat k) s 0).
Proof.
  intros Hk. unfold rd. replace (k <? 0) with false by lia.
  apply nth_error_nth'. lia.
Qed.

Lemma enc_commit B0 i0 u j c s :
  0 <= i0 -> 0 <= B0 < 2 ^ i0 -> 0 <= j -> 1 <= c -> c <= 8 - (i0 + j) mod 8 ->
  i0 + j + c <= 8 * Z.of_nat (length s) ->
  bytes_ok s -> bufZ s = B0 + 2 ^ i0 * (u mod 2 ^ j) ->
  exists old,
    rd s ((i0 + j) / 8) = Some old /\
    (forall asg, (asg = true -> (i0 + j) mod 8 = 0) ->
       store_byte asg old (chunk u j c * 2 ^ ((i0 + j) mod 8)) = old + chunk u j c * 2 ^ ((i0 + j) mod 8)) /\
    Z.lor old (chunk u j c * 2 ^ ((i0 + j) mod 8)) = old + chunk u j c * 2 ^ ((i0 + j) mod 8) /\
    let s' := wr s ((i0 + j) / 8) (old + chunk u j c * 2 ^ ((i0 + j) mod 8)) in
    bytes_ok s' /\ length s' = length s /\ bufZ s' = B0 + 2 ^ i0 * (u mod 2 ^ (j + c)).
Proof.
  intros Hi0 HB Hj Hc1 Hc2 Hlen Hs Hbuf.
  set (i := i0 + j) in *.
  pose proof (Z.mod_pos_bound i 8 ltac:(lia)) as Hm.
  pose proof (Z.div_mod i 8 ltac:(lia)) as Hdm.
  assert (Hq : 0 <= i / 8) by (apply Z.div_pos; lia).
  assert (Hp0 : 0 < 2 ^ i0) by (apply pow2_pos; lia).
  assert (Hpj : 0 < 2 ^ j) by (apply pow2_pos; lia).
  assert (Hzj : 0 <= u mod 2 ^ j < 2 ^ j) by (apply Z.mod_pos_bound; lia).
  assert (Hcur : 0 <= bufZ s < 2 ^ i).
  { rewrite Hbuf. unfold i. rewrite Z.pow_add_r by lia. nia. }
  assert (Hidx : i / 8 < Z.of_nat (length s)) by (apply Z.div_lt_upper_bound; lia).
  pose proof (cursor_byte_small s i Hs ltac:(lia) Hcur) as Hsmall.
  set (old := nth (Z.to_nat (i / 8)) s 0) in *.
  pose proof (chunk_range u j c ltac:(lia)) as Hm2. set (m := chunk u j c) in *.
  assert (Hp8 : 0 < 2 ^ (i mod 8)) by (apply pow2_pos; lia).
  assert (Hcp : 2 ^ c * 2 ^ (i mod 8) <= 256).
  { rewrite <- Z.pow_add_r by lia. change 256 with (2 ^ 8). apply Z.pow_le_mono_r; lia. }
  assert (Hsum : 0 <= old + m * 2 ^ (i mod 8) < 256) by nia.
  assert (Hlor : Z.lor old (m * 2 ^ (i mod 8)) = old + m * 2 ^ (i mod 8)).
  { apply lor_disjoint; lia. }
  exists old. split; [apply rd_nth; lia|]. split; [|split; [exact Hlor|]].
  { intros asg Ha. unfold store_byte. destruct asg.
    - rewrite (Ha eq_refl) in *. change (2 ^ 0) with 1 in *. assert (old = 0) by lia. subst old.
      replace (nth (Z.to_nat (i / 8)) s 0) with 0 by lia. rewrite Z.mod_small; lia.
    - rewrite Hlor. apply Z.mod_small. lia. }
  cbv zeta. unfold wr.
  split; [apply upd_bytes_ok; [assumption|unfold is_byte; lia]|].
  split; [apply upd_length|].
  rewrite bufZ_upd by lia. fold old.
  replace (old + m * 2 ^ (i mod 8) - old) with (m * 2 ^ (i mod 8)) by lia.
  rewrite Z2Nat.id by assumption. rewrite pow256 by assumption.
  rewrite Hbuf, mod_pow_split by lia. fold m.
  replace (2 ^ i0 * (u mod 2 ^ j + 2 ^ j * m)) with (2 ^ i0 * (u mod 2 ^ j) + 2 ^ (i0 + j) * m)
    by (rewrite Z.pow_add_r by lia; ring).
  fold i. replace (2 ^ i) with (2 ^ (i mod 8) * 2 ^ (8 * (i / 8))).
  2:{ rewrite <- Z.pow_add_r by lia. f_equal. lia. }
  ring.
Qed.

(* ---------- what the proofs need to know about a leaf ---------- *)

Definition leaf_ok (lf : leaf) : Prop :=
  match lk lf with
  | KUint n | KInt n | KEnum n => 1 <= n <= 64
  | _ => True
  end.

Definition pat_ok (lf : leaf) (u : Z) : Prop :=
  match lk lf with
  | KBool => u = 0 \/ u = 1
  | _ => 0 <= u < 2 ^ csz (leaf_cty lf)
  end.

Lemma leaf_facts lf :
  leaf_ok lf ->
  let n := leaf_bits lf in
  let sz := csz (leaf_cty lf) in
  1 <= n <= sz /\ (sz = 8 \/ sz = 16 \/ sz = 32 \/ sz = 64) /\ leaf_uty lf = CU sz.
Proof.
  unfold leaf_ok, leaf_bits, leaf_cty, leaf_uty. destruct (lk lf) as [| |n|n|n]; intros H; cbn [csz].
  - change bool_nbits with 1. repeat split; try lia; auto.
  - change byte_nbits with 8. repeat split; try lia; auto.
  - destruct (width_spec n H) as (A & B & _). repeat split; try lia; auto.
  - destruct (width_spec n H) as (A & B & _). repeat split; try lia; auto.
  - destruct (width_spec n H) as (A & B & _). repeat split; try lia; auto.
Qed.

Lemma pat_ok_range lf u : leaf_ok lf -> pat_ok lf u -> 0 <= u < 2 ^ csz (leaf_cty lf).
Proof.
  unfold pat_ok, leaf_cty. destruct (lk lf); intros _ H; try exact H.
  cbn [csz]. change (2 ^ 8) with 256. lia.
Qed.

Definition EncInv (M : mem) (len : nat) (B0 i0 u : Z) (j : Z) (st : state) : Prop :=
  objs st = M /\ bytes_ok (buf st) /\ length (buf st) = len /\
  bufZ (buf st) = B0 + 2 ^ i0 * (u mod 2 ^ j).

(* ---------- C little-endian encoder item ---------- *)

Lemma enc_step_cle lf ch M len B0 i0 u j st :
  leaf_ok lf -> pat_ok lf u -> mem_get M ch = Some (mkcell (leaf_cty lf) u) ->
  0 <= i0 -> 0 <= B0 < 2 ^ i0 -> i0 + leaf_bits lf <= 8 * Z.of_nat len -> 0 <= j < leaf_bits lf ->
  EncInv M len B0 i0 u j st ->
  exists st', exec st (item CLE true lf ch (i0 + j, j, plan_step (i0 + j) j (leaf_bits lf))) = Some st' /\
              EncInv M len B0 i0 u (j + plan_step (i0 + j) j (leaf_bits lf)) st'.
Proof.
  intros Hok Hpat Hget Hi0 HB Hlen Hj (HM & Hs & Hl & Hbuf).
  destruct (leaf_facts lf Hok) as (Hn & Hsz & Hut). cbv zeta in *.
  pose proof (pat_ok_range lf u Hok Hpat) as Hu.
  set (n := leaf_bits lf) in *. set (sz := csz (leaf_cty lf)) in *.
  pose proof (plan_step_range (i0 + j) j n ltac:(lia)) as (Hc1 & Hc2 & Hc3 & Hc4).
  set (c := plan_step (i0 + j) j n) in *.
  destruct (enc_commit B0 i0 u j c (buf st) Hi0 HB ltac:(lia) Hc1 Hc4 ltac:(lia) Hs Hbuf)
    as (old & Hrd & Hsb & Hlor & Hs' & Hl' & Hb').
  pose proof (Z.mod_pos_bound j 8 ltac:(lia)) as Hmj.
  pose proof (Z.div_mod j 8 ltac:(lia)) as Hdj.
  assert (Hfi : 0 <= j / 8) by (apply Z.div_pos; lia).
  destruct (c_le_enc_expr (get_byte u (j / 8)) (i0 + j) j c (get_byte_range _ _)
              ltac:(lia) ltac:(lia) Hc1 Hc4 Hc3) as (e1 & E1 & E2).
  rewrite byte_chunk in E2 by lia.
  cbn [item exec]. rewrite HM, Hget. cbn [bind cty_of pat].
  destruct (enc_pos (i0 + j) j c) as (-> & -> & ->).
  fold sz. replace ((0 <=? j / 8) && (8 * (j / 8) <? sz)) with true by lia.
  rewrite E1. cbn [bind]. rewrite Hrd. cbn [bind]. rewrite E2.
  destruct (assign_spec ((i0 + j) mod 8)) as (-> & _ & _).
  rewrite Hsb by (intros A; apply Z.eqb_eq in A; exact A).
  eexists. split; [reflexivity|].
  unfold EncInv. cbn [objs buf]. repeat split; try assumption. congruence.
Qed.

(* ---------- conversions ---------- *)

Lemma sval_mod T u : 0 <= u < 2 ^ csz T -> 1 <= csz T -> sval T u mod 2 ^ csz T = u.
Proof.
  intros Hu Hsz. destruct T as [|sz|sz]; cbn [sval csz] in *; try (apply Z.mod_small; lia).
  destruct (u <? 2 ^ (sz - 1)); [apply Z.mod_small; lia|].
  replace (u - 2 ^ sz) with (u + (-1) * 2 ^ sz) by ring.
  rewrite Z.mod_add by (apply Z.pow_nonzero; lia). apply Z.mod_small; lia.
Qed.

Lemma upat_sval_u T u : 0 <= u < 2 ^ csz T -> 1 <= csz T -> upat (CU (csz T)) (sval T u) = u.
Proof. intros. cbn [upat]. now apply sval_mod. Qed.

(* ---------- C big-endian (value based) encoder item ---------- *)

Lemma shiftr_neg u s : s <= 0 -> Z.shiftr u s = u * 2 ^ (- s).
Proof. intros. unfold Z.shiftr. rewrite Z.shiftl_mul_pow2 by lia. reflexivity. Qed.

Lemma be_enc_expr sz u j i8 c :
  (sz = 8 \/ sz = 16 \/ sz = 32 \/ sz = 64) -> 0 <= u < 2 ^ sz ->
  0 <= j -> 1 <= c -> j + c <= sz -> 0 <= i8 < 8 -> c <= 8 - i8 ->
  exists e1, c_shift (CU sz) u (j - i8) = Some e1 /\
             Z.land e1 ((2 ^ c - 1) * 2 ^ i8) = chunk u j c * 2 ^ i8.
Proof.
  intros Hsz Hu Hj Hc Hjc Hi Hci.
  pose proof (land_shift_mask u (j - i8) i8 c ltac:(lia) ltac:(lia) ltac:(lia)) as HL.
  replace (j - i8 + i8) with j in HL by lia.
  unfold c_shift. cbn [csz].
  destruct (j - i8 =? 0) eqn:E0.
  { apply Z.eqb_eq in E0. exists u. split; [reflexivity|].
    rewrite E0 in HL. rewrite Z.shiftr_0_r in HL. exact HL. }
  apply Z.eqb_neq in E0.
  destruct (0 <? j - i8) eqn:Epos.
  { apply Z.ltb_lt in Epos. replace (j - i8 <? Z.max 32 sz) with true by lia.
    eexists. split; [reflexivity|exact HL]. }
  apply Z.ltb_ge in Epos.
  replace (Z.max 32 sz <=? - (j - i8)) with false by lia.
  rewrite shiftr_neg in HL by lia.
  set (k := - (j - i8)) in *.
  assert (Hk : 1 <= k <= 7) by lia.
  assert (Hpk : 0 < 2 ^ k) by (apply pow2_pos; lia).
  assert (Hpk7 : 2 ^ k <= 2 ^ 7) by (apply Z.pow_le_mono_r; lia).
  destruct (sz <? 32) eqn:E32.
  - apply Z.ltb_lt in E32.
    assert (H16 : 2 ^ sz <= 2 ^ 16) by (apply Z.pow_le_mono_r; lia).
    change (2 ^ 7) with 128 in Hpk7. change (2 ^ 16) with 65536 in H16.
    replace (u * 2 ^ k <? 2 ^ 31) with true.
    2:{ symmetry. apply Z.ltb_lt. change (2 ^ 31) with 2147483648. nia. }
    eexists. split; [reflexivity|exact HL].
  - eexists. split; [reflexivity|].
    rewrite land_mod_mask; [exact HL|lia|].
    assert (Hc8 : 2 ^ c * 2 ^ i8 <= 256).
    { rewrite <- Z.pow_add_r by lia. change 256 with (2 ^ 8). apply Z.pow_le_mono_r; lia. }
    assert (0 < 2 ^ c) by (apply pow2_pos; lia). assert (0 < 2 ^ i8) by (apply pow2_pos; lia).
    assert (256 <= 2 ^ sz) by (change 256 with (2 ^ 8); apply Z.pow_le_mono_r; lia).
    nia.
Qed.

Lemma enc_step_cbe lf ch M len B0 i0 u j st :
  leaf_ok lf -> pat_ok lf u -> mem_get M ch = Some (mkcell (leaf_cty lf) u) ->
  0 <= i0 -> 0 <= B0 < 2 ^ i0 -> i0 + leaf_bits lf <= 8 * Z.of_nat len -> 0 <= j < leaf_bits lf ->
  EncInv M len B0 i0 u j st ->
  exists st', exec st (item CBE true lf ch (i0 + j, j, plan_step (i0 + j) j (leaf_bits lf))) = Some st' /\
              EncInv M len B0 i0 u (j + plan_step (i0 + j) j (leaf_bits lf)) st'.
Proof.
  intros Hok Hpat Hget Hi0 HB Hlen Hj (HM & Hs & Hl & Hbuf).
  destruct (leaf_facts lf Hok) as (Hn & Hsz & Hut). cbv zeta in *.
  pose proof (pat_ok_range lf u Hok Hpat) as Hu.
  set (n := leaf_bits lf) in *. set (sz := csz (leaf_cty lf)) in *.
  pose proof (plan_step_range (i0 + j) j n ltac:(lia)) as (Hc1 & Hc2 & Hc3 & Hc4).
  set (c := plan_step (i0 + j) j n) in *.
  destruct (enc_commit B0 i0 u j c (buf st) Hi0 HB ltac:(lia) Hc1 Hc4 ltac:(lia) Hs Hbuf)
    as (old & Hrd & Hsb & Hlor & Hs' & Hl' & Hb').
  pose proof (Z.mod_pos_bound j 8 ltac:(lia)) as Hmj.
  pose proof (Z.mod_pos_bound (i0 + j) 8 ltac:(lia)) as Hmi.
  pose proof (Z.div_mod j 8 ltac:(lia)) as Hdj.
  destruct (be_enc_expr sz u j ((i0 + j) mod 8) c Hsz Hu ltac:(lia) Hc1 ltac:(lia) Hmi Hc4)
    as (e1 & E1 & E2).
  cbn [item exec]. rewrite HM, Hget. cbn [bind cty_of pat].
  rewrite Hut. cbn [is_unsigned].
  pose proof (upat_sval_u (leaf_cty lf) u Hu ltac:(fold sz; lia)) as HU. fold sz in HU. rewrite HU.
  destruct (enc_pos (i0 + j) j c) as (-> & -> & ->).
  destruct (be_shift_spec (j / 8) (enc_shift (i0 + j) j c)) as (-> & _ & _).
  replace (8 * (j / 8) + enc_shift (i0 + j) j c) with (j - (i0 + j) mod 8)
    by (unfold enc_shift; lia).
  rewrite E1. cbn [bind]. rewrite Hrd. cbn [bind].
  rewrite enc_mask_mod. unfold enc_mask. rewrite Z.mod_mod by lia.
  rewrite mask_spec by lia. rewrite E2.
  destruct (assign_spec ((i0 + j) mod 8)) as (_ & -> & _).
  rewrite Hsb by (intros A; apply Z.eqb_eq in A; exact A).
  eexists. split; [reflexivity|].
  unfold EncInv. cbn [objs buf]. repeat split; try assumption. congruence.
Qed.

(* ---------- Go encoder item ---------- *)

(* byte(f >> 8*fi) of the typed value is byte fi of the pattern (arithmetic >> on signed) *)
Lemma sval_shift_byte T u fi :
  0 <= u < 2 ^ csz T -> 0 <= fi -> 8 * fi + 8 <= csz T ->
  Z.shiftr (sval T u) (8 * fi) mod 256 = get_byte u fi.
Proof.
  intros Hu Hfi Hsz. unfold get_byte. rewrite Z.shiftr_div_pow2 by lia.
  destruct T as [|sz|sz]; cbn [sval csz] in *; try reflexivity.
  destruct (u <? 2 ^ (sz - 1)); [reflexivity|].
  replace (2 ^ sz) with (2 ^ (sz - 8 * fi - 8) * 256 * 2 ^ (8 * fi)).
  2:{ change 256 with (2 ^ 8). rewrite <- !Z.pow_add_r by lia. f_equal. lia. }
  replace (u - 2 ^ (sz - 8 * fi - 8) * 256 * 2 ^ (8 * fi))
    with (u + (- (2 ^ (sz - 8 * fi - 8) * 256)) * 2 ^ (8 * fi)) by ring.
  rewrite Z.div_add by (apply Z.pow_nonzero; lia).
  replace (u / 2 ^ (8 * fi) + - (2 ^ (sz - 8 * fi - 8) * 256))
    with (u / 2 ^ (8 * fi) + (- 2 ^ (sz - 8 * fi - 8)) * 256) by ring.
  apply Z.mod_add. lia.
Qed.

Lemma go_enc_value lf u fi :
  leaf_ok lf -> pat_ok lf u -> 0 <= fi -> 8 * fi + 8 <= csz (leaf_cty lf) ->
  exists v,
    match go_conv_of lf with
    | GPlain => if is_cbool (leaf_cty lf) then None else Some (sval (leaf_cty lf) u)
    | _ => if is_cbool (leaf_cty lf) then Some (if u =? 0 then 0 else 1) else None
    end = Some v /\ Z.shiftr v (8 * fi) mod 256 = get_byte u fi.
Proof.
  intros Hok Hpat Hfi Hfits. pose proof (pat_ok_range lf u Hok Hpat) as Hu.
  destruct lf as [k al]. unfold go_conv_of, leaf_cty, pat_ok in *. cbn [lk lalias] in *.
  destruct k as [| |w|w|w]; cbn [is_cbool csz] in *.
  - assert (fi = 0) by lia. subst fi. change (8 * 0) with 0. 
    exists u. split; [destruct al; destruct Hpat; subst u; reflexivity|].
    rewrite Z.shiftr_0_r. unfold get_byte. change (2 ^ 0) with 1. now rewrite Z.div_1_r.
  - eexists. split; [reflexivity|]. apply sval_shift_byte; cbn [csz]; lia.
  - eexists. split; [reflexivity|]. apply sval_shift_byte; cbn [csz]; lia.
  - eexists. split; [reflexivity|]. apply sval_shift_byte; cbn [csz]; lia.
  - eexists. split; [reflexivity|]. apply sval_shift_byte; cbn [csz]; lia.
Qed.

Lemma enc_step_go lf ch M len B0 i0 u j st :
  leaf_ok lf -> pat_ok lf u -> mem_get M ch = Some (mkcell (leaf_cty lf) u) ->
  0 <= i0 -> 0 <= B0 < 2 ^ i0 -> i0 + leaf_bits lf <= 8 * Z.of_nat len -> 0 <= j < leaf_bits lf ->
  EncInv M len B0 i0 u j st ->
  exists st', exec st (item GO true lf ch (i0 + j, j, plan_step (i0 + j) j (leaf_bits lf))) = Some st' /\
              EncInv M len B0 i0 u (j + plan_step (i0 + j) j (leaf_bits lf)) st'.
Proof.
  intros Hok Hpat Hget Hi0 HB Hlen Hj (HM & Hs & Hl & Hbuf).
  destruct (leaf_facts lf Hok) as (Hn & Hsz & Hut). cbv zeta in *.
  pose proof (pat_ok_range lf u Hok Hpat) as Hu.
  set (n := leaf_bits lf) in *. set (sz := csz (leaf_cty lf)) in *.
  pose proof (plan_step_range (i0 + j) j n ltac:(lia)) as (Hc1 & Hc2 & Hc3 & Hc4).
  set (c := plan_step (i0 + j) j n) in *.
  destruct (enc_commit B0 i0 u j c (buf st) Hi0 HB ltac:(lia) Hc1 Hc4 ltac:(lia) Hs Hbuf)
    as (old & Hrd & Hsb & Hlor & Hs' & Hl' & Hb').
  pose proof (Z.mod_pos_bound j 8 ltac:(lia)) as Hmj.
  pose proof (Z.div_mod j 8 ltac:(lia)) as Hdj.
  assert (Hfi : 0 <= j / 8) by (apply Z.div_pos; lia).
  assert (Hfits : 8 * (j / 8) + 8 <= sz) by lia.
  destruct (go_enc_expr (get_byte u (j / 8)) (i0 + j) j c (get_byte_range _ _)
              ltac:(lia) ltac:(lia) Hc1 Hc4 Hc3) as (E2 & Hmask).
  rewrite byte_chunk in E2 by lia.
  cbn [item exec]. rewrite HM, Hget. cbn [bind cty_of pat].
  destruct (enc_pos (i0 + j) j c) as (-> & -> & _).
  destruct (go_bshift_spec (j / 8)) as (-> & -> & _ & _).
  replace (if 0 <? j / 8 then 8 * (j / 8) else 0) with (8 * (j / 8))
    by (destruct (Z.ltb_spec 0 (j / 8)); lia).
  replace ((0 <=? 8 * (j / 8)) && (0 <=? enc_mask (i0 + j) j c) && (enc_mask (i0 + j) j c <? 256))
    with true by lia.
  destruct (go_enc_value lf u (j / 8) Hok Hpat Hfi Hfits) as (v & Ev & Hb).
  rewrite Ev. cbn [bind]. rewrite Hb.
  rewrite Hrd. cbn [bind]. rewrite E2, Hlor.
  eexists. split; [reflexivity|].
  unfold EncInv. cbn [objs buf]. repeat split; try assumption. congruence.
Qed.

(* ---------- one field, encode: every language ---------- *)

Lemma post_enc_nil L lf ch : post L true lf ch = [].
Proof. unfold post. destruct (lk lf); reflexivity. Qed.

Theorem leaf_encode L lf ch M u i0 s :
  leaf_ok lf -> pat_ok lf u -> mem_get M ch = Some (mkcell (leaf_cty lf) u) ->
  0 <= i0 -> bytes_ok s -> 0 <= bufZ s < 2 ^ i0 ->
  i0 + leaf_bits lf <= 8 * Z.of_nat (length s) ->
  exists s',
    run (leaf_stmts L true (ch, lf) i0) (mkst s M) = Some (mkst s' M) /\
    bytes_ok s' /\ length s' = length s /\
    bufZ s' = bufZ s + 2 ^ i0 * (u mod 2 ^ leaf_bits lf).
Proof.
  intros Hok Hpat Hget Hi0 Hs HB Hlen.
  destruct (leaf_facts lf Hok) as (Hn & _ & _). cbv zeta in Hn.
  unfold leaf_stmts. cbn [fst snd]. rewrite post_enc_nil, app_nil_r. unfold leaf_plan.
  destruct (plan_loop_inv (item L true lf ch) (EncInv M (length s) (bufZ s) i0 u) i0 (leaf_bits lf))
    with (fuel := Z.to_nat (leaf_bits lf)) (j := 0) (st := mkst s M) as (st' & Hrun & HI).
  - intros j st Hj HI. destruct L.
    + apply enc_step_cle; assumption.
    + apply enc_step_cbe; assumption.
    + apply enc_step_go; assumption.
  - lia.
  - lia.
  - unfold EncInv. cbn [objs buf]. repeat split; try assumption.
    change (2 ^ 0) with 1. rewrite Z.mod_1_r. lia.
  - rewrite Z.add_0_r in Hrun. destruct HI as (HM & Hs' & Hl' & Hb').
    exists (buf st'). destruct st' as [b o]. cbn [objs buf] in *. subst o. auto.
Qed.
