(* EmitWitness.v — the regions in which the faithful model REFUTES property C10 on the current
   tree: one small schema per region, each inside the property's own precondition ([wf], [pre])
   and evaluated by vm_compute.  The same schemas are kept as .bitproto text in corpus/C10/ and
   replayed on the real compiler and toolchains by tools/props/c10.py. *)
From Coq Require Import String Ascii List ZArith Bool Arith.
From BP Require Import EmitBase EmitNames Emit EmitSpec EmitCheck.
From BPGen Require Import GenC10.
Import ListNotations.
Open Scope string_scope.
Open Scope list_scope.
Open Scope nat_scope.

Definition bytes2 : tyx := TArr (TBase BByte) 2 false.
Definition fbool (n : string) (k : nat) : field := mkField n k (TBase BBool).

(* [helper-collision]  message A1 { byte[2] x = 2 }  message A { byte[2] y = 12 } *)
Definition w_helper : schema :=
  [mkFile "m" "m" [] no_opts
     [DMsg "A1" false [] [mkField "x" 2 bytes2]; DMsg "A" false [] [mkField "y" 12 bytes2]]].

(* same scheme: type T = byte[2]  message ArrayT { bool b = 1 } *)
Definition w_helper_alias : schema :=
  [mkFile "m" "m" [] no_opts [DAlias "T" bytes2; DMsg "ArrayT" false [] [fbool "b" 1]]].

(* [derived-name-collision]  type EncodeA = uint3  message A { bool b = 1 } *)
Definition w_derived : schema :=
  [mkFile "m" "m" [] no_opts [DAlias "EncodeA" (TBase (BUint 3)); DMsg "A" false [] [fbool "b" 1]]].

(* [import-filename]  main.bitproto imports shared.bitproto whose proto name is lib *)
Definition color_ref (via : list string) : ref := mkRef RkEnum via 1 [] "Color".
Definition w_import : schema :=
  [mkFile "main" "main" [("lib", 1)] no_opts [DMsg "M" false [] [mkField "c" 1 (TRef (color_ref ["lib"]))]];
   mkFile "shared" "lib" [] no_opts [DEnum "Color" 3 [("COLOR_RED", 0%N)]]].

(* [py-nested-import]  lib.Outer.Inner used from main *)
Definition inner_ref : ref := mkRef RkMsg ["lib"] 1 ["Outer"] "Inner".
Definition w_nested : schema :=
  [mkFile "main" "main" [("lib", 1)] no_opts [DMsg "M" false [] [mkField "inner" 1 (TRef inner_ref)]];
   mkFile "lib" "lib" [] no_opts
     [DMsg "Outer" false [DMsg "Inner" false [] [fbool "ok" 1]]
        [mkField "inner" 1 (TRef (mkRef RkMsg [] 1 ["Outer"] "Inner"))]]].

(* the same defect through two imports: lib.base.Id used from main *)
Definition w_twohop : schema :=
  [mkFile "main" "main" [("lib", 1)] no_opts
     [DMsg "M" false [] [mkField "id" 1 (TRef (mkRef RkAlias ["lib"; "base"] 2 [] "Id"))]];
   mkFile "lib" "lib" [("base", 2)] no_opts
     [DMsg "L" false [] [mkField "id" 1 (TRef (mkRef RkAlias ["base"] 2 [] "Id"))]];
   mkFile "base" "base" [] no_opts [DAlias "Id" (TBase (BUint 20))]].

(* [go-unused-import]  import "konst.bitproto"; byte[konst.WIDTH] raw = 1  (the constant is inlined) *)
Definition w_go_unused : schema :=
  [mkFile "main" "main" [("konst", 1)] no_opts
     [DMsg "M" false [] [mkField "raw" 1 (TArr (TBase BByte) 4 false)]];
   mkFile "konst" "konst" [] no_opts [DConst "WIDTH" (CvInt 4)]].

(* [empty-struct]  message Hollow {} *)
Definition w_empty_struct : schema := [mkFile "m" "m" [] no_opts [DMsg "Hollow" false [] []]].

(* [align-nonpow2, FIXED]  option c.struct_packing_alignment = 3: no longer an accepted schema *)
Definition w_align : schema :=
  [mkFile "m" "m" [] (mkOpts "" 3%Z "" "") [DMsg "A" false [] [fbool "b" 1]]].

(* [empty-enum, FIXED]  enum E : uint3 {}  message A { E e = 1 } *)
Definition w_empty_enum : schema :=
  [mkFile "m" "m" [] no_opts
     [DEnum "E" 3 []; DMsg "A" false [] [mkField "e" 1 (TRef (mkRef RkEnum [] 0 [] "E"))]]].
(* ... and without any use of E *)
Definition w_empty_enum_unused : schema :=
  [mkFile "m" "m" [] no_opts [DEnum "E" 3 []; DMsg "A" false [] [fbool "b" 1]]].

(* [str-escape, FIXED]  a string constant whose value is  a, double quote, b *)
Definition w_str : schema :=
  [mkFile "m" "m" [] no_opts
     [DConst "S" (CvStr (String "a" (String (ascii_of_nat 34) (String "b" EmptyString))));
      DMsg "A" false [] [fbool "b" 1]]].

(* [py-attr-collision]  enum Mode {..}  message A { uint8 _get_mode = 1; Mode mode = 2 }:
   the getter the renderer adds for the enum field `mode` is called _get_mode *)
Definition w_attr : schema :=
  [mkFile "m" "m" [] no_opts
     [DEnum "Mode" 2 [("MODE_A", 0%N); ("MODE_B", 1%N)];
      DMsg "A" false [] [mkField "_get_mode" 1 (TBase (BUint 8)); mkField "mode" 2 (TRef (mkRef RkEnum [] 0 [] "Mode"))]]].

Definition inside_pre (s : schema) : bool :=
  wf s && forallb (fun i => pre LC s i && pre LPy s i && pre LGo s i) (seq 0 (length s)).

Lemma witnesses_inside_pre :
  forallb inside_pre [w_helper; w_helper_alias; w_derived; w_import; w_nested; w_twohop; w_go_unused;
                      w_empty_struct; w_empty_enum; w_empty_enum_unused; w_str; w_attr] = true.
Proof. vm_compute. reflexivity. Qed.

Definition tu_unique (s : schema) (i : nat) (t : target) : bool :=
  match tu_items s i t [] with Some its => unique_b (decls_of its) | None => false end.
Definition dbu (s : schema) (i : nat) (t : target) : bool := dbu_b s t [] (render_items s i t []).

Lemma helper_collision_refuted : tu_unique w_helper 0 TgC = false /\ tu_unique w_helper_alias 0 TgC = false.
Proof. vm_compute. split; reflexivity. Qed.
Lemma derived_collision_refuted : tu_unique w_derived 0 TgC = false.
Proof. vm_compute. reflexivity. Qed.
Lemma import_filename_refuted :
  imports_ok_b w_import TgH (render_items w_import 0 TgH []) = false /\
  imports_ok_b w_import TgPy (render_items w_import 0 TgPy []) = false.
Proof. vm_compute. split; reflexivity. Qed.
Lemma nested_import_refuted :
  dbu w_nested 0 TgPy = false /\ dbu w_nested 0 TgGo = false /\ dbu w_twohop 0 TgPy = false /\
  (* C flattens every name into one name space: the same schemas are fine there *)
  dbu w_nested 0 TgH = true /\ dbu w_nested 0 TgC = true /\ dbu w_twohop 0 TgH = true.
Proof. vm_compute. repeat split; reflexivity. Qed.
Lemma attr_collision_refuted :
  g_py_attrs w_attr 0 = false /\
  forallb (fun fd => nodup_str (py_class_attrs fd)) (flat_file (getf w_attr 0)) = false.
Proof. vm_compute. split; reflexivity. Qed.
Lemma go_unused_import_refuted : go_imports_used_b (render_items w_go_unused 0 TgGo []) = false.
Proof. vm_compute. reflexivity. Qed.
Lemma empty_struct_refuted : structs_nonempty_b (render_items w_empty_struct 0 TgH []) = false.
Proof. vm_compute. reflexivity. Qed.
(* the former witness of [align-nonpow2] is now REJECTED: the translated validator refuses 3, 5, 6
   and 7, so the schema is not well-formed (and gcc would still refuse it: g_align is false) *)
Lemma align_rejected :
  wf w_align = false /\ g_align w_align 0 = false /\
  forallb (fun v => negb (align_valid v)) [3; 5; 6; 7; 9; -1]%Z = true /\
  forallb align_valid [0; 1; 2; 4; 8]%Z = true.
Proof. vm_compute. repeat split; reflexivity. Qed.
(* regression cases of the two FIXED findings [empty-enum] and [str-escape]: the model now
   predicts that the Python renderer does not raise and that every check passes *)
Lemma empty_enum_fixed :
  render w_empty_enum 0 TgPy [] <> None /\
  forallb (fun t => Z.eqb (verdict w_empty_enum 0 t []) 0) [TgH; TgC; TgPy; TgGo] = true /\
  forallb (fun t => Z.eqb (verdict w_empty_enum_unused 0 t []) 0) [TgH; TgC; TgPy; TgGo] = true.
Proof. vm_compute. repeat split; try reflexivity. discriminate. Qed.
Lemma str_escape_fixed : forallb (fun t => Z.eqb (verdict w_str 0 t []) 0) [TgH; TgC; TgPy; TgGo] = true.
Proof. vm_compute. reflexivity. Qed.

(* non-vacuity on the allowed side: a schema with imports (with and without as-name), a nested
   enum, aliases, arrays, a name prefix — every check of the model passes for every target *)
Definition ok_schema : schema :=
  [mkFile "main" "main" [("lib", 1); ("dep", 2)] (mkOpts "" 4%Z "" "")
     [DConst "MAX_SIZE" (CvInt 7);
      DEnum "Mode" 2 [("MODE_IDLE", 0%N); ("MODE_BUSY", 1%N)];
      DAlias "Stamp" (TBase (BUint 48));
      DMsg "Frame" false
        [DEnum "Kind" 3 [("KIND_A", 0%N)];
         DMsg "Hdr" false [] [mkField "kind" 1 (TRef (mkRef RkEnum [] 0 ["Frame"] "Kind")); fbool "ok" 2]]
        [mkField "hdr" 1 (TRef (mkRef RkMsg [] 0 ["Frame"] "Hdr"));
         mkField "mode" 2 (TRef (mkRef RkEnum [] 0 [] "Mode"));
         mkField "stamps" 3 (TArr (TRef (mkRef RkAlias [] 0 [] "Stamp")) 3 false);
         mkField "color" 4 (TRef (mkRef RkEnum ["lib"] 1 [] "Color"));
         mkField "ids" 5 (TArr (TRef (mkRef RkAlias ["dep"] 2 [] "Id")) 2 false);
         mkField "raw" 12 bytes2]];
   mkFile "lib" "lib" [] (mkOpts "Lb" 0%Z "" "") [DEnum "Color" 3 [("COLOR_RED", 0%N); ("COLOR_BLUE", 1%N)]];
   mkFile "base" "base" [] no_opts [DAlias "Id" (TBase (BUint 20)); DAlias "Vec" (TArr (TBase (BInt 17)) 3 false)]].

Definition all_targets : list target := [TgH; TgC; TgHO; TgCO; TgPy; TgGo].
Definition all_guards (s : schema) (i : nat) : bool :=
  forallb (fun L => pre L s i && g_derived L s i && g_qualify L s i && g_import L s i) [LC; LPy; LGo] &&
  g_helper s i && g_go_used s i && g_struct_nonempty s i && g_align s i && g_py_attrs s i.

Lemma ok_schema_ok :
  wf ok_schema = true /\ all_guards ok_schema 0 = true /\
  forallb (fun t => Z.eqb (verdict ok_schema 0 t []) 0) all_targets = true.
Proof. vm_compute. repeat split; reflexivity. Qed.
