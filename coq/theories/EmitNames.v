(* EmitNames.v — string model of bitproto/utils.py case converters (C10's own copy).

   pascal_case / snake_case / upper_case over Coq [string]s, written as scanners that follow
   the regular-expression substitutions of utils.py:341-415 left to right (non-overlapping
   matches, greedy runs).  These definitions are only EVALUATED (tie T2 compares them with
   the real functions on a sweep of short strings and on every identifier of every run);
   the C10 theorems never unfold them: the property's precondition speaks about the
   converted names.  *)
From Coq Require Import String Ascii List Bool Arith DecimalNat DecimalString.
Import ListNotations.
Open Scope string_scope.
Open Scope nat_scope.

Definition acode (c : ascii) : nat := nat_of_ascii c.
Definition is_upper (c : ascii) : bool := (65 <=? acode c) && (acode c <=? 90).
Definition is_lower (c : ascii) : bool := (97 <=? acode c) && (acode c <=? 122).
Definition is_digit (c : ascii) : bool := (48 <=? acode c) && (acode c <=? 57).
Definition is_alpha (c : ascii) : bool := is_upper c || is_lower c.
Definition to_upper (c : ascii) : ascii := if is_lower c then ascii_of_nat (acode c - 32) else c.
Definition to_lower (c : ascii) : ascii := if is_upper c then ascii_of_nat (acode c + 32) else c.
Definition us : ascii := "_"%char.
Definition is_us (c : ascii) : bool := Ascii.eqb c us.

Fixpoint chars (s : string) : list ascii :=
  match s with EmptyString => [] | String c r => c :: chars r end.
Fixpoint unchars (l : list ascii) : string :=
  match l with [] => EmptyString | c :: r => String c (unchars r) end.

Definition upper_case (s : string) : string := unchars (map to_upper (chars s)).
Definition lower_l (l : list ascii) : list ascii := map to_lower l.

(* str.split("_") *)
Fixpoint split_us_aux (l cur : list ascii) : list (list ascii) :=
  match l with
  | [] => [rev cur]
  | c :: r => if is_us c then rev cur :: split_us_aux r [] else split_us_aux r (c :: cur)
  end.
Definition split_us (l : list ascii) : list (list ascii) := split_us_aux l [].

(* str.isupper(): at least one cased character and no lowercase one *)
Definition py_isupper (l : list ascii) : bool := existsb is_upper l && negb (existsb is_lower l).

Definition pascal_part (p : list ascii) : list ascii :=
  match p with
  | [] => []
  | c :: r => to_upper c :: (if py_isupper r then lower_l r else r)
  end.

Definition pascal_case (s : string) : string :=
  unchars (flat_map pascal_part (split_us (chars s))).

(* ---- snake_case ---- *)

(* re.sub(r"(.)([A-Z][a-z]+)", r"\1_\2"): [run]=true while copying the greedy [a-z]+ tail *)
Fixpoint camel_b1 (run : bool) (l : list ascii) : list ascii :=
  match l with
  | [] => []
  | c :: l1 =>
      if run && is_lower c then c :: camel_b1 true l1
      else match l1 with
           | u :: l2 =>
               match l2 with
               | w :: l3 =>
                   if is_upper u && is_lower w then c :: us :: u :: w :: camel_b1 true l3
                   else c :: camel_b1 false l1
               | [] => c :: camel_b1 false l1
               end
           | [] => [c]
           end
  end.

(* a substitution that inserts "_" between two adjacent characters when [p a b] holds; the
   second character of a match can never start another match for the three patterns used *)
Fixpoint between (p : ascii -> ascii -> bool) (l : list ascii) : list ascii :=
  match l with
  | [] => []
  | a :: l1 =>
      match l1 with
      | b :: _ => if p a b then a :: us :: between p l1 else a :: between p l1
      | [] => [a]
      end
  end.

Definition camel_b2 := between (fun a b => (is_lower a || is_digit a) && is_upper b).
Definition alpha_digit := between (fun a b => is_alpha a && is_digit b).
Definition digit_alpha := between (fun a b => is_digit a && is_alpha b).

Definition all_upper_or_digit (l : list ascii) : bool :=
  negb (match l with [] => true | _ => false end) && forallb (fun c => is_upper c || is_digit c) l.

Definition snake_token (respect : bool) (t : list ascii) : list ascii :=
  let t1 := camel_b2 (camel_b1 false t) in
  if negb respect && negb (all_upper_or_digit t1) then digit_alpha (alpha_digit t1) else t1.

Fixpoint join_us_l (ps : list (list ascii)) : list ascii :=
  match ps with
  | [] => []
  | [p] => p
  | p :: r => p ++ us :: join_us_l r
  end.

Fixpoint collapse_us (l : list ascii) : list ascii :=
  match l with
  | [] => []
  | a :: l1 =>
      match l1 with
      | b :: _ => if is_us a && is_us b then collapse_us l1 else a :: collapse_us l1
      | [] => [a]
      end
  end.

Fixpoint drop_us (l : list ascii) : list ascii :=
  match l with c :: r => if is_us c then drop_us r else l | [] => [] end.
Fixpoint take_us (l : list ascii) : list ascii :=
  match l with c :: r => if is_us c then c :: take_us r else [] | [] => [] end.
Definition strip_us (l : list ascii) : list ascii := rev (drop_us (rev (drop_us l))).

Definition snake_case (s : string) : string :=
  let w := chars s in
  match w with
  | [] => EmptyString
  | _ =>
      let pre := take_us w in
      let rest := drop_us w in
      let suf := take_us (rev rest) in
      let core := rev (drop_us (rev rest)) in
      let respect := existsb is_us w && existsb is_upper w && existsb is_lower w in
      let parts := map (snake_token respect)
                       (filter (fun t => negb (match t with [] => true | _ => false end)) (split_us core)) in
      unchars (pre ++ lower_l (strip_us (collapse_us (join_us_l parts))) ++ suf)
  end.

Definition keep_case (s : string) : string := s.

(* ---- small helpers used by the emission model ---- *)

Fixpoint join_with (sep : string) (l : list string) : string :=
  match l with
  | [] => EmptyString
  | [x] => x
  | x :: r => (x ++ sep ++ join_with sep r)%string
  end.

(* "{0}".format(n) for n >= 0 (Coq's own decimal printer: its injectivity comes with the library) *)
Definition dec (n : nat) : string := NilEmpty.string_of_uint (Nat.to_uint n).

Example snake_ex1 : snake_case "COLOR_RGB2HSV" = "color_rgb_2_hsv". Proof. reflexivity. Qed.
Example snake_ex2 : snake_case "someWord2Go" = "some_word_2_go". Proof. reflexivity. Qed.
Example snake_ex3 : snake_case "AB1C" = "ab_1_c". Proof. reflexivity. Qed.
Example snake_ex4 : snake_case "LbOuterInner" = "lb_outer_inner". Proof. reflexivity. Qed.
Example pascal_ex1 : pascal_case "my_prefix_someWord" = "MyPrefixSomeWord". Proof. reflexivity. Qed.
Example pascal_ex2 : pascal_case "AB" = "Ab". Proof. reflexivity. Qed.
Example dec_ex : dec 120 = "120" /\ dec 0 = "0" /\ dec 7 = "7". Proof. repeat split. Qed.
