(* JsonBase.v — the small vocabulary the GENERATED file gen/GenJson.v is written in.
   tools/translate_json.py reads lib/c/bitproto.c, recognises the statements of the
   BpJsonFormat* functions (fail closed) and prints their format strings, cast types,
   width thresholds and switch-case label groups as values of these types.
   DEREF(T, data) below stands for the C expression that reads *data through a T pointer. *)
From Coq Require Import ZArith List String.
Import ListNotations.
Open Scope Z_scope.

(* an if / else-if / else chain on `nbits` that selects (printf format, C type of the
   pointer cast through which the datum is read):
       if (nbits <= 8) { BpJsonFormatString(ctx, "%d", DEREF(int8_t, data)); } else ... *)
Inductive conv_tree : Type :=
| CLeaf (fmt : string) (cast : string)
| CIf (strict : bool) (bound : Z) (th el : conv_tree).      (* strict: `<`, else `<=` *)

(* the body of one `case` group of BpJsonFormatBaseType *)
Inductive bgroup : Type :=
| GBool (fmt cast tru fls : string)   (* BpJsonFormatString(ctx, fmt, DEREF(cast, data) ? tru : fls) *)
| GConv (c : conv_tree).

Fixpoint conv_eval (c : conv_tree) (nbits : Z) : string * string :=
  match c with
  | CLeaf f t => (f, t)
  | CIf strict b th el =>
      if (if strict then nbits <? b else nbits <=? b) then conv_eval th nbits else conv_eval el nbits
  end.

Fixpoint zmem (x : Z) (l : list Z) : bool :=
  match l with
  | [] => false
  | y :: r => if x =? y then true else zmem x r
  end.

(* first `case` group whose label list contains the flag *)
Fixpoint find_group {A} (flag : Z) (gs : list (list Z * A)) : option A :=
  match gs with
  | [] => None
  | g :: r => if zmem flag (fst g) then Some (snd g) else find_group flag r
  end.
