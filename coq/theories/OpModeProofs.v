(* OpModeProofs.v — from one field to whole schemas: for every traditional schema tree
   (no bound on nesting, widths, capacities) and every in-range value, the statements the
   three targets emit in optimization mode encode to exactly Spec.wire and decode Spec.wire
   into a zeroed struct to exactly the stored value. *)
From Coq Require Import ZArith List Bool Lia ZifyBool.
From BP Require Import Bits Schema Spec OpMode OpModeStep OpModeLeaf OpModeLeafDec OpModeList.
From BPGen Require Import GenOpMode.
Import ListNotations.
Open Scope Z_scope.

(* ---------- list helpers ---------- *)

Lemma map_flat_map {A B C} (g : B -> C) (f : A -> list B) l :
  map g (flat_map f l) = flat_map (fun x => map g (f x)) l.
Proof. induction l as [|a r IH]; cbn [flat_map map]; [reflexivity|]. now rewrite map_app, IH. Qed.

Lemma flat_map_ext_in {A B} (f g : A -> list B) l :
  (forall a, In a l -> f a = g a) -> flat_map f l = flat_map g l.
Proof.
  induction l as [|a r IH]; intros H; cbn [flat_map]; [reflexivity|].
  rewrite H by (left; reflexivity). rewrite IH; [reflexivity|]. intros; apply H; right; assumption.
Qed.

Lemma flat_map_seq_nth {A B} (g : A -> list B) d : forall l k0,
  flat_map (fun k => g (nth (k - k0) l d)) (seq k0 (length l)) = flat_map g l.
Proof.
  induction l as [|a r IH]; intros k0; [reflexivity|].
  cbn [length seq flat_map]. rewrite Nat.sub_diag. cbn [nth]. f_equal.
  rewrite <- (IH (S k0)). apply flat_map_ext_in. intros k Hk. apply in_seq in Hk.
  replace (k - k0)%nat with (S (k - S k0)) by lia. reflexivity.
Qed.

Lemma flat_map_seq_nth0 {A B} (g : A -> list B) d l :
  flat_map (fun k => g (nth k l d)) (seq 0 (length l)) = flat_map g l.
Proof.
  rewrite <- (flat_map_seq_nth g d l 0). apply flat_map_ext_in. intros k _. now rewrite Nat.sub_0_r.
Qed.

Lemma map_snd_pre {A} s (cs : list (chain * A)) : map snd (map (pre s) cs) = map snd cs.
Proof. rewrite map_map. apply map_ext. reflexivity. Qed.

Lemma map_fst_pre {A} s (cs : list (chain * A)) : map fst (map (pre s) cs) = map (cons s) (map fst cs).
Proof. rewrite !map_map. apply map_ext. reflexivity. Qed.

Lemma map_lview_pre s (cs : list cellT) : map lview (map (pre s) cs) = map (pre s) (map lview cs).
Proof. rewrite !map_map. apply map_ext. reflexivity. Qed.

(* ---------- the anonymous inner fixpoints are flat_maps ---------- *)

Lemma cells_msg x fs v :
  cells (TMsg x fs) v =
  flat_map (fun kf => map (pre (SF (fst kf))) (cells (snd kf) (vfield (fst kf) v))) fs.
Proof. reflexivity. Qed.

Lemma leaves_msg x fs :
  leaves (TMsg x fs) = flat_map (fun kf => map (pre (SF (fst kf))) (leaves (snd kf))) fs.
Proof. reflexivity. Qed.

Lemma cells_arr x cap e v :
  cells (TArr x cap e) v =
  flat_map (fun k => map (pre (SI k)) (cells e (nth k (vlist v) (VZ 0)))) (seq 0 cap).
Proof. reflexivity. Qed.

Definition fields_ok :=
  fix go (l : list (Z * ty)) : bool :=
    match l with
    | [] => true
    | kf :: r => opmode_ok (snd kf) && go r
    end.

Lemma opmode_ok_msg x fs : opmode_ok (TMsg x fs) = negb x && fields_ok fs.
Proof. reflexivity. Qed.

Lemma opmode_ok_arr x c e :
  opmode_ok (TArr x c e) = negb x && match e with TArr _ _ _ => false | _ => true end && opmode_ok e.
Proof. reflexivity. Qed.

Definition fields_wf :=
  fix go (l : list (Z * ty)) : bool :=
    match l with
    | [] => true
    | kf :: r => (1 <=? fst kf) && (fst kf <=? 255) && wf (snd kf) && go r
    end.

Lemma wf_msg x fs :
  wf (TMsg x fs) = keys_distinct (map fst fs) && (nbits (TMsg x fs) <=? 65535) && fields_wf fs.
Proof. reflexivity. Qed.

Definition fields_has_ty (vs : list (Z * val)) :=
  fix go (l : list (Z * ty)) : bool :=
    match l with
    | [] => true
    | kf :: r =>
        match lookup (fst kf) vs with
        | Some fv => has_ty (snd kf) fv
        | None => false
        end && go r
    end.

Lemma has_ty_msg x fs vs : has_ty (TMsg x fs) (VM vs) = fields_has_ty vs fs.
Proof. reflexivity. Qed.

Definition fields_bits (v : val) :=
  fix go (l : list (Z * ty)) : list bool :=
    match l with
    | [] => []
    | kf :: r => enc_bits (snd kf) (vfield (fst kf) v) ++ go r
    end.

Lemma enc_bits_msg x fs v :
  enc_bits (TMsg x fs) v = (if x then bits_of 16 (nbits (TMsg x fs)) else []) ++ fields_bits v fs.
Proof. reflexivity. Qed.

(* ---------- leaves are the cells without their values ---------- *)

Lemma cells_leaves t : forall v, map lview (cells t v) = leaves t.
Proof.
  induction t as [| | n | n | n ms | t IH | x c e IH | x fs IH] using ty_ind'; intros v;
    try reflexivity.
  - destruct t; try reflexivity. apply IH.
  - rewrite cells_arr. cbn [leaves]. rewrite map_flat_map. apply flat_map_ext_in. intros k _.
    now rewrite map_lview_pre, IH.
  - rewrite cells_msg, leaves_msg, map_flat_map.
    induction fs as [|kf r IHr]; [reflexivity|].
    inversion IH as [|? ? Hk Hr]; subst. cbn [flat_map].
    rewrite map_lview_pre, Hk. f_equal. apply IHr. exact Hr.
Qed.

(* ---------- chains are pairwise distinct ---------- *)

Lemma NoDup_app_intro {A} (a b : list A) :
  NoDup a -> NoDup b -> (forall x, In x a -> ~ In x b) -> NoDup (a ++ b).
Proof.
  induction a as [|h r IH]; intros Ha Hb Hd; [exact Hb|].
  inversion Ha as [|? ? Hn Hr]; subst. cbn [app]. constructor.
  - intros Hin. apply in_app_or in Hin. destruct Hin as [Hin|Hin]; [contradiction|].
    apply (Hd h); [left; reflexivity|exact Hin].
  - apply IH; [exact Hr|exact Hb|]. intros y Hy. apply Hd. right. exact Hy.
Qed.

Lemma NoDup_map_cons (s : sel) (l : list chain) : NoDup l -> NoDup (map (cons s) l).
Proof.
  induction 1 as [|h r Hn Hr IH]; cbn [map]; constructor; [|exact IH].
  intros Hin. apply in_map_iff in Hin. destruct Hin as (y & E & Hy). injection E as ->. contradiction.
Qed.

Lemma nodup_tagged {K} (tag : K -> sel) (body : K -> list chain) (ks : list K) :
  NoDup (map tag ks) -> (forall k, In k ks -> NoDup (body k)) ->
  NoDup (flat_map (fun k => map (cons (tag k)) (body k)) ks).
Proof.
  induction ks as [|k r IH]; intros Ht Hb; cbn [flat_map]; [constructor|].
  cbn [map] in Ht. inversion Ht as [|? ? Hn Hr]; subst.
  apply NoDup_app_intro.
  - apply NoDup_map_cons, Hb. left. reflexivity.
  - apply IH; [exact Hr|]. intros; apply Hb; right; assumption.
  - intros y Hy Hy2. apply in_map_iff in Hy. destruct Hy as (c1 & <- & _).
    apply in_flat_map in Hy2. destruct Hy2 as (k' & Hk' & Hin).
    apply in_map_iff in Hin. destruct Hin as (c2 & E & _). injection E as E1 _.
    apply Hn. rewrite <- E1. apply in_map. exact Hk'.
Qed.

Lemma keys_distinct_nodup l : keys_distinct l = true -> NoDup l.
Proof.
  induction l as [|k r IH]; cbn [keys_distinct]; intros H; constructor.
  - apply andb_true_iff in H. destruct H as [H _]. apply negb_true_iff in H.
    intros Hin. assert (existsb (Z.eqb k) r = true); [|congruence].
    apply existsb_exists. exists k. split; [exact Hin|apply Z.eqb_refl].
  - apply IH. apply andb_true_iff in H. apply H.
Qed.

Lemma NoDup_map_inj {A B} (f : A -> B) l : (forall a b, f a = f b -> a = b) -> NoDup l -> NoDup (map f l).
Proof.
  intros Hf. induction 1 as [|h r Hn Hr IH]; cbn [map]; constructor; [|exact IH].
  intros Hin. apply in_map_iff in Hin. destruct Hin as (y & E & Hy). apply Hf in E. subst. contradiction.
Qed.

Lemma one_cell_nodup t al v : NoDup (map fst (one_cell t al v)).
Proof.
  unfold one_cell. destruct (single_leaf t al); cbn; repeat constructor. intros [].
Qed.

Lemma cells_nodup t : forall v, wf t = true -> NoDup (map fst (cells t v)).
Proof.
  induction t as [| | n | n | n ms | t IH | x c e IH | x fs IH] using ty_ind'; intros v Hw;
    try apply one_cell_nodup.
  - cbn [wf] in Hw. destruct t; try apply one_cell_nodup. apply IH. exact Hw.
  - cbn [wf] in Hw. rewrite !andb_true_iff in Hw. destruct Hw as [_ He].
    rewrite cells_arr, map_flat_map.
    rewrite (flat_map_ext_in _ (fun k => map (cons (SI k)) (map fst (cells e (nth k (vlist v) (VZ 0)))))).
    2:{ intros k _. apply map_fst_pre. }
    apply (nodup_tagged SI (fun k => map fst (cells e (nth k (vlist v) (VZ 0))))).
    + apply NoDup_map_inj; [intros a b E; now injection E|apply seq_NoDup].
    + intros k _. apply IH. exact He.
  - rewrite wf_msg in Hw. rewrite !andb_true_iff in Hw. destruct Hw as [[Hk _] Hf].
    rewrite cells_msg, map_flat_map.
    rewrite (flat_map_ext_in _ (fun kf => map (cons (SF (fst kf))) (map fst (cells (snd kf) (vfield (fst kf) v))))).
    2:{ intros k _. apply map_fst_pre. }
    apply (nodup_tagged (fun kf : Z * ty => SF (fst kf))
             (fun kf => map fst (cells (snd kf) (vfield (fst kf) v)))).
    + rewrite <- (map_map fst SF). apply NoDup_map_inj; [intros a b E; now injection E|].
      apply keys_distinct_nodup. exact Hk.
    + intros kf Hin. rewrite Forall_forall in IH. apply (IH kf Hin).
      clear - Hf Hin. induction fs as [|h r IHr]; [destruct Hin|].
      cbn [fields_wf] in Hf. rewrite !andb_true_iff in Hf. destruct Hf as [[_ Hh] Hr].
      destruct Hin as [<-|Hin]; [exact Hh|apply IHr; assumption].
Qed.

(* ---------- the cells carry exactly the bits of the specification ---------- *)

Lemma total_bits_app a b : total_bits (a ++ b) = total_bits a + total_bits b.
Proof. induction a as [|x r IH]; cbn [app total_bits]; lia. Qed.

Lemma packZ_app a b :
  Forall (fun x => leaf_ok (fst x)) a -> packZ (a ++ b) = packZ a + 2 ^ total_bits a * packZ b.
Proof.
  induction 1 as [|x r Hx Hr IH]; cbn [app packZ total_bits]; [change (2 ^ 0) with 1; lia|].
  pose proof (cbits_pos x Hx). pose proof (total_bits_nonneg r Hr).
  rewrite IH, Z.pow_add_r by lia. ring.
Qed.

(* lv: the (leaf, value) list; bits: the specification's bits for the same part; n: its size *)
Definition good_lv (lv : list (leaf * val)) (bits : list bool) (n : Z) : Prop :=
  Forall cell_ty_ok lv /\ Z_of_bits bits = packZ lv /\
  Z.of_nat (length bits) = total_bits lv /\ total_bits lv = n.

Lemma good_nil : good_lv [] [] 0.
Proof. repeat split. constructor. Qed.

Lemma Forall_ty_leaf lv : Forall cell_ty_ok lv -> Forall (fun x => leaf_ok (fst x)) lv.
Proof. induction 1; constructor; [apply cell_ty_leaf_ok|]; assumption. Qed.

Lemma good_app l1 l2 b1 b2 n1 n2 :
  good_lv l1 b1 n1 -> good_lv l2 b2 n2 -> good_lv (l1 ++ l2) (b1 ++ b2) (n1 + n2).
Proof.
  intros (F1 & Z1 & L1 & N1) (F2 & Z2 & L2 & N2). repeat split.
  - apply Forall_app. split; assumption.
  - rewrite Z_of_bits_app, packZ_app by (apply Forall_ty_leaf; assumption). rewrite L1, Z1, Z2. reflexivity.
  - rewrite app_length, Nat2Z.inj_add, total_bits_app. lia.
  - rewrite total_bits_app. lia.
Qed.

Lemma good_one lf v bits :
  cell_ty_ok (lf, v) ->
  bits = bits_of (Z.to_nat (leaf_bits lf)) (match lk lf with KBool => leaf_pat lf v | _ => zof v end) ->
  good_lv [(lf, v)] bits (leaf_bits lf).
Proof.
  intros Hty ->. pose proof (cell_ty_leaf_ok _ Hty) as Hok. cbn [fst] in Hok.
  destruct (leaf_facts lf Hok) as (Hn & _ & _). cbv zeta in Hn.
  repeat split.
  - constructor; [exact Hty|constructor].
  - rewrite Z_of_bits_of, Z2Nat.id by lia. cbn [packZ]. unfold cbits, cpat. cbn [fst snd].
    rewrite (cpat_mod lf v Hok Hty). destruct (lk lf) eqn:E; try lia.
    (* bool: the pattern is 0/1 *)
    unfold leaf_bits. rewrite E. change bool_nbits with 1. change (2 ^ 1) with 2.
    unfold leaf_pat. rewrite E. destruct v as [[|]| | |]; reflexivity.
  - rewrite bits_of_length. cbn [total_bits]. unfold cbits. cbn [fst]. lia.
  - cbn [total_bits]. unfold cbits. cbn [fst]. lia.
Qed.

Lemma existsb_in z ms : existsb (Z.eqb z) ms = true -> In z ms.
Proof.
  intros H. apply existsb_exists in H. destruct H as (y & Hy & E). apply Z.eqb_eq in E. now subst.
Qed.

(* a scalar type (possibly behind an alias) *)
Lemma good_single t al v :
  match t with TBool | TByte | TUint _ | TInt _ | TEnum _ _ => True | _ => False end ->
  wf t = true -> has_ty t v = true ->
  good_lv (map snd (one_cell t al v)) (enc_bits t v) (nbits t).
Proof.
  intros Hk Hw Ht. destruct t as [| |n|n|n ms| | |]; try contradiction;
    cbn [one_cell single_leaf map snd enc_bits nbits wf has_ty] in *.
  - destruct v as [b| | |]; try discriminate.
    apply (good_one (mkleaf KBool al) (VB b)); [exists b; reflexivity|].
    cbn. destruct b; reflexivity.
  - destruct v as [|z| |]; try discriminate.
    apply (good_one (mkleaf KByte al) (VZ z)); [cbn; lia|reflexivity].
  - destruct v as [|z| |]; try discriminate.
    apply (good_one (mkleaf (KUint n) al) (VZ z)); [cbn; lia|reflexivity].
  - destruct v as [|z| |]; try discriminate.
    apply (good_one (mkleaf (KInt n) al) (VZ z)); [cbn; lia|reflexivity].
  - destruct v as [|z| |]; try discriminate.
    apply (good_one (mkleaf (KEnum n) al) (VZ z)); [|reflexivity].
    cbn. rewrite !andb_true_iff in Hw. destruct Hw as [[H1 H2] H3].
    rewrite forallb_forall in H3. specialize (H3 z (existsb_in _ _ Ht)). lia.
Qed.

Lemma cells_good t : forall v,
  wf t = true -> opmode_ok t = true -> has_ty t v = true ->
  good_lv (map snd (cells t v)) (enc_bits t v) (nbits t).
Proof.
  induction t as [| | n | n | n ms | t IH | x c e IH | x fs IH] using ty_ind'; intros v Hw Ho Ht;
    try (apply (good_single _ false); [exact I|assumption|assumption]).
  - (* alias *)
    cbn [wf has_ty opmode_ok] in *.
    destruct t as [| |n|n|n ms|t'|x c e|x fs]; try discriminate.
    + change (good_lv (map snd (one_cell TBool true v)) (enc_bits TBool v) (nbits TBool)).
      apply good_single; [exact I|assumption|assumption].
    + change (good_lv (map snd (one_cell TByte true v)) (enc_bits TByte v) (nbits TByte)).
      apply good_single; [exact I|assumption|assumption].
    + change (good_lv (map snd (one_cell (TUint n) true v)) (enc_bits (TUint n) v) (nbits (TUint n))).
      apply good_single; [exact I|assumption|assumption].
    + change (good_lv (map snd (one_cell (TInt n) true v)) (enc_bits (TInt n) v) (nbits (TInt n))).
      apply good_single; [exact I|assumption|assumption].
    + change (good_lv (map snd (cells (TArr x c e) v)) (enc_bits (TArr x c e) v) (nbits (TArr x c e))).
      apply IH; assumption.
  - (* array *)
    rewrite opmode_ok_arr in Ho. cbn [wf has_ty] in *.
    rewrite !andb_true_iff in Hw. rewrite !andb_true_iff in Ho.
    destruct Hw as [_ He]. destruct Ho as [[Hx _] Hoe]. apply negb_true_iff in Hx. subst x.
    destruct v as [| |l|]; try discriminate. rewrite andb_true_iff in Ht. destruct Ht as [Hlen Hall].
    apply Nat.eqb_eq in Hlen. subst c. rewrite forallb_forall in Hall.
    rewrite cells_arr, map_flat_map. cbn [vlist enc_bits nbits ext_bits app].
    rewrite (flat_map_ext_in _ (fun k => map snd (cells e (nth k l (VZ 0))))) by (intros; apply map_snd_pre).
    rewrite (flat_map_seq_nth0 (fun a => map snd (cells e a))).
    clear - IH He Hoe Hall.
    induction l as [|a r IHr]; cbn [flat_map length]; [apply good_nil|].
    replace (0 + Z.of_nat (S (length r)) * nbits e) with (nbits e + (0 + Z.of_nat (length r) * nbits e)) by lia.
    apply good_app.
    + apply IH; try assumption. apply Hall. left. reflexivity.
    + apply IHr. intros y Hy. apply Hall. right. exact Hy.
  - (* message *)
    rewrite wf_msg in Hw. rewrite opmode_ok_msg in Ho.
    rewrite !andb_true_iff in Hw. rewrite !andb_true_iff in Ho.
    destruct Hw as [_ Hf]. destruct Ho as [Hx Hof]. apply negb_true_iff in Hx. subst x.
    destruct v as [| | |vs]; try discriminate. rewrite has_ty_msg in Ht.
    rewrite cells_msg, map_flat_map, enc_bits_msg, nbits_msg. cbn [ext_bits app].
    rewrite (flat_map_ext_in _ (fun kf => map snd (cells (snd kf) (vfield (fst kf) (VM vs)))))
      by (intros; apply map_snd_pre).
    clear - IH Hf Hof Ht.
    induction fs as [|kf r IHr]; cbn [flat_map fields_bits fields_nbits fold_right]; [apply good_nil|].
    inversion IH as [|? ? Hk Hr]; subst.
    cbn [fields_wf fields_ok fields_has_ty] in Hf, Hof, Ht.
    rewrite !andb_true_iff in Hf. rewrite !andb_true_iff in Hof. rewrite !andb_true_iff in Ht.
    destruct Hf as [[_ Hwk] Hfr]. destruct Hof as [Hok Hor]. destruct Ht as [Htk Htr].
    replace (0 + (nbits (snd kf) + fold_right (fun kf0 acc => nbits (snd kf0) + acc) 0 r))
      with (nbits (snd kf) + (0 + fields_nbits r)) by (unfold fields_nbits; lia).
    apply good_app.
    + apply Hk; try assumption. cbn [vfield].
      destruct (lookup (fst kf) vs) as [fv|]; [exact Htk|discriminate].
    + apply IHr; assumption.
Qed.

(* ---------- norm preserves sizes (copied from PyEncTop to stay independent of the
   Python-runtime development) ---------- *)

Lemma fields_nbits_insert kf l :
  fields_nbits (insert_field kf l) = nbits (snd kf) + fields_nbits l.
Proof.
  induction l as [|h r IH]; [reflexivity|].
  cbn [insert_field]. unfold fields_nbits in *. destruct (fst kf <? fst h); cbn [fold_right] in *; lia.
Qed.

Lemma fields_nbits_sort l : fields_nbits (sort_fields l) = fields_nbits l.
Proof.
  induction l as [|h r IH]; [reflexivity|].
  cbn [sort_fields]. rewrite fields_nbits_insert. unfold fields_nbits in *. cbn [fold_right]. lia.
Qed.

Definition norm_fields :=
  fix go (l : list (Z * ty)) : list (Z * ty) :=
    match l with
    | [] => []
    | kf :: r => (fst kf, norm (snd kf)) :: go r
    end.

Lemma norm_msg x fs : norm (TMsg x fs) = TMsg x (sort_fields (norm_fields fs)).
Proof. reflexivity. Qed.

Lemma nbits_norm t : nbits (norm t) = nbits t.
Proof.
  induction t as [| | n | n | n ms | t IH | x c e IH | x fs IH] using ty_ind'; try reflexivity.
  - cbn [norm nbits]. exact IH.
  - cbn [norm nbits]. now rewrite IH.
  - rewrite norm_msg, !nbits_msg, fields_nbits_sort. f_equal.
    induction fs as [|kf r IHr]; [reflexivity|].
    inversion IH as [|? ? Hk Hr]; subst.
    cbn [norm_fields fields_nbits fold_right snd]. rewrite Hk. f_equal. apply IHr, Hr.
Qed.

(* ---------- whole schemas ---------- *)

Section Top.
  Variables (L : lang) (t : ty) (v : val).
  Hypothesis Hok : opmode_ok (norm t) = true.
  Hypothesis Hwf : wf (norm t) = true.
  Hypothesis Hty : has_ty (norm t) v = true.

  Let cs := cells (norm t) v.

  Lemma top_facts :
    Forall cell_ty_ok (map snd cs) /\ bufZ (wire t v) = packZ (map snd cs) /\
    total_bits (map snd cs) = nbits t /\
    length (wire t v) = Z.to_nat (nbytes t) /\ 0 <= nbits t /\ nbits t <= 8 * nbytes t.
  Proof.
    destruct (cells_good (norm t) v Hwf Hok Hty) as (F & Zb & Ln & Nb). fold cs in F, Zb, Ln, Nb.
    rewrite nbits_norm in Nb.
    pose proof (total_bits_nonneg _ (Forall_ty_leaf _ F)) as Hnn.
    split; [exact F|]. split; [unfold wire; rewrite bufZ_pack; exact Zb|]. split; [exact Nb|].
    split; [|unfold nbytes; lia].
    pose proof (pack_length (enc_bits (norm t) v)) as Hp. fold (wire t v) in Hp.
    rewrite Ln, Nb in Hp. unfold nbytes. lia.
  Qed.

  Theorem opmode_encode : run_encode (stmts L true t) t v = Some (wire t v).
  Proof.
    destruct top_facts as (F & HZ & Nb & Hl & Hnn & H8).
    unfold run_encode, stmts, store. fold cs. rewrite <- (cells_leaves (norm t) v). fold cs.
    destruct (all_enc L cs [] 0 (zeros (Z.to_nat (nbytes t)))) as (s' & R & Hs' & Hl' & Hb').
    - cbn [app]. apply cells_nodup. exact Hwf.
    - apply Forall_ty_leaf. exact F.
    - lia.
    - apply zeros_bytes_ok.
    - rewrite bufZ_zeros. cbn. lia.
    - rewrite zeros_length, Nb. lia.
    - cbn [app] in R. rewrite R. cbn [bind buf]. f_equal.
      apply bufZ_inj.
      + exact Hs'.
      + unfold wire. apply pack_bytes_ok.
      + rewrite Hl', zeros_length, Hl. reflexivity.
      + rewrite Hb', bufZ_zeros, HZ. change (2 ^ 0) with 1. lia.
  Qed.

  Theorem opmode_decode : run_decode (stmts L false t) t (wire t v) = Some (store (norm t) v).
  Proof.
    destruct top_facts as (F & HZ & Nb & Hl & Hnn & H8).
    unfold run_decode, stmts, store, zero_mem. fold cs.
    rewrite <- (cells_leaves (norm t) v). fold cs. rewrite map_map.
    change (map (fun x : cellT => (fst (lview x), mkcell (leaf_cty (snd (lview x))) 0)) cs)
      with (map zero_of cs).
    pose proof (all_dec L (wire t v) cs [] 0) as R. cbn [app map] in R.
    rewrite R.
    - cbn [bind objs]. f_equal. apply dec_cells_eq; [lia|exact F|].
      change (2 ^ 0) with 1. rewrite Z.div_1_r. exact HZ.
    - apply cells_nodup. exact Hwf.
    - apply Forall_ty_leaf. exact F.
    - lia.
    - unfold wire. apply pack_bytes_ok.
    - rewrite Nb, Hl. lia.
  Qed.
End Top.

(* ---------- the C renderer's --endian selection ---------- *)

Definition branch_of (e : endian) (macro_defined : bool) : lang :=
  match e with
  | ELittle => CLE
  | EBig => CBE
  | EBoth => if macro_defined then CBE else CLE
  end.

Lemma select_branch e m enc t :
  select m (c_body e enc t) =
  match branch_of e m with
  | CBE => c_be_body enc t
  | _ => c_le_body enc t
  end.
Proof. destruct e, m; reflexivity. Qed.

Lemma memset_zero_mem t : 
  exec (mkst (@nil Z) (zero_mem t)) SMemset = Some (mkst [] (zero_mem t)).
Proof.
  cbn [exec buf objs]. do 2 f_equal. unfold zero_mem. rewrite map_map. apply map_ext. reflexivity.
Qed.

Lemma run_memset_zero t s l :
  run (SMemset :: l) (mkst s (zero_mem t)) = run l (mkst s (zero_mem t)).
Proof.
  cbn [run exec buf objs bind]. do 2 f_equal. unfold zero_mem. rewrite map_map. apply map_ext. reflexivity.
Qed.

Section Select.
  Variables (t : ty) (v : val).
  Hypothesis Hok : opmode_ok (norm t) = true.
  Hypothesis Hwf : wf (norm t) = true.
  Hypothesis Hty : has_ty (norm t) v = true.

  Theorem c_le_encode : run_encode (c_le_body true t) t v = Some (wire t v).
  Proof. apply opmode_encode; assumption. Qed.
  Theorem c_le_decode : run_decode (c_le_body false t) t (wire t v) = Some (store (norm t) v).
  Proof. apply opmode_decode; assumption. Qed.
  Theorem c_be_encode : run_encode (c_be_body true t) t v = Some (wire t v).
  Proof. apply (opmode_encode CBE); assumption. Qed.
  Theorem c_be_decode : run_decode (c_be_body false t) t (wire t v) = Some (store (norm t) v).
  Proof.
    unfold c_be_body, run_decode. cbn [app]. rewrite run_memset_zero.
    apply (opmode_decode CBE); assumption.
  Qed.
  Theorem go_encode : run_encode (go_body true t) t v = Some (wire t v).
  Proof. apply (opmode_encode GO); assumption. Qed.
  Theorem go_decode : run_decode (go_body false t) t (wire t v) = Some (store (norm t) v).
  Proof. apply (opmode_decode GO); assumption. Qed.

  Theorem endian_select e m :
    run_encode (select m (c_body e true t)) t v = Some (wire t v) /\
    run_decode (select m (c_body e false t)) t (wire t v) = Some (store (norm t) v).
  Proof.
    rewrite !select_branch. destruct (branch_of e m); split;
      auto using c_le_encode, c_le_decode, c_be_encode, c_be_decode.
  Qed.
End Select.

(* ---------- the stored pattern IS the value (what "same field values" means) ---------- *)

Lemma store_value lf v :
  cell_ty_ok (lf, v) ->
  sval (leaf_cty lf) (leaf_pat lf v) =
  match lk lf with KBool => (match v with VB true => 1 | _ => 0 end) | _ => zof v end.
Proof.
  intros Hty. pose proof (cell_ty_leaf_ok _ Hty) as Hok. cbn [fst] in Hok.
  destruct (leaf_facts lf Hok) as (Hn & Hsz & _). cbv zeta in *.
  unfold leaf_pat, leaf_cty, leaf_bits, cell_ty_ok in *. cbn [fst snd] in *.
  destruct (lk lf) as [| |n|n|n] eqn:E; cbn [csz sval] in *.
  - reflexivity.
  - change byte_nbits with 8 in *. apply Z.mod_small. lia.
  - destruct Hty as (_ & Hz). assert (2 ^ n <= 2 ^ storage_bits n) by (apply Z.pow_le_mono_r; lia).
    apply Z.mod_small. lia.
  - destruct Hty as (Hr & Hz). set (sb := storage_bits n) in *.
    assert (Hh : 0 < 2 ^ (n - 1)) by (apply pow2_pos; lia).
    assert (Hle : 2 ^ (n - 1) <= 2 ^ (sb - 1)) by (apply Z.pow_le_mono_r; lia).
    assert (H2 : 2 ^ sb = 2 * 2 ^ (sb - 1)).
    { replace sb with (1 + (sb - 1)) at 1 by lia. rewrite Z.pow_add_r by lia. reflexivity. }
    destruct (Z.lt_ge_cases (zof v) 0) as [Hneg|Hpos].
    + replace (zof v mod 2 ^ sb) with (zof v + 2 ^ sb).
      2:{ symmetry. replace (zof v) with (zof v + 2 ^ sb + (-1) * 2 ^ sb) at 1 by ring.
          rewrite Z.mod_add by lia. apply Z.mod_small. lia. }
      replace (zof v + 2 ^ sb <? 2 ^ (sb - 1)) with false by lia. lia.
    + rewrite Z.mod_small by lia. replace (zof v <? 2 ^ (sb - 1)) with true by lia. reflexivity.
  - destruct Hty as (_ & Hz). assert (2 ^ n <= 2 ^ storage_bits n) by (apply Z.pow_le_mono_r; lia).
    apply Z.mod_small. lia.
Qed.

Lemma store_cells_ok t v :
  wf (norm t) = true -> opmode_ok (norm t) = true -> has_ty (norm t) v = true ->
  Forall cell_ty_ok (map snd (cells (norm t) v)).
Proof. intros Hw Ho Ht. apply (cells_good (norm t) v Hw Ho Ht). Qed.
