(* Total.v — C09 "compilation is total": the model.

   PARTIAL BY NATURE.  ply's regex tokenizer and LALR driver are not modelled, so
   "parse() terminates without an internal exception on arbitrary bytes" is NOT a theorem
   of this development.  What is modelled — with every failing branch written out — is the
   code bitproto itself runs inside the token rules, the semantic actions and the renderers:

     1. t_STRING_LITERAL: token language (generated regex), the scan ply performs at a
        quote, the escape loop (generated, GenC09.escape_loop);
     2. int()/int(,16) conversions of the lexer rules and str() of integers (CPython's
        4300-digit limit), the GenC09.lex_ definitions;
     3. constant arithmetic of the calculation_expression actions (the GenC09.calc_ definitions);
     4. the *_item_unsupported dispatch (which p[k] reaches from_token);
     5. every p[k] / p.lineno(k) / p.lexpos(k) of every semantic action against the lengths
        of its productions (GenC09.actions);
     6. error hooks, the class hierarchy and what _main.py converts into a diagnostic;
     7. option value checking;
     8. renderer-side partial operations: fields()[0] (Python formatter), format_int_value;
     9. reading a source file: UTF-8 decoding, NUL in an import path.

   Outcomes are three-way (TotalBase.outcome): Ok | ParserError kind | Crash exn. *)
From Coq Require Import String Ascii ZArith List Bool Lia.
From BP Require Import Re ReLinear TotalBase Schema.
From BPGen Require Import GenC09.
Import ListNotations.
Local Open Scope string_scope.
Open Scope Z_scope.

(* ====================================================================================== *)
(* 1. string literals                                                                      *)
(* ====================================================================================== *)

Definition QUOTE : ascii := ascii_of_nat 34.
Definition BSLASH : ascii := ascii_of_nat 92.
Definition NEWLINE : ascii := ascii_of_nat 10.

(* the token language, decided with the GENERATED regex *)
Definition str_token_ok (tv : list ascii) : bool := re_matchb string_literal_re tv.

(* What the (non-greedy, backtracking) regex does on the text after an opening quote:
   the first unescaped quote ends the token; a newline, a backslash-newline or the end of
   the text before that means "no match" (=> t_error => LexerError).  Result: number of
   characters of the body INCLUDING the closing quote. *)
Fixpoint scan_string_body (s : list ascii) : option nat :=
  match s with
  | [] => None
  | c :: r =>
      if Ascii.eqb c QUOTE then Some 1%nat
      else if Ascii.eqb c BSLASH then
        match r with
        | [] => None
        | d :: r' => if Ascii.eqb d NEWLINE then None
                     else option_map (fun n => S (S n)) (scan_string_body r')
        end
      else if Ascii.eqb c NEWLINE then None
      else option_map S (scan_string_body r)
  end.

(* first token of a text that starts with a quote: (value, end position) *)
Definition lex_string (text : list ascii) : outcome (list ascii * Z) :=
  match text with
  | q :: rest =>
      if Ascii.eqb q QUOTE then
        match scan_string_body rest with
        | Some n => let tv := firstn (S n) text in
                    bind (unescape_token tv) (fun v => Ok (v, Z.of_nat (S n)))
        | None => ParserError "LexerError"          (* t_error: "Invalid token" *)
        end
      else ParserError "NotModelled"
  | [] => ParserError "NotModelled"
  end.

(* ====================================================================================== *)
(* 2. integers                                                                             *)
(* ====================================================================================== *)

(* str(z) as used by format_int_value, by p_error (str(p.value)) and by p_array_type
   ("{0}[{1}]".format(p[1], p[3])) *)
Definition str_int (z : Z) : outcome unit := py_str_int py_int_max_str_digits z.

(* ====================================================================================== *)
(* 3. constant expressions                                                                 *)
(* ====================================================================================== *)

Inductive cexpr : Type :=
| CLitE (z : Z)
| CRef (name : string)
| CAdd (a b : cexpr) | CSub (a b : cexpr) | CMul (a b : cexpr) | CDiv (a b : cexpr)
| CGroup (a : cexpr).

(* what a name resolves to *)
Inductive cbinding : Type := BInt (z : Z) | BBool (b : bool) | BStr (s : list ascii) | BNotConst.

Fixpoint clookup (env : list (string * cbinding)) (n : string) : option cbinding :=
  match env with
  | [] => None
  | (k, v) :: r => if String.eqb k n then Some v else clookup r n
  end.

(* p_constant_reference (parser.py:457) then p_constant_reference_for_calculation (:429) *)
Definition cref (env : list (string * cbinding)) (n : string) : outcome Z :=
  match clookup env n with
  | None => ParserError "ReferencedConstantNotDefined"
  | Some BNotConst => ParserError "ReferencedNotConstant"
  | Some (BInt z) => Ok z
  | Some _ => ParserError "CalculationExpressionError"
  end.

(* LALR reduction order: left operand, right operand, then the operator's action *)
Fixpoint ceval (env : list (string * cbinding)) (e : cexpr) : outcome Z :=
  match e with
  | CLitE z => Ok z
  | CRef n => cref env n
  | CAdd a b => bind (ceval env a) (fun x => bind (ceval env b) (fun y => calc_plus x y))
  | CSub a b => bind (ceval env a) (fun x => bind (ceval env b) (fun y => calc_minus x y))
  | CMul a b => bind (ceval env a) (fun x => bind (ceval env b) (fun y => calc_times x y))
  | CDiv a b => bind (ceval env a) (fun x => bind (ceval env b) (fun y => calc_divide x y))
  | CGroup a => ceval env a
  end.

(* ====================================================================================== *)
(* 4. items that a message / an enum does not support                                      *)
(* ====================================================================================== *)

(* the grammar alternatives of message_item_unsupported / enum_item_unsupported *)
Inductive item : Type :=
| IAlias | IConst | IProto | IImport | IOption | IEnum | IMessage | IField.

(* class of the value the item's own action leaves in p[1] ("None": the action assigns no p[0]) *)
Definition item_class (i : item) : string :=
  match i with
  | IAlias => "Alias" | IConst => "Constant" | IImport => "Proto" | IProto => "None"
  | IOption => "Option" | IEnum => "Enum" | IMessage => "Message" | IField => "MessageField"
  end.

(* p_proto itself refuses a proto statement outside the global scope (parser.py:252) *)
Definition item_own_error (i : item) : option string :=
  match i with
  | IProto => Some "UnsupportedToDeclareProtoNameOutofProtoScope"
  | _ => None
  end.

(* E.from_token(token=p[k]) in an action whose production has one symbol:
   p[1] is the node (has filepath/token/lineno), p[0] is still None, p[k>=2] does not exist *)
Definition from_token_of (err : string) (k : Z) : outcome unit :=
  if k =? 1 then ParserError err
  else if k =? 0 then Crash AttributeError
  else if k <? 0 then Crash AttributeError          (* parser stack entry: not a node *)
  else Crash IndexError.

Fixpoint dispatch (table : list (string * string * option Z)) (final : string) (cls : string)
  : outcome unit :=
  match table with
  | [] => ParserError final
  | (c, err, how) :: r =>
      if String.eqb c cls then
        match how with
        | Some k => from_token_of err k
        | None => ParserError err     (* E(lineno=p.lineno(1), filepath=..., token="...") *)
        end
      else dispatch r final cls
  end.

Definition unsupported_outcome (table : list (string * string * option Z)) (final : string) (i : item)
  : outcome unit :=
  match item_own_error i with
  | Some e => ParserError e
  | None => dispatch table final (item_class i)
  end.

Definition message_item_outcome (i : item) : outcome unit :=
  unsupported_outcome message_item_unsupported message_item_unsupported_final i.
Definition enum_item_outcome (i : item) : outcome unit :=
  unsupported_outcome enum_item_unsupported enum_item_unsupported_final i.

Definition message_items : list item := [IAlias; IConst; IProto; IImport].
Definition enum_items : list item := [IAlias; IConst; IProto; IImport; IOption; IEnum; IMessage; IField].

(* ====================================================================================== *)
(* 5. index analysis of the semantic actions                                               *)
(* ====================================================================================== *)

(* p[k], p.lineno(k), p.lexpos(k) raise IndexError unless k < len(p)  (ply.yacc.YaccProduction;
   a negative k reads the parser stack and does not raise) *)
Definition access_ok (len : nat) (a : pindex * list nat * nat) : bool :=
  let '(k, lens, _) := a in
  if existsb (Nat.eqb len) lens then
    match k with
    | KConst k => k <? Z.of_nat len
    | KLenMinus c => let j := Z.of_nat len - c in (0 <=? j) && (j <? Z.of_nat len)
    end
  else true.

Definition action_ok (a : string * nat * list nat * list (pindex * list nat * nat)) : bool :=
  let '(_, _, lens, accs) := a in
  forallb (fun len => forallb (access_ok len) accs) lens.

Definition bad_actions : list string :=
  map (fun a => fst (fst (fst a))) (filter (fun a => negb (action_ok a)) actions).

(* ====================================================================================== *)
(* 6. error hooks and what _main.py converts into a diagnostic                             *)
(* ====================================================================================== *)

Definition caught_by (handlers : list string) (cls : string) : bool :=
  existsb (fun h => is_subclass error_classes cls h) handlers.

Definition parse_diag (cls : string) : bool := caught_by main_parse_caught cls.
Definition render_diag (cls : string) : bool := caught_by main_render_caught cls.

(* classes raised in lexer.py / parser.py / _ast.py that would NOT become a diagnostic *)
Definition front_non_diag : list string :=
  filter (fun c => negb (parse_diag c)) (lexer_raises ++ parser_raises ++ ast_raises).

(* every path of the hooks ends in raising a class that becomes a diagnostic *)
Definition hooks_raise_diag : bool :=
  forallb (fun p => parse_diag (fst (fst p))) (t_error_paths ++ p_error_paths).

(* value of the offending token as p_error sees it *)
Inductive tokval : Type := TInt (z : Z) | TOther.

(* one path of p_error: a path that formats str(p.value) converts an int to decimal *)
Definition p_error_path_outcome (path : string * bool * nat) (v : tokval) : outcome unit :=
  let '(cls, uses_str, _) := path in
  match uses_str, v with
  | true, TInt z => bind (str_int z) (fun _ => ParserError cls)
  | _, _ => ParserError cls
  end.

(* the path of p_error taken for an unexpected TOKEN (the one that formats the token's value) *)
Definition p_error_token_path : option (string * bool * nat) :=
  find (fun p => snd (fst p)) p_error_paths.

Definition p_error_int_outcome (z : Z) : outcome unit :=
  match p_error_token_path with
  | Some path => p_error_path_outcome path (TInt z)
  | None => ParserError "GrammarError"
  end.

(* p_array_type (parser.py:541): the token text is "{0}[{1}]".format(element, capacity) *)
Definition array_type_token (cap : Z) : outcome unit :=
  if array_type_formats_cap then str_int cap else Ok tt.

(* ====================================================================================== *)
(* 7. options                                                                              *)
(* ====================================================================================== *)

Inductive oval : Type := OVBool (b : bool) | OVInt (z : Z) | OVStr (s : list ascii).

Definition kind_matches (k : okind) (v : oval) : bool :=
  match k, v with
  | OBool, OVBool _ | OInt, OVInt _ | OStr, OVStr _ => true
  | _, _ => false
  end.

Definition find_descriptor (scope name : string) :=
  find (fun d => let '(s, n, _, _) := d in String.eqb s scope && String.eqb n name) option_descriptors.

(* ScopeWithOptions.validate_option_on_push (_ast.py:612) *)
Definition option_check (scope name : string) (v : oval) : outcome unit :=
  match find_descriptor scope name with
  | None => ParserError "UnsupportedOption"
  | Some (_, _, k, validator) =>
      if kind_matches k v then
        match validator, v with
        | Some f, OVInt z => if f z then Ok tt else ParserError "InvalidOptionValue"
        | _, _ => Ok tt
        end
      else ParserError "InvalidOptionValue"
  end.

(* get_option_value_or_raise (_ast.py:592): InternalError (not a diagnostic) on a type mismatch *)
Definition option_get_typed (k : okind) (v : oval) : outcome oval :=
  if kind_matches k v then Ok v else Crash InternalError.

(* ====================================================================================== *)
(* 8. renderers                                                                            *)
(* ====================================================================================== *)

(* PyFormatter.format_default_value_enum: t.fields()[0] *)
Definition py_enum_default (members : list Z) : outcome unit :=
  if py_enum_default_guarded then Ok tt
  else match members with [] => Crash IndexError | _ :: _ => Ok tt end.

(* every default value the Python renderer formats for a message type: fields of enum type,
   array elements, the aliased type of every alias used, nested messages *)
Fixpoint py_render_defaults (t : ty) : outcome unit :=
  match t with
  | TEnum _ ms => py_enum_default ms
  | TAlias t => py_render_defaults t
  | TArr _ _ e => py_render_defaults e
  | TMsg _ fs =>
      (fix go (l : list (Z * ty)) : outcome unit :=
         match l with
         | [] => Ok tt
         | kf :: r => bind (py_render_defaults (snd kf)) (fun _ => go r)
         end) fs
  | _ => Ok tt
  end.

(* format_int_value (c, go and py alike): str of the int; when guarded, a ValueError becomes a
   RendererError, which _main.py reports *)
Definition render_int (z : Z) : outcome unit :=
  if format_int_value_guarded then py_catch_value_error (str_int z) "RendererError" else str_int z.

(* ... on every integer constant of the proto *)
Fixpoint render_ints (zs : list Z) : outcome unit :=
  match zs with
  | [] => Ok tt
  | z :: r => bind (render_int z) (fun _ => render_ints r)
  end.

Definition ints_small (zs : list Z) : bool :=
  forallb (fun z => Z.abs z <? pow10 py_int_max_str_digits) zs.

Inductive lang : Type := LC | LGo | LPy.

Definition render (l : lang) (t : ty) (consts : list Z) : outcome unit :=
  bind (render_ints consts) (fun _ =>
    match l with
    | LPy => py_render_defaults t
    | _ => Ok tt
    end).

(* ---- regular expressions applied to user text: the name converters' (utils.py; linter.py has
   none) and the token rules translated above.  None may contain a quantifier inside a quantifier
   or an ambiguous iteration (ReLinear.is_flat): a backtracking matcher then works in polynomial
   time, so no identifier / literal can make compilation hang in the regex engine. *)
Definition all_regexes : list (string * (bool * bool) * re) := name_regexes ++ token_regexes.
Definition regexes_not_flat : list string := non_flat all_regexes.

(* ====================================================================================== *)
(* 9. reading a source file                                                                *)
(* ====================================================================================== *)

(* strict UTF-8 (what open(path).read() applies under a UTF-8 locale): no overlong forms,
   no surrogates, nothing above U+10FFFF *)
Definition cont (b : Z) : bool := (128 <=? b) && (b <=? 191).

Fixpoint utf8_valid_fuel (fuel : nat) (s : list Z) : bool :=
  match fuel with
  | O => match s with [] => true | _ => false end
  | S f =>
      match s with
      | [] => true
      | b0 :: r =>
          if b0 <? 128 then utf8_valid_fuel f r
          else if (194 <=? b0) && (b0 <=? 223) then
            match r with b1 :: r1 => cont b1 && utf8_valid_fuel f r1 | _ => false end
          else if (224 <=? b0) && (b0 <=? 239) then
            match r with
            | b1 :: b2 :: r2 =>
                cont b1 && cont b2 &&
                (if b0 =? 224 then 160 <=? b1 else true) &&
                (if b0 =? 237 then b1 <=? 159 else true) &&
                utf8_valid_fuel f r2
            | _ => false
            end
          else if (240 <=? b0) && (b0 <=? 244) then
            match r with
            | b1 :: b2 :: b3 :: r3 =>
                cont b1 && cont b2 && cont b3 &&
                (if b0 =? 240 then 144 <=? b1 else true) &&
                (if b0 =? 244 then b1 <=? 143 else true) &&
                utf8_valid_fuel f r3
            | _ => false
            end
          else false
      end
  end.

Definition utf8_valid (s : list Z) : bool := utf8_valid_fuel (length s) s.

(* Parser.parse: open(filepath).read() *)
Definition read_source (bytes : list Z) : outcome unit :=
  if utf8_valid bytes then Ok tt
  else if parse_catches_decode_error then ParserError "LexerError" else Crash UnicodeDecodeError.

(* p_import -> _check_parsing_file -> os.path.samefile(path): ValueError on an embedded NUL
   (any other unusable path is an OSError, which _main.py reports) *)
Definition import_path (path : list ascii) : outcome unit :=
  if existsb (fun c => Ascii.eqb c (ascii_of_nat 0)) path
  then (if import_path_guarded then ParserError "GrammarError" else Crash ValueError)
  else Ok tt.

(* ====================================================================================== *)
(* 10. whole token rules, and comparison helpers for the T2 case files                     *)
(* ====================================================================================== *)

(* t_UINT_TYPE / t_INT_TYPE: conversion, then the type node validates its width *)
Definition uint_rule (tv : list ascii) : outcome Z := bind (lex_uint_cap tv) uint_cap_check.
Definition int_rule (tv : list ascii) : outcome Z := bind (lex_int_cap tv) int_cap_check.

Definition str_result_eqb (a b : list ascii * Z) : bool :=
  ascii_list_eqb (fst a) (fst b) && (snd a =? snd b).

Definition out_str_eqb := outcome_eqb str_result_eqb.
Definition out_z_eqb := outcome_eqb Z.eqb.
Definition out_unit_eqb := outcome_eqb (fun _ _ : unit => true).

(* same outcome CLASS (Ok / the same ParserError / the same exception), values ignored *)
Definition same_class {A B} (a : outcome A) (b : outcome B) : bool :=
  match a, b with
  | Ok _, Ok _ => true
  | ParserError k, ParserError k' => String.eqb k k'
  | Crash e, Crash e' => pyexn_eqb e e'
  | _, _ => false
  end.

Definition code (tie_ok : bool) (impl_crashed : bool) : Z :=
  (if tie_ok then 0 else 1) + (if impl_crashed then 2 else 0).
