(* MemoRules — decision procedures over the tables that tools/translate_memo.py extracts from
   the compiler's source (coq/gen/GenMemo.v), and the proof that the CURRENT tables pass.

   These are the static half of "purity of the generator's decision inputs":
     * every node class that can be frozen is hashed by identity (safe_hash applied after
       dataclass), so a memo key is the node itself;
     * a cached method reads its own node downwards only (members, type, element_type, plain
       attributes): never the enclosing scopes, the bound proto's content or anything dynamic;
       a method under the unconditional functools.cache reads class-level data only;
     * the generator reads no process-level input (cwd, environment, clock, randomness, id(),
       hash(), set iteration, the file system / the output directory) outside an explicit allow-list,
       and neither does the front end (source path aside), and the compiler keeps no
       mutable state across compilations outside an explicit allow-list.
   The scan is syntactic: it bounds where such inputs can enter, it does not prove their absence
   from data flowing through allowed sites (that is what the sampled process-level runs cover). *)
From Coq Require Import Bool List String ZArith.
From BPGen Require Import GenMemo.
Import ListNotations.
Open Scope string_scope.

Definition str_in (s : string) (l : list string) : bool := existsb (String.eqb s) l.
Definition pair_in (p : string * string) (l : list (string * string)) : bool :=
  existsb (fun q => String.eqb (fst p) (fst q) && String.eqb (snd p) (snd q)) l.

(* ---- classes ------------------------------------------------------------------------ *)
Definition is_frozen_dec (d : string) : bool :=
  String.eqb d "frozen" || String.eqb d "frozen(post_init=False)".
Definition mentions_frozen (d : string) : bool := String.prefix "frozen" d.

(* decorators are listed outermost first: frozen must come before (be applied after) dataclass *)
Fixpoint frozen_then_dataclass (ds : list string) (seen_frozen : bool) : bool :=
  match ds with
  | [] => false
  | d :: t => if String.eqb d "dataclass" then seen_frozen
              else if is_frozen_dec d then frozen_then_dataclass t true
              else if mentions_frozen d then false
              else frozen_then_dataclass t seen_frozen
  end.

Definition class_ok (c : string * list string * list string) : bool :=
  match c with
  | (_, ds, _) =>
      if existsb mentions_frozen ds then frozen_then_dataclass ds false
      else (* never frozen: either a plain dataclass or dataclass(frozen=True) value object *)
        forallb (fun d => String.eqb d "dataclass" || String.eqb d "dataclass(frozen=True)" ||
                          String.eqb d "final") ds
  end.

Definition classes_ok : bool := forallb class_ok ast_classes.

(* ---- cached methods ----------------------------------------------------------------- *)
Definition forbidden_read (r : string) : bool :=
  String.prefix "scope_stack" r || String.prefix "references" r ||
  String.prefix "_bound." r || String.prefix "_bound[" r ||
  String.prefix "bound." r || String.prefix "bound[" r ||
  String.prefix "<dynamic" r || String.prefix "__dict__" r.

Definition method_ok (m : string * string * string * list string) : bool :=
  match m with
  | (_, _, kind, reads) =>
      if String.eqb kind "cache_if_frozen" then negb (existsb forbidden_read reads)
      else if String.eqb kind "cache" then forallb (String.eqb "__option_descriptors__") reads
      else false
  end.

Definition methods_ok : bool := forallb method_ok cached_methods.

(* ---- process-level inputs -------------------------------------------------------------- *)
(* why each allowed site cannot influence generated text:
   format_out_filename   : only os.path.basename(proto.filepath) minus extension names the output file;
   get_outdir_default    : chooses the directory the file is written to, never its content;
   Renderer.render / write_file : open() for writing the output;
   safe_hash.__hash__    : identity hash used as dict key only; no iteration over a hash-ordered
                           container exists in the generator (no set display/comprehension, no set()) *)
Definition allowed_sites : list (string * string) := [
  ("renderer/formatter.py:Formatter.format_out_filename", "read .filepath");
  ("renderer/renderer.py:Renderer.get_outdir_default", "read .filepath");
  ("renderer/renderer.py:Renderer.get_outdir_default", "os.path.abspath");
  ("renderer/renderer.py:Renderer.get_outdir_default", "os.getcwd");
  ("renderer/renderer.py:Renderer.render", "open(w)");
  ("utils.py:safe_hash.__hash__", "hash()");
  ("utils.py:safe_hash.__hash__", "id()");
  ("utils.py:write_file", "open(w)")
].
(* the front end, source path aside: the source file is read; the working directory is consulted
   only when a STRING is parsed (import_base, below); samefile compares paths of files it opens *)
Definition allowed_frontend_sites : list (string * string) := [
  ("parser.py:Parser.parse", "open(read)");
  ("parser.py:Parser._get_child_filepath", "os.getcwd");
  ("parser.py:Parser._check_parsing_file", "os.path.samefile");
  ("parser.py:Parser.p_import", "os.path.samefile")
].
(* read-only tables; _TYPE_MISSING / _UINT_MISSING are placeholder types shared by all compilations
   (default of Array.element_type / Enum.type, replaced by the parser; _UINT_MISSING is frozen,
   _TYPE_MISSING is a plain Type that nothing assigns to): they are outside the disjoint-names
   hypothesis of C18_interleaving and harmless only because they are never mutated *)
Definition allowed_globals : list (string * string) := [
  ("_ast.py:<module>", "module-level instance _TYPE_MISSING = Type(...)");
  ("_ast.py:<module>", "module-level instance _UINT_MISSING = Uint(...)");
  ("lexer.py:Lexer", "class-level mutable container escaping_chars");
  ("renderer/impls/__init__.py:<module>", "module-level mutable container renderer_registry")
].

Definition sites_ok : bool :=
  forallb (fun p => pair_in p allowed_sites) impure_sites &&
  forallb (fun p => pair_in p allowed_frontend_sites) frontend_sites.
Definition globals_ok : bool := forallb (fun p => pair_in p allowed_globals) mutable_globals.
Definition no_other_cache_users : bool :=
  match other_cache_users with [] => true | _ => false end.

Lemma classes_ok_holds : classes_ok = true.
Proof. vm_compute. reflexivity. Qed.
Lemma methods_ok_holds : methods_ok = true.
Proof. vm_compute. reflexivity. Qed.
Lemma sites_ok_holds : sites_ok = true /\ globals_ok = true /\ no_other_cache_users = true.
Proof. vm_compute. repeat split; reflexivity. Qed.

(* the rules are not vacuous: they reject what they are meant to reject *)
Lemma rules_reject :
  class_ok ("X", ["dataclass"; "frozen"], ["Node"]) = false /\
  class_ok ("X", ["frozen(safe_hash=False)"; "dataclass"], ["Node"]) = false /\
  method_ok ("X", "f", "cache_if_frozen", ["members"; "scope_stack[]"]) = false /\
  method_ok ("X", "f", "cache_if_frozen", ["_bound"; "_bound.members"]) = false /\
  method_ok ("X", "f", "cache", ["members"]) = false /\
  pair_in ("renderer/impls/c/renderer_c.py:X.render", "os.getcwd") allowed_sites = false.
Proof. vm_compute. repeat split; reflexivity. Qed.

Lemma decision_inputs_hold :
  classes_ok = true /\ methods_ok = true /\
  sites_ok = true /\ globals_ok = true /\ no_other_cache_users = true.
Proof.
  split; [exact classes_ok_holds|]. split; [exact methods_ok_holds|]. exact sites_ok_holds.
Qed.

(* the environment never decides what is compiled or what is left in the output directory:
   a relative import of a FILE being compiled is resolved against that file's directory (the
   working directory is used only when a string is parsed), an absolute one is used as written;
   Renderer.render writes its output without looking at what the output directory holds *)
Lemma environment_decisions :
  (forall f, import_base true f = 0%Z) /\ import_base false true = 1%Z /\ import_base false false = 2%Z /\
  render_writes_unconditionally = true.
Proof. split; [intros []; reflexivity|]. repeat split; reflexivity. Qed.
