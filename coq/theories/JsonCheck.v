(* JsonCheck.v — what one T2 case of C16 evaluates: model vs implementation (ties) and
   implementation vs specification (property), folded into one integer code. *)
From Coq Require Import ZArith List Bool String.
From BP Require Import Schema JsonBase Json JsonWf.
Import ListNotations.
Open Scope string_scope.
Open Scope Z_scope.

Fixpoint pyj_eqb (a b : pyj) : bool :=
  match a, b with
  | PJInt x, PJInt y => x =? y
  | PJBool x, PJBool y => Bool.eqb x y
  | PJList l1, PJList l2 =>
      (fix go (l1 l2 : list pyj) : bool :=
         match l1, l2 with
         | [], [] => true
         | x :: r1, y :: r2 => pyj_eqb x y && go r1 r2
         | _, _ => false
         end) l1 l2
  | PJBytes l1, PJBytes l2 =>
      (fix go (l1 l2 : list Z) : bool :=
         match l1, l2 with
         | [], [] => true
         | x :: r1, y :: r2 => (x =? y) && go r1 r2
         | _, _ => false
         end) l1 l2
  | PJDict l1, PJDict l2 =>
      (fix go (l1 l2 : list (string * pyj)) : bool :=
         match l1, l2 with
         | [], [] => true
         | x :: r1, y :: r2 => (fst x =? fst y)%string && pyj_eqb (snd x) (snd y) && go r1 r2
         | _, _ => false
         end) l1 l2
  | _, _ => false
  end.

Definition pdict_eqb (a b : pyres pyj) : bool :=
  match a, b with
  | POk x, POk y => pyj_eqb x y
  | PRaise e, PRaise f => pyexn_eqb e f
  | _, _ => false
  end.

Definition bit (k : Z) (ok : bool) : Z := if ok then 0 else k.

(* observations of one case:
     cfill   text written by Json<Msg>() after assigning every leaf of a zeroed struct
     cdec    text written by Json<Msg>() after Decode<Msg>() of the Python encoder's bytes
     pyd     to_dict()            pyjson  to_json()       pycomp  to_json(separators=(",", ":"))
   code bits:
       1  the generator left the guards (shape / range / names): harness bug
       2  TIE       c_text (store t v)            <> cfill
       4  PROPERTY  cfill                          <> print_compact (expected t v)
       8  PROPERTY  cdec                           <> print_compact (expected t v)
      16  TIE       py_asdict                      <> pyd
      32  TIE       py_to_json ", " ": "           <> pyjson
      64  TIE       py_to_json "," ":"             <> pycomp
     128  PROPERTY  pycomp                         <> print_compact (expected t v)
     256  PROPERTY  cfill / cdec is not accepted by the recogniser wf_json                  *)
Definition c16_code (t : nty) (v : val) (cfill cdec : option string) (pyd : pyres pyj)
           (pyjson pycomp : pyres string) : Z :=
  let want := print_compact (expected t v) in
  bit 1 (shape_ok t && wf (erase t) && has_ty (erase t) v && names_distinct t) +
  bit 2 (ostr_eqb (c_text t (store t v)) cfill) +
  bit 4 (ostr_eqb cfill (Some want)) +
  bit 8 (ostr_eqb cdec (Some want)) +
  bit 16 (pdict_eqb (py_asdict t v) pyd) +
  bit 32 (pstr_eqb (py_to_json ", " ": " t v) pyjson) +
  bit 64 (pstr_eqb (py_to_json "," ":" t v) pycomp) +
  bit 128 (pstr_eqb pycomp (POk want)) +
  bit 256 (match cfill, cdec with Some a, Some b => wf_json a && wf_json b | _, _ => false end).
