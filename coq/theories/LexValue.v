(* LexValue.v — the VALUE of number tokens: int(t.value) / int(t.value, 16) on a lexeme of the rule's regex is the
   Horner value of its digits (LexSpec.digits_val). *)
From Coq Require Import String NArith ZArith List Bool Lia.
From BP Require Import TotalBase LexBase Lex LexSpec LexCase LexProofs LexActions.
From BPGen Require Import GenLexer.
Import ListNotations.

Definition digit_agrees (base : Z) (c : N) : bool :=
  match ndigit_of base c with Some d => Z.eqb d (digit_val c) | None => true end.

Lemma ndigit_high base c : (base <= 36)%Z -> (128 <= c)%N -> ndigit_of base c = None.
Proof.
  intros Hb Hc. unfold ndigit_of. cbv zeta.
  replace ((48 <=? Z.of_N c)%Z && (Z.of_N c <=? 57)%Z) with false
    by (symmetry; apply andb_false_iff; right; apply Z.leb_gt; lia).
  replace ((97 <=? Z.of_N c)%Z && (Z.of_N c <=? 122)%Z) with false
    by (symmetry; apply andb_false_iff; right; apply Z.leb_gt; lia).
  replace ((65 <=? Z.of_N c)%Z && (Z.of_N c <=? 90)%Z) with false
    by (symmetry; apply andb_false_iff; right; apply Z.leb_gt; lia).
  replace (99 <? base)%Z with false by (symmetry; apply Z.ltb_ge; lia). reflexivity.
Qed.

Lemma sweep10 : forallb (digit_agrees 10) (nrange 0 128) = true.
Proof. vm_compute. reflexivity. Qed.
Lemma sweep16 : forallb (digit_agrees 16) (nrange 0 128) = true.
Proof. vm_compute. reflexivity. Qed.

Lemma ndigit_val base c d :
  (base = 10 \/ base = 16)%Z -> ndigit_of base c = Some d -> d = digit_val c.
Proof.
  intros Hb H. destruct (N.ltb_spec c 128) as [Hc|Hc].
  - assert (Hin : In c (nrange 0 128)) by (apply nrange_in; lia).
    assert (Hs : digit_agrees base c = true).
    { destruct Hb as [-> | ->]; [pose proof sweep10 as S|pose proof sweep16 as S];
        rewrite forallb_forall in S; apply S; exact Hin. }
    unfold digit_agrees in Hs. rewrite H in Hs. apply Z.eqb_eq in Hs. exact Hs.
  - rewrite ndigit_high in H; [discriminate| |exact Hc]. destruct Hb as [-> | ->]; lia.
Qed.

Lemma ndigits_horner base : (base = 10 \/ base = 16)%Z -> forall ds acc z,
  ndigits_value base acc ds = Some z -> z = fold_left (fun a c => (a * base + digit_val c)%Z) ds acc.
Proof.
  intro Hb. induction ds as [|c ds IH]; intros acc z H; cbn [ndigits_value fold_left] in *.
  - inversion H. reflexivity.
  - destruct (ndigit_of base c) as [d|] eqn:E; [|discriminate]. rewrite (ndigit_val base c d Hb E) in H. apply IH. exact H.
Qed.

(* decimal: int(ds) = Horner value *)
Theorem npy_int_dec_value maxd ds z : npy_int 10 maxd ds = Ok z -> z = digits_val 10 ds.
Proof.
  unfold npy_int. rewrite nstrip_10. destruct ds as [|c r]; [discriminate|].
  destruct (negb (is_pow2_base 10) && (maxd <? zlen (c :: r))%Z); [discriminate|].
  destruct (ndigits_value 10 0 (c :: r)) as [v|] eqn:E; [|discriminate]. intro H. inversion H; subst v.
  apply (ndigits_horner 10 (or_introl eq_refl)) in E. exact E.
Qed.

(* hexadecimal: int("0x" + hs, 16) = Horner value of hs *)
Theorem npy_int_hex_value maxd hs z : hs <> [] -> npy_int 16 maxd (48 :: 120 :: hs)%N = Ok z -> z = digits_val 16 hs.
Proof.
  intro Hne. unfold npy_int. cbn [nstrip_0x].
  change ((16 =? 16)%Z && (48 =? 48)%N && ((120 =? 120)%N || (120 =? 88)%N)) with true. cbv iota.
  destruct hs as [|c r]; [contradiction|].
  change (negb (is_pow2_base 16)) with false. cbn [andb].
  destruct (ndigits_value 16 0 (c :: r)) as [v|] eqn:E; [|discriminate]. intro H. inversion H; subst v.
  apply (ndigits_horner 16 (or_intror eq_refl)) in E. exact E.
Qed.
