(* GoDecStep.v — the Go decoder at one leaf: what processBaseType (decode direction) over the
   emitted BpSetByte, followed by BpProcessInt, leaves in a leaf of the Go struct.
   The chunk loop is the hand-modelled skeleton GoRt.go_pbt_dec over the TRANSLATED helpers
   (BPGen.GenGo, with their explicit 64-bit / 8-bit wrap-arounds); the combining operation is
   the typed `m.F |= (T(b) << lshift)`; the sign handling is `m.F <<= d; m.F >>= d`.
   The path algebra (at_leaf, set_idx, slice) and the arithmetic of the chunk steps
   (unsigned_step, cast_step) are shared with the Python proof (PyDecStep / PyDecLeaf). *)
From Coq Require Import ZArith List Bool Lia ZifyBool.
From BP Require Import Bits Schema Spec PyRt ByteStep PyEncStep PyEncProofs PyDecStep PyDecLeaf
                       GoRt GoHelpers GoTables GoEncProofs GoDecLeaf.
From BPGen Require GenPy GenGo.
Import ListNotations.
Open Scope Z_scope.

Ltac Zify.zify_post_hook ::= Z.div_mod_to_equations.

(* Spec.sext (by bit test) and PyDecLeaf.sext' (by comparison) agree on n-bit values *)
Lemma sext_sext' n u : 1 <= n -> 0 <= u < 2 ^ n -> sext n u = sext' n u.
Proof.
  intros Hn Hu. unfold sext, sext'.
  assert (Hp : 2 ^ n = 2 * 2 ^ (n - 1)).
  { replace n with (Z.succ (n - 1)) at 1 by lia. rewrite Z.pow_succ_r by lia. reflexivity. }
  assert (Hh : 0 < 2 ^ (n - 1)) by (apply Z.pow_pos_nonneg; lia).
  destruct (Z.testbit u (n - 1)) eqn:Tb.
  - apply Z.testbit_true in Tb; [|lia].
    destruct (u <? 2 ^ (n - 1)) eqn:E; [|reflexivity].
    rewrite Z.div_small in Tb by lia. discriminate.
  - apply Z.testbit_false in Tb; [|lia].
    destruct (u <? 2 ^ (n - 1)) eqn:E; [reflexivity|].
    assert (Hq : u / 2 ^ (n - 1) = 1).
    { symmetry. apply Z.div_unique with (r := u - 2 ^ (n - 1)); lia. }
    rewrite Hq in Tb. discriminate.
Qed.

Section GLeaf.
  Variables (g : gcls) (vs : list (Z * val)) (fn : Z) (stk : list nat) (a : val).
  Hypothesis Hl : lookup fn vs = Some a.
  Variable cur0 : val.
  Hypothesis Hidx : index_val a stk = Ok cur0.

  Notation leaf := (at_leaf vs fn stk a).

  Lemma go_read_ref_at x : go_read_ref (leaf x) fn stk (length stk) = Ok x.
  Proof.
    unfold go_read_ref. rewrite stack_prefix_full. cbn [bind].
    unfold read_attr_raw, at_leaf. rewrite (lookup_at_leaf vs fn stk a Hl). cbn [bind].
    eapply index_set_idx; eassumption.
  Qed.

  Lemma go_write_ref_at x y : go_write_ref (leaf x) fn stk (length stk) y = Ok (leaf y).
  Proof.
    unfold go_write_ref. rewrite stack_prefix_full. cbn [bind].
    assert (Hgen : (a' <- read_attr_raw (leaf x) fn ;; a'' <- update_val a' stk y ;; write_attr (leaf x) fn a'')
                   = Ok (leaf y)).
    { unfold read_attr_raw, at_leaf. rewrite (lookup_at_leaf vs fn stk a Hl). cbn [bind].
      rewrite (update_val_set_idx _ _ y x) by (eapply index_set_idx; eassumption). cbn [bind].
      unfold write_attr. rewrite set_field_twice.
      now rewrite (set_idx_twice _ _ _ _ _ Hidx). }
    destruct stk as [|k r] eqn:Es.
    - exact (write_attr_at vs fn [] a x y eq_refl).
    - exact Hgen.
  Qed.

  (* ---- the typed |= for the two families of Go integer types ---- *)
  Lemma go_set_or_unsigned e w :
    lookup fn (gc_set g) = Some e -> gs_depth e = length stk -> gs_kind e = GSOr ->
    (under (gs_conv e) = GUint w \/ (under (gs_conv e) = GByte /\ w = 8)) ->
    In w [8; 16; 32; 64] ->
    forall z lshift d, 0 <= d < 256 -> 0 <= lshift -> lshift + 8 <= w ->
      go_set_byte g (leaf (VZ z)) fn stk lshift d = Ok (leaf (VZ (Z.lor z (Z.shiftl d lshift)))).
  Proof.
    intros He Hd Hk Hu Hw z lshift d Hdr Hl0 Hlw. unfold go_set_byte. rewrite He, Hk, Hd.
    rewrite go_read_ref_at. cbn [bind int_of].
    destruct (go_chunk_eq_py w d lshift Hw Hdr Hl0 Hlw) as [_ Hc]. unfold conv_to in *. cbn [under] in Hc.
    injection Hc as Hc.
    destruct Hu as [Hu|[Hu ->]]; rewrite Hu; cbn [bind]; rewrite Hc; apply go_write_ref_at.
  Qed.

  Lemma go_set_or_signed e w :
    lookup fn (gc_set g) = Some e -> gs_depth e = length stk -> gs_kind e = GSOr ->
    under (gs_conv e) = GInt w -> In w [8; 16; 32; 64] ->
    forall z lshift d, 0 <= d < 256 -> 0 <= lshift -> lshift + 8 <= w ->
      go_set_byte g (leaf (VZ z)) fn stk lshift d =
      Ok (leaf (VZ (Z.lor z (cast_w w (Z.shiftl d lshift))))).
  Proof.
    intros He Hd Hk Hu Hw z lshift d Hdr Hl0 Hlw. unfold go_set_byte. rewrite He, Hk, Hd.
    rewrite go_read_ref_at. cbn [bind int_of].
    destruct (go_chunk_eq_py w d lshift Hw Hdr Hl0 Hlw) as [Hc _]. unfold conv_to in *. cbn [under] in Hc.
    injection Hc as Hc. rewrite Hu. cbn [bind]. rewrite Hc. apply go_write_ref_at.
  Qed.

  (* ---- the chunk loop, generic in how a chunk is combined into the leaf ---- *)
  Section GLoop.
    Variable comb : Z -> Z -> Z.
    Variable W : Z.
    Hypothesis HW : In W [8; 16; 32; 64].
    Hypothesis Hset : forall z lshift d, 0 <= d < 256 -> 0 <= lshift -> lshift + 8 <= W ->
      go_set_byte g (leaf (VZ z)) fn stk lshift d = Ok (leaf (VZ (comb z (Z.shiftl d lshift)))).
    Variables (n i0 : Z) (s : list Z).
    Hypothesis HnW : n <= W.
    Variable F : Z -> Z.
    Hypothesis Hstep : forall j cnt,
      0 <= j -> 1 <= cnt -> j + cnt <= n ->
      comb (F j) (slice s (i0 + j) cnt * 2 ^ j) = F (j + cnt).

    Lemma go_pbt_dec_loop :
      forall fuel j,
        (Z.to_nat (n - j) <= fuel)%nat ->
        0 <= j <= n -> 0 <= i0 -> bytes_ok s ->
        i0 + n <= 8 * Z.of_nat (length s) -> Z.of_nat (length s) < 2 ^ 50 ->
        go_pbt_dec fuel n g (leaf (VZ (F j))) fn stk j {| cs := s; ci := i0 + j |} =
        Ok (leaf (VZ (F n)), {| cs := s; ci := i0 + n |}).
    Proof.
      assert (P50 : 2 ^ 50 = 1125899906842624) by reflexivity.
      assert (P62 : 2 ^ 62 = 4611686018427387904) by reflexivity.
      assert (P63 : 2 ^ 63 = 9223372036854775808) by reflexivity.
      assert (HW64 : 8 <= W <= 64) by (cbn in HW; lia).
      induction fuel as [|f IH]; intros j Hfuel Hj Hi0 Hs Hlen Hsm.
      - assert (j = n) by lia. subst j. cbn [go_pbt_dec]. now rewrite Z.ltb_irrefl.
      - cbn [go_pbt_dec]. destruct (j <? n) eqn:Hjn.
        2:{ apply Z.ltb_ge in Hjn. assert (j = n) by lia. now subst j. }
        apply Z.ltb_lt in Hjn. cbn [cs ci].
        assert (Hsi : small (i0 + j)) by (unfold small; lia).
        assert (Hsj : small j) by (unfold small; lia).
        assert (Hsn : small n) by (unfold small; lia).
        rewrite (getNbitsToCopy_eq _ _ _ Hsi Hsj Hsn).
        pose proof (nbits_to_copy_range (i0 + j) j n ltac:(lia)) as (Hc1 & Hc2 & Hc3 & Hc4).
        set (cnt := GenPy.get_nbits_to_copy (i0 + j) j n) in *.
        pose proof (Z.mod_pos_bound (i0 + j) 8 ltac:(lia)) as Hmi.
        pose proof (Z.mod_pos_bound j 8 ltac:(lia)) as Hmj.
        pose proof (Z.div_mod j 8 ltac:(lia)) as Hdmj.
        assert (Hq : 0 <= (i0 + j) / 8) by (apply Z.div_pos; lia).
        assert (Hqj : 0 <= j / 8) by (apply Z.div_pos; lia).
        unfold go_dec_single_byte. cbn [cs ci].
        rewrite (proj2 (go_index_eq (i0 + j) Hsi)). unfold GenPy.dec_index.
        assert (Hk : (Z.to_nat ((i0 + j) / 8) < length s)%nat).
        { assert ((i0 + j) / 8 < Z.of_nat (length s)) by (apply Z.div_lt_upper_bound; lia). lia. }
        unfold buf_at. replace ((i0 + j) / 8 <? 0) with false by (symmetry; apply Z.ltb_ge; exact Hq).
        destruct (nth_error s (Z.to_nat ((i0 + j) / 8))) as [b|] eqn:Hnth.
        2:{ apply nth_error_None in Hnth. lia. }
        cbn [bind].
        assert (Hb : b = nth (Z.to_nat ((i0 + j) / 8)) s 0) by (symmetry; now apply nth_error_nth).
        assert (Hbr : 0 <= b < 256) by (rewrite Hb; apply nth_bytes_ok; assumption).
        rewrite (proj2 (go_shift_eq j Hsj)).
        rewrite (go_dec_d_eq b (i0 + j) j cnt Hbr Hsi Hsj ltac:(lia)).
        assert (Hdv : GenPy.dec_d b (i0 + j) j cnt =
                      (Z.shiftr b ((i0 + j) mod 8) mod 2 ^ cnt) * 2 ^ (j mod 8)).
        { rewrite dec_d_mod, dec_d_small by lia. reflexivity. }
        assert (Hdr : 0 <= GenPy.dec_d b (i0 + j) j cnt < 256).
        { rewrite Hdv.
          assert (Hm : 0 <= Z.shiftr b ((i0 + j) mod 8) mod 2 ^ cnt < 2 ^ cnt)
            by (apply Z.mod_pos_bound, pow2_pos; lia).
          assert (Hpj : 0 < 2 ^ (j mod 8)) by (apply pow2_pos; lia).
          assert (Hpw : 2 ^ cnt * 2 ^ (j mod 8) <= 256).
          { rewrite <- Z.pow_add_r by lia. change 256 with (2 ^ 8). apply Z.pow_le_mono_r; lia. }
          nia. }
        assert (Hls : 0 <= GenPy.dec_lshift j /\ GenPy.dec_lshift j + 8 <= W).
        { unfold GenPy.dec_lshift. cbn in HW. lia. }
        rewrite (Hset _ _ _ Hdr (proj1 Hls) (proj2 Hls)). cbn [bind].
        assert (Hd : Z.shiftl (GenPy.dec_d b (i0 + j) j cnt) (GenPy.dec_lshift j) = slice s (i0 + j) cnt * 2 ^ j).
        { rewrite Hdv. unfold GenPy.dec_lshift.
          rewrite Z.shiftl_mul_pow2 by lia. rewrite Hb, cursor_slice by (try assumption; lia).
          rewrite <- Z.mul_assoc, <- Z.pow_add_r by lia. do 2 f_equal. lia. }
        rewrite Hd, Hstep by lia.
        rewrite (wrap_s_64_id (j + cnt)) by lia.
        rewrite (wrap_s_64_id (i0 + j + cnt)) by lia.
        replace (i0 + j + cnt) with (i0 + (j + cnt)) by lia.
        apply IH; try assumption; lia.
    Qed.
  End GLoop.
End GLeaf.

(* ---------- what each kind of leaf ends up holding ---------- *)

Section GKinds.
  Variables (g : gcls) (vs : list (Z * val)) (fn : Z) (stk : list nat) (a : val).
  Hypothesis Hl : lookup fn vs = Some a.
  Variable cur0 : val.
  Hypothesis Hidx : index_val a stk = Ok cur0.
  Variables (s : list Z) (i0 n : Z).
  Hypothesis Hs : bytes_ok s.
  Hypothesis Hi0 : 0 <= i0.
  Hypothesis Hn : 1 <= n.
  Hypothesis Hlen : i0 + n <= 8 * Z.of_nat (length s).
  Hypothesis Hsm : Z.of_nat (length s) < 2 ^ 50.

  Notation leaf := (at_leaf vs fn stk a).
  Let u := slice s i0 n.

  Lemma go_dec_unsigned W :
    In W [8; 16; 32; 64] -> n <= W ->
    (forall z lshift d, 0 <= d < 256 -> 0 <= lshift -> lshift + 8 <= W ->
        go_set_byte g (leaf (VZ z)) fn stk lshift d = Ok (leaf (VZ (Z.lor z (Z.shiftl d lshift))))) ->
    go_pbt_dec (fuel_of n) n g (leaf (VZ 0)) fn stk 0 {| cs := s; ci := i0 |} =
    Ok (leaf (VZ u), {| cs := s; ci := i0 + n |}).
  Proof.
    intros HW HnW Hset.
    pose proof (go_pbt_dec_loop g vs fn stk a Z.lor W HW Hset n i0 s HnW (fun j => u mod 2 ^ j)
                  (unsigned_step s i0 n Hi0) (fuel_of n) 0) as H.
    cbn beta in H. change (2 ^ 0) with 1 in H. rewrite Z.mod_1_r, Z.add_0_r in H.
    rewrite H; try assumption; try lia; [|unfold fuel_of; lia].
    rewrite (Z.mod_small u) by (apply u_range; lia). reflexivity.
  Qed.

  Lemma go_dec_cast w :
    In w [8; 16; 32; 64] -> n <= w ->
    (forall z lshift d, 0 <= d < 256 -> 0 <= lshift -> lshift + 8 <= w ->
        go_set_byte g (leaf (VZ z)) fn stk lshift d =
        Ok (leaf (VZ (Z.lor z (cast_w w (Z.shiftl d lshift)))))) ->
    go_pbt_dec (fuel_of n) n g (leaf (VZ 0)) fn stk 0 {| cs := s; ci := i0 |} =
    Ok (leaf (VZ (if n =? w then sext' w u else u)), {| cs := s; ci := i0 + n |}).
  Proof.
    intros Hw Hnw Hset.
    assert (Hw' : w = 8 \/ w = 16 \/ w = 32 \/ w = 64) by (cbn in Hw; lia).
    pose proof (go_pbt_dec_loop g vs fn stk a (fun z ch => Z.lor z (cast_w w ch)) w Hw Hset n i0 s Hnw
                  (Fc s i0 n w) (cast_step s i0 n Hi0 Hn w Hw' Hnw) (fuel_of n) 0) as H.
    unfold Fc in H at 1. replace (0 <? n) with true in H by (symmetry; lia).
    change (2 ^ 0) with 1 in H. rewrite Z.mod_1_r, Z.add_0_r in H.
    rewrite H; try assumption; try lia; [|unfold fuel_of; lia].
    unfold Fc. rewrite Z.ltb_irrefl. reflexivity.
  Qed.

  (* ---- BpProcessInt: m.F <<= d ; m.F >>= d on a leaf holding the unsigned field ---- *)
  Lemma go_process_int_sign w gt ge :
    In w [8; 16; 32; 64] -> n < w ->
    lookup fn (gc_int g) = Some {| gi_depth := length stk; gi_d := w - n |} ->
    lookup fn (gc_struct g) = Some gt -> elem_gty gt (length stk) = Some ge -> under ge = GInt w ->
    go_process_int g (leaf (VZ u)) fn stk = Ok (leaf (VZ (sext' n u))).
  Proof.
    intros Hw Hnw Hint Hst Hel Hu. unfold go_process_int. rewrite Hint. cbn [gi_depth gi_d].
    rewrite (go_read_ref_at vs fn stk a Hl cur0 Hidx). cbn [bind int_of].
    rewrite Hst, Hel. unfold conv_to. rewrite Hu. cbn [bind].
    rewrite (go_write_ref_at vs fn stk a Hl cur0 Hidx). do 3 f_equal.
    pose proof (u_range s i0 n Hn) as Hur. fold u in Hur.
    rewrite (go_sign_extend w n u Hw ltac:(lia) Hur). apply sext_sext'; assumption.
  Qed.

  Lemma go_process_int_none d :
    lookup fn (gc_int g) = None -> go_process_int g (leaf d) fn stk = Ok (leaf d).
  Proof. intros H. unfold go_process_int. now rewrite H. Qed.
End GKinds.

(* ---- bool: one chunk of one bit, assigned through bp.Byte2bool ---- *)
Lemma go_dec_bool g vs fn stk a cur0 s i0 e :
  lookup fn vs = Some a -> index_val a stk = Ok cur0 ->
  lookup fn (gc_set g) = Some e -> gs_depth e = length stk -> gs_kind e = GSBool ->
  under (gs_conv e) = GBool ->
  bytes_ok s -> 0 <= i0 -> i0 + 1 <= 8 * Z.of_nat (length s) -> Z.of_nat (length s) < 2 ^ 50 ->
  go_pbt_dec (fuel_of 1) 1 g (VM vs) fn stk 0 {| cs := s; ci := i0 |} =
  Ok (at_leaf vs fn stk a (VB (negb (slice s i0 1 =? 0))), {| cs := s; ci := i0 + 1 |}).
Proof.
  intros Hl Hidx He Hde Hke Hue Hs Hi0 Hlen Hsm.
  assert (P50 : 2 ^ 50 = 1125899906842624) by reflexivity.
  assert (P62 : 2 ^ 62 = 4611686018427387904) by reflexivity.
  assert (P63 : 2 ^ 63 = 9223372036854775808) by reflexivity.
  change (fuel_of 1) with 1%nat. cbn [go_pbt_dec]. change (0 <? 1) with true. cbv iota. cbn [cs ci].
  assert (Hsi : small i0) by (unfold small; lia).
  rewrite (getNbitsToCopy_eq i0 0 1 Hsi ltac:(unfold small; lia) ltac:(unfold small; lia)).
  pose proof (nbits_to_copy_range i0 0 1 ltac:(lia)) as (Hc1 & Hc2 & Hc3 & Hc4).
  assert (Hcnt : GenPy.get_nbits_to_copy i0 0 1 = 1) by lia. rewrite Hcnt.
  pose proof (Z.mod_pos_bound i0 8 ltac:(lia)) as Hmi.
  assert (Hq : 0 <= i0 / 8) by (apply Z.div_pos; lia).
  unfold go_dec_single_byte. cbn [cs ci].
  rewrite (proj2 (go_index_eq i0 Hsi)). unfold GenPy.dec_index.
  assert (Hk : (Z.to_nat (i0 / 8) < length s)%nat).
  { assert (i0 / 8 < Z.of_nat (length s)) by (apply Z.div_lt_upper_bound; lia). lia. }
  unfold buf_at. replace (i0 / 8 <? 0) with false by (symmetry; apply Z.ltb_ge; exact Hq).
  destruct (nth_error s (Z.to_nat (i0 / 8))) as [b|] eqn:Hnth.
  2:{ apply nth_error_None in Hnth. lia. }
  cbn [bind].
  assert (Hb : b = nth (Z.to_nat (i0 / 8)) s 0) by (symmetry; now apply nth_error_nth).
  assert (Hbr : 0 <= b < 256) by (rewrite Hb; apply nth_bytes_ok; assumption).
  rewrite (go_dec_d_eq b i0 0 1 Hbr Hsi ltac:(unfold small; lia) ltac:(change (0 mod 8) with 0; lia)).
  assert (Hd : GenPy.dec_d b i0 0 1 = slice s i0 1).
  { rewrite dec_d_mod. change (0 mod 8) with 0. rewrite dec_d_small by lia. change (2 ^ 0) with 1.
    rewrite Z.mul_1_r, Hb. apply cursor_slice; try assumption; lia. }
  rewrite Hd.
  unfold go_set_byte. rewrite He, Hke, Hue, Hde.
  rewrite <- (at_leaf_id vs fn stk a Hl cur0 Hidx).
  rewrite (go_write_ref_at vs fn stk a Hl cur0 Hidx). cbn [bind].
  rewrite (wrap_s_64_id (0 + 1)) by lia. change (0 + 1 <? 1) with false. cbv iota.
  rewrite (wrap_s_64_id (i0 + 1)) by lia.
  rewrite Byte2bool_spec by (pose proof (slice_range s i0 1 ltac:(lia)); lia).
  reflexivity.
Qed.
