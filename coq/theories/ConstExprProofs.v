(* ConstExprProofs.v — the token evaluator computes ordinary arithmetic on what [pretty] prints. *)
From Coq Require Import ZArith List Bool String Lia.
From BPGen Require Import GenC13.
From BP Require Import ConstLit ConstLitProofs ConstExpr.
Import ListNotations.
Open Scope list_scope.
Open Scope Z_scope.

(* ------------------------------------------------------------------------------------ *)
(* what the proofs use of the translated tables (each fails when the source changes it)   *)
(* ------------------------------------------------------------------------------------ *)

Lemma prec_is_standard : forall o, prec o = sprec o /\ is_right o = false.
Proof. intros []; split; vm_compute; reflexivity. Qed.

Lemma literal_bases : int_literal_base = 10 /\ hex_literal_base = 16.
Proof. split; reflexivity. Qed.

Lemma grammar_as_modelled :
  grammar_eqb grammar expected_grammar = true /\ passthrough_eqb passthrough expected_passthrough = true.
Proof. split; vm_compute; reflexivity. Qed.

Lemma apply_op_spec : forall o a b, apply_op o a b = crashify (spec_op o a b).
Proof.
  intros [] a b; unfold apply_op, spec_op; cbn [existsb crashify]; try reflexivity.
  unfold act_DIVIDE_divisors, act_DIVIDE. cbn [existsb]. rewrite orb_false_r, Z.eqb_sym.
  destruct (b =? 0); reflexivity.
Qed.

(* ------------------------------------------------------------------------------------ *)
(* fuel: more fuel never changes a result other than "out of fuel"                        *)
(* ------------------------------------------------------------------------------------ *)

Definition le_res {A} (a b : res A) : Prop := a = Err EFuel \/ a = b.

Lemma le_res_refl : forall A (a : res A), le_res a a.
Proof. intros; right; reflexivity. Qed.

Lemma le_res_trans : forall A (a b c : res A), le_res a b -> le_res b c -> le_res a c.
Proof. intros A a b c [->| ->] H; [left; reflexivity|exact H]. Qed.

Lemma bind_mono : forall A B (a a' : res A) (k k' : A -> res B),
  le_res a a' -> (forall x, le_res (k x) (k' x)) -> le_res (bind a k) (bind a' k').
Proof.
  intros A B a a' k k' [->| ->] Hk; [left; reflexivity|].
  destruct a' as [x|e]; cbn [bind]; [apply Hk|apply le_res_refl].
Qed.

Lemma bind_assoc : forall A B C (a : res A) (k : A -> res B) (h : B -> res C),
  bind (bind a k) h = bind a (fun x => bind (k x) h).
Proof. intros A B C [x|e] k h; reflexivity. Qed.

Lemma bind_ext : forall A B (a : res A) (k k' : A -> res B),
  (forall x, k x = k' x) -> bind a k = bind a k'.
Proof. intros A B [x|e] k k' H; cbn [bind]; [apply H|reflexivity]. Qed.

Section Fuel.
Variable E : env.

Lemma parse_expr_S : forall f minp ts,
  parse_expr E (S f) minp ts =
    match ts with
    | TInt s :: r => bind (lit_value int_literal_base s) (fun v => parse_loop E f minp v r)
    | THex s :: r => bind (lit_value hex_literal_base s) (fun v => parse_loop E f minp v r)
    | TIdent x :: r => bind (ref_value E x) (fun v => parse_loop E f minp v r)
    | TLParen :: r =>
        bind (parse_expr E f 0 r) (fun vr =>
          match snd vr with
          | TRParen :: r' => parse_loop E f minp (fst vr) r'
          | _ => Err EGrammar
          end)
    | _ => Err EGrammar
    end.
Proof. reflexivity. Qed.

Lemma parse_loop_S : forall f minp lhs ts,
  parse_loop E (S f) minp lhs ts =
    match ts with
    | TOp o :: r =>
        if (prec o <? minp)%nat then Ok (lhs, ts)
        else bind (parse_expr E f (if is_right o then prec o else S (prec o)) r) (fun vr =>
               bind (apply_op o lhs (fst vr)) (fun v => parse_loop E f minp v (snd vr)))
    | _ => Ok (lhs, ts)
    end.
Proof. reflexivity. Qed.

Lemma mono_step : forall f,
  (forall minp ts, le_res (parse_expr E f minp ts) (parse_expr E (S f) minp ts)) /\
  (forall minp lhs ts, le_res (parse_loop E f minp lhs ts) (parse_loop E (S f) minp lhs ts)).
Proof.
  induction f as [|f [IHe IHl]].
  - split; intros; left; reflexivity.
  - split.
    + intros minp ts. rewrite (parse_expr_S f), (parse_expr_S (S f)).
      destruct ts as [|[s|s|x|o| |] r]; try apply le_res_refl.
      * apply bind_mono; [apply le_res_refl|intro; apply IHl].
      * apply bind_mono; [apply le_res_refl|intro; apply IHl].
      * apply bind_mono; [apply le_res_refl|intro; apply IHl].
      * apply bind_mono; [apply IHe|]. intros vr.
        destruct (snd vr) as [|[s|s|x|o| |] r']; try apply le_res_refl. apply IHl.
    + intros minp lhs ts. rewrite (parse_loop_S f), (parse_loop_S (S f)).
      destruct ts as [|[s|s|x|o| |] r]; try apply le_res_refl.
      destruct (prec o <? minp)%nat; [apply le_res_refl|].
      apply bind_mono; [apply IHe|]. intro vr.
      apply bind_mono; [apply le_res_refl|]. intro v. apply IHl.
Qed.

Lemma loop_mono : forall f f' minp lhs ts, (f <= f')%nat ->
  le_res (parse_loop E f minp lhs ts) (parse_loop E f' minp lhs ts).
Proof.
  intros f f' minp lhs ts H. induction H as [|f' _ IH]; [apply le_res_refl|].
  eapply le_res_trans; [exact IH|]. apply mono_step.
Qed.

(* ------------------------------------------------------------------------------------ *)
(* the tree the evaluator computes                                                        *)
(* ------------------------------------------------------------------------------------ *)

Fixpoint mden (e : expr) : res Z :=
  match e with
  | EDec n => lit_value int_literal_base (nat_digits 10 (Z.of_N n))
  | EHex n => lit_value hex_literal_base (nat_digits 16 (Z.of_N n))
  | ERef x => ref_value E x
  | EBin o l r => bind (mden l) (fun a => bind (mden r) (fun b => apply_op o a b))
  end.

Fixpoint esize (e : expr) : nat :=
  match e with
  | EBin _ l r => (esize l + esize r + 2)%nat
  | _ => 1%nat
  end.

Definition stops (k : nat) (rest : list token) : bool :=
  match rest with TOp o :: _ => (prec o <? k)%nat | _ => true end.

Lemma stops_weaken : forall k k' rest, (k <= k')%nat -> stops k rest = true -> stops k' rest = true.
Proof.
  intros k k' [|[s|s|x|o| |] r] Hk H; try reflexivity. cbn [stops] in *.
  apply Nat.ltb_lt in H. apply Nat.ltb_lt. lia.
Qed.

Lemma loop_stops : forall n minp v rest, stops minp rest = true ->
  parse_loop E (S n) minp v rest = Ok (v, rest).
Proof.
  intros n minp v [|[s|s|x|o| |] r] H; rewrite parse_loop_S; try reflexivity.
  cbn [stops] in H. rewrite H. reflexivity.
Qed.

Lemma parse_pp : forall e ctx minp rest n f,
  (minp <= ctx)%nat -> stops (S ctx) rest = true -> (1 <= n)%nat -> (esize e + n <= f)%nat ->
  le_res (bind (mden e) (fun v => parse_loop E n minp v rest))
         (parse_expr E f minp (pp ctx e ++ rest)).
Proof.
  induction e as [k|k|x|o l IHl r IHr]; intros ctx minp rest n f Hm Hs Hn Hf.
  - destruct f as [|f]; cbn [esize] in Hf; [lia|]. cbn [pp app mden]. rewrite parse_expr_S.
    apply bind_mono; [apply le_res_refl|]. intro v. apply loop_mono. lia.
  - destruct f as [|f]; cbn [esize] in Hf; [lia|]. cbn [pp app mden]. rewrite parse_expr_S.
    apply bind_mono; [apply le_res_refl|]. intro v. apply loop_mono. lia.
  - destruct f as [|f]; cbn [esize] in Hf; [lia|]. cbn [pp app mden]. rewrite parse_expr_S.
    apply bind_mono; [apply le_res_refl|]. intro v. apply loop_mono. lia.
  - destruct (prec_is_standard o) as [Hp Hr].
    set (p := sprec o) in *.
    assert (Body : forall minp' rest' n' f',
      (minp' <= p)%nat -> stops (S p) rest' = true -> (1 <= n')%nat ->
      (esize l + esize r + 1 + n' <= f')%nat ->
      le_res (bind (mden (EBin o l r)) (fun v => parse_loop E n' minp' v rest'))
             (parse_expr E f' minp' ((pp p l ++ TOp o :: pp (S p) r) ++ rest'))).
    { intros minp' rest' n' f' Hm' Hs' Hn' Hf'.
      rewrite <- app_assoc. cbn [app].
      eapply le_res_trans;
        [|apply (IHl p minp' (TOp o :: pp (S p) r ++ rest') (S (esize r + n')) f'); try lia].
      2:{ cbn [stops]. rewrite Hp. apply Nat.ltb_lt. lia. }
      cbn [mden]. rewrite bind_assoc. apply bind_mono; [apply le_res_refl|]. intro a.
      rewrite parse_loop_S.
      replace (prec o <? minp')%nat with false by (symmetry; apply Nat.ltb_ge; lia).
      rewrite Hr, Hp. fold p.
      rewrite bind_assoc.
      assert (IR := IHr (S p) (S p) rest' n' (esize r + n')%nat (le_n _)
                        (stops_weaken _ _ _ (le_S _ _ (le_n _)) Hs') Hn' (le_n _)).
      destruct n' as [|n0]; [lia|].
      rewrite (bind_ext _ _ (mden r) _ (fun b => Ok (b, rest'))) in IR
        by (intro b; apply loop_stops; exact Hs').
      replace (bind (mden r) (fun b => bind (apply_op o a b) (fun v => parse_loop E (S n0) minp' v rest')))
        with (bind (bind (mden r) (fun b => Ok (b, rest')))
                   (fun vr => bind (apply_op o a (fst vr)) (fun v => parse_loop E (S n0) minp' v (snd vr))))
        by (rewrite bind_assoc; reflexivity).
      apply bind_mono; [exact IR|]. intro vr.
      apply bind_mono; [apply le_res_refl|]. intro v. apply loop_mono. lia. }
    cbn [pp]. fold p. cbn [esize] in Hf.
    destruct (Nat.ltb_spec p ctx) as [Hlt|Hge].
    + (* parenthesised *)
      destruct f as [|f]; [lia|]. cbn [app]. rewrite parse_expr_S.
      rewrite <- app_assoc. cbn [app].
      assert (B := Body 0%nat (TRParen :: rest) n f (Nat.le_0_l _) eq_refl Hn ltac:(lia)).
      destruct n as [|n0]; [lia|].
      rewrite (bind_ext _ _ (mden (EBin o l r)) _ (fun v => Ok (v, TRParen :: rest))) in B
        by (intro v; apply loop_stops; reflexivity).
      replace (bind (mden (EBin o l r)) (fun v => parse_loop E (S n0) minp v rest))
        with (bind (bind (mden (EBin o l r)) (fun v => Ok (v, TRParen :: rest)))
                   (fun vr => match snd vr with
                              | TRParen :: r' => parse_loop E (S n0) minp (fst vr) r'
                              | _ => Err EGrammar end))
        by (rewrite bind_assoc; reflexivity).
      apply bind_mono; [exact B|]. intro vr.
      destruct (snd vr) as [|[s|s|x|o'| |] r']; try apply le_res_refl. apply loop_mono. lia.
    + apply Body; try lia. eapply stops_weaken; [|exact Hs]. lia.
Qed.

Lemma esize_tokens : forall e ctx, (esize e + 1 <= 2 * List.length (pp ctx e))%nat.
Proof.
  induction e as [k|k|x|o l IHl r IHr]; intro ctx; cbn [pp esize List.length]; try lia.
  specialize (IHl (sprec o)). specialize (IHr (S (sprec o))).
  destruct (sprec o <? ctx)%nat; cbn [List.length]; repeat rewrite app_length; cbn [List.length]; lia.
Qed.

Lemma mden_not_fuel : forall e, mden e <> Err EFuel.
Proof.
  induction e as [k|k|x|o l IHl r IHr]; cbn [mden].
  - unfold lit_value. destruct (int_of_text _ _); discriminate.
  - unfold lit_value. destruct (int_of_text _ _); discriminate.
  - unfold ref_value. destruct (lookup x E) as [[]|]; discriminate.
  - destruct (mden l) as [a|ea]; cbn [bind]; [|intro H; apply IHl; exact H].
    destruct (mden r) as [b|eb]; cbn [bind]; [|intro H; apply IHr; exact H].
    unfold apply_op.
    destruct o; cbv zeta; cbn [existsb]; try discriminate.
    destruct (existsb (Z.eqb 0) _); [|discriminate].
    unfold div_zero_err. destruct divide_guard; discriminate.
Qed.

Lemma eval_pretty_mden : forall e, eval_tokens E (pretty e) = mden e.
Proof.
  intro e. unfold eval_tokens, pretty.
  pose proof (parse_pp e 0%nat 0%nat [] 1%nat (eval_fuel (pp 0 e)) (le_n _) eq_refl (le_n _)) as H.
  rewrite app_nil_r in H.
  specialize (H ltac:(unfold eval_fuel; pose proof (esize_tokens e 0); lia)).
  rewrite (bind_ext _ _ (mden e) _ (fun v => Ok (v, @nil token))) in H
    by (intro v; apply loop_stops; reflexivity).
  pose proof (mden_not_fuel e) as NF.
  destruct H as [H|H].
  - destruct (mden e) as [v|x]; cbn [bind] in H; [discriminate|]. congruence.
  - rewrite <- H. destruct (mden e); reflexivity.
Qed.

(* ------------------------------------------------------------------------------------ *)
(* the tree the evaluator computes is ordinary arithmetic                                 *)
(* ------------------------------------------------------------------------------------ *)

Lemma crashify_bind : forall A B (x : res A) (k : A -> res B),
  crashify (bind x k) = bind (crashify x) (fun a => crashify (k a)).
Proof. intros A B [a|[]] k; reflexivity. Qed.

Lemma mden_denote : forall e, mden e = crashify (denote e E).
Proof.
  induction e as [k|k|x|o l IHl r IHr]; cbn [mden denote].
  - destruct literal_bases as [-> _]. unfold lit_value.
    rewrite int_of_text_digits by lia. reflexivity.
  - destruct literal_bases as [_ ->]. unfold lit_value.
    rewrite int_of_text_digits by lia. reflexivity.
  - unfold ref_value. destruct (lookup x E) as [[]|]; reflexivity.
  - rewrite crashify_bind, IHl. apply bind_ext. intro a.
    rewrite crashify_bind, IHr. apply bind_ext. intro b. apply apply_op_spec.
Qed.

Theorem eval_pretty : forall e, eval_tokens E (pretty e) = crashify (denote e E).
Proof. intro e. rewrite eval_pretty_mden. apply mden_denote. Qed.

Theorem parse_eval : forall e, denote e E <> Err EDivisionByZero -> eval_tokens E (pretty e) = denote e E.
Proof.
  intros e H. rewrite eval_pretty. destruct (denote e E) as [v|[]]; try reflexivity; congruence.
Qed.

Theorem parse_eval_when_guarded : divide_guard = true -> forall e, eval_tokens E (pretty e) = denote e E.
Proof.
  intros G e. rewrite eval_pretty. destruct (denote e E) as [v|[]]; try reflexivity;
  cbn [crashify]; unfold div_zero_err; rewrite G; reflexivity.
Qed.

End Fuel.

(* the corollaries the property names *)
Lemma mul_binds_tighter : forall E a b c,
  eval_tokens E [TInt (nat_digits 10 (Z.of_N a)); TPlus; TInt (nat_digits 10 (Z.of_N b)); TTimes;
                 TInt (nat_digits 10 (Z.of_N c))] = Ok (Z.of_N a + Z.of_N b * Z.of_N c).
Proof.
  intros E a b c.
  exact (eval_pretty E (EBin OPlus (EDec a) (EBin OTimes (EDec b) (EDec c)))).
Qed.

Lemma minus_left_assoc : forall E a b c,
  eval_tokens E [TInt (nat_digits 10 (Z.of_N a)); TMinus; TInt (nat_digits 10 (Z.of_N b)); TMinus;
                 TInt (nat_digits 10 (Z.of_N c))] = Ok (Z.of_N a - Z.of_N b - Z.of_N c).
Proof.
  intros E a b c.
  exact (eval_pretty E (EBin OMinus (EBin OMinus (EDec a) (EDec b)) (EDec c))).
Qed.

(* the DIVIDE action diagnoses a zero divisor (translated flag) *)
Lemma divide_guard_on : divide_guard = true.
Proof. reflexivity. Qed.

Theorem parse_eval_all : forall E e, eval_tokens E (pretty e) = denote e E.
Proof. intros E e. apply parse_eval_when_guarded. exact divide_guard_on. Qed.

Lemma div_zero_diagnosed :
  let e := EBin ODivide (EDec 1) (EDec 0) in
  denote e [] = Err EDivisionByZero /\ eval_tokens [] (pretty e) = Err EDivisionByZero.
Proof. split; vm_compute; reflexivity. Qed.

(* ------------------------------------------------------------------------------------ *)
(* the evaluated value is the one used for array capacities and option values             *)
(* ------------------------------------------------------------------------------------ *)

Lemma lookup_app_some : forall x a b v, lookup x a = Some v -> lookup x (a ++ b) = Some v.
Proof.
  induction a as [|[y w] a IH]; intros b v H; cbn [lookup app] in *; [discriminate|].
  destruct (String.eqb x y); [exact H|apply IH; exact H].
Qed.

Lemma run_stmt_keeps : forall done st s st' x v,
  lookup x (own st) = Some v -> run_stmt done st s = Ok st' -> lookup x (own st') = Some v.
Proof.
  intros done st s st' x v Hx H. destruct s as [y r|u|u|alias k]; cbn [run_stmt] in H.
  - destruct (lookup y (own st)) eqn:Ey; [discriminate|].
    destruct (const_value (visible st) r) as [w|]; cbn [bind] in H; [|discriminate].
    injection H as <-. cbn [own lookup].
    destruct (String.eqb_spec x y) as [->|_]; [congruence|exact Hx].
  - destruct (cap_value (visible st) u); cbn [bind] in H; [|discriminate]. injection H as <-. exact Hx.
  - destruct (opt_value (visible st) u); cbn [bind] in H; [|discriminate]. injection H as <-. exact Hx.
  - destruct (nth_error done k); [|discriminate]. injection H as <-. exact Hx.
Qed.

Lemma run_stmts_keeps : forall done ss st st' x v,
  lookup x (own st) = Some v -> run_stmts done st ss = Ok st' -> lookup x (own st') = Some v.
Proof.
  induction ss as [|s ss IH]; intros st st' x v Hx H; cbn [run_stmts] in H.
  - injection H as <-. exact Hx.
  - destruct (run_stmt done st s) as [st1|] eqn:E1; cbn [bind] in H; [|discriminate].
    eapply IH; [|exact H]. eapply run_stmt_keeps; eassumption.
Qed.

Lemma const_value_pretty : forall E e v, denote e E = Ok v ->
  const_value E (RCalc (pretty e)) = Ok (VInt v).
Proof.
  intros E e v H.
  assert (G : bind (eval_tokens E (pretty e)) (fun z => Ok (VInt z)) = Ok (VInt v)).
  { rewrite parse_eval_all. rewrite H. reflexivity. }
  destruct e as [k|k|x|o l r]; try exact G.
  - cbn [pretty pp const_value]. cbn [denote] in H. unfold ref_value in H.
    destruct (lookup x E) as [[z|b|s]|]; try discriminate. injection H as ->. reflexivity.
  - unfold pretty in *. cbn [pp] in *. set (p := sprec o) in *.
    destruct (p <? 0)%nat; [exact G|].
    destruct (pp p l) as [|t [|t2 ts]]; cbn [app] in *; try exact G; destruct t; exact G.
Qed.

Theorem used_for_caps_and_options : forall done st x e v ss st'',
  lookup x (own st) = None -> denote e (visible st) = Ok v ->
  exists st', run_stmt done st (SConst x (RCalc (pretty e))) = Ok st' /\
    (run_stmts done st' ss = Ok st'' ->
       cap_value (visible st'') (URef x) = Ok (VInt v) /\
       opt_value (visible st'') (URef x) = Ok (VInt v)).
Proof.
  intros done st x e v ss st'' Hx Hd.
  eexists. split.
  - cbn [run_stmt]. rewrite Hx, (const_value_pretty _ _ _ Hd). reflexivity.
  - intro Hr.
    assert (L : lookup x (own st'') = Some (VInt v)).
    { eapply run_stmts_keeps; [|exact Hr]. cbn [own lookup]. rewrite String.eqb_refl. reflexivity. }
    apply (lookup_app_some _ _ (imported st'')) in L. fold (visible st'') in L.
    cbn [cap_value opt_value]. unfold ref_value. rewrite L. split; reflexivity.
Qed.

(* the boolean spellings of the lexer have their conventional meaning *)
Lemma bool_spellings_standard : forall sp,
  lex_bool sp = match spec_bool sp with Some b => Ok (VBool b) | None => Err EGrammar end.
Proof.
  intro sp. unfold lex_bool, spec_bool, bool_spellings, bool_true_spellings,
    kw_true, kw_false, kw_yes, kw_no. cbn [text_mem].
  destruct (text_eqb sp [116; 114; 117; 101]), (text_eqb sp [102; 97; 108; 115; 101]),
           (text_eqb sp [121; 101; 115]), (text_eqb sp [110; 111]); reflexivity.
Qed.

Lemma lex_string_standard : forall raw,
  lex_string raw = match spec_unescape raw [] with
                   | LexOk v => Ok (VStr v)
                   | LexInvalidEscape => Err EInvalidEscape
                   | LexIndexError => Err ECrashIndex
                   end.
Proof. intro raw. unfold lex_string. rewrite escapes_standard. reflexivity. Qed.
