(* ReLinear.v — C09: no regular expression that bitproto applies to user text can make a
   backtracking matcher blow up.

   A regex (Re.re, generated from the source by tools/translate_c09.py) is FLAT when it is an
   alternation of sequences of items, an item being
     - a single-character class, or
     - a quantifier (star / plus) over a body that is DETERMINISTIC BY ITS FIRST CHARACTER:
       one character class, or alternatives that are fixed words of character classes whose
       first classes are pairwise disjoint.
   So: no quantifier inside a quantifier, no ambiguous iteration ((a|ab|b)*, (x+)+ ...).
   [flatten] decides this (executed by vm_compute on the generated ASTs).

   For flat regexes a backtracking matcher ([bt]: greedy quantifiers, positions tried from the
   longest to the shortest, alternatives left to right — the strategy of CPython's sre) does
   a number of steps that is POLYNOMIAL in the length of the text:
        steps <= (#items + 1) * (n + 2) ^ #quantifiers            ([bt_steps_poly]).
   Trusted, not proved: that sre explores no more configurations on a flat regex than [bt]
   (sre is not modelled); `search` / `sub` restart at every position (one more factor n+1). *)
From Coq Require Import String Ascii List Bool Arith Lia.
From BP Require Import Re.
Import ListNotations.

(* a word of character classes; a quantifier body = alternatives, each a non-empty word *)
Definition word := list re.

Inductive item : Type :=
| IAtom (a : re)
| IStar (body : list word).

(* ---------- flattening ---------- *)

Fixpoint alts_of (r : re) : list re :=
  match r with
  | RAlt a b => alts_of a ++ alts_of b
  | _ => [r]
  end.

(* a star-free, alternation-free sequence of atoms *)
Fixpoint word_of (r : re) : option word :=
  match r with
  | REps => Some []
  | RSeq a b => match word_of a, word_of b with
                | Some x, Some y => Some (x ++ y)
                | _, _ => None
                end
  | _ => if is_atom r then Some [r] else None
  end.

Fixpoint sequence {A} (l : list (option A)) : option (list A) :=
  match l with
  | [] => Some []
  | Some x :: r => option_map (cons x) (sequence r)
  | None :: _ => None
  end.

Definition classes_disjoint (a b : re) : bool :=
  forallb (fun n => negb (atom_ok a (ascii_of_nat n) && atom_ok b (ascii_of_nat n))) (seq 0 256).

Fixpoint pairwise_disjoint (l : list re) : bool :=
  match l with
  | [] => true
  | a :: r => forallb (classes_disjoint a) r && pairwise_disjoint r
  end.

Definition first_class (w : word) : option re := match w with a :: _ => Some a | [] => None end.

(* body of a quantifier: deterministic by its first character *)
Definition det_body (r : re) : option (list word) :=
  match sequence (map word_of (alts_of r)) with
  | Some ws =>
      match sequence (map first_class ws) with      (* every word non-empty *)
      | Some firsts => if pairwise_disjoint firsts then Some ws else None
      | None => None
      end
  | None => None
  end.

Fixpoint items_of (r : re) : option (list item) :=
  match r with
  | REps => Some []
  | RSeq a b => match items_of a, items_of b with
                | Some x, Some y => Some (x ++ y)
                | _, _ => None
                end
  | RStar a => option_map (fun ws => [IStar ws]) (det_body a)
  | RNull | RAlt _ _ => None
  | _ => Some [IAtom r]
  end.

(* a flat regex: top-level alternatives, each a sequence of items *)
Definition flatten (r : re) : option (list (list item)) := sequence (map items_of (alts_of r)).

Definition is_flat (r : re) : bool := match flatten r with Some _ => true | None => false end.

(* ---------- the backtracking matcher, with a step counter ---------- *)

Fixpoint word_match (w : word) (s : list ascii) : option (list ascii) :=
  match w with
  | [] => Some s
  | a :: w' => match s with
               | c :: s' => if atom_ok a c then word_match w' s' else None
               | [] => None
               end
  end.

(* one iteration of a quantifier body: the first alternative whose word matches *)
Fixpoint body_step (ws : list word) (s : list ascii) : option (list ascii) :=
  match ws with
  | [] => None
  | w :: r => match word_match w s with
              | Some rest => Some rest
              | None => body_step r s
              end
  end.

(* the texts left after 0, 1, 2, ... greedy iterations, the LAST one first *)
Fixpoint greedy (fuel : nat) (ws : list word) (s : list ascii) (acc : list (list ascii)) : list (list ascii) :=
  match fuel with
  | O => s :: acc
  | S f => match body_step ws s with
           | Some rest => if Nat.ltb (length rest) (length s) then greedy f ws rest (s :: acc) else s :: acc
           | None => s :: acc
           end
  end.

Section Try.
  Variable k : list ascii -> nat * bool.      (* the rest of the pattern *)
  Fixpoint try_all (sufs : list (list ascii)) : nat * bool :=
    match sufs with
    | [] => (1, false)
    | s :: r => let (n, b) := k s in
                if b then (S n, true)
                else let (m, b') := try_all r in (S n + m, b')
    end.
End Try.

(* (steps, matched): a match of the whole text (fullmatch); a prefix match changes only the
   base case and not the bound *)
Fixpoint bt (items : list item) : list ascii -> nat * bool :=
  match items with
  | [] => fun s => (1, match s with [] => true | _ => false end)
  | IAtom a :: r =>
      fun s => match s with
               | c :: s' => if atom_ok a c then let (n, b) := bt r s' in (S n, b) else (1, false)
               | [] => (1, false)
               end
  | IStar ws :: r => fun s => try_all (bt r) (greedy (length s) ws s [])
  end.

Fixpoint bt_alts (alts : list (list item)) (s : list ascii) : nat * bool :=
  match alts with
  | [] => (1, false)
  | a :: r => let (n, b) := bt a s in
              if b then (S n, true) else let (m, b') := bt_alts r s in (S n + m, b')
  end.

Definition nstars (items : list item) : nat :=
  length (filter (fun i => match i with IStar _ => true | _ => false end) items).

(* ---------- the bound ---------- *)

Lemma word_match_len w : forall s rest, word_match w s = Some rest -> length rest <= length s.
Proof.
  induction w as [|a w IH]; intros s rest H; cbn [word_match] in H.
  - inversion H; subst. lia.
  - destruct s as [|c s']; [discriminate|]. destruct (atom_ok a c); [|discriminate].
    apply IH in H. cbn [length]. lia.
Qed.

(* every text produced by [greedy] is no longer than the bound N, and there are at most
   fuel + 1 + |acc| of them *)
Lemma greedy_spec N fuel ws : forall s acc,
  length s <= N -> Forall (fun t => length t <= N) acc ->
  Forall (fun t => length t <= N) (greedy fuel ws s acc) /\
  length (greedy fuel ws s acc) <= fuel + 1 + length acc.
Proof.
  induction fuel as [|f IH]; intros s acc Hs Hacc; cbn [greedy].
  - split; [constructor; assumption|cbn [length]; lia].
  - destruct (body_step ws s) as [rest|].
    + destruct (Nat.ltb (length rest) (length s)) eqn:E.
      * apply Nat.ltb_lt in E.
        destruct (IH rest (s :: acc)) as [H1 H2]; [lia|constructor; assumption|].
        split; [exact H1|]. cbn [length] in H2. lia.
      * split; [constructor; assumption|cbn [length]; lia].
    + split; [constructor; assumption|cbn [length]; lia].
Qed.

Lemma try_all_bound (k : list ascii -> nat * bool) (B : nat) sufs :
  Forall (fun t => fst (k t) <= B) sufs ->
  fst (try_all k sufs) <= length sufs * (B + 1) + 1.
Proof.
  induction sufs as [|s r IH]; intro H; cbn [try_all length].
  - cbn. lia.
  - inversion H as [|? ? Hs Hr]; subst. specialize (IH Hr).
    destruct (k s) as [n b] eqn:Ek. cbn [fst] in Hs.
    destruct b.
    + cbn [fst]. lia.
    + destruct (try_all k r) as [m b'] eqn:Et. cbn [fst] in *. lia.
Qed.

Lemma pow_ge_1 a b : 1 <= (a + 2) ^ b.
Proof. induction b as [|b IH]; cbn [Nat.pow]; nia. Qed.

Lemma pow_mono_base a a' b : a <= a' -> (a + 2) ^ b <= (a' + 2) ^ b.
Proof. intro H. apply Nat.pow_le_mono_l. lia. Qed.

(* THE bound, for every flat pattern and every text *)
Theorem bt_steps_poly items : forall s,
  fst (bt items s) <= (length items + 1) * (length s + 2) ^ nstars items.
Proof.
  induction items as [|i r IH]; intro s.
  - cbn. lia.
  - destruct i as [a|ws].
    + (* a character class: one step, the text gets shorter *)
      change (nstars (IAtom a :: r)) with (nstars r). cbn [bt length].
      destruct s as [|c s']; [pose proof (pow_ge_1 0 (nstars r)); cbn [fst length]; nia|].
      destruct (atom_ok a c); [|pose proof (pow_ge_1 (length (c :: s')) (nstars r)); cbn [fst]; nia].
      specialize (IH s'). destruct (bt r s') as [n b]. cbn [fst] in *.
      pose proof (pow_mono_base (length s') (length (c :: s')) (nstars r)) as Hm.
      cbn [length] in *. pose proof (pow_ge_1 (S (length s')) (nstars r)). nia.
    + (* a quantifier: at most n+1 positions, each tried with the rest of the pattern *)
      change (nstars (IStar ws :: r)) with (S (nstars r)). cbn [bt length].
      set (n := length s). set (K := nstars r).
      destruct (greedy_spec n n ws s []) as [HF HL]; [subst n; lia|constructor|].
      cbn [length] in HL.
      assert (Hk : Forall (fun t => fst (bt r t) <= (length r + 1) * (n + 2) ^ K)
                          (greedy n ws s [])).
      { eapply Forall_impl; [|exact HF]. intros t Ht. cbv beta in Ht.
        specialize (IH t). fold K in IH.
        pose proof (pow_mono_base (length t) n K Ht) as Hm. nia. }
      pose proof (try_all_bound (bt r) _ _ Hk) as Ht.
      pose proof (pow_ge_1 n K) as H1. cbn [Nat.pow].
      set (Y := (n + 2) ^ K) in *. set (L := length (greedy n ws s [])) in *.
      assert (L * ((length r + 1) * Y + 1) + 1 <= (S (length r) + 1) * ((n + 2) * Y)) by nia.
      lia.
Qed.

Theorem bt_alts_steps_poly alts s (A K : nat) :
  Forall (fun a => length a <= A /\ nstars a <= K) alts ->
  fst (bt_alts alts s) <= length alts * ((A + 1) * (length s + 2) ^ K + 1) + 1.
Proof.
  induction alts as [|a r IH]; intro H; cbn [bt_alts length].
  - cbn. lia.
  - inversion H as [|? ? [Ha Hs] Hr]; subst. specialize (IH Hr).
    pose proof (bt_steps_poly a s) as Hb.
    assert (Hp : (length a + 1) * (length s + 2) ^ nstars a <= (A + 1) * (length s + 2) ^ K).
    { apply Nat.mul_le_mono; [lia|]. apply Nat.pow_le_mono_r; lia. }
    destruct (bt a s) as [n b]. cbn [fst] in *. destruct b.
    + cbn [fst]. lia.
    + destruct (bt_alts r s) as [m b']. cbn [fst] in *. lia.
Qed.

(* ---------- what the generated tables are checked against ---------- *)

(* names of the regexes of a table that are NOT flat *)
Definition non_flat {A} (table : list (string * A * re)) : list string :=
  map (fun e => fst (fst e)) (filter (fun e => negb (is_flat (snd e))) table).
