(* CliCases.v — evaluation functions used by the T2 case files of C17 / C20: each takes the
   inputs of one real run and what was OBSERVED, evaluates the MODEL (Main / Lint, over the
   translated gen/GenCli.v) and the SPECIFICATION (the property's own words, written here
   independently of the model) and returns a bit mask: 0 = everything agrees.

   model bits (tie impl <-> model)          spec bits (property on this input)
     1  exit status                          1024  refused <-> non-zero exit / nothing rendered
     2  diagnostic class                     2048  functions = exactly the selected messages
     4  rendered or not                      4096  (C20) lint/check exit status
     8  functions of output file 1           8192  (C20) conforming file warns / clear violation silent
    16  functions of output file 2          16384  (C20) column of a position   32768 (C20) indent
    32  cited error position
    64  warning list (class, line), in order
   128  column   256  indent   512  line *)
From Coq Require Import ZArith List String Ascii Bool.
From BP Require Import CliBase Main Lint LintSpec.
From BPGen Require Import GenCli.
Import ListNotations.
Open Scope string_scope.
Open Scope Z_scope.

Fixpoint zlist_eqb (a b : list Z) : bool :=
  match a, b with
  | [], [] => true
  | x :: r, y :: s => (x =? y) && zlist_eqb r s
  | _, _ => false
  end.
Fixpoint zll_eqb (a b : list (list Z)) : bool :=
  match a, b with
  | [], [] => true
  | x :: r, y :: s => zlist_eqb x y && zll_eqb r s
  | _, _ => false
  end.

Definition bit (b : bool) (v : Z) : Z := if b then 0 else v.

(* diagnostic classes as the harness classifies stderr:
   0 none (or warnings only) | 1 red "error: ..." line | 2 "-F not available..." | 3 "No language specific"
   4 other text | 5 traceback *)
Definition model_class (a : action) : Z :=
  match a with
  | AReturn _ => 0
  | AFatal MsgNone _ => 0
  | AFatal MsgErrorColored _ => 1
  | AFatal (MsgLit _) _ => 2
  | AFatal MsgNoLanguage _ => 3        (* str(NoLanguageArgument()): "error:  No language specific.", not coloured *)
  | AFatal MsgErrorStr _ => 4
  | AUncaught _ => 5
  end.

Definition is_py (l : option language) : bool := match l with Some LPy => true | _ => false end.

Definition model_funcs (lang : option language) (f : option (list string)) (defs : list bdef) : list (list Z) :=
  match lang with
  | Some l => map (fun t => map owner_uid (funcs (emit t f defs))) (targets_of l)
  | None => []
  end.

(* the property's reading: with -O -F names exactly the named messages (by their simple
   name) get an encoder and a decoder; without -F all messages do *)
Definition spec_owner_list (f : option (list string)) (defs : list bdef) : list Z :=
  flat_map (fun d => if defkind_eqb (d_kind d) KMessage &&
                        (negb (truthy_list f) || existsb (String.eqb (d_name d)) (names_of f))
                     then [d_uid d; d_uid d] else []) defs.

Definition c17_case (lang : option language) (q c O : bool) (Fraw : option string) (e : byteorder)
           (root : list ftree) (lw : nat) (defs : list bdef)
           (rc cls : Z) (rendered : bool) (obs_funcs : list (list Z)) (ef el : Z) : Z :=
  let a := mkArgs lang q c O (parse_F Fraw) e in
  let act := decide a (parse_of root) lw (render_model true) in
  let m_rendered := truthy_opt (rendered_of act) in
  let m_funcs := if m_rendered && O then model_funcs lang (filter_messages a) defs else obs_funcs in
  let m_pos := match parse_files (O && negb c) root with
               | Some (_, f, l) => (ef =? f) && (el =? l)
               | None => (ef =? -1)
               end in
  (* specification *)
  let refused := negb c && ((O && any_marker root) || (O && is_py lang) || (negb O && truthy_list (parse_F Fraw))) in
  let valid := negb (any_bad root) && truthy_opt lang in
  let s_exit := if refused then negb (rc =? 0) && negb rendered
                else if valid && negb c then (rc =? 0) && rendered else true in
  let s_funcs := if rendered && O
                 then forallb (fun l => zlist_eqb l (spec_owner_list (parse_F Fraw) defs)) obs_funcs
                 else true in
  bit (process_status act =? rc) 1 + bit (model_class act =? cls) 2 + bit (Bool.eqb m_rendered rendered) 4 +
  bit (zll_eqb m_funcs obs_funcs) 8 + bit m_pos 32 +
  bit s_exit 1024 + bit s_funcs 2048.

(* ---- C20 ------------------------------------------------------------------------------ *)
Fixpoint wl_eqb (a b : list warning) : bool :=
  match a, b with
  | [], [] => true
  | (w1, l1) :: r, (w2, l2) :: s => String.eqb w1 w2 && (l1 =? l2) && wl_eqb r s
  | _, _ => false
  end.

Definition conformingb (d : ldef) : bool :=
  name_ok (l_kind d) (l_name d) && (1 <=? l_depth d) && (l_indent d =? 4 * (l_depth d - 1)) &&
  (negb (defkind_eqb (l_kind d) KEnum) || existsb (Z.eqb 0) (l_values d)).

(* what the specification demands of one schema: is every definition conforming, and the
   (warning, line) pairs that clear violations must produce *)
Definition spec_all_conforming (ldefs : list ldef) : bool := forallb conformingb ldefs.
Definition spec_must_warn (ldefs : list ldef) : list warning :=
  flat_map (fun d => map (fun w => (w, l_line d)) (clear_violations d)) ldefs.

(* one `-c` (or compile) run of a VALID schema: observed warnings (class, line) in order;
   mw = lint ldefs, all_conf / must = the two functions above (computed once per schema) *)
Definition c20_lint_case (lang : option language) (q c O : bool) (mw : list warning) (all_conf : bool)
           (must : list warning) (rc : Z) (obs : list warning) : Z :=
  let a := mkArgs lang q c O None EBoth in
  let m_w := if q then [] else mw in
  let act := decide a (fun _ => POk) (List.length mw) (render_model true) in
  let s_exit := if c then Bool.eqb (negb (rc =? 0)) (negb q && negb (match obs with [] => true | _ => false end))
                else (rc =? 0) in
  let s_clean := if q then true
                 else (if all_conf then match obs with [] => true | _ => false end else true) &&
                      forallb (fun m => existsb (fun o => String.eqb (fst o) (fst m) && (snd o =? snd m)) obs) must in
  bit (process_status act =? rc) 1 + bit (wl_eqb m_w obs) 64 + bit s_exit 4096 + bit s_clean 8192.

(* a recorded position: name token at offset pos, first token of the statement at first_pos *)
Definition c20_pos_case (text : string) (pos first_pos : nat) (o_line o_col o_indent : Z) (check_indent : bool) : Z :=
  let lc := linecol text pos in
  bit (col_of text pos =? o_col) 128 +
  bit (negb check_indent || (indent_of text first_pos =? o_indent)) 256 +
  bit (fst lc =? o_line) 512 +
  bit (snd lc =? o_col) 16384 +
  bit (negb check_indent || (snd (linecol text first_pos) - 1 =? o_indent)) 32768.

(* naming helpers *)
Definition names_case (n p s : string) (u : bool) : Z :=
  bit (String.eqb (pascal_case n) p) 1 + bit (String.eqb (snake_case n) s) 2 + bit (Bool.eqb (py_isupper n) u) 4.
