(* Names.v — executable model of bitproto's naming code.

   compiler/bitproto/utils.py          pascal_case, snake_case, upper_case, keep_case
   compiler/bitproto/renderer/formatter.py
                                       format_case_style, _format_definition_name_inner_proto,
                                       format_definition_name, format_out_filename
   compiler/bitproto/renderer/block.py message_size_constant_name
   renderer/impls/{c,go,py}            function / method / tag / helper names

   Character classes, tables and literal templates come from gen/GenNames.v (translated
   from the source on every run); only control structure is written here.  The regular
   expression passes of snake_case are explicit left-to-right scanners.

   Domain: strings of 8-bit characters; characters >= 128 are treated as caseless (Python's
   Unicode case mapping is not modelled; bitproto identifiers are ASCII by the lexer). *)
From Coq Require Import List Bool NArith Ascii String.
From BP Require Import NamesBase.
From BPGen Require Import GenNames.
Import ListNotations.
Open Scope list_scope.

(* ------------------------------------------------------------------------------------ *)
(* characters                                                                           *)
(* ------------------------------------------------------------------------------------ *)

Definition is_upper (c : ascii) : bool := ((65 <=? code c) && (code c <=? 90))%N.
Definition is_lower (c : ascii) : bool := ((97 <=? code c) && (code c <=? 122))%N.
Definition is_digit (c : ascii) : bool := ((48 <=? code c) && (code c <=? 57))%N.

(* str.upper() / str.lower() on ASCII *)
Definition to_upper (c : ascii) : ascii := if is_lower c then chr (code c - 32) else c.
Definition to_lower (c : ascii) : ascii := if is_upper c then chr (code c + 32) else c.

Definition upper (s : str) : str := map to_upper s.
Definition lower (s : str) : str := map to_lower s.

(* str.isupper(): at least one cased character and no lowercase one *)
Definition py_isupper (s : str) : bool := existsb is_upper s && negb (existsb is_lower s).

Definition is_chr (n : N) (c : ascii) : bool := (code c =? n)%N.

(* ------------------------------------------------------------------------------------ *)
(* generic string helpers (str.split / join / strip)                                    *)
(* ------------------------------------------------------------------------------------ *)

(* s.split(ch): always at least one piece *)
Fixpoint split_on (ch : N) (s : str) : list str :=
  match s with
  | [] => [[]]
  | c :: r =>
      if is_chr ch c then [] :: split_on ch r
      else match split_on ch r with
           | [] => [[c]]                (* unreachable: split_on is never empty *)
           | p :: ps => (c :: p) :: ps
           end
  end.

Fixpoint join_with (sep : str) (l : list str) : str :=
  match l with
  | [] => []
  | [x] => x
  | x :: r => x ++ sep ++ join_with sep r
  end.

Fixpoint drop_while (p : ascii -> bool) (s : str) : str :=
  match s with
  | [] => []
  | c :: r => if p c then drop_while p r else s
  end.

Fixpoint take_while (p : ascii -> bool) (s : str) : str :=
  match s with
  | [] => []
  | c :: r => if p c then c :: take_while p r else []
  end.

(* s.strip(ch) *)
Definition strip_chr (ch : N) (s : str) : str :=
  rev (drop_while (is_chr ch) (rev (drop_while (is_chr ch) s))).

Definition nonempty (s : str) : bool := match s with [] => false | _ => true end.

(* ------------------------------------------------------------------------------------ *)
(* utils.pascal_case                                                                    *)
(* ------------------------------------------------------------------------------------ *)

Definition pascal_part (part : str) : str :=
  match part with
  | [] => []
  | first :: remain =>
      if nonempty remain && py_isupper remain
      then to_upper first :: lower remain
      else to_upper first :: remain
  end.

Definition pascal_case (word : str) : str :=
  List.concat (map pascal_part (split_on pascal_split_char word)).

(* ------------------------------------------------------------------------------------ *)
(* utils.snake_case: the regular-expression passes as scanners                           *)
(* ------------------------------------------------------------------------------------ *)

Definition sepc : ascii := chr sep_char.

(* re.sub(r"(.)([A-Z][a-z]+)", r"\1_\2", t): at an unconsumed position i the pattern
   matches iff t[i] is in FIRST, t[i+1] in HEAD and t[i+2] in RUN; the match then extends
   greedily over the RUN characters, all of which are consumed ([run] = true while inside
   that greedy run). *)
Fixpoint sub_b1 (run : bool) (t : str) : str :=
  match t with
  | [] => []
  | c :: r =>
      if run && in_class b1_run c then c :: sub_b1 true r
      else
        match r with
        | u :: ((l :: _) as r') =>
            if in_class b1_first c && in_class b1_head u && in_class b1_run l
            then c :: sepc :: u :: sub_b1 true r'
            else c :: sub_b1 false r
        | _ => c :: sub_b1 false r
        end
  end.

(* re.sub(r"([X])([Y])", r"\1_\2", t) for one-character groups: a match consumes both
   characters, scanning resumes after them *)
Fixpoint sub_pair (L R : cclass) (t : str) : str :=
  match t with
  | [] => []
  | x :: r =>
      match r with
      | y :: r' =>
          if in_class L x && in_class R y then x :: sepc :: y :: sub_pair L R r'
          else x :: sub_pair L R r
      | [] => [x]
      end
  end.

(* re.sub(r"__+", "_", s): a maximal run of two or more is replaced by one separator;
   [skipping] = inside a run that has already been replaced *)
Fixpoint sub_multi (skipping : bool) (s : str) : str :=
  match s with
  | [] => []
  | c :: r =>
      if is_chr multi_char c then
        if skipping then sub_multi true r
        else match r with
             | c2 :: _ => if is_chr multi_char c2 then sepc :: sub_multi true r
                          else c :: sub_multi false r
             | [] => [c]
             end
      else c :: sub_multi false r
  end.

(* _snakecase_re_upper_or_digits.fullmatch(t) *)
Definition all_upper_or_digits (t : str) : bool :=
  nonempty t && forallb (in_class upper_or_digits) t.

(* _snakecase_re_mixed_case.search(word): an A-character, later a B-character, only
   BETWEEN-characters ('.': no newline) in between — for either branch *)
Fixpoint search_ab (A B Mid : cclass) (armed : bool) (s : str) : bool :=
  match s with
  | [] => false
  | c :: r =>
      (armed && in_class B c) ||
      search_ab A B Mid ((armed && in_class Mid c) || in_class A c) r
  end.

Definition mixed_case (word : str) : bool :=
  search_ab mixed_1a mixed_1b mixed_between false word ||
  search_ab mixed_2a mixed_2b mixed_between false word.

(* _snakecase_re_leading_us.match(s).group(0), or "" *)
Definition leading_us (s : str) : str := take_while (in_class leading_class) s.

(* _snakecase_re_trailing_us.search(rest).group(0), or "": the leftmost position where a
   maximal run is followed by the end of the string — or, as `$` also matches there, by a
   final newline *)
Definition at_end (s : str) : bool :=
  match s with [] => true | [c] => is_chr 10 c | _ => false end.

Fixpoint trailing_us (s : str) : str :=
  match s with
  | [] => []
  | c :: r =>
      if in_class trailing_class c && at_end (drop_while (in_class trailing_class) s)
      then take_while (in_class trailing_class) s
      else trailing_us r
  end.

Definition snake_token (respect_author_digits : bool) (t : str) : str :=
  let t1 := sub_b1 false t in
  let t2 := sub_pair b2_left b2_right t1 in
  if negb respect_author_digits && negb (all_upper_or_digits t2)
  then sub_pair d2a_left d2a_right (sub_pair a2d_left a2d_right t2)
  else t2.

Definition snake_case (word : str) : str :=
  match word with
  | [] => []
  | _ =>
      let s := map (fun c => if is_chr dash_char c then sepc else c) word in
      let pre := leading_us s in
      let rest := skipn (List.length pre) s in
      let suf := trailing_us rest in
      let core := firstn (List.length rest - List.length suf) rest in
      let respect := existsb (is_chr sep_char) word && mixed_case word in
      let parts := map (snake_token respect) (filter nonempty (split_on sep_char core)) in
      let core_snake := lower (strip_chr sep_char (sub_multi false (join_with [sepc] parts))) in
      pre ++ core_snake ++ suf
  end.

Definition upper_case (word : str) : str := upper word.
Definition keep_case (word : str) : str := word.

(* ------------------------------------------------------------------------------------ *)
(* renderer/formatter.py                                                                *)
(* ------------------------------------------------------------------------------------ *)

(* CaseStyle.converter *)
Definition convert (st : style) (s : str) : str :=
  match st with
  | SKeep => keep_case s
  | SSnake => snake_case s
  | SUpper => upper_case s
  | SPascal => pascal_case s
  end.

Definition apply_styles (sts : list style) (s : str) : str :=
  fold_left (fun acc st => convert st acc) sts s.

(* Formatter.format_case_style *)
Definition format_case_style (l : lang) (k : kind) (s : str) : str :=
  apply_styles (case_table l k) s.

(* Formatter._get_definition_name_prefix: the bound proto's option named by
   definition_name_prefix_option_name(), "" when the language names no such option.
   [popt] is the value of `option c.name_prefix` of the proto the definition is bound to. *)
Definition name_prefix (l : lang) (popt : str) : str :=
  match prefix_option l with
  | EmptyString => []
  | _ => popt
  end.

(* Formatter._format_definition_name_inner_proto.  [encl]: the names of the enclosing
   MESSAGES inside the definition's own proto, outermost first (enums are no namespace) *)
Definition inner_name (l : lang) (popt : str) (encl : list str) (name : str) : str :=
  match encl with
  | [] => name_prefix l popt ++ name
  | _ => name_prefix l popt ++ join_with (Str (delim_inner l)) (encl ++ [name])
  end.

(* Formatter.format_definition_name_inner_proto *)
Definition def_name (l : lang) (k : kind) (popt : str) (encl : list str) (name : str) : str :=
  format_case_style l k (inner_name l popt encl name).

(* Formatter.format_definition_name.  [parent_is_proto]: the definition's innermost scope
   is a proto (it is a top-level definition); [imp]: Some alias when that proto was
   imported into the proto being rendered, under the name [alias] *)
Definition ref_name (l : lang) (k : kind) (popt : str) (encl : list str) (name : str)
           (parent_is_proto : bool) (imp : option str) : str :=
  let n := def_name l k popt encl name in
  match imp with
  | Some alias =>
      if parent_is_proto && supports_import l then alias ++ Str (delim_cross l) ++ n else n
  | None => n
  end.

(* _ast.Scope.get_name_by_member and Formatter._get_definition_name: the key under which a
   member OBJECT is registered in its scope (`is` comparison; objects are modelled by ids,
   [members] is the scope's dict in insertion order), else the member's own name.  For a proto
   imported with `import <as> "file"` the key is <as>, otherwise the proto's own name: this is
   the [imp] argument of [ref_name]. *)
Fixpoint name_by_member (members : list (str * N)) (id : N) : option str :=
  match members with
  | [] => None
  | (k, i) :: r => if (i =? id)%N then Some k else name_by_member r id
  end.

Definition definition_name (members : list (str * N)) (id : N) (own : str) : str :=
  match name_by_member members id with
  | Some k => k
  | None => own
  end.

(* Formatter.format_message_field_name *)
Definition field_name (l : lang) (name : str) : str := format_case_style l KMessageField name.

(* BlockBindMessage.message_size_constant_name (C, Go); Python overrides it by a literal *)
Definition size_const (l : lang) (message_name : str) : str :=
  match l with
  | LPy => Str py_size_attr
  | _ => Str size_const_prefix ++ apply_styles size_const_styles message_name
  end.

(* C function names *)
Definition c_encode_fn (message_name : str) : str := Str c_encode_prefix ++ message_name.
Definition c_decode_fn (message_name : str) : str := Str c_decode_prefix ++ message_name.
Definition c_json_fn (message_name : str) : str := Str c_json_prefix ++ message_name.
Definition c_processor_fn (n : str) : str := Str c_processor_prefix ++ n.
Definition c_jsonfmt_fn (n : str) : str := Str c_jsonfmt_prefix ++ n.
Definition c_fdinit_fn (n : str) : str := Str c_fdinit_prefix ++ n.
Definition c_array_processor_fn (n suffix : str) : str :=
  Str c_processor_prefix ++ Str c_array_infix ++ n ++ suffix.
Definition c_array_jsonfmt_fn (n suffix : str) : str :=
  Str c_jsonfmt_prefix ++ Str c_array_infix ++ n ++ suffix.

(* Go struct tag value *)
Definition go_tag (formatted_field_name : str) : str :=
  apply_styles go_tag_styles formatted_field_name.

(* os.path.splitext on a base name: cut at the last '.', unless only '.'s precede it *)
Definition is_dot (c : ascii) : bool := is_chr 46 c.
Fixpoint last_dot_cut (s : str) : option (str * str) :=
  (* Some (before, from the last dot on) *)
  match s with
  | [] => None
  | c :: r =>
      match last_dot_cut r with
      | Some (a, b) => Some (c :: a, b)
      | None => if is_dot c then Some ([], s) else None
      end
  end.
Definition splitext_root (base : str) : str :=
  match last_dot_cut base with
  | Some (a, _) => if forallb is_dot a then base else a
  | None => base
  end.

(* Formatter.format_out_filename for a proto parsed from the file [basename] *)
Definition out_filename (basename : str) (ext : string) : str :=
  splitext_root basename ++ Str out_suffix ++ Str ext.

(* ------------------------------------------------------------------------------------ *)
(* a schema's names, and the identifiers the three back ends declare for it             *)
(* ------------------------------------------------------------------------------------ *)

(* the type of a message field / alias target, as far as names are concerned *)
Inductive tref :=
| TBase                                   (* bool / byte / intN / uintN *)
| TNamed (k : kind) (popt : str) (encl : list str) (name : str) (imp : option str)
                                          (* reference to an alias / enum / message *)
| TArray (elem : tref).

Record fieldn := { f_name : str; f_number : N; f_type : tref }.

Inductive decl :=
| DConst (name : str)
| DAlias (name : str) (t : tref)
| DEnum (name : str) (members : list str)
| DMessage (name : str) (nested : list decl) (fields : list fieldn).

Record proton := { p_prefix : str; p_decls : list decl }.

(* kinds of declared identifiers *)
Inductive ikind :=
| IMacro | ITypedef | IStruct | IFunc            (* C *)
| IField (owner : str) | IFieldType (owner : str)      (* all: struct member name; type text *)
| IType | IConst | IMethod (owner : str) | ITag (owner : str)   (* Go *)
| IClass | IAttr (owner : str) | IVar.                 (* Python *)

Definition ident := (ikind * str)%type.

Definition is_array (t : tref) : bool := match t with TArray _ => true | _ => false end.

Fixpoint tref_named (t : tref) : option tref :=
  match t with
  | TBase => None
  | TNamed _ _ _ _ _ => Some t
  | TArray e => tref_named e
  end.

(* how a named type is written where it is used (None for base types) *)
Definition type_ref (l : lang) (t : tref) : option str :=
  match tref_named t with
  | Some (TNamed k popt encl name imp) =>
      let parent_is_proto := match encl with [] => true | _ => false end in
      let n := ref_name l k popt encl name parent_is_proto imp in
      Some (match l, k with
            | LC, KMessage => Str c_struct_kw ++ n
            | _, _ => n
            end)
  | _ => None
  end.

Definition Nstr (n : N) : str :=
  (* decimal digits of a field number *)
  let fix go (fuel : nat) (n : N) (acc : str) : str :=
      match fuel with
      | O => acc
      | S f =>
          let d := chr (48 + n mod 10) in
          if (n / 10 =? 0)%N then d :: acc else go f (n / 10)%N (d :: acc)
      end in
  go 20%nat n [].

(* how one back end names things: the declared name of a definition of the rendered proto
   (kind, enclosing message names, own name), member names, Go tags, size constants, and
   type references.  The identifier lists below are generic in it, so that the same
   traversal serves the model ([model_namer]) and the specification (NamesT2.spec_namer). *)
Record namer := {
  nm_def : kind -> list str -> str -> str;
  nm_field : str -> str;
  nm_tag : str -> str;
  nm_size : str -> str;
  nm_tref : tref -> option str;
  nm_encode : str -> str;      (* C: name of the encoder of a message, from its struct name *)
  nm_decode : str -> str;
  nm_json : str -> str;
  nm_menc : str;               (* Go / Python: method names *)
  nm_mdec : str;
  nm_msize : str;
  nm_mextra : list str         (* Python: public methods every message class inherits *)
}.

Section Decls.
  Variable l : lang.
  Variable opt : bool.       (* C optimization mode (-O) *)
  Variable N : namer.

  Definition field_idents (owner : str) (f : fieldn) : list ident :=
    let fname := nm_field N (f_name f) in
    [(IField owner, fname)] ++
    (match nm_tref N (f_type f) with
     | Some t => [(IFieldType owner, fname ++ Str ":" ++ t)]
     | None => []
     end) ++
    (match l with
     | LGo => [(ITag owner, fname ++ Str ":" ++ nm_tag N fname)]
     | _ => []
     end).

  Definition message_idents (n : str) (fields : list fieldn) : list ident :=
    match l with
    | LC =>
        [(IStruct, n); (IMacro, nm_size N n); (IFunc, nm_encode N n); (IFunc, nm_decode N n)] ++
        (if opt then [] else
           [(IFunc, nm_json N n); (IFunc, c_processor_fn n); (IFunc, c_jsonfmt_fn n);
            (IFunc, c_fdinit_fn n)] ++
           flat_map (fun f => if is_array (f_type f)
                              then [(IFunc, c_array_processor_fn n (Nstr (f_number f)));
                                    (IFunc, c_array_jsonfmt_fn n (Nstr (f_number f)))]
                              else []) fields)
    | LGo =>
        [(IType, n); (IConst, nm_size N n); (IMethod n, nm_menc N);
         (IMethod n, nm_mdec N); (IMethod n, nm_msize N)]
    | LPy =>
        [(IClass, n); (IAttr n, nm_size N n); (IMethod n, nm_menc N); (IMethod n, nm_mdec N)] ++
        map (fun m => (IMethod n, m)) (nm_mextra N)
    end ++ flat_map (field_idents n) fields.

  Fixpoint decl_idents (encl : list str) (d : decl) : list ident :=
    match d with
    | DConst name =>
        let n := nm_def N KConstant encl name in
        [(match l with LC => IMacro | LGo => IConst | LPy => IVar end, n)]
    | DAlias name t =>
        let n := nm_def N KAlias encl name in
        match l with
        | LC => [(ITypedef, n)] ++
                (if opt then [] else
                   [(IFunc, c_processor_fn n); (IFunc, c_jsonfmt_fn n)] ++
                   (if is_array t then [(IFunc, c_array_processor_fn n []);
                                        (IFunc, c_array_jsonfmt_fn n [])] else []))
        | LGo => [(IType, n)]
        | LPy => [(IVar, n)]
        end ++
        (match nm_tref N t with Some tr => [(IFieldType n, tr)] | None => [] end)
    | DEnum name members =>
        let n := nm_def N KEnum encl name in
        (match l with LC => [(ITypedef, n)] | LGo => [(IType, n)] | LPy => [(IClass, n)] end) ++
        (* Python declares every member twice: as class attribute and as module-level name *)
        flat_map (fun m => let mn := nm_def N KEnumField encl m in
                           (match l with LC => IMacro | LGo => IConst | LPy => IAttr n end, mn) ::
                           (match l with LPy => [(IVar, mn)] | _ => [] end)) members
    | DMessage name nested fields =>
        let n := nm_def N KMessage encl name in
        flat_map (decl_idents (encl ++ [name])) nested ++ message_idents n fields
    end.
End Decls.

(* the model: bitproto's own naming functions; [popt] = option c.name_prefix of the proto *)
Definition model_namer (l : lang) (popt : str) : namer :=
  {| nm_def := fun k encl n => def_name l k popt encl n;
     nm_field := field_name l;
     nm_tag := go_tag;
     nm_size := size_const l;
     nm_tref := type_ref l;
     nm_encode := c_encode_fn; nm_decode := c_decode_fn; nm_json := c_json_fn;
     nm_menc := Str (match l with LPy => py_encode_method | _ => go_encode_method end);
     nm_mdec := Str (match l with LPy => py_decode_method | _ => go_decode_method end);
     nm_msize := Str go_size_method;
     nm_mextra := match l with LPy => [Str py_to_json_method; Str py_to_dict_method] | _ => [] end |}.

Definition proto_idents (l : lang) (opt : bool) (p : proton) : list ident :=
  flat_map (decl_idents l opt (model_namer l (p_prefix p)) []) (p_decls p).

(* ------------------------------------------------------------------------------------ *)
(* boolean equalities (used by the correspondence case files)                            *)
(* ------------------------------------------------------------------------------------ *)

Definition ascii_eqb (a b : ascii) : bool := Ascii.eqb a b.

Fixpoint str_eqb (a b : str) : bool :=
  match a, b with
  | [], [] => true
  | x :: r, y :: s => ascii_eqb x y && str_eqb r s
  | _, _ => false
  end.

Definition ikind_eqb (a b : ikind) : bool :=
  match a, b with
  | IMacro, IMacro | ITypedef, ITypedef | IStruct, IStruct | IFunc, IFunc
  | IType, IType | IConst, IConst | IClass, IClass | IVar, IVar => true
  | IField x, IField y | IFieldType x, IFieldType y | IMethod x, IMethod y
  | ITag x, ITag y | IAttr x, IAttr y => str_eqb x y
  | _, _ => false
  end.

Definition ident_eqb (a b : ident) : bool := ikind_eqb (fst a) (fst b) && str_eqb (snd a) (snd b).

Definition subset (a b : list ident) : bool :=
  forallb (fun x => existsb (ident_eqb x) b) a.

(* indices (from 0) of the elements of [a] missing from [b] *)
Fixpoint missing_from (i : N) (a b : list ident) : list N :=
  match a with
  | [] => []
  | x :: r => (if existsb (ident_eqb x) b then [] else [i]) ++ missing_from (i + 1) r b
  end.
