(* EmitProofs.v — lemmas behind props/C10.v (part 1): shape of the outputs, import names,
   Python defaults, Go import use, struct members. *)
From Coq Require Import String Ascii List ZArith Bool Arith Lia.
From BP Require Import EmitBase EmitNames Emit EmitSpec EmitCheck.
From BPGen Require Import GenC10.
Import ListNotations.
Open Scope string_scope.
Open Scope list_scope.
Open Scope nat_scope.

(* ---------- list / string basics ---------- *)

Lemma forallb_map {A B} (f : A -> B) (p : B -> bool) l :
  forallb p (map f l) = forallb (fun x => p (f x)) l.
Proof. induction l as [|x r IH]; [reflexivity|]. cbn [map forallb]. rewrite IH. reflexivity. Qed.

Lemma forallb_impl {A} (p q : A -> bool) l :
  (forall x, In x l -> p x = true -> q x = true) -> forallb p l = true -> forallb q l = true.
Proof.
  intros H Hp. apply forallb_forall. intros x Hx. apply H; [exact Hx|].
  rewrite forallb_forall in Hp. apply Hp. exact Hx.
Qed.

Lemma forallb_flat_map {A B} (f : A -> list B) (p : B -> bool) l :
  forallb p (flat_map f l) = forallb (fun x => forallb p (f x)) l.
Proof.
  induction l as [|x r IH]; [reflexivity|]. cbn [flat_map forallb]. rewrite forallb_app, IH. reflexivity.
Qed.

Lemma forallb_true {A} (l : list A) : forallb (fun _ => true) l = true.
Proof. induction l; [reflexivity|]. exact IHl. Qed.

Lemma sapp_assoc (a b c : string) : ((a ++ b) ++ c)%string = (a ++ (b ++ c))%string.
Proof. induction a as [|x a IH]; [reflexivity|]. cbn [String.append]. rewrite IH. reflexivity. Qed.

Lemma existsb_false_forall {A} (p : A -> bool) l :
  (forall x, In x l -> p x = false) -> existsb p l = false.
Proof.
  induction l as [|x r IH]; intros H; [reflexivity|]. cbn [existsb].
  rewrite (H x (or_introl eq_refl)). apply IH. intros y Hy. apply H. right. exact Hy.
Qed.

(* ---------- the outputs, block by block (these equalities re-check the translated block
   lists of gen/GenC10.v: a reordering in /repo makes them fail) ---------- *)

Section Shape.
Variables (s : schema) (i : nat) (flt : list string).
Let f := getf s i.

Definition h_guard : item :=
  IDecl (mk DkDefine NsMacro (h_guard_macro (upper_case (snake_case (f_proto f)))) []).
Definition h_includes : list item :=
  map (fun mj => IImport "" (c_import_target (f_proto (getf s (snd mj)))) (snd mj)) (f_imports f).
Definition c_self_include : item := IImport "" (out_filename (f_base f) ext_h) i.
Definition p_imports : list item :=
  map (fun mj => IImport (fst mj) (py_module_of s (snd mj)) (snd mj)) (f_imports f).
Definition g_imports : list item :=
  map (fun mj => IImport (fst mj) (go_path_of s (snd mj)) (snd mj)) (f_imports f).
Definition disp (b : blk) : list item := map IDecl (dispatcher s i flt b).

Lemma items_TgH :
  render_items s i TgH flt =
  h_guard :: h_includes ++ disp H_DataStructuresList ++ disp H_FunctionDeclarationsForUserList
          ++ disp H_FunctionDeclarationsForInternalList.
Proof.
  unfold render_items, blocklist, h_blocklist.
  cbn [flat_map expand blocks_of app top_block is_dispatcher]. rewrite !app_nil_r. reflexivity.
Qed.

Lemma items_TgHO :
  render_items s i TgHO flt =
  h_guard :: h_includes ++ IDecl (mk DkDefine NsMacro "BITPROTO_OPTIMIZATION_MODE" [])
          :: disp H_DataStructuresList ++ disp H_FunctionDeclarationsForUserListOpMode.
Proof.
  unfold render_items, blocklist, h_blocklist_opmode.
  cbn [flat_map expand blocks_of app top_block is_dispatcher]. rewrite !app_nil_r. reflexivity.
Qed.

Lemma items_TgC : render_items s i TgC flt = c_self_include :: disp C_BoundDefinitionList.
Proof.
  unfold render_items, blocklist, c_blocklist.
  cbn [flat_map expand blocks_of app top_block is_dispatcher]. rewrite !app_nil_r. reflexivity.
Qed.

Lemma items_TgCO : render_items s i TgCO flt = c_self_include :: disp C_BoundDefinitionListOpMode.
Proof.
  unfold render_items, blocklist, c_blocklist_opmode.
  cbn [flat_map expand blocks_of app top_block is_dispatcher]. rewrite !app_nil_r. reflexivity.
Qed.

Lemma items_TgPy : render_items s i TgPy flt = p_imports ++ disp P_BoundDefinitionList.
Proof.
  unfold render_items, blocklist, p_blocklist.
  cbn [flat_map expand blocks_of app top_block is_dispatcher]. rewrite !app_nil_r. reflexivity.
Qed.

Lemma items_TgGo :
  render_items s i TgGo flt =
  g_imports ++ IDecl (mk DkGoVar NsMod "formatInt" []) :: IDecl (mk DkGoVar NsMod "jsonMarshal" [])
            :: disp G_BoundDefinitionList.
Proof.
  unfold render_items, blocklist, g_blocklist.
  cbn [flat_map expand blocks_of app top_block is_dispatcher]. rewrite !app_nil_r. reflexivity.
Qed.

End Shape.

(* ---------- C10_import_refers_to_generated_file ---------- *)

Lemma imports_ok_decls s t (ds : list decl) : imports_ok_b s t (map IDecl ds) = true.
Proof. unfold imports_ok_b. rewrite forallb_map. apply forallb_true. Qed.

Lemma imports_ok_app s t a b : imports_ok_b s t (a ++ b) = imports_ok_b s t a && imports_ok_b s t b.
Proof. unfold imports_ok_b. apply forallb_app. Qed.

Lemma h_includes_ok s i t :
  (t = TgH \/ t = TgHO) -> g_import LC s i = true -> imports_ok_b s t (h_includes s i) = true.
Proof.
  intros Ht Hg. unfold imports_ok_b, h_includes. rewrite forallb_map.
  unfold g_import in Hg. revert Hg. apply forallb_impl. intros mj _ H.
  apply String.eqb_eq in H.
  assert (E : String.eqb (c_import_target (f_proto (getf s (snd mj)))) (out_name s (snd mj) TgH) = true).
  { unfold c_import_target, out_name, out_filename, ext_of, ext_h. rewrite H. cbn [String.append].
    apply String.eqb_refl. }
  destruct Ht as [-> | ->]; cbn [import_ok_b]; exact E.
Qed.

Lemma self_include_ok s i t : (t = TgC \/ t = TgCO) -> import_ok_b s t (c_self_include s i) = true.
Proof.
  intros [-> | ->]; cbn [import_ok_b c_self_include]; unfold out_name, ext_of; apply String.eqb_refl.
Qed.

Lemma p_imports_ok s i : g_import LPy s i = true -> imports_ok_b s TgPy (p_imports s i) = true.
Proof.
  intros Hg. unfold imports_ok_b, p_imports. rewrite forallb_map.
  unfold g_import in Hg. revert Hg. apply forallb_impl. intros mj _ H.
  apply String.eqb_eq in H. cbn [import_ok_b snd]. rewrite H.
  unfold out_name, out_filename, ext_of. rewrite sapp_assoc. apply String.eqb_refl.
Qed.

Theorem import_refers_to_generated_file s i t flt :
  g_import (lang_of t) s i = true -> imports_ok_b s t (render_items s i t flt) = true.
Proof.
  intros Hg. destruct t; cbn [lang_of] in Hg.
  - rewrite items_TgH. change (?x :: ?l) with ([x] ++ l). unfold disp.
    rewrite !imports_ok_app, !imports_ok_decls, h_includes_ok by (auto). reflexivity.
  - rewrite items_TgC. cbn [imports_ok_b forallb]. rewrite self_include_ok by auto.
    apply imports_ok_decls.
  - rewrite items_TgHO. unfold disp.
    change (h_guard s i :: ?l) with ([h_guard s i] ++ l).
    rewrite imports_ok_app. rewrite imports_ok_app. rewrite h_includes_ok by auto.
    cbn [imports_ok_b forallb import_ok_b h_guard andb].
    change (forallb (import_ok_b s TgHO) ?l) with (imports_ok_b s TgHO l).
    rewrite imports_ok_app, !imports_ok_decls. reflexivity.
  - rewrite items_TgCO. cbn [imports_ok_b forallb]. rewrite self_include_ok by auto.
    apply imports_ok_decls.
  - rewrite items_TgPy. unfold disp. rewrite imports_ok_app, imports_ok_decls, p_imports_ok by auto. reflexivity.
  - unfold imports_ok_b. apply forallb_forall. intros it _. destruct it; reflexivity.
Qed.

(* ---------- C10_py_defaults_exist (unguarded since the fix of empty-enum) ---------- *)

Lemma py_defval_some s eager t : exists us, py_defval s eager t = Some us.
Proof.
  induction t as [b | r | e IH cap x].
  - eexists. reflexivity.
  - cbn [py_defval]. destruct (r_k r).
    + destruct (enum_members s r) as [[|m ms]|]; eexists; reflexivity.
    + eexists. reflexivity.
    + eexists. reflexivity.
  - cbn [py_defval]. destruct (is_byte e); [eexists; reflexivity | exact IH].
Qed.

Lemma py_field_default_some s t : exists us, py_field_default s t = Some us.
Proof. unfold py_field_default. destruct (is_arr t); apply py_defval_some. Qed.

Theorem py_defaults_exist s i flt :
  (exists its, render s i TgPy flt = Some its) /\
  (forall fl, exists us, py_field_default s (fl_ty fl) = Some us) /\
  (* the default of an enum-typed field mentions the enum class only when the enum has a member *)
  (forall r eager, r_k r = RkEnum ->
     match enum_members s r with
     | Some (_ :: _) => py_defval s eager (TRef r) = Some [mkUse NsMod (ref_qual LPy r) (ref_name s LPy r) eager]
     | _ => py_defval s eager (TRef r) = Some []
     end).
Proof.
  split; [|split].
  - unfold render. replace (existsb (py_raises s) (flat_file (getf s i))) with false; [eexists; reflexivity|].
    symmetry. apply existsb_false_forall. intros fd _. unfold py_raises.
    destruct (fd_def fd) as [n v | n t | n w ms | n x nested fs]; try reflexivity.
    + destruct (py_defval_some s false t) as [us ->]. reflexivity.
    + apply existsb_false_forall. intros fl _. destruct (py_field_default_some s (fl_ty fl)) as [us ->]. reflexivity.
  - intros fl. apply py_field_default_some.
  - intros r eager Hk. cbn [py_defval]. rewrite Hk. destruct (enum_members s r) as [[|m ms]|]; reflexivity.
Qed.

(* ---------- string constants: every character that would end or corrupt a double-quoted
   literal in C, Go or Python is escaped by the translated Formatter.escape_str_value ---------- *)
Theorem string_constants_escaped s i : str_consts_ok s i = true.
Proof.
  unfold str_consts_ok. apply forallb_forall. intros d _. destruct d as [n v | | |]; try reflexivity.
  destruct v as [z | b | v]; try reflexivity. apply forallb_forall. intros c _.
  unfold bad_str_char, char_escaped.
  destruct (nat_of_ascii c =? 34) eqn:E1; [apply Nat.eqb_eq in E1; rewrite E1; reflexivity|].
  destruct (nat_of_ascii c =? 92) eqn:E2; [apply Nat.eqb_eq in E2; rewrite E2; reflexivity|].
  destruct (nat_of_ascii c =? 10) eqn:E3; [apply Nat.eqb_eq in E3; rewrite E3; reflexivity|].
  destruct (nat_of_ascii c =? 13) eqn:E4; [apply Nat.eqb_eq in E4; rewrite E4; reflexivity|].
  reflexivity.
Qed.
