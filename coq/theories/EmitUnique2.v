(* EmitUnique2.v — C10_names_unique for the Python module and the Go file: module / package level
   names, and methods per receiver type (name space [NsMember T]). *)
From Coq Require Import String Ascii List Bool Arith Lia Permutation.
From BP Require Import EmitBase EmitNames Emit EmitSpec EmitCheck EmitProofs EmitDbu EmitStr EmitUnique.
From BPGen Require Import GenC10.
Import ListNotations.
Open Scope string_scope.
Open Scope list_scope.
Open Scope nat_scope.

(* ---------- strings ---------- *)
Lemma slen_app a b : String.length (a ++ b) = String.length a + String.length b.
Proof. induction a as [|c a IH]; [reflexivity|]. cbn. rewrite IH. reflexivity. Qed.

Lemma sapp_inj_r c : forall a b, (a ++ c = b ++ c)%string -> a = b.
Proof.
  induction a as [|x a IH]; intros [|y b] H; [reflexivity | | |].
  - exfalso. apply (f_equal String.length) in H. cbn in H. rewrite slen_app in H. lia.
  - exfalso. apply (f_equal String.length) in H. cbn in H. rewrite slen_app in H. lia.
  - cbn in H. injection H as -> H. f_equal. apply IH. exact H.
Qed.

Lemma upper_case_app a b : upper_case (a ++ b) = (upper_case a ++ upper_case b)%string.
Proof.
  unfold upper_case. rewrite chars_app, map_app. induction (map to_upper (chars a)) as [|c l IH]; [reflexivity|].
  cbn. rewrite IH. reflexivity.
Qed.

(* ---------- a generic frame: tokens, admissible payloads, identifiers owned by a definition ---------- *)
Section Frame.
Context {T : Type} (key_of : T -> key) (adm : T -> Prop) (g : fdef -> list T) (fl : list fdef).
Hypothesis inj : forall a b, adm a -> adm b -> key_of a = key_of b -> a = b.
Hypothesis nodup1 : forall fd, In fd fl -> NoDup (g fd).
Hypothesis adm1 : forall fd t, In fd fl -> In t (g fd) -> adm t.
Hypothesis disj : forall l1 x l2 y l3 t, fl = l1 ++ x :: l2 ++ y :: l3 -> In t (g x) -> In t (g y) -> False.

Lemma frame_nodup : NoDup (map key_of (flat_map g fl)).
Proof.
  apply NoDup_map_inj_on.
  - apply NoDup_flat_map; [exact nodup1|]. intros l1 x l2 y l3 E t Hx Hy. exact (disj l1 x l2 y l3 t E Hx Hy).
  - intros a b Ha Hb E. apply in_flat_map in Ha. destruct Ha as [fa [Hfa Ha]]. apply in_flat_map in Hb.
    destruct Hb as [fb [Hfb Hb]]. apply inj; [apply (adm1 fa a Hfa Ha) | apply (adm1 fb b Hfb Hb) | exact E].
Qed.
End Frame.

Lemma own_px_py s i : own_px s i LPy = "".
Proof. reflexivity. Qed.
Lemma own_px_go s i : own_px s i LGo = "".
Proof. reflexivity. Qed.

(* ====================================================================================== *)
(* Python                                                                                  *)
(* ====================================================================================== *)

Inductive ptok := PBase (x : string) | PProc (x : string) | PFact (a : string) | PMap (u : string).

Definition pkey (t : ptok) : key :=
  (NsMod, match t with
          | PBase x => x
          | PProc x => py_processor_name_enum x
          | PFact a => py_default_factory_name a
          | PMap u => ("_" ++ u ++ "_VALUE_TO_NAME_MAP")%string
          end).
Definition padm (t : ptok) : Prop :=
  match t with PBase x => starts_any ["bp_"; "_"] x = false | _ => True end.

Lemma pkey_inj a b : padm a -> padm b -> pkey a = pkey b -> a = b.
Proof.
  destruct a, b; cbn [pkey padm]; intros A1 A2 H; pose proof (f_equal snd H) as Hs; unfold pkey in Hs; cbn [snd] in Hs; clear H;
    unfold py_processor_name_enum, py_default_factory_name in Hs;
    try (strip_eq Hs; try contradiction);
    try (subst; reflexivity);
    try (exfalso; subst;
         match goal with
         | A : starts_any _ (_ ++ _)%string = false |- _ => rewrite starts_any_lit in A; [discriminate | reflexivity]
         end).
  apply sapp_inj_r in Hs. subst. reflexivity.
Qed.

Section Py.
Variables (s : schema) (i : nat) (flt : list string).
Hypothesis Hpre : pre LPy s i = true.
Hypothesis Hgd : g_derived LPy s i = true.
Let fl := flat_file (getf s i).

Definition ptoks (fd : fdef) : list ptok :=
  let pth := fd_path fd in
  match fd_def fd with
  | DConst n _ => [PBase (dname LPy KConstant "" pth n)]
  | DAlias n _ => let a := dname LPy KAlias "" pth n in [PBase a; PProc a; PFact a]
  | DEnum n _ ms =>
      let e := dname LPy KEnum "" pth n in
      PBase e :: map (fun m => PBase (dname LPy KEnumField "" pth (fst m))) ms ++ [PMap (upper_case e); PProc e]
  | DMsg n _ _ _ => [PBase (dname LPy KMessage "" pth n)]
  end.

Lemma ptoks_keys fd : map dkey (dispatch_one s i flt P_BoundDefinitionList fd) = map pkey (ptoks fd).
Proof.
  destruct fd as [pth d]. unfold ptoks, dispatch_one. cbn [fd_def fd_path].
  destruct d as [n v | n t | n w ms | n x nested fs];
    cbn [dkind_of dispatch dispatch_filtered andb def_blocks expand blocks_of flat_map app leaf fd_path fd_def]; try reflexivity.
  cbn [map]. rewrite !map_app, !map_map. cbn [map dkey mk d_ns d_name]. unfold pkey at 1 3 4.
  unfold py_value_map_name_raw. rewrite !upper_case_app. reflexivity.
Qed.

Lemma py_pre_parts : NoDup (flat_map (base_keys LPy "") fl) /\ NoDup (derived_stems LPy s i).
Proof.
  pose proof Hpre as H. unfold pre in H.
  apply andb_true_iff in H. destruct H as [H _]. apply andb_true_iff in H. destruct H as [H _].
  apply andb_true_iff in H. destruct H as [H _]. apply andb_true_iff in H. destruct H as [Hb Hst].
  split; [apply nodup_keys_NoDup_rev; exact Hb | apply nodup_str_NoDup; exact Hst].
Qed.

Definition pstems_of (fd : fdef) : list string :=
  match fd_def fd with DEnum n _ _ => [upper_case (dname LPy KEnum "" (fd_path fd) n)] | _ => [] end.
Lemma pstems_flat : derived_stems LPy s i = flat_map pstems_of fl.
Proof.
  unfold derived_stems, enum_names. rewrite map_flat_map. apply flat_map_ext. intros fd. unfold pstems_of.
  destruct (fd_def fd); reflexivity.
Qed.

Definition ptok_id_in (fd : fdef) (t : ptok) : Prop :=
  match t with
  | PBase x | PProc x | PFact x => In (NsMod, x) (base_keys LPy "" fd)
  | PMap u => In u (pstems_of fd)
  end.

Lemma ptok_ids fd t : In t (ptoks fd) -> ptok_id_in fd t.
Proof.
  destruct fd as [pth d]. unfold ptoks, ptok_id_in, base_keys, pstems_of, ns_macro, ns_ord, ns_tag. cbn [fd_def fd_path].
  destruct d as [n v | n ty | n w ms | n x nested fs]; intros H.
  - destruct H as [<- | []]. left. reflexivity.
  - destruct H as [<- | [<- | [<- | []]]]; left; reflexivity.
  - destruct H as [<- | H]; [left; reflexivity|]. apply in_app_or in H. destruct H as [H | H].
    + apply in_map_iff in H. destruct H as [m [<- Hm]]. right. apply in_map_iff. exists m. split; [reflexivity | exact Hm].
    + destruct H as [<- | [<- | []]]; left; reflexivity.
  - destruct H as [<- | []]. left. reflexivity.
Qed.

Lemma ptoks_disjoint l1 x l2 y l3 t : fl = l1 ++ x :: l2 ++ y :: l3 -> In t (ptoks x) -> In t (ptoks y) -> False.
Proof.
  intros E Hx Hy. apply ptok_ids in Hx. apply ptok_ids in Hy.
  destruct py_pre_parts as [Hb Hst]. rewrite pstems_flat in Hst.
  destruct (NoDup_flat_map_elim _ _ Hb) as [_ Db]. destruct (NoDup_flat_map_elim _ _ Hst) as [_ Ds].
  destruct t; cbn [ptok_id_in] in Hx, Hy;
    first [ apply (Db l1 x l2 y l3 E _ Hx Hy) | apply (Ds l1 x l2 y l3 E _ Hx Hy) ].
Qed.

Lemma ptoks_nodup fd : In fd fl -> NoDup (ptoks fd).
Proof.
  intros Hfd. destruct py_pre_parts as [Hb _]. destruct (NoDup_flat_map_elim _ _ Hb) as [Hb1 _]. specialize (Hb1 fd Hfd).
  unfold ptoks. unfold base_keys in Hb1. destruct (fd_def fd) as [n v | n ty | n w ms | n x nested fs].
  - repeat constructor. intros [].
  - repeat constructor; cbn [In]; intuition discriminate.
  - cbn [ns_ord ns_macro] in Hb1.
    change (PBase ?e :: map ?f ms ++ ?tl) with (map PBase (e :: map (fun m => dname LPy KEnumField "" (fd_path fd) (fst m)) ms) ++ tl)
      || idtac.
    assert (Hm : NoDup (PBase (dname LPy KEnum "" (fd_path fd) n)
                        :: map (fun m => PBase (dname LPy KEnumField "" (fd_path fd) (fst m))) ms)).
    { change (PBase ?e :: map (fun m => PBase (?h m)) ms) with (map (fun o : option (string * N) => PBase (match o with None => e | Some m => h m end)) (None :: map Some ms)) || idtac.
      inversion Hb1 as [|? ? Hx Hms]; subst. constructor.
      - intros Hin. apply in_map_iff in Hin. destruct Hin as [m [E Hm]]. apply Hx. apply in_map_iff. exists m.
        injection E as E. rewrite E. split; [reflexivity | exact Hm].
      - apply (NoDup_map_transfer (fun m => (NsMod, dname LPy KEnumField "" (fd_path fd) (fst m)))); [|exact Hms].
        intros a b E. injection E as E. rewrite E. reflexivity. }
    change (PBase ?e :: ?l ++ ?tl) with ((PBase e :: l) ++ tl). apply NoDup_app_intro; [exact Hm | repeat constructor; cbn [In]; intuition discriminate|].
    intros t Ht Ht'. cbn [In] in Ht'. destruct Ht as [<- | Ht]; [intuition discriminate|].
    apply in_map_iff in Ht. destruct Ht as [m [<- _]]. intuition discriminate.
  - repeat constructor. intros [].
Qed.

Lemma ptoks_adm fd t : In fd fl -> In t (ptoks fd) -> padm t.
Proof.
  intros Hfd Ht. apply ptok_ids in Ht. destruct t; cbn [padm ptok_id_in] in *; try exact I.
  pose proof Hgd as G. cbn [g_derived] in G. rewrite forallb_forall in G.
  assert (Hin : In (NsMod, x) (file_base_keys LPy s i)).
  { unfold file_base_keys. apply in_flat_map. exists fd. split; [exact Hfd | exact Ht]. }
  specialize (G _ Hin). cbn [snd] in G. apply negb_true_iff in G. exact G.
Qed.

Theorem names_unique_Py : unique_b (decls_of (render_items s i TgPy flt)) = true.
Proof.
  rewrite items_TgPy. unfold disp, p_imports. rewrite decls_of_app, decls_of_decls.
  rewrite decls_of_imports by (intros x; eauto). cbn [app].
  assert (Hk : forallb (fun d => negb (is_proto d)) (dispatcher s i flt P_BoundDefinitionList) = true).
  { unfold dispatcher. rewrite forallb_flat_map. apply forallb_forall. intros [pth d] _. unfold dispatch_one. cbn [fd_def].
    destruct d; cbn [dkind_of dispatch dispatch_filtered andb def_blocks expand blocks_of flat_map app leaf fd_path fd_def forallb];
      try reflexivity. cbn [forallb]. rewrite forallb_app, forallb_map, forallb_true. reflexivity. }
  unfold unique_b. rewrite (filter_all _ _ Hk). rewrite (filter_none is_proto) by (exact Hk). cbn [map nodup_keys andb].
  rewrite andb_true_r. apply nodup_keys_NoDup. unfold dispatcher. rewrite map_flat_map.
  rewrite (flat_map_ext _ (fun fd => map pkey (ptoks fd))) by (intros fd; apply ptoks_keys). rewrite <- map_flat_map.
  apply (frame_nodup pkey padm ptoks fl pkey_inj ptoks_nodup ptoks_adm ptoks_disjoint).
Qed.

End Py.

(* ====================================================================================== *)
(* Go                                                                                      *)
(* ====================================================================================== *)

Inductive gtok := GBase (x : string) | GSize (st : string) | GMeth (owner name : string).

Definition gkey (t : gtok) : key :=
  match t with
  | GBase x => (NsMod, x)
  | GSize st => (NsMod, size_constant_name st)
  | GMeth o n => (NsMember o, n)
  end.
Definition gadm (t : gtok) : Prop :=
  match t with
  | GBase x => starts_any ["BYTES_LENGTH_"] x = false /\ is_reserved LGo x = false
  | _ => True
  end.

Lemma gkey_inj a b : gadm a -> gadm b -> gkey a = gkey b -> a = b.
Proof.
  destruct a, b; cbn [gkey gadm]; intros A1 A2 H; try discriminate H.
  - injection H as ->. reflexivity.
  - exfalso. injection H as H. unfold size_constant_name in H. subst x. destruct A1 as [A1 _].
    rewrite starts_any_lit in A1; [discriminate | reflexivity].
  - exfalso. injection H as H. unfold size_constant_name in H. subst x. destruct A2 as [A2 _].
    rewrite starts_any_lit in A2; [discriminate | reflexivity].
  - injection H as H. subst. reflexivity.
  - injection H as -> ->. reflexivity.
Qed.

Section Go.
Variables (s : schema) (i : nat) (flt : list string).
Hypothesis Hpre : pre LGo s i = true.
Hypothesis Hgd : g_derived LGo s i = true.
Let fl := flat_file (getf s i).

Definition gtoks (fd : fdef) : list gtok :=
  let pth := fd_path fd in
  match fd_def fd with
  | DConst n _ => [GBase (dname LGo KConstant "" pth n)]
  | DAlias n _ => let a := dname LGo KAlias "" pth n in [GBase a; GMeth a "BpProcessor"]
  | DEnum n _ ms =>
      let e := dname LGo KEnum "" pth n in
      GBase e :: map (fun m => GBase (dname LGo KEnumField "" pth (fst m))) ms ++ [GMeth e "BpProcessor"; GMeth e "String"]
  | DMsg n _ _ _ =>
      let m := dname LGo KMessage "" pth n in
      [GBase m; GSize (upper_case (snake_case m))] ++ map (GMeth m) go_msg_methods
  end.

Lemma gtoks_keys fd : map dkey (dispatch_one s i flt G_BoundDefinitionList fd) = map gkey (gtoks fd).
Proof.
  destruct fd as [pth d]. unfold gtoks, dispatch_one. cbn [fd_def fd_path].
  destruct d as [n v | n t | n w ms | n x nested fs];
    cbn [dkind_of dispatch dispatch_filtered andb def_blocks expand blocks_of flat_map app leaf fd_path fd_def]; try reflexivity.
  cbn [map]. rewrite !map_app, !map_map. reflexivity.
Qed.

Lemma go_pre_parts :
  NoDup (flat_map (base_keys LGo "") fl) /\ NoDup (derived_stems LGo s i) /\
  (forall k, In k (file_base_keys LGo s i) -> is_reserved LGo (snd k) = false).
Proof.
  pose proof Hpre as H. unfold pre in H.
  apply andb_true_iff in H. destruct H as [H _]. apply andb_true_iff in H. destruct H as [H Hres].
  apply andb_true_iff in H. destruct H as [H _]. apply andb_true_iff in H. destruct H as [Hb Hst].
  split; [apply nodup_keys_NoDup_rev; exact Hb | split; [apply nodup_str_NoDup; exact Hst|]].
  intros k Hk. rewrite forallb_forall in Hres. specialize (Hres k Hk). apply negb_true_iff in Hres. exact Hres.
Qed.

Definition gstems_of (fd : fdef) : list string :=
  match fd_def fd with DMsg n _ _ _ => [upper_case (snake_case (dname LGo KMessage "" (fd_path fd) n))] | _ => [] end.
Lemma gstems_flat : derived_stems LGo s i = flat_map gstems_of fl.
Proof.
  unfold derived_stems, msg_names. rewrite map_flat_map. apply flat_map_ext. intros fd. unfold gstems_of.
  destruct (fd_def fd); reflexivity.
Qed.

Definition gtok_id_in (fd : fdef) (t : gtok) : Prop :=
  match t with
  | GBase x | GMeth x _ => In (NsMod, x) (base_keys LGo "" fd)
  | GSize st => In st (gstems_of fd)
  end.

Lemma gtok_ids fd t : In t (gtoks fd) -> gtok_id_in fd t.
Proof.
  destruct fd as [pth d]. unfold gtoks, gtok_id_in, base_keys, gstems_of, ns_macro, ns_ord, ns_tag. cbn [fd_def fd_path].
  destruct d as [n v | n ty | n w ms | n x nested fs]; intros H.
  - destruct H as [<- | []]. left. reflexivity.
  - destruct H as [<- | [<- | []]]; left; reflexivity.
  - destruct H as [<- | H]; [left; reflexivity|]. apply in_app_or in H. destruct H as [H | H].
    + apply in_map_iff in H. destruct H as [m [<- Hm]]. right. apply in_map_iff. exists m. split; [reflexivity | exact Hm].
    + destruct H as [<- | [<- | []]]; left; reflexivity.
  - apply in_app_or in H. destruct H as [H | H]; [destruct H as [<- | [<- | []]]; left; reflexivity|].
    apply in_map_iff in H. destruct H as [m [<- _]]. left. reflexivity.
Qed.

Lemma gtoks_disjoint l1 x l2 y l3 t : fl = l1 ++ x :: l2 ++ y :: l3 -> In t (gtoks x) -> In t (gtoks y) -> False.
Proof.
  intros E Hx Hy. apply gtok_ids in Hx. apply gtok_ids in Hy.
  destruct go_pre_parts as [Hb [Hst _]]. rewrite gstems_flat in Hst.
  destruct (NoDup_flat_map_elim _ _ Hb) as [_ Db]. destruct (NoDup_flat_map_elim _ _ Hst) as [_ Ds].
  destruct t; cbn [gtok_id_in] in Hx, Hy;
    first [ apply (Db l1 x l2 y l3 E _ Hx Hy) | apply (Ds l1 x l2 y l3 E _ Hx Hy) ].
Qed.

Lemma go_methods_nodup : NoDup go_msg_methods.
Proof. apply nodup_str_NoDup. vm_compute. reflexivity. Qed.

Lemma gtoks_nodup fd : In fd fl -> NoDup (gtoks fd).
Proof.
  intros Hfd. destruct go_pre_parts as [Hb _]. destruct (NoDup_flat_map_elim _ _ Hb) as [Hb1 _]. specialize (Hb1 fd Hfd).
  unfold gtoks. unfold base_keys in Hb1. destruct (fd_def fd) as [n v | n ty | n w ms | n x nested fs].
  - repeat constructor. intros [].
  - repeat constructor; cbn [In]; intuition discriminate.
  - cbn [ns_ord ns_macro] in Hb1.
    assert (Hm : NoDup (GBase (dname LGo KEnum "" (fd_path fd) n)
                        :: map (fun m => GBase (dname LGo KEnumField "" (fd_path fd) (fst m))) ms)).
    { inversion Hb1 as [|? ? Hx Hms]; subst. constructor.
      - intros Hin. apply in_map_iff in Hin. destruct Hin as [m [E Hm]]. apply Hx. apply in_map_iff. exists m.
        injection E as E. rewrite E. split; [reflexivity | exact Hm].
      - apply (NoDup_map_transfer (fun m => (NsMod, dname LGo KEnumField "" (fd_path fd) (fst m)))); [|exact Hms].
        intros a b E. injection E as E. rewrite E. reflexivity. }
    change (GBase ?e :: ?l ++ ?tl) with ((GBase e :: l) ++ tl).
    apply NoDup_app_intro; [exact Hm | repeat constructor; cbn [In]; intuition discriminate|].
    intros t Ht Ht'. cbn [In] in Ht'. destruct Ht as [<- | Ht]; [intuition discriminate|].
    apply in_map_iff in Ht. destruct Ht as [m [<- _]]. intuition discriminate.
  - apply NoDup_app_intro; [repeat constructor; cbn [In]; intuition discriminate | |].
    + apply (NoDup_map_inj_on (GMeth _)); [exact go_methods_nodup|]. intros a b _ _ E. injection E as E. exact E.
    + intros t Ht Ht'. apply in_map_iff in Ht'. destruct Ht' as [m [<- _]]. cbn [In] in Ht. intuition discriminate.
Qed.

Lemma gtoks_adm fd t : In fd fl -> In t (gtoks fd) -> gadm t.
Proof.
  intros Hfd Ht. apply gtok_ids in Ht. destruct t; cbn [gadm gtok_id_in] in *; try exact I.
  assert (Hin : In (NsMod, x) (file_base_keys LGo s i)).
  { unfold file_base_keys. apply in_flat_map. exists fd. split; [exact Hfd | exact Ht]. }
  split.
  - pose proof Hgd as G. cbn [g_derived] in G. rewrite forallb_forall in G.
    specialize (G _ Hin). cbn [snd] in G. apply negb_true_iff in G. exact G.
  - destruct go_pre_parts as [_ [_ Hres]]. apply (Hres _ Hin).
Qed.

Definition go_vars : list decl := [mk DkGoVar NsMod "formatInt" []; mk DkGoVar NsMod "jsonMarshal" []].

Lemma go_vars_fresh t : In t (flat_map gtoks fl) -> ~ In (gkey t) (map dkey go_vars).
Proof.
  intros Ht Hin. apply in_flat_map in Ht. destruct Ht as [fd [Hfd Ht]]. pose proof (gtoks_adm fd t Hfd Ht) as A.
  cbn [go_vars map dkey mk d_ns d_name In] in Hin.
  destruct t; cbn [gkey gadm] in *.
  - destruct A as [_ A]. destruct Hin as [H | [H | []]]; injection H as H; subst x; vm_compute in A; discriminate.
  - destruct Hin as [H | [H | []]]; discriminate H.
  - destruct Hin as [H | [H | []]]; discriminate H.
Qed.

Theorem names_unique_Go : unique_b (decls_of (render_items s i TgGo flt)) = true.
Proof.
  rewrite items_TgGo. unfold disp, g_imports.
  change (?a ++ IDecl ?x :: IDecl ?y :: ?l) with (a ++ map IDecl go_vars ++ l).
  rewrite !decls_of_app, !decls_of_decls. rewrite decls_of_imports by (intros x; eauto). cbn [app].
  assert (Hk : forallb (fun d => negb (is_proto d)) (dispatcher s i flt G_BoundDefinitionList) = true).
  { unfold dispatcher. rewrite forallb_flat_map. apply forallb_forall. intros [pth d] _. unfold dispatch_one. cbn [fd_def].
    destruct d; cbn [dkind_of dispatch dispatch_filtered andb def_blocks expand blocks_of flat_map app leaf fd_path fd_def forallb];
      try reflexivity. cbn [forallb]. rewrite forallb_app, forallb_map, forallb_true. reflexivity. }
  unfold unique_b. change (mk DkGoVar NsMod "formatInt" [] :: mk DkGoVar NsMod "jsonMarshal" [] :: ?l) with (go_vars ++ l).
  rewrite !filter_app. rewrite (filter_all _ _ Hk). rewrite (filter_none is_proto _ Hk).
  apply andb_true_iff. split; [|reflexivity].
  cbn [filter go_vars mk is_proto d_kind negb app]. fold go_vars. change (mk DkGoVar NsMod "formatInt" [] :: mk DkGoVar NsMod "jsonMarshal" [] :: ?l) with (go_vars ++ l).
  apply nodup_keys_NoDup. rewrite map_app.
  assert (Hd : NoDup (map dkey (dispatcher s i flt G_BoundDefinitionList))).
  { unfold dispatcher. rewrite map_flat_map.
    rewrite (flat_map_ext _ (fun fd => map gkey (gtoks fd))) by (intros fd; apply gtoks_keys). rewrite <- map_flat_map.
    apply (frame_nodup gkey gadm gtoks fl gkey_inj gtoks_nodup gtoks_adm gtoks_disjoint). }
  apply NoDup_app_intro; [repeat constructor; cbn [In]; intuition discriminate | exact Hd|].
  intros k Hk1 Hk2. unfold dispatcher in Hk2. rewrite map_flat_map in Hk2.
  rewrite (flat_map_ext _ (fun fd => map gkey (gtoks fd))) in Hk2 by (intros fd; apply gtoks_keys).
  rewrite <- map_flat_map in Hk2. apply in_map_iff in Hk2. destruct Hk2 as [t [<- Ht]].
  apply (go_vars_fresh t Ht). exact Hk1.
Qed.

End Go.

(* ====================================================================================== *)
(* names inside one class / struct                                                         *)
(* ====================================================================================== *)

Lemma go_methods_reserved : forallb (is_reserved LGo) go_msg_methods = true.
Proof. vm_compute. reflexivity. Qed.

Lemma field_names_of_pre L s i fd n x nested fs :
  pre L s i = true -> In fd (flat_file (getf s i)) -> fd_def fd = DMsg n x nested fs ->
  NoDup (map (fun fl => conv L KMessageField (fl_name fl)) fs) /\
  (forall fl, In fl fs -> is_reserved L (conv L KMessageField (fl_name fl)) = false).
Proof.
  intros Hpre Hfd Ed. unfold pre in Hpre. apply andb_true_iff in Hpre. destruct Hpre as [_ Hf].
  rewrite forallb_forall in Hf. specialize (Hf fd Hfd). unfold field_names_ok in Hf. rewrite Ed in Hf.
  apply andb_true_iff in Hf. destruct Hf as [H1 H2]. split; [apply nodup_str_NoDup; exact H1|].
  intros fl Hfl. rewrite forallb_forall in H2. specialize (H2 (conv L KMessageField (fl_name fl))).
  apply negb_true_iff. apply H2. apply in_map_iff. exists fl. split; [reflexivity | exact Hfl].
Qed.

(* Go: the fields of a struct and the methods declared on it are pairwise distinct *)
Theorem go_members_unique s i fd :
  pre LGo s i = true -> In fd (flat_file (getf s i)) -> NoDup (go_struct_members fd).
Proof.
  intros Hpre Hfd. unfold go_struct_members. destruct (fd_def fd) as [n v | n ty | n w ms | n x nested fs] eqn:Ed; try constructor.
  destruct (field_names_of_pre LGo s i fd n x nested fs Hpre Hfd Ed) as [Hn Hr].
  apply NoDup_app_intro; [apply NoDup_map_sort_fl; exact Hn | exact go_methods_nodup|].
  intros y Hy Hy'. apply in_map_iff in Hy. destruct Hy as [fl [<- Hfl]]. apply in_sort_fl in Hfl.
  pose proof go_methods_reserved as G. rewrite forallb_forall in G. specialize (G _ Hy'). rewrite (Hr fl Hfl) in G. discriminate.
Qed.

(* ---- Python class attributes ---- *)
Inductive atok := AField (f : string) | AProxy (f : string) | AGet (f : string) | ASet (f : string) | ALit (l : string).
Definition akey (t : atok) : string :=
  match t with
  | AField f => f
  | AProxy f => (py_enum_proxy_prefix ++ f)%string
  | AGet f => ("_get_" ++ f)%string
  | ASet f => ("_set_" ++ f)%string
  | ALit l => l
  end.
Definition a_owner (t : atok) : string := match t with AField f | AProxy f | AGet f | ASet f => f | ALit _ => "" end.
Definition py_lits : list string :=
  ["BYTES_LENGTH"; "__post_init__"; "dict_factory"; "bp_processor"; "bp_set_byte"; "bp_get_byte"; "bp_get_accessor";
   "encode"; "decode"; "bp_process_int"].
Definition aadm (t : atok) : Prop :=
  match t with
  | AField f => starts_with "_" f = false /\ is_reserved LPy f = false
  | ALit l => In l py_lits
  | _ => True
  end.

Lemma py_lits_shape :
  forallb (fun l => (is_reserved LPy l || starts_with "_" l) &&
                    negb (starts_any [py_enum_proxy_prefix; "_get_"; "_set_"] l)) py_lits = true.
Proof. vm_compute. reflexivity. Qed.

Lemma lit_not_prefixed ps l p b : In p ps -> starts_any ps l = false -> l = (p ++ b)%string -> False.
Proof.
  intros Hp Hs E. subst l. unfold starts_any in Hs.
  assert (H : existsb (fun q => starts_with q (p ++ b)) ps = true).
  { apply existsb_exists. exists p. split; [exact Hp | apply starts_with_app]. }
  rewrite H in Hs. discriminate.
Qed.

Lemma akey_inj a b : aadm a -> aadm b -> akey a = akey b -> a = b.
Proof.
  pose proof py_lits_shape as L. rewrite forallb_forall in L.
  assert (Lit : forall l, In l py_lits -> (is_reserved LPy l = true \/ starts_with "_" l = true) /\
                          starts_any [py_enum_proxy_prefix; "_get_"; "_set_"] l = false).
  { intros l Hl. specialize (L l Hl). apply andb_true_iff in L. destruct L as [L1 L2].
    apply orb_true_iff in L1. apply negb_true_iff in L2. auto. }
  destruct a, b; cbn [akey aadm]; unfold py_enum_proxy_prefix; intros A1 A2 H;
    try (subst; reflexivity);
    try (apply sapp_inj_l in H; subst; reflexivity);
    try (strip_eq H; contradiction).
  - exfalso. destruct A1 as [A1 _]. subst f. cbn in A1. discriminate.
  - exfalso. destruct A1 as [A1 _]. subst f. cbn in A1. discriminate.
  - exfalso. destruct A1 as [A1 _]. subst f. cbn in A1. discriminate.
  - exfalso. subst l. destruct (Lit f A2) as [[R | U] _]; destruct A1 as [A1 A1']; congruence.
  - exfalso. destruct A2 as [A2 _]. subst f0. cbn in A2. discriminate.
  - exfalso. destruct (Lit l A2) as [_ P]. apply (lit_not_prefixed [py_enum_proxy_prefix; "_get_"; "_set_"] l py_enum_proxy_prefix f (or_introl eq_refl) P). symmetry. exact H.
  - exfalso. destruct A2 as [A2 _]. subst f0. cbn in A2. discriminate.
  - exfalso. destruct (Lit l A2) as [_ P]. apply (lit_not_prefixed [py_enum_proxy_prefix; "_get_"; "_set_"] l "_get_" f (or_intror (or_introl eq_refl)) P). symmetry. exact H.
  - exfalso. destruct A2 as [A2 _]. subst f0. cbn in A2. discriminate.
  - exfalso. destruct (Lit l A2) as [_ P]. apply (lit_not_prefixed [py_enum_proxy_prefix; "_get_"; "_set_"] l "_set_" f (or_intror (or_intror (or_introl eq_refl))) P). symmetry. exact H.
  - exfalso. subst l. destruct (Lit f A1) as [[R | U] _]; destruct A2 as [A2 A2']; congruence.
  - exfalso. destruct (Lit l A1) as [_ P]. apply (lit_not_prefixed [py_enum_proxy_prefix; "_get_"; "_set_"] l py_enum_proxy_prefix f (or_introl eq_refl) P). exact H.
  - exfalso. destruct (Lit l A1) as [_ P]. apply (lit_not_prefixed [py_enum_proxy_prefix; "_get_"; "_set_"] l "_get_" f (or_intror (or_introl eq_refl)) P). exact H.
  - exfalso. destruct (Lit l A1) as [_ P]. apply (lit_not_prefixed [py_enum_proxy_prefix; "_get_"; "_set_"] l "_set_" f (or_intror (or_intror (or_introl eq_refl))) P). exact H.
Qed.

Lemma NoDup_flat_map_owner {A} (h : A -> list atok) (k : A -> string) l :
  NoDup (map k l) -> (forall x, NoDup (h x)) -> (forall x t, In t (h x) -> a_owner t = k x) -> NoDup (flat_map h l).
Proof.
  intros Hk Hn Ho. induction l as [|x r IH]; [constructor|]. cbn [map] in Hk. inversion Hk as [|? ? Hx Hr]; subst.
  cbn [flat_map]. apply NoDup_app_intro; [apply Hn | apply IH; exact Hr|].
  intros t Ht Ht'. apply in_flat_map in Ht'. destruct Ht' as [y [Hy Hty]]. apply Hx.
  rewrite <- (Ho x t Ht), (Ho y t Hty). apply in_map. exact Hy.
Qed.

Section PyAttrs.
Variables (s : schema) (i : nat).
Hypothesis Hpre : pre LPy s i = true.
Hypothesis Hga : g_py_attrs s i = true.

Definition fname (fl : field) : string := conv LPy KMessageField (fl_name fl).
Definition hF (fl : field) : list atok := if is_enum_ty (fl_ty fl) then [AField (fname fl); AProxy (fname fl)] else [AField (fname fl)].
Definition hG (fl : field) : list atok := [AGet (fname fl); ASet (fname fl)].
Definition lits_tail : list string := ["bp_processor"; "bp_set_byte"; "bp_get_byte"; "bp_get_accessor"; "encode"; "decode"; "bp_process_int"].
Definition atoks (fs : list field) : list atok :=
  let sf := sort_fl fs in
  ALit "BYTES_LENGTH" :: flat_map hF sf ++ [ALit "__post_init__"; ALit "dict_factory"] ++
  flat_map hG (filter (fun fl => is_enum_ty (fl_ty fl)) sf) ++ map ALit lits_tail.

Lemma attrs_as_tokens fd n x nested fs : fd_def fd = DMsg n x nested fs -> py_class_attrs fd = map akey (atoks fs).
Proof.
  intros E. unfold py_class_attrs, atoks. rewrite E. cbn [map akey]. f_equal.
  rewrite !map_app. cbn [map akey].
  assert (E1 : forall l, flat_map (fun fl => if is_enum_ty (fl_ty fl)
                                            then [conv LPy KMessageField (fl_name fl); (py_enum_proxy_prefix ++ conv LPy KMessageField (fl_name fl))%string]
                                            else [conv LPy KMessageField (fl_name fl)]) l = map akey (flat_map hF l)).
  { intros l. rewrite map_flat_map. apply flat_map_ext. intros fl. unfold hF, fname. destruct (is_enum_ty (fl_ty fl)); reflexivity. }
  assert (E2 : forall l, flat_map (fun fl => [("_get_" ++ conv LPy KMessageField (fl_name fl))%string; ("_set_" ++ conv LPy KMessageField (fl_name fl))%string]) l
                         = map akey (flat_map hG l)).
  { intros l. rewrite map_flat_map. apply flat_map_ext. intros fl. reflexivity. }
  rewrite E1, E2. reflexivity.
Qed.

Theorem py_attrs_unique fd : In fd (flat_file (getf s i)) -> NoDup (py_class_attrs fd).
Proof.
  intros Hfd. destruct (fd_def fd) as [n v | n ty | n w ms | n x nested fs] eqn:Ed.
  - unfold py_class_attrs. rewrite Ed. constructor.
  - unfold py_class_attrs. rewrite Ed. constructor.
  - (* enum class: the member names *)
    unfold py_class_attrs. rewrite Ed.
    pose proof Hpre as H. unfold pre in H.
    apply andb_true_iff in H. destruct H as [H _]. apply andb_true_iff in H. destruct H as [H _].
    apply andb_true_iff in H. destruct H as [H _]. apply andb_true_iff in H. destruct H as [Hb _].
    apply nodup_keys_NoDup_rev in Hb. unfold file_base_keys in Hb.
    destruct (NoDup_flat_map_elim _ _ Hb) as [Hb1 _]. specialize (Hb1 fd Hfd). unfold base_keys in Hb1. rewrite Ed in Hb1.
    inversion Hb1 as [|? ? _ Hms]; subst.
    apply (NoDup_map_transfer (fun m => (ns_macro LPy, dname LPy KEnumField (own_px s i LPy) (fd_path fd) (fst m)))); [|exact Hms].
    intros a b E. f_equal. exact E.
  - rewrite (attrs_as_tokens fd n x nested fs Ed).
    destruct (field_names_of_pre LPy s i fd n x nested fs Hpre Hfd Ed) as [Hn Hr].
    assert (Hus : forall fl, In fl fs -> starts_with "_" (fname fl) = false).
    { intros fl Hfl. unfold g_py_attrs in Hga. rewrite forallb_forall in Hga. specialize (Hga fd Hfd). rewrite Ed in Hga.
      rewrite forallb_forall in Hga. specialize (Hga fl Hfl). apply negb_true_iff in Hga. exact Hga. }
    set (sf := sort_fl fs). set (ef := filter (fun fl => is_enum_ty (fl_ty fl)) sf).
    assert (Hsf : NoDup (map fname sf)) by (apply NoDup_map_sort_fl; exact Hn).
    assert (Hef : NoDup (map fname ef)) by (apply NoDup_map_filter; exact Hsf).
    apply NoDup_map_inj_on.
    + (* the tokens are distinct *)
      unfold atoks. fold sf ef.
      assert (NF : NoDup (flat_map hF sf)).
      { apply (NoDup_flat_map_owner hF fname); [exact Hsf | |].
        - intros fl. unfold hF. destruct (is_enum_ty (fl_ty fl)); repeat constructor; cbn [In]; intuition discriminate.
        - intros fl t Ht. unfold hF in Ht. destruct (is_enum_ty (fl_ty fl)); cbn [In] in Ht; intuition (subst; reflexivity). }
      assert (NG : NoDup (flat_map hG ef)).
      { apply (NoDup_flat_map_owner hG fname); [exact Hef | |].
        - intros fl. unfold hG. repeat constructor; cbn [In]; intuition discriminate.
        - intros fl t Ht. unfold hG in Ht. cbn [In] in Ht. intuition (subst; reflexivity). }
      assert (IF : forall t, In t (flat_map hF sf) -> match t with AField _ | AProxy _ => True | _ => False end).
      { intros t Ht. apply in_flat_map in Ht. destruct Ht as [fl [_ Ht]]. unfold hF in Ht.
        destruct (is_enum_ty (fl_ty fl)); cbn [In] in Ht; intuition (subst; exact I). }
      assert (IG : forall t, In t (flat_map hG ef) -> match t with AGet _ | ASet _ => True | _ => False end).
      { intros t Ht. apply in_flat_map in Ht. destruct Ht as [fl [_ Ht]]. unfold hG in Ht. cbn [In] in Ht. intuition (subst; exact I). }
      assert (IL : forall (l : list string) t, In t (map ALit l) -> exists z, t = ALit z /\ In z l).
      { intros l t Ht. apply in_map_iff in Ht. destruct Ht as [z [<- Hz]]. eauto. }
      constructor.
      * intros Hin. apply in_app_or in Hin. destruct Hin as [Hin | Hin]; [apply IF in Hin; exact Hin|].
        apply in_app_or in Hin. destruct Hin as [Hin | Hin]; [cbn [In] in Hin; intuition discriminate|].
        apply in_app_or in Hin. destruct Hin as [Hin | Hin]; [apply IG in Hin; exact Hin|].
        apply IL in Hin. destruct Hin as [z [E Hz]]. injection E as <-. vm_compute in Hz. intuition discriminate.
      * apply NoDup_app_intro; [exact NF | |].
        { apply NoDup_app_intro; [repeat constructor; cbn [In]; intuition discriminate | |].
          - apply NoDup_app_intro; [exact NG | |].
            + apply (NoDup_map_inj_on ALit); [apply nodup_str_NoDup; vm_compute; reflexivity|].
              intros a b _ _ E. injection E as E. exact E.
            + intros t Ht Ht'. apply IG in Ht. apply IL in Ht'. destruct Ht' as [z [-> _]]. exact Ht.
          - intros t Ht Ht'. apply in_app_or in Ht'. destruct Ht' as [Ht' | Ht'].
            + apply IG in Ht'. cbn [In] in Ht. destruct Ht as [<- | [<- | []]]; exact Ht'.
            + apply IL in Ht'. destruct Ht' as [z [-> Hz]]. cbn [In] in Ht. vm_compute in Hz.
              destruct Ht as [E | [E | []]]; injection E as <-; intuition discriminate. }
        { intros t Ht Ht'. apply IF in Ht. apply in_app_or in Ht'. destruct Ht' as [Ht' | Ht'].
          - cbn [In] in Ht'. destruct Ht' as [<- | [<- | []]]; exact Ht.
          - apply in_app_or in Ht'. destruct Ht' as [Ht' | Ht'].
            + apply IG in Ht'. destruct t; try contradiction.
            + apply IL in Ht'. destruct Ht' as [z [-> _]]. exact Ht. }
    + (* distinct tokens have distinct names *)
      assert (Adm : forall t, In t (atoks fs) -> aadm t).
      { intros t Ht. unfold atoks in Ht. fold sf ef in Ht. destruct Ht as [<- | Ht]; [cbn; auto|].
        apply in_app_or in Ht. destruct Ht as [Ht | Ht].
        - apply in_flat_map in Ht. destruct Ht as [fl [Hfl Ht]]. apply in_sort_fl in Hfl. unfold hF in Ht.
          assert (A : aadm (AField (fname fl))) by (cbn [aadm]; split; [apply Hus; exact Hfl | apply Hr; exact Hfl]).
          destruct (is_enum_ty (fl_ty fl)); cbn [In] in Ht; intuition (subst; first [exact A | exact I]).
        - apply in_app_or in Ht. destruct Ht as [Ht | Ht]; [cbn [In] in Ht; destruct Ht as [<- | [<- | []]]; cbn; auto 10|].
          apply in_app_or in Ht. destruct Ht as [Ht | Ht].
          + apply in_flat_map in Ht. destruct Ht as [fl [_ Ht]]. unfold hG in Ht. cbn [In] in Ht. intuition (subst; exact I).
          + apply in_map_iff in Ht. destruct Ht as [z [<- Hz]]. cbn [aadm]. vm_compute in Hz. vm_compute. intuition. }
      intros a b Ha Hb E. apply akey_inj; [apply Adm; exact Ha | apply Adm; exact Hb | exact E].
Qed.

End PyAttrs.
