(* PyDecLeaf.v — what each kind of generated setter leaves in a leaf after
   process_base_type (decode) and bp_process_int: the unsigned n-bit field, its sign
   extension, or the boolean. *)
From Coq Require Import ZArith List Bool Lia ZifyBool.
From BP Require Import Bits Schema Spec PyRt ByteStep PyEncStep PyEncProofs PyDecStep.
From BPGen Require Import GenPy.
Import ListNotations.
Open Scope Z_scope.

Definition sext' (n u : Z) : Z := if u <? 2 ^ (n - 1) then u else u - 2 ^ n.

Lemma sext'_mod n z : 1 <= n -> - 2 ^ (n - 1) <= z < 2 ^ (n - 1) -> sext' n (z mod 2 ^ n) = z.
Proof.
  intros Hn Hz. unfold sext'.
  assert (Hp : 2 ^ n = 2 * 2 ^ (n - 1)).
  { replace n with (Z.succ (n - 1)) at 1 by lia. rewrite Z.pow_succ_r by lia. reflexivity. }
  assert (Hp1 : 0 < 2 ^ (n - 1)) by (apply pow2_pos; lia).
  destruct (Z.lt_ge_cases z 0) as [Hneg|Hpos].
  - assert (z mod 2 ^ n = z + 2 ^ n).
    { symmetry. apply Z.mod_unique with (q := -1); lia. }
    destruct (z mod 2 ^ n <? 2 ^ (n - 1)) eqn:E; lia.
  - rewrite Z.mod_small by lia. destruct (z <? 2 ^ (n - 1)) eqn:E; lia.
Qed.

Lemma cast_w_spec w x :
  w = 8 \/ w = 16 \/ w = 32 \/ w = 64 ->
  cast_w w x = if x <? 2 ^ (w - 1) then x else x - 2 ^ w.
Proof. intros [H|[H|[H|H]]]; subst w; reflexivity. Qed.

Lemma int_storage_bits_std n : 1 <= n <= 64 ->
  let w := int_storage_bits n in
  (w = 8 \/ w = 16 \/ w = 32 \/ w = 64) /\ n <= w /\ (is_std_width n = true -> w = n) /\
  (is_std_width n = false -> n < w).
Proof.
  intros Hn. unfold int_storage_bits, is_std_width.
  destruct (n <=? 8) eqn:E8; [|destruct (n <=? 16) eqn:E16; [|destruct (n <=? 32) eqn:E32]];
    cbn zeta; repeat split; try lia.
Qed.

Section Kinds.
  Variables (c : cls) (vs : list (Z * val)) (fn : Z) (stk : list nat) (a : val).
  Hypothesis Hl : lookup fn vs = Some a.
  Variable cur0 : val.
  Hypothesis Hidx : index_val a stk = Ok cur0.
  Variables (s : list Z) (i0 n : Z).
  Hypothesis Hs : bytes_ok s.
  Hypothesis Hi0 : 0 <= i0.
  Hypothesis Hn : 1 <= n.
  Hypothesis Hlen : i0 + n <= 8 * Z.of_nat (length s).

  Notation leaf := (at_leaf vs fn stk a).
  Let u := slice s i0 n.

  Lemma u_range : 0 <= u < 2 ^ n.
  Proof. apply slice_range. lia. Qed.

  Lemma chunk_of_u j cnt :
    0 <= j -> 0 <= cnt -> j + cnt <= n -> slice s (i0 + j) cnt = (u / 2 ^ j) mod 2 ^ cnt.
  Proof.
    intros Hj Hc Hle. unfold slice at 1.
    rewrite Z.pow_add_r, <- Z.div_div by (try apply pow2_pos; lia).
    symmetry. apply (mod_div_mod u n j cnt (bufZ s / 2 ^ i0)); try lia. reflexivity.
  Qed.

  Lemma unsigned_step j cnt :
    0 <= j -> 1 <= cnt -> j + cnt <= n ->
    Z.lor (u mod 2 ^ j) (slice s (i0 + j) cnt * 2 ^ j) = u mod 2 ^ (j + cnt).
  Proof.
    intros Hj Hc Hle. rewrite chunk_of_u by lia.
    rewrite lor_disjoint_low by (try lia; apply Z.mod_pos_bound, pow2_pos; lia).
    rewrite (Z.pow_add_r 2 j cnt), Z.rem_mul_r by (try apply Z.pow_nonzero; try apply pow2_pos; lia).
    ring.
  Qed.

  (* ---- SKInt (byte, uint, enum inside arrays) and SKProxy (enum fields) ---- *)
  Lemma dec_unsigned :
    (forall z lshift d,
        set_byte c (leaf (VZ z)) fn stk lshift d = Ok (leaf (VZ (Z.lor z (Z.shiftl d lshift))))) ->
    pbt_dec (fuel_of n) n c (leaf (VZ 0)) fn stk 0 {| cs := s; ci := i0 |} =
    Ok (leaf (VZ u), {| cs := s; ci := i0 + n |}).
  Proof.
    intros Hset.
    pose proof (pbt_dec_loop c vs fn stk a Z.lor Hset n i0 s (fun j => u mod 2 ^ j) unsigned_step
                             (fuel_of n) 0) as H.
    cbn beta in H. change (2 ^ 0) with 1 in H. rewrite Z.mod_1_r, Z.add_0_r in H.
    rewrite H; try assumption; try lia; [|unfold fuel_of; lia].
    rewrite (Z.mod_small u) by apply u_range. reflexivity.
  Qed.

  (* ---- SKCast w (signed fields) ---- *)
  Section Cast.
    Variable w : Z.
    Hypothesis Hw : w = 8 \/ w = 16 \/ w = 32 \/ w = 64.
    Hypothesis Hnw : n <= w.

    Definition Fc (j : Z) : Z :=
      if j <? n then u mod 2 ^ j else if n =? w then sext' w u else u.

    Lemma cast_step j cnt :
      0 <= j -> 1 <= cnt -> j + cnt <= n ->
      Z.lor (Fc j) (cast_w w (slice s (i0 + j) cnt * 2 ^ j)) = Fc (j + cnt).
    Proof.
      intros Hj Hc Hle. unfold Fc.
      replace (j <? n) with true by (symmetry; lia).
      pose proof u_range as Hu.
      pose proof (unsigned_step j cnt Hj Hc Hle) as Hun.
      rewrite chunk_of_u in * by lia.
      set (m := (u / 2 ^ j) mod 2 ^ cnt) in *.
      assert (Hm : 0 <= m < 2 ^ cnt) by (apply Z.mod_pos_bound, pow2_pos; lia).
      assert (Hpj : 0 < 2 ^ j) by (apply pow2_pos; lia).
      assert (Hlow : 0 <= u mod 2 ^ j < 2 ^ j) by (apply Z.mod_pos_bound; lia).
      assert (Hsum : u mod 2 ^ j + m * 2 ^ j = u mod 2 ^ (j + cnt)).
      { rewrite <- Hun. symmetry. apply lor_disjoint_low; lia. }
      assert (Hchunk : m * 2 ^ j < 2 ^ (j + cnt)).
      { rewrite Z.pow_add_r by lia. nia. }
      rewrite cast_w_spec by assumption.
      destruct (j + cnt <? n) eqn:Elt.
      - (* not the last chunk: below 2^(w-1), the caster is the identity *)
        assert (2 ^ (j + cnt) <= 2 ^ (w - 1)) by (apply Z.pow_le_mono_r; lia).
        replace (m * 2 ^ j <? 2 ^ (w - 1)) with true by (symmetry; lia).
        exact Hun.
      - assert (Hjn : j + cnt = n) by lia.
        rewrite Hjn in *. rewrite (Z.mod_small u (2 ^ n)) in Hsum by lia.
        destruct (n =? w) eqn:Enw.
        + assert (n = w) by lia. subst w. unfold sext'.
          assert (Hhalf : 2 ^ n = 2 * 2 ^ (n - 1)).
          { replace n with (Z.succ (n - 1)) at 1 by lia. rewrite Z.pow_succ_r by lia. reflexivity. }
          assert (Hjle : 2 ^ j <= 2 ^ (n - 1)) by (apply Z.pow_le_mono_r; lia).
          (* 2^(n-1) is a multiple of 2^j *)
          assert (Hmul : 2 ^ (n - 1) = 2 ^ (n - 1 - j) * 2 ^ j).
          { rewrite <- Z.pow_add_r by lia. f_equal. lia. }
          assert (Hq : 0 < 2 ^ (n - 1 - j)) by (apply pow2_pos; lia).
          destruct (u <? 2 ^ (n - 1)) eqn:Eu.
          * replace (m * 2 ^ j <? 2 ^ (n - 1)) with true by (symmetry; lia).
            rewrite lor_disjoint_low by lia. lia.
          * assert (Hbig : 2 ^ (n - 1) <= m * 2 ^ j).
            { (* u >= 2^(n-1) = q*2^j and u mod 2^j < 2^j, so m >= q *)
              assert (2 ^ (n - 1 - j) <= m) by nia. nia. }
            replace (m * 2 ^ j <? 2 ^ (n - 1)) with false by (symmetry; lia).
            replace (m * 2 ^ j - 2 ^ n) with ((m - 2 ^ (n - j)) * 2 ^ j).
            2:{ rewrite Z.mul_sub_distr_r, <- Z.pow_add_r by lia. do 2 f_equal. lia. }
            rewrite lor_disjoint_low by lia.
            rewrite Z.mul_sub_distr_r, <- Z.pow_add_r by lia.
            replace (n - j + j) with n by lia. lia.
        + assert (n < w) by lia.
          assert (2 ^ n <= 2 ^ (w - 1)) by (apply Z.pow_le_mono_r; lia).
          replace (m * 2 ^ j <? 2 ^ (w - 1)) with true by (symmetry; lia).
          rewrite lor_disjoint_low by lia. lia.
    Qed.

    Lemma dec_cast :
      (forall z lshift d,
          set_byte c (leaf (VZ z)) fn stk lshift d =
          Ok (leaf (VZ (Z.lor z (cast_w w (Z.shiftl d lshift)))))) ->
      pbt_dec (fuel_of n) n c (leaf (VZ 0)) fn stk 0 {| cs := s; ci := i0 |} =
      Ok (leaf (VZ (if n =? w then sext' w u else u)), {| cs := s; ci := i0 + n |}).
    Proof.
      intros Hset.
      pose proof (pbt_dec_loop c vs fn stk a (fun z ch => Z.lor z (cast_w w ch)) Hset n i0 s Fc cast_step
                               (fuel_of n) 0) as H.
      unfold Fc in H at 1. replace (0 <? n) with true in H by (symmetry; lia).
      change (2 ^ 0) with 1 in H. rewrite Z.mod_1_r, Z.add_0_r in H.
      rewrite H; try assumption; try lia; [|unfold fuel_of; lia].
      unfold Fc. rewrite Z.ltb_irrefl. reflexivity.
    Qed.
  End Cast.

  (* ---- bp_process_int on a leaf holding the unsigned field ---- *)
  Lemma process_int_sign d :
    lookup fn (c_proxy c) = None ->
    lookup fn (c_int c) = Some {| i_depth := length stk; i_shift := n - 1;
                                  i_mask := Z.lnot (Z.shiftl 1 n - 1) |} ->
    d = u ->
    process_int c (leaf (VZ d)) fn stk = Ok (leaf (VZ (sext' n u))).
  Proof.
    intros Hnp Hint ->. unfold process_int. rewrite Hint. cbn [i_depth i_shift i_mask].
    rewrite (read_ref_at c vs fn stk a Hl cur0 Hidx Hnp). cbn [bind int_of].
    pose proof u_range as Hu.
    assert (Hhalf : 2 ^ n = 2 * 2 ^ (n - 1)).
    { replace n with (Z.succ (n - 1)) at 1 by lia. rewrite Z.pow_succ_r by lia. reflexivity. }
    assert (Hp1 : 0 < 2 ^ (n - 1)) by (apply pow2_pos; lia).
    replace (Z.land (Z.shiftr u (n - 1)) 1) with ((u / 2 ^ (n - 1)) mod 2).
    2:{ assert (Hl1 : forall x, Z.land x 1 = x mod 2).
        { intros x. change 1 with (Z.ones 1). rewrite Z.land_ones by lia. reflexivity. }
        rewrite Hl1, Z.shiftr_div_pow2 by lia. reflexivity. }
    unfold sext'.
    destruct (u <? 2 ^ (n - 1)) eqn:E.
    - rewrite Z.div_small by lia. reflexivity.
    - assert (Hq : u / 2 ^ (n - 1) = 1).
      { symmetry. apply Z.div_unique with (r := u - 2 ^ (n - 1)); lia. }
      rewrite Hq. cbn [Z.eqb Z.modulo Z.div_eucl Z.pos_div_eucl]. change (1 mod 2 =? 0) with false.
      cbv iota.
      rewrite (write_ref_at c vs fn stk a Hl cur0 Hidx Hnp). do 3 f_equal.
      rewrite Z.shiftl_1_l.
      replace (Z.lnot (2 ^ n - 1)) with ((-1) * 2 ^ n).
      2:{ unfold Z.lnot. lia. }
      rewrite lor_disjoint_low by lia. lia.
  Qed.

  Lemma process_int_none d :
    lookup fn (c_int c) = None -> process_int c (leaf d) fn stk = Ok (leaf d).
  Proof. intros H. unfold process_int. now rewrite H. Qed.
End Kinds.

(* ---- bool: one chunk of one bit, assigned ---- *)
Lemma dec_bool c vs fn stk a cur0 s i0 :
  lookup fn vs = Some a -> index_val a stk = Ok cur0 ->
  lookup fn (c_proxy c) = None ->
  lookup fn (c_set c) = Some {| s_depth := length stk; s_kind := SKBool |} ->
  bytes_ok s -> 0 <= i0 -> i0 + 1 <= 8 * Z.of_nat (length s) ->
  pbt_dec (fuel_of 1) 1 c (VM vs) fn stk 0 {| cs := s; ci := i0 |} =
  Ok (at_leaf vs fn stk a (VB (negb (slice s i0 1 =? 0))), {| cs := s; ci := i0 + 1 |}).
Proof.
  intros Hl Hidx Hnp Hset Hs Hi0 Hlen.
  change (fuel_of 1) with 1%nat. cbn [pbt_dec]. change (0 <? 1) with true. cbv iota. cbn [cs ci].
  pose proof (nbits_to_copy_range i0 0 1 ltac:(lia)) as (Hc1 & Hc2 & Hc3 & Hc4).
  assert (Hcnt : get_nbits_to_copy i0 0 1 = 1) by lia. rewrite Hcnt.
  pose proof (Z.mod_pos_bound i0 8 ltac:(lia)) as Hmi.
  assert (Hq : 0 <= i0 / 8) by (apply Z.div_pos; lia).
  unfold dec_single_byte. cbn [cs ci]. unfold dec_index.
  assert (Hk : (Z.to_nat (i0 / 8) < length s)%nat).
  { assert (i0 / 8 < Z.of_nat (length s)) by (apply Z.div_lt_upper_bound; lia). lia. }
  destruct (nth_error s (Z.to_nat (i0 / 8))) as [b|] eqn:Hnth.
  2:{ apply nth_error_None in Hnth. lia. }
  assert (Hb : b = nth (Z.to_nat (i0 / 8)) s 0) by (symmetry; now apply nth_error_nth).
  assert (Hbr : 0 <= b < 256) by (rewrite Hb; apply nth_bytes_ok; assumption).
  unfold set_byte. rewrite Hset. cbn [s_kind s_depth].
  rewrite <- (at_leaf_id vs fn stk a Hl cur0 Hidx).
  rewrite (write_ref_at c vs fn stk a Hl cur0 Hidx Hnp). cbn [bind].
  change (0 + 1 <? 1) with false. cbv iota.
  assert (Hd : dec_d b i0 0 1 = slice s i0 1).
  { rewrite dec_d_mod. change (0 mod 8) with 0. rewrite dec_d_small by lia. change (2 ^ 0) with 1.
    rewrite Z.mul_1_r, Hb. apply cursor_slice; try assumption; lia. }
  rewrite Hd. reflexivity.
Qed.
