(* Re.v — regular expressions over bytes: abstract syntax (the fragment of Python's `re`
   that bitproto's token rules use, as produced by `re._parser.parse`), the usual
   denotational semantics [matches], and an executable matcher by Brzozowski derivatives
   proved equivalent to it.  Used by C09 (Total.v): the token languages are GENERATED from
   the docstrings of lexer.py (coq/gen/GenC09.v), never retyped. *)
From Coq Require Import List Ascii Bool Arith Lia.
Import ListNotations.

(* character classes: items of a [...] set *)
Inductive citem : Type :=
| CLit (c : nat)
| CRange (lo hi : nat).

Inductive re : Type :=
| RNull                                  (* matches nothing *)
| REps                                   (* matches the empty string *)
| RChar (c : nat)                        (* LITERAL c *)
| RNotChar (c : nat)                     (* NOT_LITERAL c *)
| RAny                                   (* `.` without DOTALL: anything but "\n" (10) *)
| RIn (neg : bool) (items : list citem)  (* [...] / [^...] *)
| RSeq (a b : re)
| RAlt (a b : re)
| RStar (a : re).

Definition RPlus (a : re) : re := RSeq a (RStar a).

Definition citem_has (n : nat) (i : citem) : bool :=
  match i with
  | CLit c => Nat.eqb n c
  | CRange lo hi => Nat.leb lo n && Nat.leb n hi
  end.

Definition in_class (neg : bool) (items : list citem) (n : nat) : bool :=
  xorb neg (existsb (citem_has n) items).

(* single-character test of the atomic forms *)
Definition atom_ok (r : re) (c : ascii) : bool :=
  let n := nat_of_ascii c in
  match r with
  | RChar k => Nat.eqb n k
  | RNotChar k => negb (Nat.eqb n k)
  | RAny => negb (Nat.eqb n 10)
  | RIn neg items => in_class neg items n
  | _ => false
  end.

Definition is_atom (r : re) : bool :=
  match r with RChar _ | RNotChar _ | RAny | RIn _ _ => true | _ => false end.

Inductive matches : re -> list ascii -> Prop :=
| MEps : matches REps []
| MAtom r c : is_atom r = true -> atom_ok r c = true -> matches r [c]
| MSeq a b s1 s2 : matches a s1 -> matches b s2 -> matches (RSeq a b) (s1 ++ s2)
| MAltL a b s : matches a s -> matches (RAlt a b) s
| MAltR a b s : matches b s -> matches (RAlt a b) s
| MStar0 a : matches (RStar a) []
| MStarS a s1 s2 : matches a s1 -> matches (RStar a) s2 -> matches (RStar a) (s1 ++ s2).

(* ---------- derivative matcher ---------- *)

Fixpoint nullable (r : re) : bool :=
  match r with
  | REps => true
  | RStar _ => true
  | RSeq a b => nullable a && nullable b
  | RAlt a b => nullable a || nullable b
  | _ => false
  end.

Definition mk_seq (a b : re) : re :=
  match a, b with
  | RNull, _ => RNull
  | _, RNull => RNull
  | REps, _ => b
  | _, _ => RSeq a b
  end.

Definition mk_alt (a b : re) : re :=
  match a, b with
  | RNull, _ => b
  | _, RNull => a
  | _, _ => RAlt a b
  end.

Fixpoint deriv (c : ascii) (r : re) : re :=
  match r with
  | RNull | REps => RNull
  | RChar _ | RNotChar _ | RAny | RIn _ _ => if atom_ok r c then REps else RNull
  | RSeq a b =>
      if nullable a then mk_alt (mk_seq (deriv c a) b) (deriv c b)
      else mk_seq (deriv c a) b
  | RAlt a b => mk_alt (deriv c a) (deriv c b)
  | RStar a => mk_seq (deriv c a) (RStar a)
  end.

Fixpoint derivs (s : list ascii) (r : re) : re :=
  match s with
  | [] => r
  | c :: s' => derivs s' (deriv c r)
  end.

Definition re_matchb (r : re) (s : list ascii) : bool := nullable (derivs s r).


(* ---------- inversion helpers ---------- *)

Lemma matches_null_inv s : ~ matches RNull s.
Proof. intro H. inversion H; subst. discriminate. Qed.

Lemma matches_eps_inv s : matches REps s -> s = [].
Proof. intro H. inversion H; subst; [reflexivity|discriminate]. Qed.

Lemma matches_seq_inv a b s :
  matches (RSeq a b) s -> exists s1 s2, s = s1 ++ s2 /\ matches a s1 /\ matches b s2.
Proof.
  intro H. inversion H; subst; try discriminate. eexists _, _. eauto.
Qed.

Lemma matches_alt_inv a b s : matches (RAlt a b) s -> matches a s \/ matches b s.
Proof. intro H. inversion H; subst; try discriminate; [left|right]; assumption. Qed.

Lemma matches_atom_inv r s :
  is_atom r = true -> matches r s -> exists c, s = [c] /\ atom_ok r c = true.
Proof.
  intros Hat H. inversion H; subst; try discriminate. eexists; split; [reflexivity|assumption].
Qed.

Lemma matches_atom_nil r : is_atom r = true -> ~ matches r [].
Proof. intros Hat H. apply matches_atom_inv in H; [|assumption]. destruct H as (c & E & _). discriminate. Qed.

(* ---------- correctness ---------- *)

Lemma nullable_spec r : nullable r = true <-> matches r [].
Proof.
  induction r as [| | k | k | | ng it | a IHa b IHb | a IHa b IHb | a IHa]; cbn [nullable].
  - split; [discriminate|]. intro H. exfalso. eapply matches_null_inv; eauto.
  - split; [constructor|reflexivity].
  - split; [discriminate|]. intro H. exfalso. revert H. apply matches_atom_nil. reflexivity.
  - split; [discriminate|]. intro H. exfalso. revert H. apply matches_atom_nil. reflexivity.
  - split; [discriminate|]. intro H. exfalso. revert H. apply matches_atom_nil. reflexivity.
  - split; [discriminate|]. intro H. exfalso. revert H. apply matches_atom_nil. reflexivity.
  - rewrite andb_true_iff, IHa, IHb. split.
    + intros [H1 H2]. change (@nil ascii) with (@nil ascii ++ []). constructor; assumption.
    + intro H. apply matches_seq_inv in H. destruct H as (s1 & s2 & E & H1 & H2).
      symmetry in E. apply app_eq_nil in E. destruct E; subst. split; assumption.
  - rewrite orb_true_iff, IHa, IHb. split.
    + intros [H|H]; [apply MAltL|apply MAltR]; assumption.
    + apply matches_alt_inv.
  - split; [constructor|reflexivity].
Qed.

Lemma seq_null_l b s : ~ matches (RSeq RNull b) s.
Proof.
  intro H. apply matches_seq_inv in H. destruct H as (s1 & s2 & _ & H1 & _).
  eapply matches_null_inv; eauto.
Qed.

Lemma seq_null_r a s : ~ matches (RSeq a RNull) s.
Proof.
  intro H. apply matches_seq_inv in H. destruct H as (s1 & s2 & _ & _ & H2).
  eapply matches_null_inv; eauto.
Qed.

Lemma seq_eps_l b s : matches (RSeq REps b) s <-> matches b s.
Proof.
  split; intro H.
  - apply matches_seq_inv in H. destruct H as (s1 & s2 & E & H1 & H2).
    apply matches_eps_inv in H1. subst. assumption.
  - change s with ([] ++ s). constructor; [constructor|assumption].
Qed.

Lemma mk_seq_spec a b s : matches (mk_seq a b) s <-> matches (RSeq a b) s.
Proof.
  unfold mk_seq.
  destruct a; destruct b; try reflexivity;
    try (split; intro H; exfalso;
         solve [ eapply matches_null_inv; eassumption
               | eapply seq_null_l; eassumption
               | eapply seq_null_r; eassumption ]);
    try (symmetry; apply seq_eps_l).
Qed.

Lemma alt_null_l b s : matches (RAlt RNull b) s <-> matches b s.
Proof.
  split; intro H; [|apply MAltR; assumption].
  apply matches_alt_inv in H. destruct H as [H|H]; [|assumption].
  exfalso. eapply matches_null_inv; eauto.
Qed.

Lemma alt_null_r a s : matches (RAlt a RNull) s <-> matches a s.
Proof.
  split; intro H; [|apply MAltL; assumption].
  apply matches_alt_inv in H. destruct H as [H|H]; [assumption|].
  exfalso. eapply matches_null_inv; eauto.
Qed.

Lemma mk_alt_spec a b s : matches (mk_alt a b) s <-> matches (RAlt a b) s.
Proof.
  unfold mk_alt.
  destruct a; destruct b; try reflexivity;
    try (symmetry; apply alt_null_l); try (symmetry; apply alt_null_r).
Qed.

Lemma star_cons_inv a c s :
  matches (RStar a) (c :: s) ->
  exists s1 s2, s = s1 ++ s2 /\ matches a (c :: s1) /\ matches (RStar a) s2.
Proof.
  intro H. remember (RStar a) as r eqn:Er. remember (c :: s) as t eqn:Et.
  revert c s Et.
  induction H as [| r0 c0 Hat Hok | | | | a0 | a0 s1 s2 H1 _ H2 IH2]; intros c' s' Et;
    try discriminate.
  - subst. discriminate.
  - inversion Er; subst a0. destruct s1 as [|x s1'].
    + cbn in Et. apply IH2; [reflexivity | assumption].
    + cbn in Et. inversion Et; subst. exists s1', s2. auto.
Qed.

Lemma atom_deriv r c s :
  is_atom r = true ->
  (matches (if atom_ok r c then REps else RNull) s <-> matches r (c :: s)).
Proof.
  intro Hat. split.
  - destruct (atom_ok r c) eqn:E; intro H.
    + apply matches_eps_inv in H. subst. constructor; assumption.
    + exfalso. eapply matches_null_inv; eauto.
  - intro H. apply matches_atom_inv in H; [|assumption]. destruct H as (c0 & E & Hok).
    inversion E; subst. rewrite Hok. constructor.
Qed.

Lemma deriv_spec r : forall c s, matches (deriv c r) s <-> matches r (c :: s).
Proof.
  induction r as [| | k | k | | ng it | a IHa b IHb | a IHa b IHb | a IHa]; intros c s.
  - cbn [deriv]. split; intro H; exfalso; eapply matches_null_inv; eauto.
  - cbn [deriv]. split; intro H; [exfalso; eapply matches_null_inv; eauto|].
    apply matches_eps_inv in H. discriminate.
  - apply (atom_deriv (RChar k)); reflexivity.
  - apply (atom_deriv (RNotChar k)); reflexivity.
  - apply (atom_deriv RAny); reflexivity.
  - apply (atom_deriv (RIn ng it)); reflexivity.
  - cbn [deriv]. destruct (nullable a) eqn:Na.
    + rewrite mk_alt_spec. split.
      * intro H. apply matches_alt_inv in H. destruct H as [H|H].
        -- apply mk_seq_spec in H. apply matches_seq_inv in H.
           destruct H as (s1 & s2 & E & H1 & H2). subst s.
           apply IHa in H1. change (c :: s1 ++ s2) with ((c :: s1) ++ s2). constructor; assumption.
        -- apply IHb in H.
           change (c :: s) with ([] ++ c :: s). constructor; [apply nullable_spec; assumption|assumption].
      * intro H. apply matches_seq_inv in H. destruct H as (s1 & s2 & E & H1 & H2).
        destruct s1 as [|x s1'].
        -- cbn in E. subst s2. apply MAltR. apply IHb. assumption.
        -- cbn in E. inversion E; subst. apply MAltL. apply mk_seq_spec. constructor; [|assumption].
           apply IHa. assumption.
    + rewrite mk_seq_spec. split.
      * intro H. apply matches_seq_inv in H. destruct H as (s1 & s2 & E & H1 & H2). subst s.
        apply IHa in H1. change (c :: s1 ++ s2) with ((c :: s1) ++ s2). constructor; assumption.
      * intro H. apply matches_seq_inv in H. destruct H as (s1 & s2 & E & H1 & H2).
        destruct s1 as [|x s1'].
        -- apply nullable_spec in H1. congruence.
        -- cbn in E. inversion E; subst. constructor; [|assumption]. apply IHa. assumption.
  - cbn [deriv]. rewrite mk_alt_spec. split; intro H; apply matches_alt_inv in H;
      (destruct H as [H|H]; [apply MAltL; apply IHa | apply MAltR; apply IHb]; assumption).
  - cbn [deriv]. rewrite mk_seq_spec. split.
    + intro H. apply matches_seq_inv in H. destruct H as (s1 & s2 & E & H1 & H2). subst s.
      apply IHa in H1. change (c :: s1 ++ s2) with ((c :: s1) ++ s2). constructor; assumption.
    + intro H. apply star_cons_inv in H. destruct H as (s1 & s2 & E & H1 & H2). subst s.
      constructor; [apply IHa|]; assumption.
Qed.

Theorem re_matchb_spec r s : re_matchb r s = true <-> matches r s.
Proof.
  unfold re_matchb. revert r. induction s as [|c s IH]; intro r; cbn [derivs].
  - apply nullable_spec.
  - rewrite IH. apply deriv_spec.
Qed.

(* star induction: a star match is a concatenation of matches of the body *)
Lemma matches_star_ind (a : re) (P : list ascii -> Prop) :
  P [] ->
  (forall s1 s2, matches a s1 -> matches (RStar a) s2 -> P s2 -> P (s1 ++ s2)) ->
  forall s, matches (RStar a) s -> P s.
Proof.
  intros H0 HS s H. remember (RStar a) as r eqn:Er.
  induction H as [| r0 c0 Hat Hok | | | | a0 | a0 s1 s2 H1 _ H2 IH2]; try discriminate.
  - subst. discriminate.
  - assumption.
  - inversion Er; subst a0. apply HS; auto.
Qed.
