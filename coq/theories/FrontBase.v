(* FrontBase.v — the few types the generated file gen/GenFront.v (T0 translation of
   _ast.py / options.py) shares with the hand-written front-end model Front.v. *)
From Coq Require Import ZArith List Bool String.
Import ListNotations.
Open Scope Z_scope.

(* a constant / option value: Python bool, int or str *)
Inductive cval : Type :=
| CVBool (b : bool)
| CVInt (z : Z)
| CVStr (s : string).

(* the Option subclass a value is wrapped in (Option.reflect_subclass_by_value) *)
Inductive vclass : Type := VCBool | VCInt | VCStr.

Definition class_of (v : cval) : vclass :=
  match v with CVBool _ => VCBool | CVInt _ => VCInt | CVStr _ => VCStr end.

Definition vclass_eqb (a b : vclass) : bool :=
  match a, b with
  | VCBool, VCBool | VCInt, VCInt | VCStr, VCStr => true
  | _, _ => false
  end.

(* options.OptionDescriptor: name, default (its class is the option's type), validator
   (only integer options carry one in options.py; the translator fails closed otherwise) *)
Record odesc : Type := mkodesc {
  od_name : string;
  od_default : cval;
  od_validator : option (Z -> bool)
}.

Fixpoint find_odesc (n : string) (l : list odesc) : option odesc :=
  match l with
  | [] => None
  | d :: r => if String.eqb (od_name d) n then Some d else find_odesc n r
  end.
