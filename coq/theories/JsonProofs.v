(* JsonProofs.v — lemmas behind props/C16.v. *)
From Coq Require Import ZArith List Bool String Ascii Lia.
From BP Require Import Schema JsonBase Json.
From BPGen Require Import GenJson.
Import ListNotations.
Open Scope string_scope.
Open Scope Z_scope.

(* ------------------------------------------------------------------------------------ *)
(* induction principles for the nested types                                            *)
(* ------------------------------------------------------------------------------------ *)

Section nty_ind'.
  Variable P : nty -> Prop.
  Hypothesis HBool : P NBool.
  Hypothesis HByte : P NByte.
  Hypothesis HUint : forall n, P (NUint n).
  Hypothesis HInt : forall n, P (NInt n).
  Hypothesis HEnum : forall n ms, P (NEnum n ms).
  Hypothesis HAlias : forall t, P t -> P (NAlias t).
  Hypothesis HArr : forall x c e, P e -> P (NArr x c e).
  Hypothesis HMsg : forall x fs, Forall (fun f => P (ftype f)) fs -> P (NMsg x fs).

  Fixpoint nty_ind' (t : nty) : P t :=
    match t with
    | NBool => HBool
    | NByte => HByte
    | NUint n => HUint n
    | NInt n => HInt n
    | NEnum n ms => HEnum n ms
    | NAlias t => HAlias t (nty_ind' t)
    | NArr x c e => HArr x c e (nty_ind' e)
    | NMsg x fs =>
        HMsg x fs
          ((fix go (l : list (Z * (string * nty))) : Forall (fun f => P (ftype f)) l :=
              match l with
              | [] => Forall_nil _
              | f :: r => Forall_cons f (nty_ind' (ftype f)) (go r)
              end) fs)
    end.
End nty_ind'.

Section jtree_ind'.
  Variable P : jtree -> Prop.
  Hypothesis HNum : forall z, P (JNum z).
  Hypothesis HB : forall b, P (JBool b).
  Hypothesis HList : forall l, Forall P l -> P (JList l).
  Hypothesis HObj : forall fs, Forall (fun kv => P (snd kv)) fs -> P (JObj fs).

  Fixpoint jtree_ind' (j : jtree) : P j :=
    match j with
    | JNum z => HNum z
    | JBool b => HB b
    | JList l =>
        HList l ((fix go (l : list jtree) : Forall P l :=
                    match l with
                    | [] => Forall_nil _
                    | x :: r => Forall_cons x (jtree_ind' x) (go r)
                    end) l)
    | JObj fs =>
        HObj fs ((fix go (l : list (string * jtree)) : Forall (fun kv => P (snd kv)) l :=
                    match l with
                    | [] => Forall_nil _
                    | x :: r => Forall_cons x (jtree_ind' (snd x)) (go r)
                    end) fs)
    end.
End jtree_ind'.

(* ------------------------------------------------------------------------------------ *)
(* strings                                                                              *)
(* ------------------------------------------------------------------------------------ *)

Lemma app_nil_r_s : forall s : string, s ++ "" = s.
Proof. induction s as [|c s IH]; cbn; [reflexivity | now rewrite IH]. Qed.

Lemma app_assoc_s : forall a b c : string, (a ++ b) ++ c = a ++ (b ++ c).
Proof. induction a as [|x a IH]; intros; cbn; [reflexivity | now rewrite IH]. Qed.

Lemma prefix_app : forall p s, String.prefix p (p ++ s) = true.
Proof.
  induction p as [|c p IH]; intros s; cbn.
  - destruct s; reflexivity.
  - destruct (Ascii.ascii_dec c c) as [_|n]; [apply IH | now elim n].
Qed.

(* ------------------------------------------------------------------------------------ *)
(* sorting by field number commutes with mapping the payload                            *)
(* ------------------------------------------------------------------------------------ *)

Definition on_snd {A B} (g : A -> B) (kx : Z * A) : Z * B := (fst kx, g (snd kx)).

Lemma insert_field_map : forall A B (g : A -> B) (kx : Z * A) l,
  insert_field (on_snd g kx) (map (on_snd g) l) = map (on_snd g) (insert_field kx l).
Proof.
  intros A B g kx l. induction l as [|h r IH]; [reflexivity|].
  cbn [map insert_field on_snd fst]. destruct (fst kx <? fst h); [reflexivity|].
  cbn [map]. f_equal. exact IH.
Qed.

Lemma sort_fields_map : forall A B (g : A -> B) (l : list (Z * A)),
  sort_fields (map (on_snd g) l) = map (on_snd g) (sort_fields l).
Proof.
  intros A B g l. induction l as [|h r IH]; [reflexivity|].
  cbn [map sort_fields]. rewrite IH. apply insert_field_map.
Qed.

Lemma sorted_payload : forall F A B (k : F -> Z) (a : F -> A) (g : A -> B) (fs : list F),
  map snd (sort_fields (map (fun f => (k f, g (a f))) fs)) =
  map g (map snd (sort_fields (map (fun f => (k f, a f)) fs))).
Proof.
  intros F A B k a g fs.
  replace (map (fun f => (k f, g (a f))) fs) with (map (on_snd g) (map (fun f => (k f, a f)) fs)).
  2:{ rewrite map_map. reflexivity. }
  rewrite sort_fields_map, !map_map. reflexivity.
Qed.

(* elements of the sorted list are elements of the list *)
Lemma insert_field_in : forall A (kx y : Z * A) l, In y (insert_field kx l) -> y = kx \/ In y l.
Proof.
  intros A kx y l. induction l as [|h r IH]; cbn [insert_field].
  - intros [H|[]]; auto.
  - destruct (fst kx <? fst h).
    + intros [H|H]; [auto | right; exact H].
    + intros [H|H]; [right; left; exact H|]. destruct (IH H) as [E|E]; [auto | right; right; exact E].
Qed.

Lemma sort_fields_in : forall A (y : Z * A) l, In y (sort_fields l) -> In y l.
Proof.
  intros A y l. induction l as [|h r IH]; cbn [sort_fields]; [auto|].
  intros H. destruct (insert_field_in _ _ _ _ H) as [E|E]; [left; auto | right; auto].
Qed.

(* ------------------------------------------------------------------------------------ *)
(* join_opt / take_exact / seq_res                                                      *)
(* ------------------------------------------------------------------------------------ *)

Lemma join_opt_some : forall sep (l : list string), join_opt sep (map Some l) = Some (join sep l).
Proof.
  intros sep l. induction l as [|x r IH]; [reflexivity|].
  cbn [map join_opt join]. destruct r as [|y r']; [reflexivity|].
  cbn [map] in *. rewrite IH. reflexivity.
Qed.

Lemma take_exact_all : forall A (l : list A), take_exact (List.length l) l = Some l.
Proof. induction l as [|x r IH]; cbn; [reflexivity | now rewrite IH]. Qed.

Lemma seq_res_ok : forall A (l : list A), seq_res (map POk l) = POk l.
Proof. induction l as [|x r IH]; cbn; [reflexivity | now rewrite IH]. Qed.

(* ------------------------------------------------------------------------------------ *)
(* bytes                                                                                *)
(* ------------------------------------------------------------------------------------ *)

Lemma le_bytes_length : forall k x, List.length (le_bytes k x) = k.
Proof. induction k as [|k IH]; intros x; cbn; [reflexivity | now rewrite IH]. Qed.

Lemma load_le_bytes : forall k x, load_le (le_bytes k x) = x mod 256 ^ Z.of_nat k.
Proof.
  induction k as [|k IH]; intros x.
  - cbn. now rewrite Z.mod_1_r.
  - cbn [le_bytes load_le]. rewrite IH, Nat2Z.inj_succ, Z.pow_succ_r by lia.
    rewrite Z.rem_mul_r by (try lia; apply Z.pow_pos_nonneg; lia). reflexivity.
Qed.

Lemma firstn_le_bytes : forall k x, firstn k (le_bytes k x) = le_bytes k x.
Proof.
  intros k x. rewrite <- (le_bytes_length k x) at 1. apply firstn_all.
Qed.

Definition reinterp (sg : bool) (sz u : Z) : Z :=
  if sg && (2 ^ (8 * sz - 1) <=? u) then u - 2 ^ (8 * sz) else u.

Lemma load_store : forall cty cast sz g1 sg z,
  ctype_info cty = Some (sz, g1) -> ctype_info cast = Some (sz, sg) -> 1 <= sz ->
  c_load cast (store_scalar cty z) =
  Some (AInt (Z.max 32 (8 * sz)) (reinterp sg sz (z mod 2 ^ (8 * sz)))).
Proof.
  intros cty cast sz g1 sg z H1 H2 Hsz. unfold store_scalar, c_load. rewrite H1, H2.
  rewrite le_bytes_length, Z2Nat.id by lia. rewrite Z.leb_refl.
  rewrite firstn_le_bytes, load_le_bytes, Z2Nat.id by lia.
  replace (256 ^ sz) with (2 ^ (8 * sz)) by (change 256 with (2 ^ 8); rewrite <- Z.pow_mul_r by lia; reflexivity).
  rewrite Z.mod_mod by (apply Z.pow_nonzero; lia). reflexivity.
Qed.

Lemma unsigned_fits : forall w z, 0 <= z < 2 ^ w -> z mod 2 ^ w = z.
Proof. intros. apply Z.mod_small. assumption. Qed.

(* two's complement: reading back a stored in-range signed value *)
Lemma signed_roundtrip : forall w z, 1 <= w -> - 2 ^ (w - 1) <= z < 2 ^ (w - 1) ->
  (let u := z mod 2 ^ w in if 2 ^ (w - 1) <=? u then u - 2 ^ w else u) = z.
Proof.
  intros w z Hw Hz. cbv zeta.
  assert (E : 2 ^ w = 2 * 2 ^ (w - 1)).
  { replace w with (Z.succ (w - 1)) at 1 by lia. rewrite Z.pow_succ_r by lia. reflexivity. }
  remember (2 ^ (w - 1)) as M eqn:HM. assert (0 < M) by (subst M; apply Z.pow_pos_nonneg; lia).
  rewrite E. destruct (Z.ltb_spec z 0) as [Hn|Hp].
  - replace (z mod (2 * M)) with (z + 2 * M).
    2:{ symmetry. rewrite <- (Z_mod_plus_full z 1 (2 * M)).
        replace (z + 1 * (2 * M)) with (z + 2 * M) by lia. apply Z.mod_small. lia. }
    destruct (Z.leb_spec M (z + 2 * M)); lia.
  - rewrite Z.mod_small by lia. destruct (Z.leb_spec M z); lia.
Qed.

(* ------------------------------------------------------------------------------------ *)
(* vsprintf on the five integer formats that occur                                      *)
(* ------------------------------------------------------------------------------------ *)

Definition conv_num (wc : Z) (sg : bool) (wa z : Z) : Z :=
  let raw := if wc <=? wa then z mod 2 ^ wc else z mod 2 ^ wa in
  if sg && (2 ^ (wc - 1) <=? raw) then raw - 2 ^ wc else raw.

Lemma printf_int : forall fmt wc sg,
  In (fmt, (wc, sg)) [("%d", (32, true)); ("%u", (32, false)); ("%ld", (64, true)); ("%lu", (64, false));
                      ("%llu", (64, false)); ("%lld", (64, true))] ->
  forall wa z, c_printf fmt [AInt wa z] = Some (dec_Z (conv_num wc sg wa z)).
Proof.
  intros fmt wc sg H wa z. rewrite <- (app_nil_r_s (dec_Z _)).
  cbn [In] in H.
  repeat (destruct H as [H|H]; [injection H as <- <- <-; reflexivity|]). destruct H.
Qed.

(* an unsigned in-range value printed by a conversion at least as wide as needed *)
Lemma conv_num_unsigned : forall wc wa z w,
  0 <= z < 2 ^ w -> 0 <= w -> w <= wa -> w <= wc -> conv_num wc false wa z = z.
Proof.
  intros wc wa z w Hz Hw Ha Hc. unfold conv_num. cbn [andb].
  assert (2 ^ w <= 2 ^ wa) by (apply Z.pow_le_mono_r; lia).
  assert (2 ^ w <= 2 ^ wc) by (apply Z.pow_le_mono_r; lia).
  destruct (wc <=? wa); apply Z.mod_small; lia.
Qed.

(* a signed in-range value: argument and conversion of the same width *)
Lemma conv_num_signed : forall wc z w,
  - 2 ^ (w - 1) <= z < 2 ^ (w - 1) -> 1 <= w -> w <= wc -> conv_num wc true wc z = z.
Proof.
  intros wc z w Hz Hw Hc. unfold conv_num. rewrite Z.leb_refl. cbn [andb].
  assert (2 ^ (w - 1) <= 2 ^ (wc - 1)) by (apply Z.pow_le_mono_r; lia).
  apply (signed_roundtrip wc z); lia.
Qed.

Definition fmt_class (fmt : string) : option (Z * bool) :=
  if (fmt =? "%d")%string then Some (32, true)
  else if (fmt =? "%u")%string then Some (32, false)
  else if (fmt =? "%ld")%string then Some (64, true)
  else if (fmt =? "%lu")%string then Some (64, false)
  else if (fmt =? "%llu")%string then Some (64, false)
  else if (fmt =? "%lld")%string then Some (64, true)
  else None.

Lemma fmt_class_printf : forall fmt wc sg, fmt_class fmt = Some (wc, sg) ->
  forall wa z, c_printf fmt [AInt wa z] = Some (dec_Z (conv_num wc sg wa z)).
Proof.
  intros fmt wc sg H. apply printf_int. unfold fmt_class in H. cbn [In].
  repeat match type of H with
         | (if (?a =? ?b)%string then _ else _) = _ =>
             destruct (String.eqb_spec a b) as [->|_]; [injection H as <- <-; tauto|]
         end.
  discriminate.
Qed.

(* ------------------------------------------------------------------------------------ *)
(* one conversion group of BpJsonFormatBaseType against the storage type the renderer   *)
(* chose: a boolean condition on the TRANSLATED tables, then swept over the widths       *)
(* ------------------------------------------------------------------------------------ *)

Definition conv_ok (g : option bgroup) (n : Z) (cty : string) (sg : bool) : bool :=
  match g with
  | Some (GConv c) =>
      let fc := conv_eval c n in
      match ctype_info cty, ctype_info (snd fc), fmt_class (fst fc) with
      | Some (s1, _), Some (s2, g2), Some (wc, gf) =>
          (s1 =? s2) && (1 <=? s1) && (n <=? 8 * s1) && Bool.eqb g2 sg && Bool.eqb gf sg &&
          (8 * s1 <=? wc) && (if sg then wc =? Z.max 32 (8 * s1) else true)
      | _, _, _ => false
      end
  | _ => false
  end.

Definition in_range (sg : bool) (n z : Z) : Prop :=
  if sg then - 2 ^ (n - 1) <= z < 2 ^ (n - 1) else 0 <= z < 2 ^ n.

Lemma base_text_conv : forall flag n cty sg z,
  conv_ok (find_group flag base_groups) n cty sg = true -> 1 <= n -> in_range sg n z ->
  base_text flag n (store_scalar cty z) = Some (dec_Z z).
Proof.
  intros flag n cty sg z Hok Hn Hz. unfold base_text.
  destruct (find_group flag base_groups) as [[f c t e|c]|]; cbn [conv_ok] in Hok; try discriminate.
  cbv zeta in Hok |- *.
  destruct (ctype_info cty) as [[s1 g1]|] eqn:E1; [|discriminate].
  destruct (ctype_info (snd (conv_eval c n))) as [[s2 g2]|] eqn:E2; [|discriminate].
  destruct (fmt_class (fst (conv_eval c n))) as [[wc gf]|] eqn:E3; [|discriminate].
  repeat (apply andb_prop in Hok; destruct Hok as [Hok ?]).
  assert (s2 = s1) by lia. subst s2.
  assert (g2 = sg) by (now apply Bool.eqb_prop). subst g2.
  assert (gf = sg) by (now apply Bool.eqb_prop). subst gf.
  rewrite (load_store cty _ s1 g1 sg z E1 E2) by lia.
  rewrite (fmt_class_printf _ _ _ E3). do 2 f_equal.
  assert (Hp : 2 ^ n <= 2 ^ (8 * s1)) by (apply Z.pow_le_mono_r; lia).
  unfold in_range in Hz. destruct sg.
  - assert (Hq : 2 ^ (n - 1) <= 2 ^ (8 * s1 - 1)) by (apply Z.pow_le_mono_r; lia).
    assert (E : reinterp true s1 (z mod 2 ^ (8 * s1)) = z).
    { unfold reinterp. cbn [andb]. apply (signed_roundtrip (8 * s1) z); lia. }
    rewrite E. assert (wc = Z.max 32 (8 * s1)) by lia. subst wc.
    apply (conv_num_signed _ z n); lia.
  - unfold reinterp. cbn [andb]. rewrite Z.mod_small by lia.
    apply (conv_num_unsigned _ _ z n); lia.
Qed.

Definition zrange (lo : nat) (cnt : nat) : list Z := map Z.of_nat (seq lo cnt).

Lemma zrange_in : forall lo cnt n, Z.of_nat lo <= n < Z.of_nat (lo + cnt) -> In n (zrange lo cnt).
Proof.
  intros lo cnt n H. unfold zrange. apply in_map_iff. exists (Z.to_nat n). split; [lia|].
  apply in_seq. lia.
Qed.

Definition width_ok (n : Z) : bool :=
  conv_ok (find_group BP_TYPE_UINT base_groups) n (c_uint_type n) false &&
  conv_ok (find_group BP_TYPE_ENUM base_groups) n (c_uint_type n) false &&
  conv_ok (find_group BP_TYPE_INT base_groups) n (c_int_type n) true.

(* finite sweep: every width the compiler admits (1..64) *)
Lemma widths_ok : forallb width_ok (zrange 1 64) = true.
Proof. vm_compute. reflexivity. Qed.

Lemma width_ok_at : forall n, 1 <= n <= 64 -> width_ok n = true.
Proof.
  intros n H. apply (proj1 (forallb_forall width_ok (zrange 1 64)) widths_ok). apply zrange_in. lia.
Qed.

Lemma byte_ok : conv_ok (find_group BP_TYPE_BYTE base_groups) byte_desc_nbits c_byte_type false = true.
Proof. vm_compute. reflexivity. Qed.

Lemma byte_nbits : byte_desc_nbits = 8.
Proof. reflexivity. Qed.

Lemma bool_text : forall b,
  base_text BP_TYPE_BOOL bool_desc_nbits (store_scalar c_bool_type (Z.b2z b)) =
  Some (if b then "true" else "false").
Proof. destruct b; vm_compute; reflexivity. Qed.

(* ------------------------------------------------------------------------------------ *)
(* Schema.has_ty / Schema.wf on erased trees                                            *)
(* ------------------------------------------------------------------------------------ *)

Lemma has_ty_msg : forall x fs v, has_ty (erase (NMsg x fs)) v = true ->
  exists vs, v = VM vs /\
             Forall (fun f => has_ty (erase (ftype f)) (vfield (fnum f) v) = true) fs.
Proof.
  intros x fs v H. cbn [erase has_ty] in H. destruct v as [b|z|l|vs]; try discriminate.
  exists vs. split; [reflexivity|].
  induction fs as [|f r IH]; [constructor|].
  cbn [map fst snd] in H. apply andb_prop in H. destruct H as [H1 H2].
  constructor; [|exact (IH H2)].
  cbn [vfield]. destruct (lookup (fnum f) vs); [exact H1 | discriminate H1].
Qed.

Lemma has_ty_arr : forall x cap e v, has_ty (erase (NArr x cap e)) v = true ->
  exists l, v = VL l /\ List.length l = cap /\ Forall (fun a => has_ty (erase e) a = true) l.
Proof.
  intros x cap e v H. cbn [erase has_ty] in H. destruct v as [b|z|l|vs]; try discriminate.
  apply andb_prop in H. destruct H as [H1 H2]. exists l. split; [reflexivity|]. split.
  - now apply Nat.eqb_eq.
  - apply Forall_forall. now apply forallb_forall.
Qed.

Lemma wf_msg : forall x fs, wf (erase (NMsg x fs)) = true ->
  keys_distinct (map fnum fs) = true /\ Forall (fun f => wf (erase (ftype f)) = true) fs.
Proof.
  intros x fs H. cbn [erase wf] in H. apply andb_prop in H. destruct H as [H H3].
  apply andb_prop in H. destruct H as [H1 _]. split.
  - rewrite map_map in H1. exact H1.
  - clear H1. induction fs as [|f r IH]; [constructor|].
    cbn [map fst snd] in H3. apply andb_prop in H3. destruct H3 as [H3 H4].
    apply andb_prop in H3. destruct H3 as [_ H3]. constructor; [exact H3 | exact (IH H4)].
Qed.

Lemma lookup_keyed : forall A (g : Z * (string * nty) -> A) fs f,
  keys_distinct (map fnum fs) = true -> In f fs ->
  lookup (fnum f) (map (fun f => (fnum f, g f)) fs) = Some (g f).
Proof.
  intros A g fs f. induction fs as [|h r IH]; intros Hk Hin; [destruct Hin|].
  cbn [map keys_distinct] in Hk. apply andb_prop in Hk. destruct Hk as [Hh Hr].
  cbn [map lookup fst snd]. destruct Hin as [->|Hin].
  - now rewrite Z.eqb_refl.
  - destruct (Z.eqb_spec (fnum h) (fnum f)) as [E|_]; [|exact (IH Hr Hin)].
    exfalso. apply negb_true_iff in Hh.
    assert (X : existsb (Z.eqb (fnum h)) (map fnum r) = true).
    { apply existsb_exists. exists (fnum f). split; [now apply in_map | now apply Z.eqb_eq]. }
    congruence.
Qed.

Lemma enum_member_range : forall n ms z,
  forallb (fun m => (0 <=? m) && (m <? 2 ^ n)) ms = true -> existsb (Z.eqb z) ms = true ->
  0 <= z < 2 ^ n.
Proof.
  intros n ms z Hf He. apply existsb_exists in He. destruct He as [m [Hin Hm]].
  apply Z.eqb_eq in Hm. subst m. pose proof (proj1 (forallb_forall _ _) Hf z Hin) as H. cbv beta in H. lia.
Qed.

(* ------------------------------------------------------------------------------------ *)
(* the walk prints the specified text                                                   *)
(* ------------------------------------------------------------------------------------ *)

Definition site_allows (s : site) (t : nty) : bool :=
  match s with
  | SField => true
  | SAlias => alias_target_ok t
  | SArr => negb (is_arr t)
  | STop => match t with NMsg _ _ => true | _ => false end
  end.

Definition is_base (t : nty) : bool :=
  match t with NBool | NByte | NUint _ | NInt _ | NEnum _ _ => true | _ => false end.

(* these four read the translated case-label groups: they hold because every flag the
   compiler can put at a site is listed in the switch of that site *)
Lemma dispatch_base : forall s t o, is_base t = true -> site_allows s t = true ->
  c_dispatch s t o = base_text (flag_of t) (base_nbits t) o.
Proof. intros [] [] o Hb Ha; try discriminate Hb; try discriminate Ha; reflexivity. Qed.

Lemma dispatch_alias : forall s u o, site_allows s (NAlias u) = true ->
  c_dispatch s (NAlias u) o = c_dispatch SAlias u o.
Proof. intros [] u o Ha; try discriminate Ha; reflexivity. Qed.

Lemma dispatch_arr : forall s x cap e o, site_allows s (NArr x cap e) = true ->
  c_dispatch s (NArr x cap e) o =
  match o with
  | CArr l => match take_exact cap l with
              | Some els => wrap arr_open arr_close (join_opt arr_sep (map (c_dispatch SArr e) els))
              | None => None
              end
  | _ => None
  end.
Proof. intros [] x cap e o Ha; try discriminate Ha; reflexivity. Qed.

Lemma dispatch_msg : forall s x fs o, site_allows s (NMsg x fs) = true ->
  c_dispatch s (NMsg x fs) o =
  match o with
  | CStruct os =>
      wrap msg_open msg_close
        (join_opt msg_sep
           (map snd (sort_fields
              (map (fun f => (fnum f,
                              match lookup (fnum f) os with
                              | Some fo => field_piece (fname f) (c_dispatch SField (ftype f) fo)
                              | None => None
                              end)) fs))))
  | _ => None
  end.
Proof. intros [] x fs o Ha; try discriminate Ha; reflexivity. Qed.

Lemma key_text : forall name, c_printf key_fmt [AStr name] = Some (quote name ++ ":").
Proof.
  intros name. unfold quote. cbn. rewrite app_assoc_s. reflexivity.
Qed.

Definition piece_text (nj : string * jtree) : string :=
  quote (fst nj) ++ ":" ++ print_compact (snd nj).

Theorem dispatch_correct : forall t,
  shape_ok t = true -> wf (erase t) = true ->
  forall s v, site_allows s t = true -> has_ty (erase t) v = true ->
  c_dispatch s t (store t v) = Some (print_compact (expected t v)).
Proof.
  induction t as [| |n|n|n ms|u IH|x cap e IH|x fs IH] using nty_ind'; intros Hs Hw s v Ha Hv.
  - (* bool *)
    rewrite dispatch_base by auto. destruct v as [b| | |]; try discriminate Hv.
    cbn [store vbool flag_of base_nbits]. rewrite bool_text. destruct b; reflexivity.
  - (* byte *)
    rewrite dispatch_base by auto. destruct v as [|z| |]; try discriminate Hv.
    cbn [erase has_ty] in Hv. cbn [store zof flag_of base_nbits expected].
    apply (base_text_conv _ _ _ false); [exact byte_ok | rewrite byte_nbits; lia |].
    unfold in_range. rewrite byte_nbits. change (2 ^ 8) with 256. lia.
  - (* uint *)
    rewrite dispatch_base by auto. destruct v as [|z| |]; try discriminate Hv.
    cbn [erase has_ty wf] in Hv, Hw. cbn [store zof flag_of base_nbits expected].
    pose proof (width_ok_at n ltac:(lia)) as W. unfold width_ok in W.
    apply andb_prop in W. destruct W as [W _]. apply andb_prop in W. destruct W as [W _].
    apply (base_text_conv _ _ _ false); [exact W | lia | unfold in_range; lia].
  - (* int *)
    rewrite dispatch_base by auto. destruct v as [|z| |]; try discriminate Hv.
    cbn [erase has_ty wf] in Hv, Hw. cbn [store zof flag_of base_nbits expected].
    pose proof (width_ok_at n ltac:(lia)) as W. unfold width_ok in W.
    apply andb_prop in W. destruct W as [_ W].
    apply (base_text_conv _ _ _ true); [exact W | lia | unfold in_range; lia].
  - (* enum *)
    rewrite dispatch_base by auto. destruct v as [|z| |]; try discriminate Hv.
    cbn [erase has_ty wf] in Hv, Hw. cbn [store zof flag_of base_nbits expected].
    apply andb_prop in Hw. destruct Hw as [Hw Hm].
    pose proof (enum_member_range n ms z Hm Hv) as Hr.
    pose proof (width_ok_at n ltac:(lia)) as W. unfold width_ok in W.
    apply andb_prop in W. destruct W as [W _]. apply andb_prop in W. destruct W as [_ W].
    apply (base_text_conv _ _ _ false); [exact W | lia | unfold in_range; lia].
  - (* alias *)
    rewrite dispatch_alias by auto. cbn [shape_ok] in Hs. apply andb_prop in Hs. destruct Hs as [Hs1 Hs2].
    cbn [store expected]. apply IH; auto.
  - (* array *)
    rewrite dispatch_arr by auto. cbn [shape_ok] in Hs. apply andb_prop in Hs. destruct Hs as [Hs1 Hs2].
    destruct (has_ty_arr _ _ _ _ Hv) as [l [-> [Hlen Hall]]].
    cbn [store vlist expected]. subst cap.
    replace (List.length l) with (List.length (map (store e) l)) by apply map_length.
    rewrite take_exact_all, map_map.
    cbn [erase wf] in Hw. apply andb_prop in Hw. destruct Hw as [_ Hwe].
    rewrite (map_ext_in _ (fun a => Some (print_compact (expected e a)))).
    2:{ intros a Hin. apply IH; auto. exact (proj1 (Forall_forall _ _) Hall a Hin). }
    rewrite <- (map_map (fun a => print_compact (expected e a)) Some), join_opt_some.
    unfold wrap, print_compact. cbn [print_sep]. rewrite map_map. reflexivity.
  - (* message *)
    rewrite dispatch_msg by auto.
    destruct (has_ty_msg _ _ _ Hv) as [vs [-> Hall]].
    destruct (wf_msg _ _ Hw) as [Hk Hwf].
    cbn [shape_ok] in Hs. cbn [store expected].
    rewrite (map_ext_in _ (fun f => (fnum f, Some (piece_text (fname f, expected (ftype f) (vfield (fnum f) (VM vs))))))).
    2:{ intros f Hin.
        rewrite (lookup_keyed _ (fun f => store (ftype f) (vfield (fnum f) (VM vs))) fs f Hk Hin).
        f_equal. unfold field_piece. rewrite key_text.
        rewrite (proj1 (Forall_forall _ _) IH f Hin); auto.
        - unfold piece_text. cbn [fst snd]. now rewrite app_assoc_s.
        - exact (proj1 (forallb_forall _ _) Hs f Hin).
        - exact (proj1 (Forall_forall _ _) Hwf f Hin).
        - exact (proj1 (Forall_forall _ _) Hall f Hin). }
    rewrite (sorted_payload _ _ _ fnum
               (fun f => (fname f, expected (ftype f) (vfield (fnum f) (VM vs))))
               (fun nj => Some (piece_text nj))).
    rewrite <- (map_map piece_text Some), join_opt_some.
    unfold wrap, print_compact. cbn [print_sep]. reflexivity.
Qed.

Theorem c_text_correct : forall t v,
  shape_ok t = true -> wf (erase t) = true -> has_ty (erase t) v = true ->
  (exists x fs, t = NMsg x fs) ->
  c_text t (store t v) = Some (print_compact (expected t v)).
Proof.
  intros t v Hs Hw Hv [x [fs ->]]. unfold c_text. apply dispatch_correct; auto.
Qed.

(* ------------------------------------------------------------------------------------ *)
(* Python                                                                               *)
(* ------------------------------------------------------------------------------------ *)

Fixpoint pyj_of (j : jtree) : pyj :=
  match j with
  | JNum z => PJInt z
  | JBool b => PJBool b
  | JList l => PJList (map pyj_of l)
  | JObj fs => PJDict (map (fun kv => (fst kv, pyj_of (snd kv))) fs)
  end.

Lemma dumps_pyj_of : forall j, py_dumps (pyj_of j) = POk j.
Proof.
  induction j as [z|b|l IH|fs IH] using jtree_ind'; try reflexivity.
  - cbn [pyj_of py_dumps]. rewrite map_map.
    rewrite (map_ext_in _ POk) by (intros a Hin; exact (proj1 (Forall_forall _ _) IH a Hin)).
    now rewrite seq_res_ok.
  - cbn [pyj_of py_dumps]. rewrite map_map.
    rewrite (map_ext_in _ POk).
    2:{ intros [k x] Hin. pose proof (proj1 (Forall_forall _ _) IH (k, x) Hin) as E.
        cbn [fst snd] in E |- *. now rewrite E. }
    now rewrite seq_res_ok.
Qed.

(* the translated prefixes are the documented one *)
Lemma drop_prefix_documented : dict_drop_prefix = documented_proxy_prefix.
Proof. reflexivity. Qed.
Lemma proxy_prefix_documented : proxy_prefix = documented_proxy_prefix.
Proof. reflexivity. Qed.

Lemma str_mem_app : forall s l1 l2, str_mem s (l1 ++ l2)%list = str_mem s l1 || str_mem s l2.
Proof.
  intros s l1 l2. induction l1 as [|x r IH]; [reflexivity|].
  cbn [str_mem app]. destruct (x =? s)%string; [reflexivity | exact IH].
Qed.

Lemma dict_set_fresh : forall A k (v : A) d, str_mem k (map fst d) = false ->
  dict_set k v d = (d ++ [(k, v)])%list.
Proof.
  intros A k v d. induction d as [|kv r IH]; intros H; [reflexivity|].
  cbn [map str_mem] in H. cbn [dict_set app]. destruct (fst kv =? k)%string; [discriminate|].
  now rewrite IH.
Qed.

Lemma str_mem_in : forall s l, str_mem s l = true <-> In s l.
Proof.
  intros s l. induction l as [|x r IH]; cbn [str_mem In]; [split; [discriminate | tauto]|].
  destruct (String.eqb_spec x s) as [->|N]; [tauto|]. rewrite IH. split; [tauto|]. intros [E|E]; [congruence | exact E].
Qed.

Lemma dict_fold : forall A (l acc : list (string * A)),
  str_nodup (map fst l) = true ->
  (forall k, In k (map fst l) -> str_mem k (map fst acc) = false) ->
  fold_left (fun d kv => dict_set (fst kv) (snd kv) d) l acc = (acc ++ l)%list.
Proof.
  intros A l. induction l as [|[k v] r IH]; intros acc Hn Hf.
  - cbn. now rewrite app_nil_r.
  - cbn [map fst str_nodup] in Hn. apply andb_prop in Hn. destruct Hn as [Hk Hr].
    cbn [fold_left fst snd]. rewrite dict_set_fresh by (apply Hf; left; reflexivity).
    rewrite IH; [now rewrite <- app_assoc | exact Hr |].
    intros k' Hin. rewrite map_app, str_mem_app. cbn [map fst str_mem].
    rewrite (Hf k') by (right; exact Hin). cbn [orb].
    destruct (String.eqb_spec k k') as [->|_]; [|reflexivity].
    apply negb_true_iff in Hk. apply str_mem_in in Hin. congruence.
Qed.

Lemma dict_of_pairs_nodup : forall A (l : list (string * A)),
  str_nodup (map fst l) = true -> dict_of_pairs l = l.
Proof.
  intros A l H. unfold dict_of_pairs. rewrite dict_fold; auto.
Qed.

Definition is_enum (t : nty) : bool := match t with NEnum _ _ => true | _ => false end.

(* what one dataclass field contributes to asdict's (name, value) list *)
Definition pairs_of (a : string * (bool * pyj)) : list (string * pyj) :=
  if fst (snd a)
  then [(fst a, snd (snd a)); (proxy_prefix ++ fst a, snd (snd a))]
  else [(fst a, snd (snd a))].

Lemma filter_pairs : forall (l : list (string * (bool * pyj))),
  Forall (fun a => String.prefix documented_proxy_prefix (fst a) = false) l ->
  filter (fun kv => negb (String.prefix dict_drop_prefix (fst kv))) (List.concat (map pairs_of l)) =
  map (fun a => (fst a, snd (snd a))) l.
Proof.
  intros l H. induction H as [|a r Ha Hr IH]; [reflexivity|].
  cbn [map List.concat]. rewrite filter_app, IH. rewrite drop_prefix_documented.
  unfold pairs_of. destruct (fst (snd a)); cbn [filter fst app].
  - rewrite Ha. cbn [negb]. rewrite proxy_prefix_documented, prefix_app. reflexivity.
  - rewrite Ha. reflexivity.
Qed.

(* to_dict() holds the value tree (byte arrays as bytearray objects) *)
Theorem asdict_correct : forall t,
  no_proxy_names t = true -> names_distinct t = true ->
  forall v, has_ty (erase t) v = true ->
  py_asdict t v = POk (dict_spec t v).
Proof.
  induction t as [| |n|n|n ms|u IH|x cap e IH|x fs IH] using nty_ind'; intros Hp Hd v Hv;
    try reflexivity.
  - (* alias *) cbn [py_asdict dict_spec]. apply IH; auto.
  - (* array *)
    destruct (has_ty_arr _ _ _ _ Hv) as [l [-> [_ Hall]]].
    cbn [py_asdict dict_spec vlist]. destruct (is_byte e); [reflexivity|].
    rewrite (map_ext_in _ (fun a => POk (dict_spec e a))).
    2:{ intros a Hin. apply IH; auto. exact (proj1 (Forall_forall _ _) Hall a Hin). }
    rewrite <- (map_map (dict_spec e) POk), seq_res_ok. reflexivity.
  - (* message *)
    destruct (has_ty_msg _ _ _ Hv) as [vs [-> Hall]].
    cbn [no_proxy_names names_distinct] in Hp, Hd.
    apply andb_prop in Hd. destruct Hd as [Hd1 Hd2].
    cbn [py_asdict dict_spec].
    set (V := VM vs) in *.
    set (a := fun f : Z * (string * nty) => (fname f, (is_enum (ftype f), dict_spec (ftype f) (vfield (fnum f) V)))).
    rewrite (map_ext_in _ (fun f => (fnum f, POk (pairs_of (a f))))).
    2:{ intros f Hin. f_equal.
        pose proof (proj1 (Forall_forall _ _) Hall f Hin) as Hf. cbv beta in Hf.
        pose proof (proj1 (forallb_forall _ _) Hp f Hin) as Hpf. cbv beta in Hpf.
        apply andb_prop in Hpf. destruct Hpf as [_ Hpf].
        pose proof (proj1 (forallb_forall _ _) Hd2 f Hin) as Hdf. cbv beta in Hdf.
        pose proof (proj1 (Forall_forall _ _) IH f Hin Hpf Hdf _ Hf) as E.
        unfold a, pairs_of, field_pairs. cbn [fst snd]. rewrite E.
        destruct (ftype f) as [| |n|n|n ms|u|x' c' e'|x' fs'] eqn:Et; cbn [is_enum]; try reflexivity.
        cbn [erase has_ty] in Hf. destruct (vfield (fnum f) V) as [|z| |]; try discriminate Hf.
        cbn [zof dict_spec]. unfold is_member. rewrite Hf. reflexivity. }
    rewrite (sorted_payload _ _ _ fnum a (fun x => POk (pairs_of x))).
    rewrite <- (map_map pairs_of POk), seq_res_ok.
    set (AS := map snd (sort_fields (map (fun f => (fnum f, a f)) fs))).
    assert (HAS : Forall (fun x => String.prefix documented_proxy_prefix (fst x) = false) AS).
    { apply Forall_forall. intros y Hy. unfold AS in Hy. apply in_map_iff in Hy.
      destruct Hy as [[k y'] [<- Hy]]. apply sort_fields_in in Hy. apply in_map_iff in Hy.
      destruct Hy as [f [E Hin]]. injection E as _ <-. unfold a. cbn [fst snd].
      pose proof (proj1 (forallb_forall _ _) Hp f Hin) as Hpf. cbv beta in Hpf.
      apply andb_prop in Hpf. destruct Hpf as [Hpf _]. now apply negb_true_iff in Hpf. }
    rewrite (filter_pairs AS HAS).
    rewrite dict_of_pairs_nodup.
    + f_equal. f_equal.
      rewrite (sorted_payload _ _ _ fnum a (fun x => (fst x, snd (snd x)))).
      fold AS. reflexivity.
    + rewrite map_map. cbn [fst].
      rewrite <- (map_map snd fst) in Hd1.
      change (map (fun f => (fnum f, (fname f, tt))) fs)
        with (map (fun f => (fnum f, (fun x : string * (bool * pyj) => (fst x, tt)) (a f))) fs) in Hd1.
      rewrite (sorted_payload _ _ _ fnum a (fun x => (fst x, tt))) in Hd1. fold AS in Hd1.
      rewrite map_map in Hd1. cbn [fst] in Hd1. exact Hd1.
Qed.

(* json.dumps with the byte-array hook writes the specified value, for EVERY tree and value
   (this is where fix b3480f8 enters: GenJson.dumps_bytes_as_list = true) *)
Lemma dumps_hook : dumps_bytes_as_list = true.
Proof. reflexivity. Qed.

Theorem dumps_dict_spec : forall t v, py_dumps (dict_spec t v) = POk (expected t v).
Proof.
  induction t as [| |n|n|n ms|u IH|x cap e IH|x fs IH] using nty_ind'; intros v; try reflexivity.
  - apply IH.
  - cbn [dict_spec expected]. destruct e; cbn [is_byte];
      try (cbn [py_dumps]; rewrite map_map, (map_ext _ (fun a => POk (expected _ a))) by (intros; apply IH);
           rewrite <- (map_map (expected _) POk), seq_res_ok; reflexivity).
    cbn [py_dumps]. rewrite dumps_hook, !map_map. reflexivity.
  - cbn [dict_spec expected py_dumps].
    set (a := fun f : Z * (string * nty) => (fname f, (ftype f, vfield (fnum f) v))).
    change (map (fun f => (fnum f, (fname f, dict_spec (ftype f) (vfield (fnum f) v)))) fs)
      with (map (fun f => (fnum f, (fun x : string * (nty * val) => (fst x, dict_spec (fst (snd x)) (snd (snd x)))) (a f))) fs).
    change (map (fun f => (fnum f, (fname f, expected (ftype f) (vfield (fnum f) v)))) fs)
      with (map (fun f => (fnum f, (fun x : string * (nty * val) => (fst x, expected (fst (snd x)) (snd (snd x)))) (a f))) fs).
    rewrite !(sorted_payload _ _ _ fnum a).
    set (AS := map snd (sort_fields (map (fun f => (fnum f, a f)) fs))).
    rewrite map_map. cbn [fst snd].
    rewrite (map_ext_in _ (fun x => POk (fst x, expected (fst (snd x)) (snd (snd x))))).
    2:{ intros y Hy. unfold AS in Hy. apply in_map_iff in Hy. destruct Hy as [[k y'] [<- Hy]].
        apply sort_fields_in in Hy. apply in_map_iff in Hy. destruct Hy as [f [E Hin]].
        injection E as _ <-. unfold a. cbn [fst snd].
        now rewrite (proj1 (Forall_forall _ _) IH f Hin). }
    rewrite <- (map_map (fun x : string * (nty * val) => (fst x, expected (fst (snd x)) (snd (snd x)))) POk), seq_res_ok.
    unfold AS.
    rewrite <- (sorted_payload _ _ _ fnum a (fun x => (fst x, expected (fst (snd x)) (snd (snd x))))).
    reflexivity.
Qed.

Theorem py_tree_correct : forall t v,
  no_proxy_names t = true -> names_distinct t = true ->
  has_ty (erase t) v = true ->
  py_tree t v = POk (expected t v).
Proof.
  intros t v Hp Hd Hv. unfold py_tree. rewrite asdict_correct by auto. apply dumps_dict_spec.
Qed.

(* both languages print the same value: the C text is the compact print of the tree that
   Python's json.dumps writes *)
Theorem c_eq_py : forall t v,
  shape_ok t = true -> wf (erase t) = true -> has_ty (erase t) v = true ->
  (exists x fs, t = NMsg x fs) ->
  no_proxy_names t = true -> names_distinct t = true ->
  exists s, py_to_json "," ":" t v = POk s /\ c_text t (store t v) = Some s.
Proof.
  intros t v Hs Hw Hv Hm Hp Hd. exists (print_compact (expected t v)). split.
  - unfold py_to_json. rewrite py_tree_correct by auto. reflexivity.
  - apply c_text_correct; auto.
Qed.

(* the former witness of finding json-bytes (fixed by b3480f8): now all three agree, while
   to_dict() still holds the bytearray object *)
Definition bytes_t : nty := NMsg false [(1, ("b", NArr false 1 NByte))].
Definition bytes_v : val := VM [(1, VL [VZ 7])].

Lemma py_bytearray_regression :
  py_asdict bytes_t bytes_v = POk (PJDict [("b", PJBytes [7])]) /\
  py_to_json "," ":" bytes_t bytes_v = POk "{""b"":[7]}" /\
  c_text bytes_t (store bytes_t bytes_v) = Some "{""b"":[7]}" /\
  print_compact (expected bytes_t bytes_v) = "{""b"":[7]}".
Proof. vm_compute. repeat split; reflexivity. Qed.

(* ---- witness of the open finding (the faithful model refutes the Python half) ---- *)

Definition proxy_t : nty := NMsg false [(1, ("_enum_field_proxy__x", NBool))].
Definition proxy_v : val := VM [(1, VB true)].

Lemma py_proxy_name_refuted :
  exists t v, shape_ok t = true /\ wf (erase t) = true /\ has_ty (erase t) v = true /\
              names_distinct t = true /\ no_proxy_names t = false /\
              py_tree t v = POk (JObj []) /\
              expected t v = JObj [("_enum_field_proxy__x", JBool true)] /\
              c_text t (store t v) = Some (print_compact (expected t v)).
Proof. exists proxy_t, proxy_v. vm_compute. repeat split; reflexivity. Qed.
