(* Memo — the memoisation machinery of the bitproto compiler as a state machine.

   utils.conditional_cache / _ast.cache_if_frozen / functools.cache, utils.frozen and
   utils.safe_hash, modelled over a heap of AST nodes:

     * a NAME is what the driver (parser, renderer, a test) holds: a Python reference;
     * an ADDRESS is id(node): the memo tables are keyed by it (safe_hash_key), it may be
       handed out again by the allocator once the object has been reclaimed;
     * a memo entry keeps a strong reference to its key (cache_key_holds_object), so a node
       that is a key is never reclaimed;
     * a frozen node rejects setattr / delattr / push_member / a second freeze
       (the decision functions come from coq/gen/GenMemo.v, re-translated from the source
       on every run);
     * what a cached method may read is the VIEW of its node: tag, value, frozen flag and,
       recursively, the views of the nodes it points to (members, type, element_type).

   Two machines run the same history (list of operations):
     rstep / rrun : the UNCACHED REFERENCE semantics over names (no addresses, no tables,
                    nothing is ever reclaimed);
     cstep / crun : the implementation (addresses, reclamation, memo table).
   Proofs are in MemoProofs.v; this file only contains executable definitions. *)
From Coq Require Import ZArith List Bool Arith.
From BPGen Require Import GenMemo.
Import ListNotations.
Open Scope Z_scope.

Definition name := nat.
Definition addr := Z.
Definition fid := nat.

(* what a method can see of a node *)
Inductive tree : Type :=
| Cut                                                   (* recursion depth exhausted / nothing there *)
| Nd (tag val : Z) (fr : bool) (kids : list tree).

Definition root_tag (t : tree) : option Z :=
  match t with Cut => None | Nd tg _ _ _ => Some tg end.

Inductive op : Type :=
| Alloc (n : name) (a : addr) (tag val : Z) (deps : list name)  (* n = Class(...): object created at address a *)
| SetVal (n : name) (v : Z)                                     (* n.val = v  (frozen.__setattr__) *)
| Push (n d : name)                                             (* n.push_member(d) *)
| Freeze (n : name)                                             (* n.freeze() *)
| Call (f : fid) (n : name) (x : Z)                             (* n.f(x) through the decorator *)
| Drop (n : name)                                               (* the driver forgets its reference *)
| Reclaim (a : addr).                                           (* the collector frees the object at a *)

Inductive out : Type :=
| OOk                       (* performed *)
| OErr                      (* the operation raised (AttributeError / InternalError) *)
| OBad                      (* not a possible operation: unknown / dropped / re-used name *)
| ORes (r : option Z).      (* a call returned r (None: the method raised) *)

(* what only the implementation side can observe *)
Inductive aux : Type :=
| ANone | AHit | AMiss | ADirect | AClash | AReclaimed | ARefused
| AExec.   (* observation only: the method body ran (a miss or a direct call, not told apart) *)

Definition out_eqb (x y : out) : bool :=
  match x, y with
  | OOk, OOk | OErr, OErr | OBad, OBad => true
  | ORes (Some a), ORes (Some b) => Z.eqb a b
  | ORes None, ORes None => true
  | _, _ => false
  end.
Fixpoint outs_eqb (l l' : list out) : bool :=
  match l, l' with
  | [], [] => true
  | x :: t, y :: t' => out_eqb x y && outs_eqb t t'
  | _, _ => false
  end.
Definition aux_eqb (x y : aux) : bool :=
  match x, y with
  | ANone, ANone | AHit, AHit | AMiss, AMiss | ADirect, ADirect | AClash, AClash
  | AReclaimed, AReclaimed | ARefused, ARefused | AExec, AExec => true
  | _, _ => false
  end.

Definition aux_is_clash (a : aux) : bool := match a with AClash => true | _ => false end.

Section Machines.
  (* the cached methods: arbitrary functions of the view; [always f] marks the methods
     decorated with the unconditional functools.cache *)
  Variable F : fid -> tree -> Z -> option Z.
  Variable always : fid -> bool.
  (* the decorator's decision "go through the memo table" as a function of the node's frozen
     flag, and whether a memo key keeps its node alive; the implementation's values are
     [real_cond] and [real_pin] below (from GenMemo), other values model mutants *)
  Variable cond : bool -> bool.
  Variable pin : bool.
  Variable D : nat.                      (* how deep a method may look *)

  (* ------------------------------------------------------------------ reference *)
  Record rcell : Type := mkR {
    r_tag : Z; r_val : Z; r_deps : list name; r_fr : bool; r_dropped : bool }.
  Definition rheap := name -> option rcell.

  Definition rupd (s : rheap) (n : name) (c : rcell) : rheap :=
    fun m => if Nat.eqb m n then Some c else s m.

  Fixpoint rview (d : nat) (s : rheap) (n : name) : tree :=
    match d with
    | O => Cut
    | S d' => match s n with
              | None => Cut
              | Some c => Nd (r_tag c) (r_val c) (r_fr c) (map (rview d' s) (r_deps c))
              end
    end.

  Definition r_usable (s : rheap) (n : name) : bool :=
    match s n with Some c => negb (r_dropped c) | None => false end.

  Definition r_frozen (s : rheap) (n : name) : bool :=
    match s n with Some c => r_fr c | None => false end.

  Definition rstep (s : rheap) (o : op) : rheap * out :=
    match o with
    | Alloc n _ tg v ds =>
        match s n with
        | Some _ => (s, OBad)
        | None => if forallb (r_usable s) ds
                  then (rupd s n (mkR tg v ds false false), OOk) else (s, OBad)
        end
    | SetVal n v =>
        match s n with
        | Some c => if r_dropped c then (s, OBad)
                    else if frozen_setattr_raises (r_fr c) then (s, OErr)
                    else (rupd s n (mkR (r_tag c) v (r_deps c) (r_fr c) false), OOk)
        | None => (s, OBad)
        end
    | Push n d =>
        match s n with
        | Some c => if r_dropped c then (s, OBad)
                    else if negb (r_usable s d) then (s, OBad)
                    else if push_member_raises (r_fr c) then (s, OErr)
                    else (rupd s n (mkR (r_tag c) (r_val c) (r_deps c ++ [d]) (r_fr c) false), OOk)
        | None => (s, OBad)
        end
    | Freeze n =>
        match s n with
        | Some c => if r_dropped c then (s, OBad)
                    else if frozen_freeze_raises (r_fr c) then (s, OErr)
                    else (rupd s n (mkR (r_tag c) (r_val c) (r_deps c) true false), OOk)
        | None => (s, OBad)
        end
    | Call f n x =>
        match s n with
        | Some c => if r_dropped c then (s, OBad) else (s, ORes (F f (rview D s n) x))
        | None => (s, OBad)
        end
    | Drop n =>
        match s n with
        | Some c => if r_dropped c then (s, OBad)
                    else (rupd s n (mkR (r_tag c) (r_val c) (r_deps c) (r_fr c) true), OOk)
        | None => (s, OBad)
        end
    | Reclaim _ => (s, OOk)
    end.

  Fixpoint rrun (s : rheap) (h : list op) : list out :=
    match h with
    | [] => []
    | o :: t => let (s', x) := rstep s o in x :: rrun s' t
    end.

  Fixpoint rfinal (s : rheap) (h : list op) : rheap :=
    match h with
    | [] => s
    | o :: t => rfinal (fst (rstep s o)) t
    end.

  Definition r0 : rheap := fun _ => None.

  (* the discipline of the parser: a node is frozen only when everything it points to is
     frozen already (children are completed before their parent) *)
  Definition freeze_ok (s : rheap) (o : op) : bool :=
    match o with
    | Freeze n => match s n with
                  | Some c => forallb (r_frozen s) (r_deps c)
                  | None => true
                  end
    | _ => true
    end.

  Fixpoint disciplined (s : rheap) (h : list op) : bool :=
    match h with
    | [] => true
    | o :: t => freeze_ok s o && disciplined (fst (rstep s o)) t
    end.

  (* ------------------------------------------------------------------ implementation *)
  Record ccell : Type := mkC {
    c_owner : name; c_tag : Z; c_val : Z; c_deps : list addr; c_fr : bool; c_handle : bool }.

  Record cstate : Type := mkS {
    loc : name -> option addr;            (* the driver's references *)
    used : name -> bool;                  (* names that have been bound once *)
    heap : addr -> option ccell;          (* live objects by address *)
    dom : list addr;                      (* every address that has ever been live *)
    memo : list (fid * addr * Z * Z)      (* the memo tables: (method, key node, arg) -> value *)
  }.

  Definition c0 : cstate := mkS (fun _ => None) (fun _ => false) (fun _ => None) [] [].

  Definition nupd {A} (m : name -> A) (n : name) (v : A) : name -> A :=
    fun k => if Nat.eqb k n then v else m k.
  Definition aupd {A} (m : addr -> A) (a : addr) (v : A) : addr -> A :=
    fun k => if Z.eqb k a then v else m k.

  Fixpoint cview (d : nat) (hp : addr -> option ccell) (a : addr) : tree :=
    match d with
    | O => Cut
    | S d' => match hp a with
              | None => Cut
              | Some c => Nd (c_tag c) (c_val c) (c_fr c) (map (cview d' hp) (c_deps c))
              end
    end.

  (* the driver can name n: it is bound, the object exists, the reference was not dropped *)
  Definition c_get (c : cstate) (n : name) : option (addr * ccell) :=
    match loc c n with
    | Some a => match heap c a with
                | Some cc => if c_handle cc then Some (a, cc) else None
                | None => None
                end
    | None => None
    end.

  Fixpoint c_addrs (c : cstate) (ds : list name) : option (list addr) :=
    match ds with
    | [] => Some []
    | d :: t => match c_get c d, c_addrs c t with
                | Some (a, _), Some l => Some (a :: l)
                | _, _ => None
                end
    end.

  Definition key_eqb (f : fid) (a : addr) (x : Z) (e : fid * addr * Z * Z) : bool :=
    match e with
    | (f', a', x', _) => Nat.eqb f f' && Z.eqb (safe_hash_key a) (safe_hash_key a') && Z.eqb x x'
    end.

  Fixpoint lookup (m : list (fid * addr * Z * Z)) (f : fid) (a : addr) (x : Z) : option Z :=
    match m with
    | [] => None
    | e :: t => if key_eqb f a x e then Some (snd e) else lookup t f a x
    end.

  Definition pinned (m : list (fid * addr * Z * Z)) (a : addr) : bool :=
    existsb (fun e => match e with (_, a', _, _) => Z.eqb a a' end) m.

  Definition referenced (c : cstate) (a : addr) : bool :=
    existsb (fun b => match heap c b with
                      | Some cb => existsb (Z.eqb a) (c_deps cb)
                      | None => false
                      end) (dom c).

  (* does the decorator go through the memo table for this call? *)
  Definition uses_cache (f : fid) (frozen : bool) : bool := always f || cond frozen.

  Definition set_heap (c : cstate) (hp : addr -> option ccell) : cstate :=
    mkS (loc c) (used c) hp (dom c) (memo c).

  Definition cstep (c : cstate) (o : op) : cstate * (out * aux) :=
    match o with
    | Alloc n a tg v ds =>
        if used c n then (c, (OBad, ANone))
        else match c_addrs c ds with
             | None => (c, (OBad, ANone))
             | Some das =>
                 match heap c a with
                 | Some _ => (c, (OBad, AClash))   (* the allocator returned a live object's address *)
                 | None =>
                     (mkS (nupd (loc c) n (Some a)) (nupd (used c) n true)
                          (aupd (heap c) a (Some (mkC n tg v das false true)))
                          (a :: dom c) (memo c), (OOk, ANone))
                 end
             end
    | SetVal n v =>
        match c_get c n with
        | Some (a, cc) =>
            if frozen_setattr_raises (c_fr cc) then (c, (OErr, ANone))
            else (set_heap c (aupd (heap c) a
                    (Some (mkC (c_owner cc) (c_tag cc) v (c_deps cc) (c_fr cc) true))), (OOk, ANone))
        | None => (c, (OBad, ANone))
        end
    | Push n d =>
        match c_get c n with
        | Some (a, cc) =>
            match c_get c d with
            | None => (c, (OBad, ANone))
            | Some (ad, _) =>
                if push_member_raises (c_fr cc) then (c, (OErr, ANone))
                else (set_heap c (aupd (heap c) a
                        (Some (mkC (c_owner cc) (c_tag cc) (c_val cc) (c_deps cc ++ [ad]) (c_fr cc) true))),
                      (OOk, ANone))
            end
        | None => (c, (OBad, ANone))
        end
    | Freeze n =>
        match c_get c n with
        | Some (a, cc) =>
            if frozen_freeze_raises (c_fr cc) then (c, (OErr, ANone))
            else (set_heap c (aupd (heap c) a
                    (Some (mkC (c_owner cc) (c_tag cc) (c_val cc) (c_deps cc) true true))), (OOk, ANone))
        | None => (c, (OBad, ANone))
        end
    | Call f n x =>
        match c_get c n with
        | Some (a, cc) =>
            if uses_cache f (c_fr cc) then
              match lookup (memo c) f a x with
              | Some r => (c, (ORes (Some r), AHit))
              | None =>
                  match F f (cview D (heap c) a) x with
                  | Some r => (mkS (loc c) (used c) (heap c) (dom c) ((f, a, x, r) :: memo c),
                               (ORes (Some r), AMiss))
                  | None => (c, (ORes None, AMiss))      (* an exception is not memoised *)
                  end
              end
            else (c, (ORes (F f (cview D (heap c) a) x), ADirect))
        | None => (c, (OBad, ANone))
        end
    | Drop n =>
        match c_get c n with
        | Some (a, cc) =>
            (set_heap c (aupd (heap c) a
               (Some (mkC (c_owner cc) (c_tag cc) (c_val cc) (c_deps cc) (c_fr cc) false))), (OOk, ANone))
        | None => (c, (OBad, ANone))
        end
    | Reclaim a =>
        match heap c a with
        | Some cc =>
            if c_handle cc || (pin && pinned (memo c) a) || referenced c a
            then (c, (OOk, ARefused))
            else (mkS (nupd (loc c) (c_owner cc) None) (used c) (aupd (heap c) a None) (dom c) (memo c),
                  (OOk, AReclaimed))
        | None => (c, (OOk, ARefused))
        end
    end.

  Fixpoint crun (c : cstate) (h : list op) : list (out * aux) :=
    match h with
    | [] => []
    | o :: t => let (c', x) := cstep c o in x :: crun c' t
    end.

  Fixpoint cfinal (c : cstate) (h : list op) : cstate :=
    match h with
    | [] => c
    | o :: t => cfinal (fst (cstep c o)) t
    end.

  (* the environment behaved: the allocator never returned the address of a live object *)
  Definition env_ok (c : cstate) (h : list op) : bool :=
    forallb (fun p => negb (aux_is_clash (snd p))) (crun c h).

  (* objects the model considers unreachable yet present (used by the correspondence check:
     after a full collection the implementation must have none either) *)
  Definition leftovers (c : cstate) : list addr :=
    filter (fun a => match heap c a with
                     | Some cc => negb (c_handle cc || pinned (memo c) a || referenced c a)
                     | None => false
                     end) (nodup Z.eq_dec (dom c)).

  Definition live_addrs (c : cstate) : list addr :=
    filter (fun a => match heap c a with Some _ => true | None => false end) (nodup Z.eq_dec (dom c)).
End Machines.

(* the implementation's parameters, from the translated source: a call goes through the memo
   table iff conditional_cache's test of cache_if_frozen_condition(func, args, kwargs) holds,
   for a call `node.method(...)` (args non-empty, self truthy, self a Node) *)
Definition real_cond (frozen : bool) : bool :=
  conditional_cache_uses_cache
    (cache_if_frozen_condition enable_cache_on_ast_frozen true true true frozen).
Definition real_pin : bool := cache_key_holds_object.

(* ------------------------------------------------------------------ interleaving *)
(* a joint history whose operations are tagged with the compilation they belong to *)
Definition op_names (o : op) : list name :=
  match o with
  | Alloc n _ _ _ ds => n :: ds
  | SetVal n _ => [n]
  | Push n d => [n; d]
  | Freeze n => [n]
  | Call _ n _ => [n]
  | Drop n => [n]
  | Reclaim _ => []
  end.

Definition sel {A} (b : bool) (th : list (bool * A)) : list A :=
  map snd (filter (fun p => Bool.eqb (fst p) b) th).

Fixpoint sel_out {A B} (b : bool) (th : list (bool * A)) (l : list B) : list B :=
  match th, l with
  | (t, _) :: th', x :: l' => if Bool.eqb t b then x :: sel_out b th' l' else sel_out b th' l'
  | _, _ => []
  end.

(* P tells which names belong to compilation [true] *)
Definition separated (P : name -> bool) (th : list (bool * op)) : bool :=
  forallb (fun p => forallb (fun n => Bool.eqb (P n) (fst p)) (op_names (snd p))) th.

(* ------------------------------------------------------------------ concrete methods (T2) *)
(* The methods of the test class in tools/run_memo.py, as functions of the view. *)
Definition PM : Z := 2147483647.

Fixpoint digest (t : tree) : Z :=
  match t with
  | Cut => 1
  | Nd tg v fr ks =>
      (tg * 3 + v * 5 + (if fr then 1 else 0) +
       11 * (fix go (l : list tree) : Z :=
               match l with
               | [] => 17
               | k :: r => (digest k + 131 * go r) mod PM
               end) ks) mod PM
  end.

Fixpoint tsum (t : tree) : Z :=
  match t with
  | Cut => 0
  | Nd _ v _ ks => v + (fix go (l : list tree) : Z :=
                          match l with [] => 0 | k :: r => tsum k + go r end) ks
  end.

Definition t_val (t : tree) : Z := match t with Nd _ v _ _ => v | Cut => 0 end.
Definition t_nkids (t : tree) : Z := match t with Nd _ _ _ ks => Z.of_nat (length ks) | Cut => 0 end.

Definition F_test (f : fid) (t : tree) (x : Z) : option Z :=
  match f with
  | 0%nat => Some ((digest t + x) mod PM)                       (* cache_if_frozen: reads everything *)
  | 1%nat => if Z.eqb ((t_val t + x) mod 3) 0 then None          (* cache_if_frozen: may raise *)
             else Some (t_val t * x + t_nkids t)
  | 2%nat => match root_tag t with Some tg => Some (tg * 7 + x) | None => Some x end  (* functools.cache: class-level data only *)
  | _ => Some (tsum t * x)                                       (* cache_if_frozen, calls itself on the children *)
  end.

Definition always_test (f : fid) : bool := Nat.eqb f 2.

(* constructors with Z-typed names (for histories written as numerals in Z_scope) *)
Definition alloc (n : Z) (a : addr) (tg v : Z) (ds : list Z) : op :=
  Alloc (Z.to_nat n) a tg v (map Z.to_nat ds).
Definition setval (n v : Z) : op := SetVal (Z.to_nat n) v.
Definition push (n d : Z) : op := Push (Z.to_nat n) (Z.to_nat d).
Definition freeze (n : Z) : op := Freeze (Z.to_nat n).
Definition call (f n x : Z) : op := Call (Z.to_nat f) (Z.to_nat n) x.
Definition drop (n : Z) : op := Drop (Z.to_nat n).
Definition reclaim (a : addr) : op := Reclaim a.
