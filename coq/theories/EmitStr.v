(* EmitStr.v — string facts used by the name-uniqueness proof: stripping literal prefixes,
   [starts_with], decimal suffixes. *)
From Coq Require Import String Ascii List Bool Arith Lia DecimalNat DecimalString.
From BP Require Import EmitNames EmitSpec.
Import ListNotations.
Open Scope string_scope.

Lemma sapp_inj_l p : forall a b, (p ++ a = p ++ b)%string -> a = b.
Proof. induction p as [|c p IH]; intros a b H; [exact H|]. cbn in H. injection H as H. apply IH. exact H. Qed.

Inductive strip_res := SMismatch | SSame | SLeft (r : string) | SRight (r : string).

Fixpoint strip (p1 p2 : string) : strip_res :=
  match p1, p2 with
  | EmptyString, EmptyString => SSame
  | EmptyString, _ => SRight p2
  | _, EmptyString => SLeft p1
  | String a r1, String b r2 => if Ascii.eqb a b then strip r1 r2 else SMismatch
  end.

(* what the equality of two names with literal prefixes p1, p2 says about their tails *)
Lemma strip_spec p1 : forall p2 a b, (p1 ++ a = p2 ++ b)%string ->
  match strip p1 p2 with
  | SMismatch => False
  | SSame => a = b
  | SLeft r => (r ++ a)%string = b
  | SRight r => a = (r ++ b)%string
  end.
Proof.
  induction p1 as [|c p1 IH]; intros [|d p2] a b H; cbn [strip].
  - exact H.
  - exact H.
  - exact H.
  - cbn in H. injection H as Hc H. subst d. rewrite Ascii.eqb_refl. apply IH. exact H.
Qed.

Lemma starts_with_app p r : starts_with p (p ++ r) = true.
Proof. induction p as [|c p IH]; [destruct r; reflexivity|]. cbn. rewrite Ascii.eqb_refl. exact IH. Qed.

(* ---------- decimal numerals ---------- *)

Definition all_digits (x : string) : bool := forallb is_digit (chars x).

Lemma chars_app a b : chars (a ++ b) = (chars a ++ chars b)%list.
Proof. induction a as [|c a IH]; [reflexivity|]. cbn. rewrite IH. reflexivity. Qed.

Lemma all_digits_app a b : all_digits (a ++ b) = all_digits a && all_digits b.
Proof. unfold all_digits. rewrite chars_app. apply forallb_app. Qed.

Lemma string_of_uint_digits d : all_digits (NilEmpty.string_of_uint d) = true.
Proof. induction d; cbn [NilEmpty.string_of_uint]; try reflexivity; unfold all_digits in *; cbn [chars forallb]; rewrite IHd; reflexivity. Qed.

Lemma dec_digits n : all_digits (dec n) = true.
Proof. apply string_of_uint_digits. Qed.

Lemma dec_inj a b : dec a = dec b -> a = b.
Proof.
  unfold dec. intros H.
  assert (E : Some (Nat.to_uint a) = Some (Nat.to_uint b)).
  { rewrite <- (NilEmpty.usu (Nat.to_uint a)), <- (NilEmpty.usu (Nat.to_uint b)), H. reflexivity. }
  injection E as E. rewrite <- (Unsigned.of_to a), <- (Unsigned.of_to b), E. reflexivity.
Qed.

Lemma dec_nonempty n : dec n <> "".
Proof.
  unfold dec. destruct (Nat.to_uint n) eqn:E; cbn [NilEmpty.string_of_uint]; try discriminate.
  exfalso. pose proof (Unsigned.of_to n) as H. rewrite E in H. cbn in H. subst n. cbn in E. discriminate.
Qed.

Lemma digit_tail_cons c x : x <> "" -> digit_tail (String c x) = digit_tail x.
Proof. destruct x; [contradiction | reflexivity]. Qed.

Lemma all_digits_tail x : x <> "" -> all_digits x = true -> digit_tail x = true.
Proof.
  induction x as [|c x IH]; intros Hne H; [contradiction|].
  unfold all_digits in H. cbn [chars forallb] in H. apply andb_true_iff in H. destruct H as [Hc Hx].
  destruct x as [|c' x']; [unfold digit_tail; cbn; exact Hc|].
  rewrite digit_tail_cons by discriminate. apply IH; [discriminate | exact Hx].
Qed.

(* a name that does not end in a digit, followed by a numeral, splits uniquely *)
Lemma split_digit_suffix m1 : forall m2 d1 d2,
  digit_tail m1 = false -> digit_tail m2 = false ->
  all_digits d1 = true -> all_digits d2 = true ->
  (m1 ++ d1 = m2 ++ d2)%string -> m1 = m2 /\ d1 = d2.
Proof.
  induction m1 as [|c m1 IH]; intros m2 d1 d2 H1 H2 A1 A2 E.
  - destruct m2 as [|c2 m2]; [split; [reflexivity | exact E]|]. exfalso.
    change (d1 = (String c2 m2 ++ d2)%string) in E. rewrite E in A1. rewrite all_digits_app in A1. apply andb_true_iff in A1.
    destruct A1 as [A1 _]. rewrite (all_digits_tail (String c2 m2)) in H2; [discriminate | discriminate | exact A1].
  - destruct m2 as [|c2 m2].
    + exfalso. change ((String c m1 ++ d1)%string = d2) in E. rewrite <- E in A2. rewrite all_digits_app in A2. apply andb_true_iff in A2.
      destruct A2 as [A2 _]. rewrite (all_digits_tail (String c m1)) in H1; [discriminate | discriminate | exact A2].
    + cbn [String.append] in E. injection E as Ec E. subst c2.
      assert (T1 : digit_tail m1 = false). { destruct m1; [reflexivity|]. rewrite digit_tail_cons in H1 by discriminate. exact H1. }
      assert (T2 : digit_tail m2 = false). { destruct m2; [reflexivity|]. rewrite digit_tail_cons in H2 by discriminate. exact H2. }
      destruct (IH m2 d1 d2 T1 T2 A1 A2 E) as [-> ->]. split; reflexivity.
Qed.

Lemma digit_tail_app_dec m n : digit_tail (m ++ dec n) = true.
Proof.
  assert (H : forall d, d <> "" -> all_digits d = true -> digit_tail (m ++ d) = true).
  { induction m as [|c m IH]; intros d Hne Hd; [apply all_digits_tail; assumption|].
    cbn [String.append]. rewrite digit_tail_cons; [apply IH; assumption|]. destruct m; [exact Hne | discriminate]. }
  apply H; [apply dec_nonempty | apply dec_digits].
Qed.
