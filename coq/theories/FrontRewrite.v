(* FrontRewrite.v — front-end side of C12 for two families of rewrites:

   * RENAMING messages, fields, enums, enum members, aliases, constants, import `as` names and
     proto names by an injective map rho on identifiers (option names are fixed);
   * TRIVIA: comments, blank lines, indentation, optional semicolons, several statements per
     line are absent from the surface tree except for the LINE attribute of every statement;
     a change of trivia is an arbitrary per-file relabelling lam of lines.

   Both are handled at once: [check] COMMUTES with the transformation (rn_files), including
   every error outcome.  Consequently the elaborated types of corresponding messages are EQUAL
   (the [ty] carries neither names nor lines), hence so are their wire formats. *)
From Coq Require Import ZArith List Bool String Lia.
From BP Require Import Schema FrontBase Front FrontProofs.
From BPGen Require GenFront.
Import ListNotations.
Open Scope Z_scope.

Section Rename.
  Variable rho : string -> string.           (* identifiers *)
  Variable lam : string -> Z -> Z.           (* file -> line -> line *)
  Hypothesis rho_inj : forall a b, rho a = rho b -> a = b.
  Hypothesis lam0 : forall f, lam f 0 = 0.   (* "no line" stays "no line" *)

  (* ---------- the transformation on trees ---------- *)
  Definition rn_path (p : path) : path := map rho p.
  Definition rn_sty (s : sty) : sty := match s with SRef p => SRef (rn_path p) | _ => s end.
  Definition rn_capx (c : capx) : capx := match c with CapRef p => CapRef (rn_path p) | _ => c end.
  Definition rn_tyx (t : tyx) : tyx :=
    match t with
    | XSingle s => XSingle (rn_sty s)
    | XArr s c x => XArr (rn_sty s) (rn_capx c) x
    end.
  Fixpoint rn_cexpr (e : cexpr) : cexpr :=
    match e with
    | EInt z => EInt z
    | ERef p => ERef (rn_path p)
    | EAdd a b => EAdd (rn_cexpr a) (rn_cexpr b)
    | ESub a b => ESub (rn_cexpr a) (rn_cexpr b)
    | EMul a b => EMul (rn_cexpr a) (rn_cexpr b)
    | EDiv a b => EDiv (rn_cexpr a) (rn_cexpr b)
    end.
  Definition rn_cvalx (v : cvalx) : cvalx :=
    match v with CRef p => CRef (rn_path p) | CExpr e => CExpr (rn_cexpr e) | _ => v end.
  Definition rn_optx (v : optx) : optx := match v with ORef p => ORef (rn_path p) | _ => v end.

  Section InFile.
    Variable file : string.
    Fixpoint rn_item (it : item) : item :=
      match it with
      | IProto l n => IProto (lam file l) (rho n)
      | IImport l a g => IImport (lam file l) (option_map rho a) g
      | IOption l n v => IOption (lam file l) (rho n) (rn_optx v)
      | IConst l n v => IConst (lam file l) (rho n) (rn_cvalx v)
      | IAlias l n t => IAlias (lam file l) (rho n) (rn_tyx t)
      | IEnum l n b body => IEnum (lam file l) (rho n) (rn_sty b) (map rn_item body)
      | IMsg l n x body => IMsg (lam file l) (rho n) x (map rn_item body)
      | IField l t n k => IField (lam file l) (rn_tyx t) (rho n) k
      | IEnumField l n v => IEnumField (lam file l) (rho n) v
      end.
  End InFile.

  Definition rn_files (fs : files) : files :=
    map (fun kf => (fst kf, map (rn_item (fst kf)) (snd kf))) fs.

  (* option names are not identifiers of the schema: rho must leave them alone *)
  Fixpoint opt_fixed (it : item) : Prop :=
    match it with
    | IOption _ n _ => rho n = n
    | IEnum _ _ _ body | IMsg _ _ _ body =>
        (fix go (l : list item) : Prop := match l with [] => True | i :: r => opt_fixed i /\ go r end) body
    | _ => True
    end.

  Definition opts_fixed (fs : files) : Prop :=
    forall k its it, In (k, its) fs -> In it its -> opt_fixed it.

  (* ---------- the transformation on definitions ---------- *)
  Definition rn_loc (a : loc) : loc := mkloc (lfile a) (lam (lfile a) (lline a)).

  Fixpoint rn_def (d : def) : def :=
    match d with
    | DConst a v => DConst (rn_loc a) v
    | DAlias a t r => DAlias (rn_loc a) t (option_map rn_loc r)
    | DEnum a t m =>
        DEnum (rn_loc a) t
          ((fix go (l : list (string * def)) : list (string * def) :=
              match l with [] => [] | nd :: r => (rho (fst nd), rn_def (snd nd)) :: go r end) m)
    | DMsg a t m =>
        DMsg (rn_loc a) t
          ((fix go (l : list (string * def)) : list (string * def) :=
              match l with [] => [] | nd :: r => (rho (fst nd), rn_def (snd nd)) :: go r end) m)
    | DProto f n m =>
        DProto f (rho n)
          ((fix go (l : list (string * def)) : list (string * def) :=
              match l with [] => [] | nd :: r => (rho (fst nd), rn_def (snd nd)) :: go r end) m)
    | DOption a v => DOption (rn_loc a) v
    | DField a k t r => DField (rn_loc a) k t (option_map rn_loc r)
    | DEnumField a v => DEnumField (rn_loc a) v
    end.

  Definition rn_mem (m : list (string * def)) : list (string * def) :=
    map (fun nd => (rho (fst nd), rn_def (snd nd))) m.

  Lemma rn_mem_fix m :
    (fix go (l : list (string * def)) : list (string * def) :=
       match l with [] => [] | nd :: r => (rho (fst nd), rn_def (snd nd)) :: go r end) m = rn_mem m.
  Proof. induction m as [|nd r IH]; [reflexivity|]. cbn [rn_mem map]. now rewrite IH. Qed.

  Lemma rn_def_enum a t m : rn_def (DEnum a t m) = DEnum (rn_loc a) t (rn_mem m).
  Proof. cbn [rn_def]. now rewrite rn_mem_fix. Qed.
  Lemma rn_def_msg a t m : rn_def (DMsg a t m) = DMsg (rn_loc a) t (rn_mem m).
  Proof. cbn [rn_def]. now rewrite rn_mem_fix. Qed.
  Lemma rn_def_proto f n m : rn_def (DProto f n m) = DProto f (rho n) (rn_mem m).
  Proof. cbn [rn_def]. now rewrite rn_mem_fix. Qed.

  Definition rn_fkind (k : fkind) : fkind :=
    match k with
    | FProto n => FProto (option_map rho n)
    | FMsg a x => FMsg (rn_loc a) x
    | FEnum a n => FEnum (rn_loc a) n
    end.
  Definition rn_frame (f : frame) : frame := mkframe (rn_fkind (fk f)) (rn_mem (fmem f)).

  Definition rn_res {A} (g : A -> A) (r : res A) : res A :=
    match r with Ok a => Ok (g a) | Err k f l => Err k f (lam f l) end.

  (* ---------- lookups ---------- *)
  Lemma rho_eqb a b : String.eqb (rho a) (rho b) = String.eqb a b.
  Proof.
    destruct (String.eqb_spec a b) as [->|N]; [apply String.eqb_refl|].
    apply String.eqb_neq. intros E. apply N. now apply rho_inj.
  Qed.

  Lemma assoc_rn n m : assoc (rho n) (rn_mem m) = option_map rn_def (assoc n m).
  Proof.
    induction m as [|nd r IH]; [reflexivity|].
    cbn [rn_mem map assoc fst snd]. rewrite rho_eqb. destruct (String.eqb (fst nd) n); [reflexivity|exact IH].
  Qed.

  Lemma has_name_rn n m : has_name (rho n) (rn_mem m) = has_name n m.
  Proof. unfold has_name. rewrite assoc_rn. destruct (assoc n m); reflexivity. Qed.

  Lemma def_members_rn d : def_members (rn_def d) = option_map rn_mem (def_members d).
  Proof. destruct d; try reflexivity; cbn [rn_def def_members]; now rewrite rn_mem_fix. Qed.

  Lemma get_member_rn p : forall m, get_member (rn_mem m) (rn_path p) = option_map rn_def (get_member m p).
  Proof.
    induction p as [|n rest IH]; intros m; [reflexivity|].
    cbn [rn_path map get_member]. rewrite assoc_rn. destruct (assoc n m) as [d|]; [|reflexivity].
    cbn [option_map]. destruct rest as [|n2 rest2]; [reflexivity|].
    cbn [map]. rewrite def_members_rn. destruct (def_members d) as [m'|]; [|reflexivity].
    cbn [option_map]. apply (IH m').
  Qed.

  Lemma lookup_rn st p : lookup (map rn_frame st) (rn_path p) = option_map rn_def (lookup st p).
  Proof.
    induction st as [|f r IH]; [reflexivity|].
    cbn [map lookup]. unfold rn_frame at 1. cbn [fmem]. rewrite get_member_rn.
    destruct (get_member (fmem f) p); [reflexivity|exact IH].
  Qed.

  Lemma def_type_rn d : def_type (rn_def d) = def_type d.
  Proof. destruct d; reflexivity. Qed.
  Lemma def_const_rn d : def_const (rn_def d) = def_const d.
  Proof. destruct d; reflexivity. Qed.
  Lemma def_loc_rn d : def_loc (rn_def d) = rn_loc (def_loc d).
  Proof. destruct d; try reflexivity. cbn [rn_def def_loc]. unfold rn_loc. cbn [lfile lline]. now rewrite lam0. Qed.

  (* ---------- resolution ---------- *)
  Section Res.
    Variable file : string.
    Variable trad : bool.
    Variable st : list frame.
    Variable l : Z.
    Notation st' := (map rn_frame st).
    Notation l' := (lam file l).

    Definition rn_tr (x : ty * option loc) := (fst x, option_map rn_loc (snd x)).

    Lemma resolve_type_ref_rn p :
      resolve_type_ref file st' l' (rn_path p) = rn_res rn_tr (resolve_type_ref file st l p).
    Proof.
      unfold resolve_type_ref. rewrite lookup_rn. destruct (lookup st p) as [d|]; [|reflexivity].
      cbn [option_map]. rewrite def_type_rn. destruct (def_type d); [|reflexivity].
      cbn [rn_res rn_tr fst snd option_map]. now rewrite def_loc_rn.
    Qed.

    Lemma resolve_const_ref_rn p :
      resolve_const_ref file st' l' (rn_path p) = rn_res (fun v => v) (resolve_const_ref file st l p).
    Proof.
      unfold resolve_const_ref. rewrite lookup_rn. destruct (lookup st p) as [d|]; [|reflexivity].
      cbn [option_map]. rewrite def_const_rn. destruct (def_const d); reflexivity.
    Qed.

    Lemma resolve_sty_rn s : resolve_sty file st' l' (rn_sty s) = rn_res rn_tr (resolve_sty file st l s).
    Proof.
      destruct s as [| |n|n|p]; cbn [rn_sty resolve_sty]; try reflexivity.
      - destruct (GenFront.uint_cap_raises n); reflexivity.
      - destruct (GenFront.int_cap_raises n); reflexivity.
      - apply resolve_type_ref_rn.
    Qed.

    Lemma resolve_cap_rn c : resolve_cap file st' l' (rn_capx c) = rn_res (fun z => z) (resolve_cap file st l c).
    Proof.
      destruct c as [z|p]; cbn [rn_capx resolve_cap]; [reflexivity|].
      rewrite resolve_const_ref_rn. destruct (resolve_const_ref file st l p) as [v|]; cbn [rn_res bind]; [|reflexivity].
      destruct v; reflexivity.
    Qed.

    Lemma resolve_tyx_rn t : resolve_tyx file trad st' l' (rn_tyx t) = rn_res rn_tr (resolve_tyx file trad st l t).
    Proof.
      destruct t as [s|s c x]; cbn [rn_tyx resolve_tyx]; [apply resolve_sty_rn|].
      rewrite resolve_sty_rn. destruct (resolve_sty file st l s) as [er|]; cbn [rn_res bind]; [|reflexivity].
      rewrite resolve_cap_rn. destruct (resolve_cap file st l c) as [n|]; cbn [rn_res bind]; [|reflexivity].
      destruct (x && trad); [reflexivity|]. destruct (GenFront.array_cap_raises n); reflexivity.
    Qed.

    Lemma eval_cexpr_rn e : eval_cexpr file st' l' (rn_cexpr e) = rn_res (fun z => z) (eval_cexpr file st l e).
    Proof.
      induction e as [z|p|a IHa b IHb|a IHa b IHb|a IHa b IHb|a IHa b IHb]; cbn [rn_cexpr eval_cexpr]; try reflexivity.
      - rewrite resolve_const_ref_rn. destruct (resolve_const_ref file st l p) as [v|]; cbn [rn_res bind]; [|reflexivity].
        destruct v; reflexivity.
      - rewrite IHa. destruct (eval_cexpr file st l a); cbn [rn_res bind]; [|reflexivity].
        rewrite IHb. destruct (eval_cexpr file st l b); reflexivity.
      - rewrite IHa. destruct (eval_cexpr file st l a); cbn [rn_res bind]; [|reflexivity].
        rewrite IHb. destruct (eval_cexpr file st l b); reflexivity.
      - rewrite IHa. destruct (eval_cexpr file st l a); cbn [rn_res bind]; [|reflexivity].
        rewrite IHb. destruct (eval_cexpr file st l b); reflexivity.
      - rewrite IHa. destruct (eval_cexpr file st l a); cbn [rn_res bind]; [|reflexivity].
        rewrite IHb. destruct (eval_cexpr file st l b) as [y|]; cbn [rn_res bind]; [|reflexivity].
        destruct (y =? 0); reflexivity.
    Qed.

    Lemma eval_cvalx_rn v : eval_cvalx file st' l' (rn_cvalx v) = rn_res (fun z => z) (eval_cvalx file st l v).
    Proof.
      destruct v as [b|s|p|e]; cbn [rn_cvalx eval_cvalx]; try reflexivity; [apply resolve_const_ref_rn|].
      rewrite eval_cexpr_rn. destruct (eval_cexpr file st l e); reflexivity.
    Qed.

    Lemma eval_optx_rn v : eval_optx file st' l' (rn_optx v) = rn_res (fun z => z) (eval_optx file st l v).
    Proof. destruct v as [v|p]; cbn [rn_optx eval_optx]; [reflexivity|apply resolve_const_ref_rn]. Qed.
  End Res.

  (* ---------- pushing members, closing scopes ---------- *)
  Lemma field_numbers_rn m : field_numbers (rn_mem m) = field_numbers m.
  Proof.
    unfold field_numbers. induction m as [|nd r IH]; [reflexivity|].
    cbn [rn_mem map flat_map snd]. fold (rn_mem r). rewrite IH. destruct (snd nd); reflexivity.
  Qed.
  Lemma enum_values_rn m : enum_values (rn_mem m) = enum_values m.
  Proof.
    unfold enum_values. induction m as [|nd r IH]; [reflexivity|].
    cbn [rn_mem map flat_map snd]. fold (rn_mem r). rewrite IH. destruct (snd nd); reflexivity.
  Qed.
  Lemma msg_fields_rn m : msg_fields (rn_mem m) = msg_fields m.
  Proof.
    unfold msg_fields. induction m as [|nd r IH]; [reflexivity|].
    cbn [rn_mem map flat_map snd]. fold (rn_mem r). rewrite IH. destruct (snd nd); reflexivity.
  Qed.
  Lemma imported_files_rn m : imported_files (rn_mem m) = imported_files m.
  Proof.
    unfold imported_files. induction m as [|nd r IH]; [reflexivity|].
    cbn [rn_mem map flat_map snd]. fold (rn_mem r). rewrite IH. destruct (snd nd); reflexivity.
  Qed.
  Lemma rn_mem_rev m : rn_mem (rev m) = rev (rn_mem m).
  Proof. unfold rn_mem. now rewrite map_rev. Qed.

  Lemma validate_option_rn table a n v :
    rho n = n ->
    validate_option table (rn_loc a) (rho n) v = rn_res (fun u => u) (validate_option table a n v).
  Proof.
    intros ->. unfold validate_option. destruct (find_odesc n table) as [d|]; [|reflexivity].
    destruct (negb _); [reflexivity|]. destruct (od_validator d) as [f|], v as [b|z|s]; try reflexivity.
    destruct (f z); reflexivity.
  Qed.

  Definition is_option (d : def) : bool := match d with DOption _ _ => true | _ => false end.

  Lemma validate_on_push_rn f n d :
    (is_option d = true -> rho n = n) ->
    validate_on_push (rn_frame f) (rho n) (rn_def d) = rn_res (fun u => u) (validate_on_push f n d).
  Proof.
    intros Ho. unfold validate_on_push. rewrite def_loc_rn. unfold rn_frame. cbn [fk fmem].
    destruct (fk f) as [pn|a x|a w]; cbn [rn_fkind].
    - destruct d; try reflexivity. apply validate_option_rn. now apply Ho.
    - destruct d; try reflexivity.
      + apply validate_option_rn. now apply Ho.
      + cbn [rn_def def_loc]. rewrite field_numbers_rn. destruct (mem_z num _); reflexivity.
    - destruct d; try reflexivity. cbn [rn_def def_loc]. destruct (GenFront.enum_value_overflows v w); [reflexivity|].
      rewrite enum_values_rn. destruct (mem_z v _); reflexivity.
  Qed.

  Lemma push_member_rn f n d :
    (is_option d = true -> rho n = n) ->
    push_member (rn_frame f) (rho n) (rn_def d) = rn_res rn_frame (push_member f n d).
  Proof.
    intros Ho. unfold push_member. unfold rn_frame at 1. cbn [fmem]. rewrite has_name_rn.
    destruct (has_name n (fmem f)).
    { rewrite def_loc_rn. reflexivity. }
    change (mkframe (rn_fkind (fk f)) (rn_mem (fmem f))) with (rn_frame f).
    rewrite (validate_on_push_rn f n d Ho).
    destruct (validate_on_push f n d) as [[]|]; cbn [rn_res bind]; reflexivity.
  Qed.

  Lemma unsupported_rn f ik a : unsupported (rn_frame f) ik (rn_loc a) = rn_res (fun u => u) (unsupported f ik a).
  Proof. unfold unsupported, rn_frame. cbn [fk]. destruct (fk f), ik; reflexivity. Qed.

  Lemma push_then_rn f ik n d :
    (is_option d = true -> rho n = n) ->
    push_then (rn_frame f) ik (rho n) (rn_def d) = rn_res rn_frame (push_then f ik n d).
  Proof.
    intros Ho. unfold push_then. rewrite (push_member_rn f n d Ho).
    destruct (push_member f n d) as [f'|]; cbn [rn_res bind]; [|reflexivity].
    rewrite def_loc_rn, unsupported_rn. destruct (unsupported f ik (def_loc d)) as [[]|]; reflexivity.
  Qed.

  Hypothesis rho_max_bytes : rho GenFront.max_bytes_option_name = GenFront.max_bytes_option_name.

  Lemma max_bytes_of_rn m : max_bytes_of (rn_mem m) = max_bytes_of m.
  Proof.
    unfold max_bytes_of, option_value. rewrite <- rho_max_bytes at 1. rewrite assoc_rn.
    destruct (assoc GenFront.max_bytes_option_name m) as [d|]; [|reflexivity]. destruct d; reflexivity.
  Qed.

  Lemma close_msg_rn a x f : close_msg (rn_loc a) x (rn_frame f) = rn_res rn_def (close_msg a x f).
  Proof.
    unfold close_msg, rn_frame. cbn [fmem]. rewrite <- rn_mem_rev, msg_fields_rn, max_bytes_of_rn.
    destruct (GenFront.message_size_raises _); [reflexivity|].
    destruct (GenFront.message_max_bytes_raises _ _); [reflexivity|].
    cbn [rn_res]. now rewrite rn_def_msg.
  Qed.

  Lemma close_enum_rn a n f : close_enum (rn_loc a) n (rn_frame f) = rn_def (close_enum a n f).
  Proof.
    unfold close_enum, rn_frame. cbn [fmem]. rewrite <- rn_mem_rev, enum_values_rn. now rewrite rn_def_enum.
  Qed.

  Lemma last_frame_rn cur outer : last_frame (rn_frame cur) (map rn_frame outer) = rn_frame (last_frame cur outer).
  Proof. revert cur. induction outer as [|f r IH]; intros cur; [reflexivity|]. cbn [map last_frame]. apply IH. Qed.

  Lemma rn_res_bind {A B} (g : A -> A) (h : B -> B) (r : res A) (k : A -> res B) (k' : A -> res B) :
    (forall a, k' (g a) = rn_res h (k a)) ->
    bind (rn_res g r) k' = rn_res h (bind r k).
  Proof. intros H. destruct r as [a|]; cbn [rn_res bind]; [apply H|reflexivity]. Qed.

  (* ---------- statements ---------- *)
  Section Proc.
    Variable pc pc' : list string -> string -> res def.
    Variable kf kf' : string -> bool.
    Hypothesis Hkf : forall g, kf' g = kf g.
    Variable trad : bool.
    Variable file : string.
    Variable fstack : list string.
    Hypothesis Hpc : forall g, pc' fstack g = rn_res rn_def (pc fstack g).
    Hypothesis Hpc_proto : forall g d, pc fstack g = Ok d -> exists f n m, d = DProto f n m.

    Notation PI := (proc_item pc kf trad file fstack).
    Notation PI' := (proc_item pc' kf' trad file fstack).
    Notation PIS := (proc_items pc kf trad file fstack).
    Notation PIS' := (proc_items pc' kf' trad file fstack).

    Lemma mkloc_rn l : mkloc file (lam file l) = rn_loc (mkloc file l).
    Proof. reflexivity. Qed.

    Lemma proc_item_rn : forall it outer cur,
      opt_fixed it ->
      PI' (map rn_frame outer) (rn_frame cur) (rn_item file it) = rn_res rn_frame (PI outer cur it).
    Proof.
      induction it as [l nm|l a g|l nm v|l nm v|l nm t|l nm b body IH|l nm x body IH|l t nm k|l nm v]
        using item_ind'; intros outer cur Hof.
      - (* proto *)
        cbn [rn_item proc_item]. unfold rn_frame at 1. cbn [fk fmem].
        destruct (fk cur); cbn [rn_fkind]; reflexivity.
      - (* import *)
        cbn [rn_item proc_item]. rewrite Hkf. destruct (negb (kf g)); [cbn [rn_res]; now rewrite lam0|].
        destruct (mem_s g fstack); [reflexivity|].
        rewrite last_frame_rn. unfold rn_frame at 1. cbn [fmem]. rewrite imported_files_rn.
        destruct (mem_s g (imported_files (fmem (last_frame cur outer)))); [reflexivity|].
        rewrite Hpc. destruct (pc fstack g) as [child|k0 f0 l0] eqn:Ep; cbn [rn_res bind]; [|reflexivity].
        destruct (Hpc_proto _ _ Ep) as [cf [cn [cm ->]]]. rewrite rn_def_proto.
        set (name := match a with Some n => n | None => cn end).
        assert (En : match option_map rho a with Some n => n | None => rho cn end = rho name)
          by (destruct a; reflexivity).
        rewrite En. unfold rn_frame at 1. cbn [fmem]. rewrite has_name_rn.
        change (match a with Some n => n | None => cn end) with name.
        destruct (has_name name (fmem (last_frame cur outer))); [reflexivity|].
        rewrite <- rn_def_proto. rewrite push_member_rn by (intros H; discriminate).
        destruct (push_member cur name (DProto cf cn cm)) as [f'|]; cbn [rn_res bind]; [|reflexivity].
        unfold rn_frame at 1. cbn [fk]. destruct (fk cur); cbn [rn_fkind rn_res]; reflexivity.
      - (* option *)
        cbn [rn_item proc_item]. cbn [opt_fixed] in Hof.
        change (rn_frame cur :: map rn_frame outer) with (map rn_frame (cur :: outer)).
        rewrite eval_optx_rn. apply rn_res_bind. intros cv. rewrite mkloc_rn.
        change (DOption (rn_loc (mkloc file l)) cv) with (rn_def (DOption (mkloc file l) cv)).
        apply push_then_rn. intros _. exact Hof.
      - (* const *)
        cbn [rn_item proc_item].
        change (rn_frame cur :: map rn_frame outer) with (map rn_frame (cur :: outer)).
        rewrite eval_cvalx_rn. apply rn_res_bind. intros cv. rewrite mkloc_rn.
        change (DConst (rn_loc (mkloc file l)) cv) with (rn_def (DConst (mkloc file l) cv)).
        apply push_then_rn. intros H; discriminate.
      - (* alias *)
        cbn [rn_item proc_item].
        change (rn_frame cur :: map rn_frame outer) with (map rn_frame (cur :: outer)).
        rewrite resolve_tyx_rn. apply rn_res_bind. intros tr. rewrite mkloc_rn.
        assert (E : push_then (rn_frame cur) IKAlias (rho nm)
                      (DAlias (rn_loc (mkloc file l)) (fst (rn_tr tr)) (snd (rn_tr tr))) =
                    rn_res rn_frame (push_then cur IKAlias nm (DAlias (mkloc file l) (fst tr) (snd tr)))).
        { change (DAlias (rn_loc (mkloc file l)) (fst (rn_tr tr)) (snd (rn_tr tr)))
            with (rn_def (DAlias (mkloc file l) (fst tr) (snd tr))).
          apply push_then_rn. intros H; discriminate. }
        destruct t as [[| | | |p]|]; cbn [rn_tyx rn_sty]; try exact E. reflexivity.
      - (* enum *)
        destruct b as [| |w|w|p].
        1,2,5: cbn [rn_item rn_sty proc_item lex_then_grammar]; reflexivity.
        2:{ cbn [rn_item rn_sty proc_item lex_then_grammar]. destruct (GenFront.int_cap_raises w); reflexivity. }
        cbn [rn_item rn_sty].
        rewrite !proc_item_enum. destruct (GenFront.uint_cap_raises w); [reflexivity|].
        change (rn_frame cur :: map rn_frame outer) with (map rn_frame (cur :: outer)).
        assert (Eb : forall f0, PIS' (map rn_frame (cur :: outer)) (rn_frame f0) (map (rn_item file) body) =
                                rn_res rn_frame (PIS (cur :: outer) f0 body)).
        { cbn [opt_fixed] in Hof. induction body as [|i r IHr]; intros f0; [reflexivity|].
          inversion IH as [|? ? Hi Hr]; subst. destruct Hof as [Ho1 Ho2].
          change (map (rn_item file) (i :: r)) with (rn_item file i :: map (rn_item file) r).
          cbn [proc_items]. rewrite (Hi (cur :: outer) f0 Ho1).
          destruct (PI (cur :: outer) f0 i); cbn [rn_res bind]; [now apply IHr|reflexivity]. }
        rewrite mkloc_rn.
        change (mkframe (FEnum (rn_loc (mkloc file l)) w) []) with (rn_frame (mkframe (FEnum (mkloc file l) w) [])).
        rewrite Eb. destruct (PIS (cur :: outer) _ body) as [fr|]; cbn [rn_res bind]; [|reflexivity].
        rewrite close_enum_rn. apply push_then_rn. intros H; discriminate.
      - (* message *)
        cbn [rn_item].
        rewrite !proc_item_msg. destruct (x && trad); [reflexivity|].
        change (rn_frame cur :: map rn_frame outer) with (map rn_frame (cur :: outer)).
        assert (Eb : forall f0, PIS' (map rn_frame (cur :: outer)) (rn_frame f0) (map (rn_item file) body) =
                                rn_res rn_frame (PIS (cur :: outer) f0 body)).
        { cbn [opt_fixed] in Hof. induction body as [|i r IHr]; intros f0; [reflexivity|].
          inversion IH as [|? ? Hi Hr]; subst. destruct Hof as [Ho1 Ho2].
          change (map (rn_item file) (i :: r)) with (rn_item file i :: map (rn_item file) r).
          cbn [proc_items]. rewrite (Hi (cur :: outer) f0 Ho1).
          destruct (PI (cur :: outer) f0 i); cbn [rn_res bind]; [now apply IHr|reflexivity]. }
        rewrite mkloc_rn.
        change (mkframe (FMsg (rn_loc (mkloc file l)) x) []) with (rn_frame (mkframe (FMsg (mkloc file l) x) [])).
        rewrite Eb. destruct (PIS (cur :: outer) _ body) as [fr|]; cbn [rn_res bind]; [|reflexivity].
        rewrite close_msg_rn. destruct (close_msg (mkloc file l) x fr) as [d|] eqn:Ec; cbn [rn_res bind]; [|reflexivity].
        apply close_msg_fields in Ec. subst d. apply push_then_rn. intros H; discriminate.
      - (* field *)
        cbn [rn_item proc_item]. unfold is_proto_frame, rn_frame at 1. cbn [fk].
        destruct (fk cur) eqn:Efk; cbn [rn_fkind].
        { unfold lex_then_grammar. destruct t as [s|s c x0]; cbn [rn_tyx tyx_head];
            destruct s; cbn [rn_sty]; try reflexivity;
            match goal with |- context [if ?c then _ else _] => destruct c end; reflexivity. }
        all: change (rn_frame cur :: map rn_frame outer) with (map rn_frame (cur :: outer));
             rewrite resolve_tyx_rn; apply rn_res_bind; intros tr;
             destruct (GenFront.field_number_raises k); [reflexivity|];
             rewrite mkloc_rn;
             change (DField (rn_loc (mkloc file l)) k (fst (rn_tr tr)) (snd (rn_tr tr)))
               with (rn_def (DField (mkloc file l) k (fst tr) (snd tr)));
             apply push_then_rn; intros H; discriminate.
      - (* enum member *)
        cbn [rn_item proc_item]. unfold is_enum_frame, rn_frame at 1. cbn [fk].
        destruct (fk cur); cbn [rn_fkind negb]; try reflexivity.
        destruct (GenFront.enum_value_raises v); [reflexivity|]. rewrite mkloc_rn.
        change (DEnumField (rn_loc (mkloc file l)) v) with (rn_def (DEnumField (mkloc file l) v)).
        apply push_member_rn. intros H; discriminate.
    Qed.

    Lemma proc_items_rn : forall its outer cur,
      (forall it, In it its -> opt_fixed it) ->
      PIS' (map rn_frame outer) (rn_frame cur) (map (rn_item file) its) = rn_res rn_frame (PIS outer cur its).
    Proof.
      induction its as [|i r IH]; intros outer cur Hof; [reflexivity|].
      cbn [map proc_items]. rewrite proc_item_rn by (apply Hof; now left).
      destruct (PI outer cur i); cbn [rn_res bind]; [|reflexivity].
      apply IH. intros it Hin. apply Hof. now right.
    Qed.
  End Proc.

  (* ---------- files ---------- *)
  Lemma assoc_rn_files f fs : assoc f (rn_files fs) = option_map (map (rn_item f)) (assoc f fs).
  Proof.
    induction fs as [|kf r IH]; [reflexivity|].
    cbn [rn_files map assoc fst snd]. destruct (String.eqb_spec (fst kf) f) as [->|N]; [reflexivity|exact IH].
  Qed.

  Lemma known_rn_files fs g : known (rn_files fs) g = known fs g.
  Proof. unfold known. rewrite assoc_rn_files. destruct (assoc g fs); reflexivity. Qed.

  Lemma parse_file_proto' fs trad n stk g d :
    parse_file n fs trad stk g = Ok d -> exists f nm m, d = DProto f nm m.
  Proof.
    destruct n; [discriminate|]. cbn [parse_file]. destruct (assoc g fs); [|discriminate].
    destruct (proc_items _ _ _ _ _ _ _ _) as [fr|]; cbn [bind]; [|discriminate].
    destruct (fk fr) as [[nm|]| |]; try discriminate. intros H; inversion H. eauto.
  Qed.

  Theorem parse_file_rn fs trad : opts_fixed fs -> forall n fstack f,
    parse_file n (rn_files fs) trad fstack f = rn_res rn_def (parse_file n fs trad fstack f).
  Proof.
    intros Hof. induction n as [|n IH]; intros fstack f.
    - cbn [parse_file rn_res]. now rewrite lam0.
    - cbn [parse_file]. rewrite assoc_rn_files. destruct (assoc f fs) as [its|] eqn:Ea; cbn [option_map].
      2:{ cbn [rn_res]. now rewrite lam0. }
      assert (Hin : forall it, In it its -> opt_fixed it).
      { intros it Hit. apply (Hof f its it); [|exact Hit].
        clear - Ea. induction fs as [|kf r IHr]; [discriminate|].
        cbn [assoc] in Ea. destruct (String.eqb_spec (fst kf) f) as [E|N].
        - inversion Ea; subst. left. now destruct kf.
        - right. now apply IHr. }
      pose proof (proc_items_rn (parse_file n fs trad) (parse_file n (rn_files fs) trad) (known fs) (known (rn_files fs))
                    (known_rn_files fs) trad f (f :: fstack)
                    (fun g => IH (f :: fstack) g)
                    (fun g d => parse_file_proto' fs trad n (f :: fstack) g d)
                    its [] (mkframe (FProto None) []) Hin) as Hp.
      cbn [map] in Hp. change (rn_frame (mkframe (FProto None) [])) with (mkframe (FProto None) []) in Hp.
      rewrite Hp.
      destruct (proc_items (parse_file n fs trad) (known fs) trad f (f :: fstack) [] _ its) as [fr|]; cbn [rn_res bind]; [|reflexivity].
      unfold rn_frame. cbn [fk fmem]. destruct (fk fr) as [[nm|]| |]; cbn [rn_fkind option_map rn_res]; try (now rewrite lam0).
      now rewrite rn_def_proto, rn_mem_rev.
  Qed.
End Rename.

(* ------------------------------------------------------------------------------------ *)
(* check commutes with renaming + relabelling of lines                                    *)
(* ------------------------------------------------------------------------------------ *)

Section Top.
  Variable rho : string -> string.
  Variable lam : string -> Z -> Z.
  Hypothesis rho_inj : forall a b, rho a = rho b -> a = b.
  Hypothesis lam0 : forall f, lam f 0 = 0.
  Hypothesis rho_max_bytes : rho GenFront.max_bytes_option_name = GenFront.max_bytes_option_name.

  Lemma rn_files_length fs : List.length (rn_files rho lam fs) = List.length fs.
  Proof. unfold rn_files. apply map_length. Qed.

  Theorem check_rn fs root trad :
    opts_fixed rho fs ->
    check (rn_files rho lam fs) root trad = rn_res lam (rn_def rho lam) (check fs root trad).
  Proof.
    intros Hof. unfold check. rewrite rn_files_length.
    now apply parse_file_rn.
  Qed.

  Lemma msg_ty_at_rn e p :
    msg_ty_at (Ok (rn_def rho lam e)) (rn_path rho p) = msg_ty_at (Ok e) p.
  Proof.
    destruct e; try reflexivity. rewrite rn_def_proto. cbn [msg_ty_at].
    rewrite (get_member_rn rho lam rho_inj). destruct (get_member mem p) as [d|]; [|reflexivity].
    destruct d; reflexivity.
  Qed.

  (* the rewritten schema is accepted whenever the original is, and every message elaborates
     to the SAME resolved type (hence the same bytes for every value: the value map is the
     identity) *)
  Theorem rn_preserves_types fs root trad e :
    opts_fixed rho fs ->
    check fs root trad = Ok e ->
    exists e', check (rn_files rho lam fs) root trad = Ok e' /\
               forall p, msg_ty_at (Ok e') (rn_path rho p) = msg_ty_at (Ok e) p.
  Proof.
    intros Hof H. exists (rn_def rho lam e). split.
    - rewrite (check_rn fs root trad Hof), H. reflexivity.
    - intros p. apply msg_ty_at_rn.
  Qed.

  (* and rejected whenever the original is, with the same error class at the corresponding line *)
  Theorem rn_preserves_rejection fs root trad k f l :
    opts_fixed rho fs ->
    check fs root trad = Err k f l ->
    check (rn_files rho lam fs) root trad = Err k f (lam f l).
  Proof. intros Hof H. rewrite (check_rn fs root trad Hof), H. reflexivity. Qed.
End Top.

(* trivia: any relabelling of lines (identity on names) *)
Lemma opt_fixed_id it : opt_fixed (fun s => s) it.
Proof.
  induction it as [l nm|l a g|l nm v|l nm v|l nm t|l nm b body IH|l nm x body IH|l t nm k|l nm v] using item_ind';
    cbn [opt_fixed]; try exact I; try reflexivity.
  - induction body as [|i r IHr]; [exact I|]. inversion IH; subst. split; [assumption|now apply IHr].
  - induction body as [|i r IHr]; [exact I|]. inversion IH; subst. split; [assumption|now apply IHr].
Qed.

Definition relabel (lam : string -> Z -> Z) : files -> files := rn_files (fun s => s) lam.

Theorem trivia_preserves_types lam fs root trad e :
  (forall f, lam f 0 = 0) ->
  check fs root trad = Ok e ->
  exists e', check (relabel lam fs) root trad = Ok e' /\
             forall p, msg_ty_at (Ok e') p = msg_ty_at (Ok e) p.
Proof.
  intros L0 H.
  destruct (rn_preserves_types (fun s => s) lam (fun a b E => E) L0 eq_refl fs root trad e) as [e' [H1 H2]].
  - intros k its it _ _. apply opt_fixed_id.
  - exact H.
  - exists e'. split; [exact H1|]. intros p. specialize (H2 p). unfold rn_path in H2. now rewrite map_id in H2.
Qed.

(* renaming: lines untouched *)
Definition rename (rho : string -> string) : files -> files := rn_files rho (fun _ l => l).

Theorem rename_preserves_types rho fs root trad e :
  (forall a b, rho a = rho b -> a = b) ->
  rho GenFront.max_bytes_option_name = GenFront.max_bytes_option_name ->
  opts_fixed rho fs ->
  check fs root trad = Ok e ->
  exists e', check (rename rho fs) root trad = Ok e' /\
             forall p, msg_ty_at (Ok e') (map rho p) = msg_ty_at (Ok e) p.
Proof.
  intros Hi Hm Hof H. exact (rn_preserves_types rho (fun _ l => l) Hi (fun _ => eq_refl) Hm fs root trad e Hof H).
Qed.
