(* FrontProofs.v — lemmas about the front-end model Front.v (kept apart from the model so
   that the model still evaluates when a proof breaks). *)
From Coq Require Import ZArith List Bool String Lia.
From BP Require Import Schema FrontBase Front.
From BPGen Require GenFront.
Import ListNotations.
Open Scope Z_scope.

(* ------------------------------------------------------------------------------------ *)
(* induction principle for the nested [item] type                                         *)
(* ------------------------------------------------------------------------------------ *)

Section item_ind'.
  Variable P : item -> Prop.
  Hypothesis HProto : forall l n, P (IProto l n).
  Hypothesis HImport : forall l a g, P (IImport l a g).
  Hypothesis HOption : forall l n v, P (IOption l n v).
  Hypothesis HConst : forall l n v, P (IConst l n v).
  Hypothesis HAlias : forall l n t, P (IAlias l n t).
  Hypothesis HEnum : forall l n b body, Forall P body -> P (IEnum l n b body).
  Hypothesis HMsg : forall l n x body, Forall P body -> P (IMsg l n x body).
  Hypothesis HField : forall l t n k, P (IField l t n k).
  Hypothesis HEnumField : forall l n v, P (IEnumField l n v).

  Fixpoint item_ind' (it : item) : P it :=
    match it with
    | IProto l n => HProto l n
    | IImport l a g => HImport l a g
    | IOption l n v => HOption l n v
    | IConst l n v => HConst l n v
    | IAlias l n t => HAlias l n t
    | IEnum l n b body =>
        HEnum l n b body
          ((fix go (its : list item) : Forall P its :=
              match its with
              | [] => Forall_nil _
              | i :: r => Forall_cons i (item_ind' i) (go r)
              end) body)
    | IMsg l n x body =>
        HMsg l n x body
          ((fix go (its : list item) : Forall P its :=
              match its with
              | [] => Forall_nil _
              | i :: r => Forall_cons i (item_ind' i) (go r)
              end) body)
    | IField l t n k => HField l t n k
    | IEnumField l n v => HEnumField l n v
    end.
End item_ind'.

(* ------------------------------------------------------------------------------------ *)
(* unfolding lemmas: the inner loops of proc_item are proc_items                          *)
(* ------------------------------------------------------------------------------------ *)

Section Unfold.
  Variable pc : list string -> string -> res def.
  Variable kf : string -> bool.
  Variable trad : bool.
  Variable file : string.
  Variable fstack : list string.

  Notation PI := (proc_item pc kf trad file fstack).
  Notation PIS := (proc_items pc kf trad file fstack).

  Lemma inner_loop st body : forall f,
    (fix go (its : list item) (f : frame) : res frame :=
       match its with
       | [] => Ok f
       | i :: r => do f' <- PI st f i; go r f'
       end) body f = PIS st f body.
  Proof.
    induction body as [|i r IH]; intros f; [reflexivity|].
    cbn [proc_items]. destruct (PI st f i); cbn [bind]; [apply IH|reflexivity].
  Qed.

  Lemma proc_item_msg outer cur l name ext body :
    PI outer cur (IMsg l name ext body) =
    if ext && trad then Err KExtensibleInTraditional file l else
    do fr <- PIS (cur :: outer) (mkframe (FMsg (mkloc file l) ext) []) body;
    do d <- close_msg (mkloc file l) ext fr;
    push_then cur IKMsg name d.
  Proof.
    cbn [proc_item]. destruct (ext && trad); [reflexivity|]. now rewrite inner_loop.
  Qed.

  Lemma proc_item_enum outer cur l name n body :
    PI outer cur (IEnum l name (SUint n) body) =
    if GenFront.uint_cap_raises n then Err KInvalidUintCap file l else
    do fr <- PIS (cur :: outer) (mkframe (FEnum (mkloc file l) n) []) body;
    push_then cur IKEnum name (close_enum (mkloc file l) n fr).
  Proof.
    cbn [proc_item]. destruct (GenFront.uint_cap_raises n); [reflexivity|]. now rewrite inner_loop.
  Qed.

  Lemma proc_items_app outer cur pre post :
    PIS outer cur (pre ++ post) = do f <- PIS outer cur pre; PIS outer f post.
  Proof.
    revert cur. induction pre as [|i r IH]; intros cur; [reflexivity|].
    cbn [app proc_items]. destruct (PI outer cur i); cbn [bind]; [apply IH|reflexivity].
  Qed.

  Lemma proc_items_cons outer cur i r :
    PIS outer cur (i :: r) = do f <- PI outer cur i; PIS outer f r.
  Proof. reflexivity. Qed.
End Unfold.

(* ------------------------------------------------------------------------------------ *)
(* C11: lookup                                                                            *)
(* ------------------------------------------------------------------------------------ *)

(* scope number k of the stack (0 = innermost) resolves the whole dotted path to d *)
Definition resolves_in (st : list frame) (k : nat) (p : path) (d : def) : Prop :=
  exists f, nth_error st k = Some f /\ get_member (fmem f) p = Some d.

Definition resolves_none (st : list frame) (k : nat) (p : path) : Prop :=
  forall f, nth_error st k = Some f -> get_member (fmem f) p = None.

Theorem lookup_innermost st p d :
  lookup st p = Some d <->
  exists k, resolves_in st k p d /\ forall k', (k' < k)%nat -> resolves_none st k' p.
Proof.
  revert d. induction st as [|f r IH]; intros d; cbn [lookup].
  - split; [discriminate|]. intros [k [[f [Hn _]] _]]. destruct k; discriminate.
  - destruct (get_member (fmem f) p) as [d0|] eqn:E.
    + split.
      * intros H. inversion H; subst. exists O. split; [exists f; now split|]. intros k' Hk. lia.
      * intros [k [[f' [Hn Hg]] Hlt]]. destruct k as [|k].
        -- cbn [nth_error] in Hn. inversion Hn; subst. congruence.
        -- exfalso. specialize (Hlt O (Nat.lt_0_succ k) f eq_refl). congruence.
    + rewrite IH. split.
      * intros [k [[f' [Hn Hg]] Hlt]]. exists (S k). split; [exists f'; now split|].
        intros k' Hk f'' Hn'. destruct k' as [|k'].
        -- cbn [nth_error] in Hn'. inversion Hn'; subst. exact E.
        -- apply (Hlt k'); [lia|exact Hn'].
      * intros [k [[f' [Hn Hg]] Hlt]]. destruct k as [|k].
        -- cbn [nth_error] in Hn. inversion Hn; subst. congruence.
        -- exists k. split; [exists f'; now split|].
           intros k' Hk f'' Hn'. apply (Hlt (S k')); [lia|exact Hn'].
Qed.

(* "the innermost scope that declares the first component" *)
Definition declares (f : frame) (n : string) : bool := has_name n (fmem f).

Definition first_declaring (st : list frame) (k : nat) (n : string) : Prop :=
  (exists f, nth_error st k = Some f /\ declares f n = true) /\
  forall k' f', (k' < k)%nat -> nth_error st k' = Some f' -> declares f' n = false.

Lemma get_member_head mem n rest d :
  get_member mem (n :: rest) = Some d -> has_name n mem = true.
Proof.
  cbn [get_member]. unfold has_name. destruct (assoc n mem); [reflexivity|discriminate].
Qed.

Lemma get_member_undeclared mem n rest :
  has_name n mem = false -> get_member mem (n :: rest) = None.
Proof.
  cbn [get_member]. unfold has_name. destruct (assoc n mem); [discriminate|reflexivity].
Qed.

(* the code's rule (innermost scope in which the WHOLE path resolves) coincides with the
   reading "innermost scope declaring the first component" whenever that scope's
   declaration contains the rest of the path *)
Theorem lookup_first_component st n rest k d :
  first_declaring st k n ->
  resolves_in st k (n :: rest) d ->
  lookup st (n :: rest) = Some d.
Proof.
  intros [_ Hfirst] Hres. apply lookup_innermost. exists k. split; [exact Hres|].
  intros k' Hk f' Hn. apply get_member_undeclared. now apply (Hfirst k' f').
Qed.

(* conversely the scope that answers declares the first component, and no scope inside it
   resolves the whole path; scopes inside it MAY declare the first component (fall-through) *)
Theorem lookup_declares st n rest d :
  lookup st (n :: rest) = Some d ->
  exists k f, nth_error st k = Some f /\ declares f n = true /\ get_member (fmem f) (n :: rest) = Some d.
Proof.
  intros H. apply lookup_innermost in H. destruct H as [k [[f [Hn Hg]] _]].
  exists k, f. repeat split; try assumption. now apply get_member_head in Hg.
Qed.

(* for an undotted name the two readings always coincide *)
Theorem lookup_simple_name st n d :
  lookup st [n] = Some d <->
  exists k f, first_declaring st k n /\ nth_error st k = Some f /\ assoc n (fmem f) = Some d.
Proof.
  rewrite lookup_innermost. split.
  - intros [k [[f [Hn Hg]] Hlt]]. exists k, f. split; [|split; [exact Hn|]].
    + split; [exists f; split; [exact Hn|now apply get_member_head in Hg]|].
      intros k' f' Hk Hn'. specialize (Hlt k' Hk f' Hn'). cbn [get_member] in Hlt.
      unfold declares, has_name. destruct (assoc n (fmem f')); [discriminate|reflexivity].
    + cbn [get_member] in Hg. destruct (assoc n (fmem f)); [exact Hg|discriminate].
  - intros [k [f [[_ Hfirst] [Hn Ha]]]]. exists k. split.
    + exists f. split; [exact Hn|]. cbn [get_member]. now rewrite Ha.
    + intros k' Hk f' Hn'. apply get_member_undeclared. now apply (Hfirst k' f').
Qed.

(* ------------------------------------------------------------------------------------ *)
(* C11: the resolved definition is the one whose type the field gets                      *)
(* ------------------------------------------------------------------------------------ *)

Lemma resolve_type_ref_spec file st l p t r :
  resolve_type_ref file st l p = Ok (t, r) <->
  exists d, lookup st p = Some d /\ def_type d = Some t /\ r = Some (def_loc d).
Proof.
  unfold resolve_type_ref. destruct (lookup st p) as [d|].
  - destruct (def_type d) as [t0|] eqn:E.
    + split.
      * intros H. inversion H; subst. exists d. now repeat split.
      * intros [d' [H1 [H2 H3]]]. inversion H1; subst. congruence.
    + split; [discriminate|]. intros [d' [H1 [H2 _]]]. inversion H1; subst. congruence.
  - split; [discriminate|]. intros [d' [H1 _]]. discriminate.
Qed.

Lemma push_member_ok f name d f' :
  push_member f name d = Ok f' -> fk f' = fk f /\ fmem f' = (name, d) :: fmem f /\ has_name name (fmem f) = false.
Proof.
  unfold push_member. destruct (has_name name (fmem f)); [discriminate|].
  destruct (validate_on_push f name d); cbn [bind]; [|discriminate].
  intros H. inversion H; subst. now repeat split.
Qed.

Lemma push_then_ok f ik name d f' :
  push_then f ik name d = Ok f' -> fk f' = fk f /\ fmem f' = (name, d) :: fmem f /\ has_name name (fmem f) = false.
Proof.
  unfold push_then. destruct (push_member f name d) as [f0|] eqn:E; cbn [bind]; [|discriminate].
  destruct (unsupported f ik (def_loc d)); cbn [bind]; [|discriminate].
  intros H. inversion H; subst. now apply push_member_ok.
Qed.

Section TypeUsed.
  Variable pc : list string -> string -> res def.
  Variable kf : string -> bool.
  Variable trad : bool.
  Variable file : string.
  Variable fstack : list string.

  (* a field whose type is a (dotted) name: the member pushed into the message carries the
     type of exactly the definition lookup returns, and records where that definition is *)
  Theorem field_type_used outer cur l p name num cur' :
    proc_item pc kf trad file fstack outer cur (IField l (XSingle (SRef p)) name num) = Ok cur' ->
    exists d t,
      lookup (cur :: outer) p = Some d /\ def_type d = Some t /\
      fmem cur' = (name, DField (mkloc file l) num t (Some (def_loc d))) :: fmem cur.
  Proof.
    cbn [proc_item]. destruct (is_proto_frame cur); [cbn; discriminate|].
    cbn [resolve_tyx resolve_sty].
    destruct (resolve_type_ref file (cur :: outer) l p) as [[t r]|] eqn:E; cbn [bind]; [|discriminate].
    destruct (GenFront.field_number_raises num); [discriminate|].
    intros H. apply push_then_ok in H. destruct H as [_ [H _]].
    apply resolve_type_ref_spec in E. destruct E as [d [H1 [H2 H3]]]. subst r.
    exists d, t. cbn [fst snd] in H. now repeat split.
  Qed.

  (* the same for an array of a named element type *)
  Theorem field_array_type_used outer cur l p c ext name num cur' :
    proc_item pc kf trad file fstack outer cur (IField l (XArr (SRef p) c ext) name num) = Ok cur' ->
    exists d t n,
      lookup (cur :: outer) p = Some d /\ def_type d = Some t /\
      resolve_cap file (cur :: outer) l c = Ok n /\
      fmem cur' = (name, DField (mkloc file l) num (TArr ext (Z.to_nat n) t) (Some (def_loc d))) :: fmem cur.
  Proof.
    cbn [proc_item]. destruct (is_proto_frame cur); [cbn; discriminate|].
    cbn [resolve_tyx resolve_sty].
    destruct (resolve_type_ref file (cur :: outer) l p) as [[t r]|] eqn:E; cbn [bind]; [|discriminate].
    destruct (resolve_cap file (cur :: outer) l c) as [n|] eqn:Ec; cbn [bind]; [|discriminate].
    destruct (ext && trad); cbn [bind]; [discriminate|].
    destruct (GenFront.array_cap_raises n); cbn [bind]; [discriminate|].
    destruct (GenFront.field_number_raises num); [discriminate|].
    intros H. apply push_then_ok in H. destruct H as [_ [H _]].
    apply resolve_type_ref_spec in E. destruct E as [d [H1 [H2 H3]]]. subst r.
    exists d, t, n. cbn [fst snd] in H. now repeat split.
  Qed.
End TypeUsed.

(* the message's elaborated type lists exactly its field members, in declaration order *)
Lemma close_msg_fields a ext f d :
  close_msg a ext f = Ok d ->
  d = DMsg a (TMsg ext (msg_fields (rev (fmem f)))) (rev (fmem f)).
Proof.
  unfold close_msg. destruct (GenFront.message_size_raises _); [discriminate|].
  destruct (GenFront.message_max_bytes_raises _ _); [discriminate|]. intros H. now inversion H.
Qed.

Lemma msg_fields_in mem name a num t r :
  In (name, DField a num t r) mem -> In (num, t) (msg_fields mem).
Proof.
  intros H. unfold msg_fields. apply in_flat_map. exists (name, DField a num t r). split; [exact H|].
  cbn [snd]. now left.
Qed.

(* ------------------------------------------------------------------------------------ *)
(* C11: only definitions that textually precede the use are visible                       *)
(* ------------------------------------------------------------------------------------ *)

Lemma has_name_cons n name (d : def) mem :
  has_name n ((name, d) :: mem) = true -> name = n \/ has_name n mem = true.
Proof.
  unfold has_name. cbn [assoc fst snd]. destruct (String.eqb_spec name n) as [->|_]; [now left|now right].
Qed.

Section Reach.
  Variable pc : list string -> string -> res def.
  Variable kf : string -> bool.
  Variable trad : bool.
  Variable file : string.
  Variable fstack : list string.

  Notation PI := (proc_item pc kf trad file fstack).
  Notation PIS := (proc_items pc kf trad file fstack).

  (* [binds it n]: the statement [it] declares the name n in the scope it is a member of *)
  Definition binds (it : item) (n : string) : Prop :=
    match it with
    | IProto _ _ => False
    | IImport _ (Some a) _ => n = a
    | IImport _ None g => exists stk f m, pc stk g = Ok (DProto f n m) \/ n = EmptyString
    | IOption _ x _ | IConst _ x _ | IAlias _ x _ | IEnum _ x _ _ | IMsg _ x _ _
    | IEnumField _ x _ => n = x
    | IField _ _ x _ => n = x
    end.

  Lemma proc_item_binds outer cur it cur' :
    PI outer cur it = Ok cur' ->
    forall n, has_name n (fmem cur') = true -> has_name n (fmem cur) = true \/ binds it n.
  Proof.
    destruct it as [l nm|l a g|l nm v|l nm v|l nm t|l nm b body|l nm x body|l t nm k|l nm v]; intros H n Hn.
    - cbn [proc_item] in H. destruct (fk cur); inversion H; subst; cbn [fmem] in Hn; now left.
    - cbn [proc_item] in H.
      destruct (negb (kf g)); [discriminate|]. destruct (mem_s g fstack); [discriminate|].
      destruct (mem_s g _); [discriminate|].
      destruct (pc fstack g) as [child|] eqn:Ec; cbn [bind] in H; [|discriminate].
      match type of H with (if has_name ?nm _ then _ else _) = _ => set (name := nm) in * end.
      destruct (has_name name _); [discriminate|].
      destruct (push_member cur name child) as [f'|] eqn:Ep; cbn [bind] in H; [|discriminate].
      apply push_member_ok in Ep. destruct Ep as [_ [Em _]].
      assert (cur' = f') by (destruct (fk cur); inversion H; reflexivity). subst f'.
      rewrite Em in Hn. apply has_name_cons in Hn. destruct Hn as [<-|Hn]; [right|now left].
      cbn [binds]. subst name. destruct a as [a|]; [reflexivity|].
      destruct child; try (exists fstack, EmptyString, []; now right).
      exists fstack, file0, mem. now left.
    - cbn [proc_item] in H. destruct (eval_optx _ _ _ _); cbn [bind] in H; [|discriminate].
      apply push_then_ok in H. destruct H as [_ [Em _]]. rewrite Em in Hn.
      apply has_name_cons in Hn. destruct Hn as [<-|Hn]; [now right|now left].
    - cbn [proc_item] in H. destruct (eval_cvalx _ _ _ _); cbn [bind] in H; [|discriminate].
      apply push_then_ok in H. destruct H as [_ [Em _]]. rewrite Em in Hn.
      apply has_name_cons in Hn. destruct Hn as [<-|Hn]; [now right|now left].
    - cbn [proc_item] in H. destruct (resolve_tyx _ _ _ _ _); cbn [bind] in H; [|discriminate].
      assert (Hp : push_then cur IKAlias nm (DAlias (mkloc file l) (fst a) (snd a)) = Ok cur').
      { destruct t as [[| | | |p]|]; try exact H. discriminate. }
      apply push_then_ok in Hp. destruct Hp as [_ [Em _]]. rewrite Em in Hn.
      apply has_name_cons in Hn. destruct Hn as [<-|Hn]; [now right|now left].
    - destruct b as [| |w|w|p]; try (cbn in H; repeat match type of H with (if ?c then _ else _) = _ => destruct c end; discriminate).
      rewrite proc_item_enum in H. destruct (GenFront.uint_cap_raises w); [discriminate|].
      destruct (PIS _ _ body); cbn [bind] in H; [|discriminate].
      apply push_then_ok in H. destruct H as [_ [Em _]]. rewrite Em in Hn.
      apply has_name_cons in Hn. destruct Hn as [<-|Hn]; [now right|now left].
    - rewrite proc_item_msg in H. destruct (x && trad); [discriminate|].
      destruct (PIS _ _ body); cbn [bind] in H; [|discriminate].
      destruct (close_msg _ _ _); cbn [bind] in H; [|discriminate].
      apply push_then_ok in H. destruct H as [_ [Em _]]. rewrite Em in Hn.
      apply has_name_cons in Hn. destruct Hn as [<-|Hn]; [now right|now left].
    - cbn [proc_item] in H. destruct (is_proto_frame cur).
      { unfold lex_then_grammar in H. destruct (tyx_head t); try discriminate;
          match type of H with (if ?c then _ else _) = _ => destruct c end; discriminate. }
      destruct (resolve_tyx _ _ _ _ _); cbn [bind] in H; [|discriminate].
      destruct (GenFront.field_number_raises k); [discriminate|].
      apply push_then_ok in H. destruct H as [_ [Em _]]. rewrite Em in Hn.
      apply has_name_cons in Hn. destruct Hn as [<-|Hn]; [now right|now left].
    - cbn [proc_item] in H. destruct (negb (is_enum_frame cur)); [discriminate|].
      destruct (GenFront.enum_value_raises v); [discriminate|].
      apply push_member_ok in H. destruct H as [_ [Em _]]. rewrite Em in Hn.
      apply has_name_cons in Hn. destruct Hn as [<-|Hn]; [now right|now left].
  Qed.

  Lemma proc_items_binds outer pre : forall cur cur',
    PIS outer cur pre = Ok cur' ->
    forall n, has_name n (fmem cur') = true ->
              has_name n (fmem cur) = true \/ exists it, In it pre /\ binds it n.
  Proof.
    induction pre as [|i r IH]; intros cur cur' H n Hn.
    - cbn [proc_items] in H. inversion H; subst. now left.
    - cbn [proc_items] in H. destruct (PI outer cur i) as [f|] eqn:Ei; cbn [bind] in H; [|discriminate].
      destruct (IH f cur' H n Hn) as [Hf|[it [Hin Hb]]].
      + destruct (proc_item_binds _ _ _ _ Ei n Hf) as [Hc|Hb]; [now left|].
        right. exists i. split; [now left|exact Hb].
      + right. exists it. split; [now right|exact Hb].
  Qed.

  (* [reach outer ops cur body st ps it]: while the scope [body] is processed against the
     enclosing scopes [outer] (whose textually preceding items are [ops]), the statement [it]
     is processed against the stack [st]; [ps] lists, scope by scope (innermost first), the
     statements that textually precede [it]. *)
  Inductive reach : list frame -> list (list item) -> frame -> list item ->
                    list frame -> list (list item) -> item -> Prop :=
  | reach_here outer ops cur pre it post cur' :
      PIS outer cur pre = Ok cur' ->
      reach outer ops cur (pre ++ it :: post) (cur' :: outer) (pre :: ops) it
  | reach_msg outer ops cur pre l name ext body post cur' st ps it :
      PIS outer cur pre = Ok cur' -> ext && trad = false ->
      reach (cur' :: outer) (pre :: ops) (mkframe (FMsg (mkloc file l) ext) []) body st ps it ->
      reach outer ops cur (pre ++ IMsg l name ext body :: post) st ps it
  | reach_enum outer ops cur pre l name n body post cur' st ps it :
      PIS outer cur pre = Ok cur' -> GenFront.uint_cap_raises n = false ->
      reach (cur' :: outer) (pre :: ops) (mkframe (FEnum (mkloc file l) n) []) body st ps it ->
      reach outer ops cur (pre ++ IEnum l name (SUint n) body :: post) st ps it.

  (* the relation describes the run: an error of [it] at that stack is the error of the run *)
  Lemma reach_error outer ops cur body st ps it :
    reach outer ops cur body st ps it ->
    forall f st' k a b, st = f :: st' -> PI st' f it = Err k a b -> PIS outer cur body = Err k a b.
  Proof.
    induction 1 as [outer ops cur pre it post cur' Hp
                   |outer ops cur pre l name ext body post cur' st ps it Hp Hx _ IH
                   |outer ops cur pre l name n body post cur' st ps it Hp Hx _ IH];
      intros f st' k a b Hst He.
    - inversion Hst; subst. rewrite proc_items_app, Hp. cbn [bind proc_items]. now rewrite He.
    - rewrite proc_items_app, Hp. cbn [bind proc_items]. rewrite proc_item_msg, Hx.
      now rewrite (IH f st' k a b Hst He).
    - rewrite proc_items_app, Hp. cbn [bind proc_items]. rewrite proc_item_enum, Hx.
      now rewrite (IH f st' k a b Hst He).
  Qed.

  Definition names_from (f : frame) (pre : list item) : Prop :=
    forall n, has_name n (fmem f) = true -> exists it0, In it0 pre /\ binds it0 n.

  Lemma reach_names outer ops cur body st ps it :
    reach outer ops cur body st ps it ->
    Forall2 names_from outer ops -> fmem cur = [] -> Forall2 names_from st ps.
  Proof.
    induction 1 as [outer ops cur pre it post cur' Hp
                   |outer ops cur pre l name ext body post cur' st ps it Hp Hx _ IH
                   |outer ops cur pre l name n body post cur' st ps it Hp Hx _ IH];
      intros Ho Hc.
    - constructor; [|exact Ho]. intros n Hn.
      destruct (proc_items_binds _ _ _ _ Hp n Hn) as [Hf|Hb]; [|exact Hb].
      rewrite Hc in Hf. discriminate.
    - apply IH; [|reflexivity]. constructor; [|exact Ho]. intros n0 Hn.
      destruct (proc_items_binds _ _ _ _ Hp n0 Hn) as [Hf|Hb]; [|exact Hb].
      rewrite Hc in Hf. discriminate.
    - apply IH; [|reflexivity]. constructor; [|exact Ho]. intros n0 Hn.
      destruct (proc_items_binds _ _ _ _ Hp n0 Hn) as [Hf|Hb]; [|exact Hb].
      rewrite Hc in Hf. discriminate.
  Qed.

  Lemma Forall2_nth {A B} (R : A -> B -> Prop) l l' k a :
    Forall2 R l l' -> nth_error l k = Some a -> exists b, nth_error l' k = Some b /\ R a b.
  Proof.
    intros H. revert k. induction H as [|x y l l' Hxy _ IH]; intros k Hk; [destruct k; discriminate|].
    destruct k as [|k]; cbn [nth_error] in *.
    - inversion Hk; subst. now exists y.
    - now apply IH.
  Qed.

  (* whatever a name resolves to at [it], its first component was declared by a statement that
     textually precedes [it] in one of the enclosing scopes of the same file *)
  Theorem lookup_only_earlier items st ps it n rest d :
    reach [] [] (mkframe (FProto None) []) items st ps it ->
    lookup st (n :: rest) = Some d ->
    exists k pre it0, nth_error ps k = Some pre /\ In it0 pre /\ binds it0 n.
  Proof.
    intros Hr Hl. apply lookup_declares in Hl. destruct Hl as [k [f [Hn [Hd _]]]].
    assert (HF : Forall2 names_from st ps) by (eapply reach_names; [exact Hr|constructor|reflexivity]).
    destruct (Forall2_nth _ _ _ _ _ HF Hn) as [pre [Hpre Hnames]].
    destruct (Hnames n Hd) as [it0 [Hin Hb]]. now exists k, pre, it0.
  Qed.

  (* hence a name that no preceding statement declares does not resolve, whatever follows *)
  Theorem undeclared_before_not_found items st ps it n rest :
    reach [] [] (mkframe (FProto None) []) items st ps it ->
    (forall pre it0, In pre ps -> In it0 pre -> ~ binds it0 n) ->
    lookup st (n :: rest) = None.
  Proof.
    intros Hr Hno. destruct (lookup st (n :: rest)) as [d|] eqn:E; [|reflexivity].
    destruct (lookup_only_earlier _ _ _ _ _ _ _ Hr E) as [k [pre [it0 [Hk [Hin Hb]]]]].
    exfalso. apply (Hno pre it0); [now apply nth_error_In in Hk|exact Hin|exact Hb].
  Qed.

  (* ... and a field that uses it as its type makes the whole file fail with
     ReferencedTypeNotDefined at the field's line *)
  Theorem use_before_definition_rejected items f st' ps l n rest name num :
    reach [] [] (mkframe (FProto None) []) items (f :: st') ps (IField l (XSingle (SRef (n :: rest))) name num) ->
    is_proto_frame f = false ->
    (forall pre it0, In pre ps -> In it0 pre -> ~ binds it0 n) ->
    PIS [] (mkframe (FProto None) []) items = Err KRefTypeNotDefined file l.
  Proof.
    intros Hr Hp Hno. eapply reach_error; [exact Hr|reflexivity|].
    cbn [proc_item]. rewrite Hp. cbn [resolve_tyx resolve_sty]. unfold resolve_type_ref.
    now rewrite (undeclared_before_not_found _ _ _ _ _ _ Hr Hno).
  Qed.
End Reach.

(* the reading "innermost scope that declares the first component" is refuted for dotted names *)
Theorem first_component_reading_refuted :
  exists st n rest k f d,
    first_declaring st k n /\ nth_error st k = Some f /\ get_member (fmem f) (n :: rest) = None /\
    lookup st (n :: rest) = Some d.
Proof.
  exists [mkframe (FMsg (mkloc "r" 6) false) [];
          mkframe (FMsg (mkloc "r" 4) false) [("A"%string, DMsg (mkloc "r" 5) (TMsg false [(1, TBool)]) [])];
          mkframe (FProto (Some "r"%string))
            [("A"%string, DMsg (mkloc "r" 2) (TMsg false [])
                            [("B"%string, DMsg (mkloc "r" 3) (TMsg false [(1, TUint 3)]) [])])]],
         "A"%string, ["B"%string], 1%nat,
         (mkframe (FMsg (mkloc "r" 4) false) [("A"%string, DMsg (mkloc "r" 5) (TMsg false [(1, TBool)]) [])]),
         (DMsg (mkloc "r" 3) (TMsg false [(1, TUint 3)]) []).
  repeat split.
  - exists (mkframe (FMsg (mkloc "r" 4) false) [("A"%string, DMsg (mkloc "r" 5) (TMsg false [(1, TBool)]) [])]).
    split; reflexivity.
  - intros k' f' Hk Hn. destruct k' as [|[|k']]; [|exfalso; inversion Hk; inversion H0|exfalso; inversion Hk; inversion H0].
    cbn in Hn. inversion Hn. reflexivity.
Qed.
