(* Front.v — executable model of bitproto's front end (parser.py semantic actions + _ast.py
   validators), used by C08 / C11 / C12.

   INPUT of the model: a surface syntax tree of .bitproto files ([files]); ply's tokenizer and
   LALR driver are NOT modelled.  Every statement carries the line number of its tokens (a
   statement other than a scope head cannot span lines: NEWLINE is a grammar unit).

   What is representable and what is not
   -------------------------------------
   * every production of grammars.py has a constructor of [item]; ONE item type is used for
     the three kinds of scope (file / message / enum) and the scope decides, exactly like the
     grammar's `*_item_unsupported` productions do, what happens to an item it does not admit:
     the item is first processed completely (its own errors come first, it is pushed into the
     scope: duplicate-name check), then the `...Unsupported` error is raised;
   * items the grammar has no production for in a scope (a message field or enum member at file
     level, an enum member inside a message, an enum over a non-uint base) are representable
     and yield [KGrammar] at their line (checked by T2 for these shapes only);
   * NOT representable (text-level, see C09): two-dimensional arrays by double brackets, array
     capacities / field numbers written as expressions or hex, negative literals, anything
     that is not a token sequence of the grammar; the deprecated `typedef T name` spelling,
     comments, blank lines, optional semicolons, hex spelling of integers and the spelling of
     import paths are trivia of the printer (tools/front_gen.py) and absent from the tree;
   * lexer look-ahead: ply reads ONE token ahead before some reductions, and a `uintN`/`intN`
     token with a bad N raises while it is being read.  The model orders events by statement;
     it is exact when every statement is followed by `;`, a newline, a comment or `}` (the
     printer guarantees this).

   OUTPUT: [check fs root trad] = [Ok proto_def] | [Err kind file line] where [kind] is the
   bitproto error class, file/line what the error cites. *)
From Coq Require Import ZArith List Bool String.
From BP Require Import Schema FrontBase.
From BPGen Require GenFront.
Import ListNotations.
Open Scope Z_scope.

(* ------------------------------------------------------------------------------------ *)
(* surface syntax                                                                         *)
(* ------------------------------------------------------------------------------------ *)

Definition path := list string.                    (* dotted identifier a.b.c *)

Inductive sty : Type :=                            (* grammar: single_type *)
| SBool | SByte
| SUint (n : Z) | SInt (n : Z)
| SRef (p : path).

Inductive capx : Type := CapLit (z : Z) | CapRef (p : path).     (* array_capacity *)

Inductive tyx : Type :=                            (* grammar: type *)
| XSingle (s : sty)
| XArr (s : sty) (c : capx) (ext : bool).

Inductive cexpr : Type :=                          (* calculation_expression, as a tree *)
| EInt (z : Z)
| ERef (p : path)
| EAdd (a b : cexpr) | ESub (a b : cexpr) | EMul (a b : cexpr) | EDiv (a b : cexpr).

Inductive cvalx : Type :=                          (* const_value *)
| CBool (b : bool) | CStr (s : string)
| CRef (p : path)                                  (* a bare reference: any constant kind *)
| CExpr (e : cexpr).                               (* printed so that it is not a bare name *)

Inductive optx : Type := OLit (v : cval) | ORef (p : path).     (* option_value *)

Inductive item : Type :=
| IProto (l : Z) (name : string)
| IImport (l : Z) (asname : option string) (file : string)
| IOption (l : Z) (name : string) (v : optx)
| IConst (l : Z) (name : string) (v : cvalx)
| IAlias (l : Z) (name : string) (t : tyx)
| IEnum (l : Z) (name : string) (base : sty) (body : list item)
| IMsg (l : Z) (name : string) (ext : bool) (body : list item)
| IField (l : Z) (t : tyx) (name : string) (num : Z)
| IEnumField (l : Z) (name : string) (v : Z).

Definition files := list (string * list item).     (* canonical file key -> content *)

(* ------------------------------------------------------------------------------------ *)
(* outcome                                                                                *)
(* ------------------------------------------------------------------------------------ *)

Inductive kind : Type :=
| KInvalidUintCap | KInvalidIntCap | KInvalidArrayCap
| KDuplicatedDefinition | KDuplicatedImport | KCyclicImport
| KRefConstNotDefined | KRefNotConst | KRefTypeNotDefined | KRefNotType
| KInvalidEnumFieldValue | KEnumValueOverflow | KDupEnumValue
| KInvalidAliasedType | KInvalidFieldNumber | KDupFieldNumber
| KUnsupportedOption | KInvalidOptionValue | KMessageSizeOverflows
| KAliasInMessage | KConstInMessage | KImportInMessage | KProtoNameOutOfScope
| KAliasInEnum | KConstInEnum | KImportInEnum | KOptionInEnum | KEnumInEnum | KMessageInEnum
| KFieldInEnum
| KProtoNameUndefined | KExtensibleInTraditional | KCalcExpr
| KGrammar
| KIOError              (* OSError from open()/samefile(): not a ParserError, fatal(str(e)) *)
| KFuel.                (* never returned by [check] (FrontProofs.check_fuel_enough) *)

Inductive res (A : Type) : Type :=
| Ok (a : A)
| Err (k : kind) (file : string) (line : Z).
Arguments Ok {A} a.
Arguments Err {A} k file line.

Definition bind {A B} (r : res A) (f : A -> res B) : res B :=
  match r with Ok a => f a | Err k fl l => Err k fl l end.
Notation "'do' x <- r ; k" := (bind r (fun x => k)) (at level 200, x pattern, r at level 100, k at level 200).

(* ------------------------------------------------------------------------------------ *)
(* definitions (the parsed, frozen nodes)                                                 *)
(* ------------------------------------------------------------------------------------ *)

Record loc : Type := mkloc { lfile : string; lline : Z }.

Inductive def : Type :=
| DConst (at_ : loc) (v : cval)
| DAlias (at_ : loc) (t : ty) (r : option loc)       (* t: the aliased type; r: what its name resolved to *)
| DEnum (at_ : loc) (t : ty) (mem : list (string * def))
| DMsg (at_ : loc) (t : ty) (mem : list (string * def))
| DProto (file : string) (name : string) (mem : list (string * def))
| DOption (at_ : loc) (v : cval)
| DField (at_ : loc) (num : Z) (t : ty) (r : option loc)
| DEnumField (at_ : loc) (v : Z).

Definition def_loc (d : def) : loc :=
  match d with
  | DConst a _ | DAlias a _ _ | DEnum a _ _ | DMsg a _ _ | DOption a _ | DField a _ _ _ | DEnumField a _ => a
  | DProto f _ _ => mkloc f 0                        (* Proto: token "", lineno 0 *)
  end.

(* isinstance(d, Type): the type a reference to d denotes *)
Definition def_type (d : def) : option ty :=
  match d with
  | DAlias _ t _ => Some (TAlias t)
  | DEnum _ t _ => Some t
  | DMsg _ t _ => Some t
  | _ => None
  end.

Definition def_const (d : def) : option cval :=
  match d with DConst _ v => Some v | _ => None end.

(* isinstance(d, Scope): members *)
Definition def_members (d : def) : option (list (string * def)) :=
  match d with
  | DEnum _ _ m | DMsg _ _ m | DProto _ _ m => Some m
  | _ => None
  end.

Fixpoint assoc {A} (n : string) (l : list (string * A)) : option A :=
  match l with
  | [] => None
  | h :: r => if String.eqb (fst h) n then Some (snd h) else assoc n r
  end.

(* Scope.get_member( *names ) *)
Fixpoint get_member (mem : list (string * def)) (p : path) : option def :=
  match p with
  | [] => None
  | n :: rest =>
      match assoc n mem with
      | None => None
      | Some d =>
          match rest with
          | [] => Some d
          | _ :: _ => match def_members d with
                      | Some m => get_member m rest
                      | None => None
                      end
          end
      end
  end.

(* ------------------------------------------------------------------------------------ *)
(* scope stack                                                                            *)
(* ------------------------------------------------------------------------------------ *)

Inductive fkind : Type :=
| FProto (name : option string)
| FMsg (at_ : loc) (ext : bool)
| FEnum (at_ : loc) (n : Z).

(* a scope under construction; members newest first *)
Record frame : Type := mkframe { fk : fkind; fmem : list (string * def) }.

(* Parser._lookup_referenced_member: the stack is given innermost first (the scope being
   defined is its head), so the reverse walk of the Python list is a left-to-right walk *)
Fixpoint lookup (st : list frame) (p : path) : option def :=
  match st with
  | [] => None
  | f :: r => match get_member (fmem f) p with
              | Some d => Some d
              | None => lookup r p
              end
  end.

Fixpoint last_frame (cur : frame) (outer : list frame) : frame :=
  match outer with [] => cur | f :: r => last_frame f r end.

(* ------------------------------------------------------------------------------------ *)
(* sizes (arithmetic from GenFront)                                                       *)
(* ------------------------------------------------------------------------------------ *)

Fixpoint ty_nbits (t : ty) : Z :=
  match t with
  | TBool => GenFront.bool_nbits
  | TByte => GenFront.byte_nbits
  | TUint n => n
  | TInt n => n
  | TEnum n _ => n
  | TAlias t => ty_nbits t
  | TArr x cap e => GenFront.array_nbits (Z.of_nat cap) (ty_nbits e) x
  | TMsg x fs =>
      GenFront.message_nbits
        ((fix go (l : list (Z * ty)) : Z :=
            match l with
            | [] => 0
            | kf :: r => ty_nbits (snd kf) + go r
            end) fs) x
  end.

(* ------------------------------------------------------------------------------------ *)
(* references, types, constants                                                           *)
(* ------------------------------------------------------------------------------------ *)

Section Resolve.
  Variable file : string.
  Variable trad : bool.
  Variable st : list frame.           (* innermost first *)
  Variable l : Z.

  (* p_type_reference *)
  Definition resolve_type_ref (p : path) : res (ty * option loc) :=
    match lookup st p with
    | None => Err KRefTypeNotDefined file l
    | Some d => match def_type d with
                | Some t => Ok (t, Some (def_loc d))
                | None => Err KRefNotType file l
                end
    end.

  (* p_constant_reference *)
  Definition resolve_const_ref (p : path) : res cval :=
    match lookup st p with
    | None => Err KRefConstNotDefined file l
    | Some d => match def_const d with
                | Some v => Ok v
                | None => Err KRefNotConst file l
                end
    end.

  (* lexer (Uint/Int are validated when the token is built) + p_single_type *)
  Definition resolve_sty (s : sty) : res (ty * option loc) :=
    match s with
    | SBool => Ok (TBool, None)
    | SByte => Ok (TByte, None)
    | SUint n => if GenFront.uint_cap_raises n then Err KInvalidUintCap file l else Ok (TUint n, None)
    | SInt n => if GenFront.int_cap_raises n then Err KInvalidIntCap file l else Ok (TInt n, None)
    | SRef p => resolve_type_ref p
    end.

  (* p_array_capacity / p_constant_reference_for_array_capacity *)
  Definition resolve_cap (c : capx) : res Z :=
    match c with
    | CapLit z => Ok z
    | CapRef p => do v <- resolve_const_ref p;
                  match v with
                  | CVInt z => Ok z
                  | _ => Err KInvalidArrayCap file l
                  end
    end.

  (* p_type / p_array_type (+ p_optional_extensible_flag, Array.validate_post_freeze; the
     element-type test of Array cannot fail for anything the grammar produces) *)
  Definition resolve_tyx (t : tyx) : res (ty * option loc) :=
    match t with
    | XSingle s => resolve_sty s
    | XArr s c ext =>
        do er <- resolve_sty s;
        do n <- resolve_cap c;
        if ext && trad then Err KExtensibleInTraditional file l else
        if GenFront.array_cap_raises n then Err KInvalidArrayCap file l else
        Ok (TArr ext (Z.to_nat n) (fst er), snd er)
    end.

  (* calculation expressions: operands left to right; Python floor division *)
  Fixpoint eval_cexpr (e : cexpr) : res Z :=
    match e with
    | EInt z => Ok z
    | ERef p => do v <- resolve_const_ref p;
                match v with
                | CVInt z => Ok z
                | _ => Err KCalcExpr file l
                end
    | EAdd a b => do x <- eval_cexpr a; do y <- eval_cexpr b; Ok (x + y)
    | ESub a b => do x <- eval_cexpr a; do y <- eval_cexpr b; Ok (x - y)
    | EMul a b => do x <- eval_cexpr a; do y <- eval_cexpr b; Ok (x * y)
    | EDiv a b => do x <- eval_cexpr a; do y <- eval_cexpr b;
                  if y =? 0 then Err KCalcExpr file l else Ok (x / y)   (* fix ba6c9a1 *)
    end.

  Definition eval_cvalx (v : cvalx) : res cval :=
    match v with
    | CBool b => Ok (CVBool b)
    | CStr s => Ok (CVStr s)
    | CRef p => resolve_const_ref p
    | CExpr e => do z <- eval_cexpr e; Ok (CVInt z)
    end.

  Definition eval_optx (v : optx) : res cval :=
    match v with
    | OLit v => Ok v
    | ORef p => resolve_const_ref p
    end.
End Resolve.

(* the first token of a type (what the lexer sees first) *)
Definition tyx_head (t : tyx) : sty := match t with XSingle s => s | XArr s _ _ => s end.

(* a production that does not exist in the scope: the lexer still validates a uintN/intN
   token before the parser rejects it *)
Definition lex_then_grammar {A} (file : string) (l : Z) (s : sty) : res A :=
  match s with
  | SUint n => if GenFront.uint_cap_raises n then Err KInvalidUintCap file l else Err KGrammar file l
  | SInt n => if GenFront.int_cap_raises n then Err KInvalidIntCap file l else Err KGrammar file l
  | _ => Err KGrammar file l
  end.

(* ------------------------------------------------------------------------------------ *)
(* pushing members                                                                        *)
(* ------------------------------------------------------------------------------------ *)

Definition has_name (n : string) (mem : list (string * def)) : bool :=
  match assoc n mem with Some _ => true | None => false end.

(* ScopeWithOptions.validate_option_on_push *)
Definition validate_option (table : list odesc) (at_ : loc) (name : string) (v : cval) : res unit :=
  match find_odesc name table with
  | None => Err KUnsupportedOption (lfile at_) (lline at_)
  | Some d =>
      if negb (vclass_eqb (class_of v) (class_of (od_default d)))
      then Err KInvalidOptionValue (lfile at_) (lline at_)
      else match od_validator d, v with
           | Some f, CVInt z => if f z then Ok tt else Err KInvalidOptionValue (lfile at_) (lline at_)
           | _, _ => Ok tt
           end
  end.

Definition field_numbers (mem : list (string * def)) : list Z :=
  flat_map (fun nd => match snd nd with DField _ n _ _ => [n] | _ => [] end) mem.

Definition enum_values (mem : list (string * def)) : list Z :=
  flat_map (fun nd => match snd nd with DEnumField _ v => [v] | _ => [] end) mem.

Definition mem_z (z : Z) (l : list Z) : bool := existsb (Z.eqb z) l.

(* <scope>.validate_member_on_push *)
Definition validate_on_push (f : frame) (name : string) (d : def) : res unit :=
  let a := def_loc d in
  match fk f, d with
  | FProto _, DOption _ v => validate_option GenFront.proto_opttions a name v
  | FMsg _ _, DOption _ v => validate_option GenFront.message_options a name v
  | FMsg _ _, DField _ n _ _ =>
      if mem_z n (field_numbers (fmem f)) then Err KDupFieldNumber (lfile a) (lline a) else Ok tt
  | FEnum _ nb, DEnumField _ v =>
      if GenFront.enum_value_overflows v nb then Err KEnumValueOverflow (lfile a) (lline a)
      else if mem_z v (enum_values (fmem f)) then Err KDupEnumValue (lfile a) (lline a)
      else Ok tt
  | _, _ => Ok tt
  end.

(* Scope.push_member *)
Definition push_member (f : frame) (name : string) (d : def) : res frame :=
  if has_name name (fmem f)
  then Err KDuplicatedDefinition (lfile (def_loc d)) (lline (def_loc d))
  else do _ <- validate_on_push f name d;
       Ok (mkframe (fk f) ((name, d) :: fmem f)).

(* ------------------------------------------------------------------------------------ *)
(* closing scopes                                                                         *)
(* ------------------------------------------------------------------------------------ *)

Definition msg_fields (mem : list (string * def)) : list (Z * ty) :=
  flat_map (fun nd => match snd nd with DField _ n t _ => [(n, t)] | _ => [] end) mem.

Definition option_value (name : string) (mem : list (string * def)) : option cval :=
  match assoc name mem with
  | Some (DOption _ v) => Some v
  | _ => None
  end.

Definition max_bytes_of (mem : list (string * def)) : Z :=
  match option_value GenFront.max_bytes_option_name mem with
  | Some (CVInt z) => z
  | _ => match find_odesc GenFront.max_bytes_option_name GenFront.message_options with
         | Some d => match od_default d with CVInt z => z | _ => 0 end
         | None => 0
         end
  end.

(* p_close_message_scope: Message.freeze() -> validate_post_freeze *)
Definition close_msg (a : loc) (ext : bool) (f : frame) : res def :=
  let mem := rev (fmem f) in
  let t := TMsg ext (msg_fields mem) in
  let nb := ty_nbits t in
  if GenFront.message_size_raises nb then Err KMessageSizeOverflows (lfile a) (lline a) else
  if GenFront.message_max_bytes_raises (max_bytes_of mem) (GenFront.nbytes nb)
  then Err KMessageSizeOverflows (lfile a) (lline a) else
  Ok (DMsg a t mem).

Definition close_enum (a : loc) (n : Z) (f : frame) : def :=
  let mem := rev (fmem f) in
  DEnum a (TEnum n (enum_values mem)) mem.

(* the `*_item_unsupported` productions, after the item has been built and pushed *)
Inductive ikind : Type := IKAlias | IKConst | IKOption | IKEnum | IKMsg | IKField.

Definition unsupported (f : frame) (ik : ikind) (a : loc) : res unit :=
  match fk f, ik with
  | FMsg _ _, IKAlias => Err KAliasInMessage (lfile a) (lline a)
  | FMsg _ _, IKConst => Err KConstInMessage (lfile a) (lline a)
  | FEnum _ _, IKAlias => Err KAliasInEnum (lfile a) (lline a)
  | FEnum _ _, IKConst => Err KConstInEnum (lfile a) (lline a)
  | FEnum _ _, IKOption => Err KOptionInEnum (lfile a) (lline a)
  | FEnum _ _, IKEnum => Err KEnumInEnum (lfile a) (lline a)
  | FEnum _ _, IKMsg => Err KMessageInEnum (lfile a) (lline a)
  | FEnum _ _, IKField => Err KFieldInEnum (lfile a) (lline a)
  | _, _ => Ok tt
  end.

Definition is_proto_frame (f : frame) : bool := match fk f with FProto _ => true | _ => false end.
Definition is_enum_frame (f : frame) : bool := match fk f with FEnum _ _ => true | _ => false end.

(* Scope.protos(recursive=False) of the current proto: files already imported *)
Definition imported_files (mem : list (string * def)) : list string :=
  flat_map (fun nd => match snd nd with DProto f _ _ => [f] | _ => [] end) mem.

Definition mem_s (s : string) (l : list string) : bool := existsb (String.eqb s) l.

(* ------------------------------------------------------------------------------------ *)
(* the parser's semantic actions, item by item                                            *)
(* ------------------------------------------------------------------------------------ *)

Section Proc.
  (* parse_child: filepath stack (current file first) -> file -> its Proto *)
  Variable parse_child : list string -> string -> res def.
  Variable known_file : string -> bool.
  Variable trad : bool.
  Variable file : string.
  Variable fstack : list string.      (* files being parsed, [file] first *)

  Definition push_then (cur : frame) (ik : ikind) (name : string) (d : def) : res frame :=
    do f' <- push_member cur name d;
    do _ <- unsupported cur ik (def_loc d);
    Ok f'.

  (* [outer]: enclosing scopes of the current file, innermost first; [cur]: the scope the
     item is a member of.  Result: the updated current scope. *)
  Fixpoint proc_item (outer : list frame) (cur : frame) (it : item) {struct it} : res frame :=
    let st := cur :: outer in
    match it with
    | IProto l name =>
        match fk cur with
        | FProto _ => Ok (mkframe (FProto (Some name)) (fmem cur))
        | _ => Err KProtoNameOutOfScope file l
        end
    | IImport l asn g =>
        (* _check_parsing_file: os.path.samefile raises OSError on a missing file *)
        if negb (known_file g) then Err KIOError g 0 else
        if mem_s g fstack then Err KCyclicImport file l else
        let pf := last_frame cur outer in
        if mem_s g (imported_files (fmem pf)) then Err KDuplicatedImport file l else
        do child <- parse_child fstack g;
        let name := match asn, child with
                    | Some n, _ => n
                    | None, DProto _ n _ => n
                    | None, _ => EmptyString
                    end in
        if has_name name (fmem pf) then Err KDuplicatedDefinition file l else
        do f' <- push_member cur name child;
        match fk cur with
        | FProto _ => Ok f'
        | FMsg _ _ => Err KImportInMessage file l       (* fix 5271e56: cites the import statement *)
        | FEnum _ _ => Err KImportInEnum file l
        end
    | IOption l name v =>
        do cv <- eval_optx file st l v;
        push_then cur IKOption name (DOption (mkloc file l) cv)
    | IConst l name v =>
        do cv <- eval_cvalx file st l v;
        push_then cur IKConst name (DConst (mkloc file l) cv)
    | IAlias l name t =>
        do tr <- resolve_tyx file trad st l t;
        match t with
        | XSingle (SRef _) => Err KInvalidAliasedType file l      (* target is a Definition *)
        | _ => push_then cur IKAlias name (DAlias (mkloc file l) (fst tr) (snd tr))
        end
    | IEnum l name base body =>
        match base with
        | SUint n =>
            if GenFront.uint_cap_raises n then Err KInvalidUintCap file l else
            let a := mkloc file l in
            do fr <- (fix go (its : list item) (f : frame) : res frame :=
                        match its with
                        | [] => Ok f
                        | i :: r => do f' <- proc_item st f i; go r f'
                        end) body (mkframe (FEnum a n) []);
            push_then cur IKEnum name (close_enum a n fr)
        | _ => lex_then_grammar file l base
        end
    | IMsg l name ext body =>
        if ext && trad then Err KExtensibleInTraditional file l else
        let a := mkloc file l in
        do fr <- (fix go (its : list item) (f : frame) : res frame :=
                    match its with
                    | [] => Ok f
                    | i :: r => do f' <- proc_item st f i; go r f'
                    end) body (mkframe (FMsg a ext) []);
        do d <- close_msg a ext fr;
        push_then cur IKMsg name d
    | IField l t name num =>
        if is_proto_frame cur then lex_then_grammar file l (tyx_head t) else
        do tr <- resolve_tyx file trad st l t;
        if GenFront.field_number_raises num then Err KInvalidFieldNumber file l else
        push_then cur IKField name (DField (mkloc file l) num (fst tr) (snd tr))
    | IEnumField l name v =>
        if negb (is_enum_frame cur) then Err KGrammar file l else
        if GenFront.enum_value_raises v then Err KInvalidEnumFieldValue file l else
        push_member cur name (DEnumField (mkloc file l) v)
    end.

  Fixpoint proc_items (outer : list frame) (cur : frame) (its : list item) : res frame :=
    match its with
    | [] => Ok cur
    | i :: r => do f' <- proc_item outer cur i; proc_items outer f' r
    end.
End Proc.

(* ------------------------------------------------------------------------------------ *)
(* files                                                                                  *)
(* ------------------------------------------------------------------------------------ *)

Definition known (fs : files) (g : string) : bool :=
  match assoc g fs with Some _ => true | None => false end.

(* Parser.parse of one file; [fstack]: the files whose parse is in progress (importers) *)
Fixpoint parse_file (fuel : nat) (fs : files) (trad : bool) (fstack : list string) (f : string) : res def :=
  match fuel with
  | O => Err KFuel f 0
  | S n =>
      match assoc f fs with
      | None => Err KIOError f 0
      | Some its =>
          do fr <- proc_items (parse_file n fs trad) (known fs) trad f (f :: fstack) []
                              (mkframe (FProto None) []) its;
          match fk fr with
          | FProto (Some name) => Ok (DProto f name (rev (fmem fr)))
          | _ => Err KProtoNameUndefined f 0
          end
      end
  end.

(* bitproto.parser.parse(root, traditional_mode) *)
Definition check (fs : files) (root : string) (trad : bool) : res def :=
  parse_file (S (List.length fs)) fs trad [] root.

(* ------------------------------------------------------------------------------------ *)
(* observations compared with the real parser (T2)                                        *)
(* ------------------------------------------------------------------------------------ *)

Definition kind_code (k : kind) : Z :=
  match k with
  | KInvalidUintCap => 1 | KInvalidIntCap => 2 | KInvalidArrayCap => 3
  | KDuplicatedDefinition => 4 | KDuplicatedImport => 5 | KCyclicImport => 6
  | KRefConstNotDefined => 7 | KRefNotConst => 8 | KRefTypeNotDefined => 9 | KRefNotType => 10
  | KInvalidEnumFieldValue => 11 | KEnumValueOverflow => 12 | KDupEnumValue => 13
  | KInvalidAliasedType => 14 | KInvalidFieldNumber => 15 | KDupFieldNumber => 16
  | KUnsupportedOption => 17 | KInvalidOptionValue => 18 | KMessageSizeOverflows => 19
  | KAliasInMessage => 20 | KConstInMessage => 21 | KImportInMessage => 22
  | KProtoNameOutOfScope => 23
  | KAliasInEnum => 24 | KConstInEnum => 25 | KImportInEnum => 26 | KOptionInEnum => 27
  | KEnumInEnum => 28 | KMessageInEnum => 29 | KFieldInEnum => 30
  | KProtoNameUndefined => 31 | KExtensibleInTraditional => 32 | KCalcExpr => 33
  | KGrammar => 34 | KIOError => 35 | KFuel => 37
  end.

(* One row per definition, depth first in declaration order:
   (dotted name, [tag; line; a; b; c], resolved-to file).
   tag 1 const (a = int value or -1), 2 alias (a = nbits, b = resolved line or -1),
   3 enum (a = nbits, b = #members), 4 message (a = nbits, b = #fields, c = extensible),
   5 proto, 6 option, 7 field (a = number, b = nbits, c = resolved line or -1), 8 enum member (a = value) *)
Definition row : Type := (string * list Z * string)%type.

Definition dotted (pre n : string) : string :=
  match pre with EmptyString => n | _ => (pre ++ "." ++ n)%string end.

Definition res_line (r : option loc) : Z := match r with Some a => lline a | None => -1 end.
Definition res_file (r : option loc) : string := match r with Some a => lfile a | None => EmptyString end.
Definition b2z (b : bool) : Z := if b then 1 else 0.
Definition ty_ext (t : ty) : bool := match t with TMsg x _ => x | TArr x _ _ => x | _ => false end.

Fixpoint rows_of (pre : string) (n : string) (d : def) : list row :=
  let q := dotted pre n in
  let sub := fix go (l : list (string * def)) : list row :=
               match l with
               | [] => []
               | nd :: r => rows_of q (fst nd) (snd nd) ++ go r
               end in
  match d with
  | DConst a v => [(q, [1; lline a; match v with CVInt z => z | CVBool b => b2z b | CVStr _ => -1 end; 0; 0], EmptyString)]
  | DAlias a t r => [(q, [2; lline a; ty_nbits t; res_line r; 0], res_file r)]
  | DEnum a t m => (q, [3; lline a; ty_nbits t; Z.of_nat (List.length (enum_values m)); 0], EmptyString) :: sub m
  | DMsg a t m => (q, [4; lline a; ty_nbits t; Z.of_nat (List.length (msg_fields m)); b2z (ty_ext t)], EmptyString) :: sub m
  | DProto f nm m => (q, [5; 0; 0; 0; 0], f) :: sub m
  | DOption a v => [(q, [6; lline a; match v with CVInt z => z | CVBool b => b2z b | CVStr _ => -1 end; 0; 0], EmptyString)]
  | DField a num t r => [(q, [7; lline a; num; ty_nbits t; res_line r], res_file r)]
  | DEnumField a v => [(q, [8; lline a; v; 0; 0], EmptyString)]
  end.

Definition observe (r : res def) : Z * string * Z * list row :=
  match r with
  | Ok d => (0, EmptyString, 0, rows_of EmptyString EmptyString d)
  | Err k f l => (kind_code k, f, l, [])
  end.

Fixpoint zl_eqb (a b : list Z) : bool :=
  match a, b with
  | [], [] => true
  | x :: r, y :: s => (x =? y) && zl_eqb r s
  | _, _ => false
  end.

Definition row_eqb (a b : row) : bool :=
  String.eqb (fst (fst a)) (fst (fst b)) && zl_eqb (snd (fst a)) (snd (fst b)) && String.eqb (snd a) (snd b).

Fixpoint rows_eqb (a b : list row) : bool :=
  match a, b with
  | [], [] => true
  | x :: r, y :: s => row_eqb x y && rows_eqb r s
  | _, _ => false
  end.

Definition obs_eqb (a b : Z * string * Z * list row) : bool :=
  match a, b with
  | (k1, f1, l1, r1), (k2, f2, l2, r2) =>
      (k1 =? k2) && String.eqb f1 f2 && (l1 =? l2) && rows_eqb r1 r2
  end.

(* the message type at a dotted path of the checked root file (for C12 / wire comparisons) *)
Definition msg_ty_at (r : res def) (p : path) : option ty :=
  match r with
  | Ok (DProto _ _ m) => match get_member m p with
                         | Some (DMsg _ t _) => Some t
                         | _ => None
                         end
  | _ => None
  end.
