(* EmitCheck.v — glue for tie T2 of C10: compare what the real compiler wrote (parsed by
   tools/c10_parse.py) with [Emit.render], and evaluate the model's verdicts on a schema. *)
From Coq Require Import String Ascii List ZArith Bool Arith.
From BP Require Import EmitBase EmitNames Emit EmitSpec.
From BPGen Require Import GenC10.
Import ListNotations.
Open Scope string_scope.
Open Scope list_scope.
Open Scope nat_scope.

(* The harness does not send the parsed declarations as strings (elaborating thousands of string
   literals dominates the run time): it sends one FINGERPRINT per item, computed by the same
   polynomial hash over the same fields (tools/c10_lib.py: fp_item).  61-bit modulus. *)
Definition P61 : Z := 2305843009213693951%Z.
Definition hs (x : string) : Z :=
  fold_left (fun h c => ((h * 257 + Z.of_nat (nat_of_ascii c) + 1) mod P61)%Z) (chars x) 7%Z.
Definition mix (h v : Z) : Z := ((h * 1000003 + v) mod P61)%Z.

Definition kind_tag (k : dk) : string :=
  match k with
  | DkDefine => "DkDefine" | DkTypedef => "DkTypedef" | DkStruct => "DkStruct" | DkProto => "DkProto"
  | DkFunc => "DkFunc" | DkPyAssign => "DkPyAssign" | DkPyClass => "DkPyClass" | DkPyDef => "DkPyDef"
  | DkGoType => "DkGoType" | DkGoConst => "DkGoConst" | DkGoVar => "DkGoVar" | DkGoMethod => "DkGoMethod"
  end.

Definition use_str (u : use) : string :=
  match u_ns u with
  | NsTag => "struct " ++ u_name u
  | _ => if String.eqb (u_qual u) "" then u_name u else u_qual u ++ "." ++ u_name u
  end%string.

Fixpoint dedup (l : list string) : list string :=
  match l with
  | [] => []
  | x :: r => if existsb (String.eqb x) r then dedup r else x :: dedup r
  end.

(* order-insensitive fingerprint of the SET of uses, the declaration's own name excluded *)
Definition uses_fp (d : decl) : Z :=
  fold_left (fun acc x => ((acc + hs x) mod P61)%Z)
            (dedup (filter (fun x => negb (String.eqb x (d_name d))) (map use_str (d_uses d)))) 0%Z.

(* cmp mode: 2 = all uses, 1 = uses of Go type declarations only, 0 = none *)
Definition item_fp (mode : nat) (it : item) : Z :=
  match it with
  | IImport m tgt _ => mix (mix (hs "import") (hs tgt)) (hs m)
  | IDecl d =>
      let u := match mode with
               | 0 => 0%Z
               | 1 => match d_kind d with DkGoType => uses_fp d | _ => 0%Z end
               | _ => uses_fp d
               end in
      let mem := match d_kind d with
                 | DkStruct | DkPyClass | DkGoType => Z.of_nat (d_members d)
                 | _ => 0%Z end in
      let nm := match d_ns d with NsMember o => (o ++ "." ++ d_name d)%string | _ => d_name d end in
      mix (mix (mix (hs (kind_tag (d_kind d))) (hs nm)) u) mem
  end.

(* fingerprint of the attribute names of the classes / structs of a file, definition by definition *)
Definition names_fp (l : list string) : Z := fold_left (fun acc x => mix acc (hs x)) l 11%Z.
Definition py_attrs_fp (s : schema) (i : nat) : list Z :=
  flat_map (fun fd => match fd_def fd with
                      | DMsg _ _ _ _ | DEnum _ _ _ => [names_fp (py_class_attrs fd)]
                      | _ => [] end) (flat_file (getf s i)).

(* index of the first mismatch + 1 (0 = equal) *)
Fixpoint first_mismatch (a b : list Z) (k : nat) : nat :=
  match a, b with
  | [], [] => 0
  | x :: r, y :: t => if Z.eqb x y then first_mismatch r t (S k) else S k
  | _, _ => S k
  end.

(* tie code: 0 = model and implementation agree (both raise, or same items) *)
Definition tie_code (mode : nat) (m : option (list item)) (real : option (list Z)) : Z :=
  match m, real with
  | None, None => 0
  | Some a, Some b => Z.of_nat (first_mismatch (map (item_fp mode) a) b 0)
  | Some _, None => (-1)
  | None, Some _ => (-2)
  end%Z.

(* the case converters on the words over an alphabet, in the harness's order *)
Fixpoint words_upto (n : nat) (alpha : list ascii) : list (list ascii) :=
  match n with
  | O => [[]]
  | S k => let prev := words_upto k alpha in
           prev ++ flat_map (fun w => if Nat.eqb (length w) k then map (fun c => w ++ [c]) alpha else []) prev
  end.
Definition conv_fp (w : string) : Z := mix (mix (hs (pascal_case w)) (hs (snake_case w))) (hs (upper_case w)).

(* ---- the model's verdicts for one file and one target, as a bit mask ----
     1 render raises            2 a use is not declared before / imported
     4 two declarations share a name (translation unit = header ++ source for C)
     8 an include/import names a file that is not generated
    16 Go: unused import       32 C: struct without members     64 C: alignment not a power of 2
   128 a string constant holds a character that needs escaping and that the translated
       Formatter.escape_str_value does not escape (never, since the fix of str-escape) *)
Definition bit (b : bool) (v : Z) : Z := if b then v else 0%Z.

Definition bad_str_char (c : ascii) : bool :=
  let n := nat_of_ascii c in (n =? 34) || (n =? 92) || (n =? 10) || (n =? 13).
(* [str_escaped_chars] is translated from Formatter.escape_str_value / the three format_str_value *)
Definition char_escaped (c : ascii) : bool := existsb (Nat.eqb (nat_of_ascii c)) str_escaped_chars.
Definition str_consts_ok (s : schema) (i : nat) : bool :=
  forallb (fun d => match d with
                    | DConst _ (CvStr v) => forallb (fun c => negb (bad_str_char c) || char_escaped c) (chars v)
                    | _ => true end) (f_defs (getf s i)).

Definition tu_items (s : schema) (i : nat) (t : target) (flt : list string) : option (list item) :=
  match t with
  | TgC => match render s i TgH flt, render s i TgC flt with
           | Some a, Some b => Some (a ++ b) | _, _ => None end
  | TgCO => match render s i TgHO flt, render s i TgCO flt with
            | Some a, Some b => Some (a ++ b) | _, _ => None end
  | _ => render s i t flt
  end.

Definition verdict (s : schema) (i : nat) (t : target) (flt : list string) : Z :=
  match render s i t flt, tu_items s i t flt with
  | Some its, Some tu =>
      (bit (negb (dbu_b s t flt its)) 2 +
       bit (negb (unique_b (decls_of tu))) 4 +
       bit (negb (imports_ok_b s t its)) 8 +
       bit (match t with TgGo => negb (go_imports_used_b its) | _ => false end) 16 +
       bit (match t with TgH | TgHO => negb (structs_nonempty_b its) | _ => false end) 32 +
       bit (match t with TgH | TgHO => negb (g_align s i) | _ => false end) 64 +
       bit (match t with TgPy | TgGo => negb (str_consts_ok s i) | _ => false end) 128)%Z
  | _, _ => 1%Z
  end.

(* EXACT class of a name collision in the C translation unit (for the known-findings filter):
   [helper_ambiguity]: two helper / processor functions of DIFFERENT (definition, field number)
   origins get the same name although they do not merely share a field number - i.e. the
   ambiguity of concatenating name and number (A1/2 vs A/12) or of the "Array" infix
   (message ArrayT vs array alias T);  [typedef_fn_clash]: a user typedef name equals a
   generated function name. *)
Definition helper_entries (s : schema) (i : nat) : list (string * (string * nat)) :=
  let px := own_px s i LC in
  flat_map (fun fd =>
    match fd_def fd with
    | DAlias n t =>
        let a := dname LC KAlias px (fd_path fd) n in
        (c_alias_processor_name a, (a, 0)) ::
        (if is_arr t then [(c_array_processor_name_alias a, (a, 0))] else [])
    | DMsg n _ _ fs =>
        let m := dname LC KMessage px (fd_path fd) n in
        (c_message_processor_name m, (m, 0)) ::
        map (fun fl => (c_array_processor_name_field m (dec (fl_num fl)), (m, fl_num fl)))
            (filter (fun fl => is_arr (fl_ty fl)) fs)
    | _ => []
    end) (flat_file (getf s i)).

Definition helper_ambiguity (s : schema) (i : nat) : bool :=
  let l := helper_entries s i in
  existsb (fun e1 => existsb (fun e2 =>
    String.eqb (fst e1) (fst e2) &&
    negb (String.eqb (fst (snd e1)) (fst (snd e2)) && Nat.eqb (snd (snd e1)) (snd (snd e2))) &&
    negb (Nat.eqb (snd (snd e1)) (snd (snd e2)) && negb (Nat.eqb (snd (snd e1)) 0))) l) l.

Definition typedef_fn_clash (s : schema) (i : nat) : bool :=
  match tu_items s i TgC [] with
  | Some its =>
      let ds := decls_of its in
      existsb (fun d1 => match d_kind d1 with
                         | DkTypedef => existsb (fun d2 => match d_kind d2 with
                                                          | DkFunc | DkProto => String.eqb (d_name d1) (d_name d2)
                                                          | _ => false end) ds
                         | _ => false end) ds
  | None => false
  end.

(* what the guards predict (for the harness: which known-finding classes a schema is in) *)
Definition guard_mask (L : lang) (s : schema) (i : nat) : Z :=
  (bit (negb (pre L s i)) 1 +
   bit (match L with LC => helper_ambiguity s i | _ => false end) 2 +
   bit (match L with LC => typedef_fn_clash s i | _ => negb (g_derived L s i) end) 4 +
   bit (negb (g_qualify L s i)) 8 +
   bit (negb (g_import L s i)) 16 +
   bit (match L with LGo => negb (g_go_used s i) | _ => false end) 64 +
   bit (match L with LC => negb (g_struct_nonempty s i) | _ => false end) 128 +
   bit (match L with LC => negb (g_align s i) | _ => false end) 256)%Z.
