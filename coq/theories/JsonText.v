(* JsonText.v — facts about the printed text itself:
     * the decimal printer is injective (read_dec is a left inverse), so equal texts mean
       equal numbers;
     * a recogniser [wf_json] for JSON texts (RFC 8259 grammar restricted to what can occur:
       no white space, integers, true/false, arrays, objects whose keys are strings without
       escapes) accepts [print_compact j] for every tree whose keys are plain. *)
From Coq Require Import ZArith List Bool String Ascii Lia.
From BP Require Import Schema JsonBase Json JsonWf JsonProofs.
Import ListNotations.
Open Scope string_scope.
Open Scope Z_scope.

(* ------------------------------------------------------------------------------------ *)
(* digits                                                                               *)
(* ------------------------------------------------------------------------------------ *)

Definition is_dig (d : Z) : Prop := 0 <= d <= 9.

Definition eval_lsb (l : list Z) : Z := fold_right (fun d acc => d + 10 * acc) 0 l.

Lemma pow2_half : forall f n, 0 <= n < 2 ^ Z.of_nat (S f) -> 10 <= n -> 0 <= n / 10 < 2 ^ Z.of_nat f.
Proof.
  intros f n H H10. rewrite Nat2Z.inj_succ, Z.pow_succ_r in H by lia.
  split; [apply Z.div_pos; lia|].
  apply Z.div_lt_upper_bound; lia.
Qed.

Lemma digits_fuel_spec : forall fuel n, 0 <= n < 2 ^ Z.of_nat fuel ->
  eval_lsb (digits_fuel fuel n) = n /\ Forall is_dig (digits_fuel fuel n).
Proof.
  induction fuel as [|f IH]; intros n H.
  - cbn in H. assert (n = 0) by lia. subst. cbn. split; [reflexivity | constructor].
  - cbn [digits_fuel]. destruct (Z.ltb_spec n 10) as [Hlt|Hge].
    + cbn. split; [lia | constructor; [unfold is_dig; lia | constructor]].
    + destruct (IH (n / 10) (pow2_half f n H Hge)) as [E F].
      cbn [eval_lsb fold_right]. fold (eval_lsb (digits_fuel f (n / 10))). rewrite E. split.
      * pose proof (Z.div_mod n 10 ltac:(lia)). lia.
      * constructor; [|exact F]. unfold is_dig. pose proof (Z.mod_pos_bound n 10 ltac:(lia)). lia.
Qed.

Lemma digits_bound : forall n, 0 <= n -> 0 <= n < 2 ^ Z.of_nat (S (Z.to_nat (Z.log2 n))).
Proof.
  intros n H. split; [exact H|].
  rewrite Nat2Z.inj_succ, Z2Nat.id by apply Z.log2_nonneg.
  destruct (Z.eq_dec n 0) as [->|N]; [cbn; lia|].
  apply Z.log2_spec. lia.
Qed.

Lemma digits_spec : forall n, 0 <= n -> eval_lsb (digits n) = n /\ Forall is_dig (digits n).
Proof. intros n H. apply digits_fuel_spec, digits_bound, H. Qed.

(* most significant digit first: a leading zero only for the number zero *)
Lemma digits_fuel_shape : forall fuel n, 0 <= n < 2 ^ Z.of_nat fuel -> fuel <> O ->
  exists d tl, rev (digits_fuel fuel n) = d :: tl /\ is_dig d /\ Forall is_dig tl /\
               (d = 0 -> tl = [] /\ n = 0).
Proof.
  induction fuel as [|f IH]; intros n H Hf; [congruence|].
  cbn [digits_fuel]. destruct (Z.ltb_spec n 10) as [Hlt|Hge].
  - exists n, []. cbn [rev app]. split; [reflexivity|]. split; [unfold is_dig; lia|].
    split; [constructor|]. intros ->. split; reflexivity.
  - pose proof (pow2_half f n H Hge) as Hq.
    assert (Hf' : f <> O).
    { intros ->. cbn in Hq. assert (n / 10 = 0) by lia.
      pose proof (Z.div_mod n 10 ltac:(lia)). pose proof (Z.mod_pos_bound n 10 ltac:(lia)). lia. }
    destruct (IH (n / 10) Hq Hf') as [d [tl [E [Hd [Htl Hz]]]]].
    exists d, (tl ++ [n mod 10])%list. cbn [rev]. rewrite E. split; [reflexivity|]. split; [exact Hd|]. split.
    + apply Forall_app. split; [exact Htl|]. constructor; [|constructor].
      unfold is_dig. pose proof (Z.mod_pos_bound n 10 ltac:(lia)). lia.
    + intros ->. destruct (Hz eq_refl) as [_ Hq0].
      pose proof (Z.div_mod n 10 ltac:(lia)). pose proof (Z.mod_pos_bound n 10 ltac:(lia)). lia.
Qed.

Lemma digits_shape : forall n, 0 <= n ->
  exists d tl, rev (digits n) = d :: tl /\ is_dig d /\ Forall is_dig tl /\ (d = 0 -> tl = [] /\ n = 0).
Proof. intros n H. apply digits_fuel_shape; [apply digits_bound, H | discriminate]. Qed.

(* ------------------------------------------------------------------------------------ *)
(* characters of digits                                                                 *)
(* ------------------------------------------------------------------------------------ *)

Definition digit_val (c : ascii) : Z := Z.of_nat (nat_of_ascii c) - 48.

Lemma dig_cases : forall d, is_dig d ->
  d = 0 \/ d = 1 \/ d = 2 \/ d = 3 \/ d = 4 \/ d = 5 \/ d = 6 \/ d = 7 \/ d = 8 \/ d = 9.
Proof. unfold is_dig. intros. lia. Qed.

Ltac dig_split H :=
  let C := fresh in
  pose proof (dig_cases _ H) as C;
  repeat (destruct C as [C|C]; [subst|]); [..|subst].

Lemma digit_val_char : forall d, is_dig d -> digit_val (digit_char d) = d.
Proof. intros d H. dig_split H; reflexivity. Qed.

Lemma is_digit_char : forall d, is_dig d -> is_digit (digit_char d) = true.
Proof. intros d H. dig_split H; reflexivity. Qed.

Lemma digit_char_not_minus : forall d, is_dig d -> (digit_char d =? "-")%char = false.
Proof. intros d H. dig_split H; reflexivity. Qed.

Lemma digit_char_zero : forall d, is_dig d -> (digit_char d =? "0")%char = (d =? 0).
Proof. intros d H. dig_split H; reflexivity. Qed.

(* ------------------------------------------------------------------------------------ *)
(* reading a numeral back                                                               *)
(* ------------------------------------------------------------------------------------ *)

Definition read_nonneg (s : string) : Z :=
  eval_lsb (rev (map digit_val (list_ascii_of_string s))).

Definition read_dec (s : string) : Z :=
  match s with
  | EmptyString => 0
  | String c r => if (c =? "-")%char then - read_nonneg r else read_nonneg s
  end.

Lemma chars_of_digits : forall l, Forall is_dig l ->
  map digit_val (list_ascii_of_string (string_of_digits_msb l)) = l.
Proof.
  intros l H. induction H as [|d r Hd Hr IH]; [reflexivity|].
  cbn [string_of_digits_msb list_ascii_of_string map]. now rewrite digit_val_char, IH.
Qed.

Lemma read_nonneg_dec : forall n, 0 <= n -> read_nonneg (dec_nonneg n) = n.
Proof.
  intros n H. unfold read_nonneg, dec_nonneg. destruct (digits_spec n H) as [E F].
  rewrite chars_of_digits by (apply Forall_rev; exact F). now rewrite rev_involutive.
Qed.

Theorem read_dec_Z : forall z, read_dec (dec_Z z) = z.
Proof.
  intros z. unfold dec_Z. destruct (Z.ltb_spec z 0) as [Hn|Hp].
  - cbn [read_dec]. change ("-" =? "-")%char with true. cbn iota. rewrite read_nonneg_dec by lia. lia.
  - destruct (digits_shape z Hp) as [d [tl [E [Hd _]]]].
    pose proof (read_nonneg_dec z Hp) as R. unfold dec_nonneg in *. rewrite E in *.
    cbn [string_of_digits_msb read_dec] in *. now rewrite digit_char_not_minus.
Qed.

(* equal numerals, equal numbers *)
Theorem dec_Z_inj : forall a b, dec_Z a = dec_Z b -> a = b.
Proof. intros a b H. rewrite <- (read_dec_Z a), <- (read_dec_Z b). now rewrite H. Qed.

(* ------------------------------------------------------------------------------------ *)
(* the recogniser accepts everything print_compact writes                               *)
(* ------------------------------------------------------------------------------------ *)

Lemma strip_app : forall p r, strip p (p ++ r) = Some r.
Proof.
  induction p as [|a p IH]; intros r; [reflexivity|].
  cbn [append strip]. now rewrite Ascii.eqb_refl.
Qed.

Definition head_ok (rest : string) : Prop :=
  match rest with EmptyString => True | String c _ => is_digit c = false end.

Lemma safe_not_quote : forall c, safe_char c = true -> (c =? """")%char = false.
Proof.
  intros c H. destruct (Ascii.eqb_spec c """"%char) as [->|_]; [|reflexivity].
  vm_compute in H. discriminate.
Qed.

Lemma skip_string_body_safe : forall k tail, safe_string k = true ->
  skip_string_body (k ++ String """" tail) = Some tail.
Proof.
  induction k as [|c k IH]; intros tail H.
  - reflexivity.
  - cbn [safe_string] in H. apply andb_prop in H. destruct H as [Hc Hk].
    cbn [append skip_string_body]. rewrite (safe_not_quote c Hc), Hc. exact (IH tail Hk).
Qed.

Lemma skip_digits_rest : forall rest, head_ok rest -> skip_digits rest = rest.
Proof. intros [|c r] H; [reflexivity|]. cbn in *. now rewrite H. Qed.

Lemma skip_digits_app : forall l rest, Forall is_dig l -> head_ok rest ->
  skip_digits (string_of_digits_msb l ++ rest) = rest.
Proof.
  intros l rest H Hr. induction H as [|d r Hd Hl IH]; [now apply skip_digits_rest|].
  cbn [string_of_digits_msb append skip_digits]. now rewrite is_digit_char.
Qed.

Lemma skip_int_dec : forall n rest, 0 <= n -> head_ok rest ->
  skip_int (dec_nonneg n ++ rest) = Some rest.
Proof.
  intros n rest Hn Hr. unfold dec_nonneg. destruct (digits_shape n Hn) as [d [tl [E [Hd [Htl Hz]]]]].
  rewrite E. cbn [string_of_digits_msb append skip_int]. rewrite (digit_char_zero d Hd).
  destruct (Z.eqb_spec d 0) as [D|D].
  - destruct (Hz D) as [-> _]. reflexivity.
  - rewrite (is_digit_char d Hd). now rewrite skip_digits_app.
Qed.

Definition num_head (c : ascii) : bool := is_digit c || (c =? "-")%char.

Lemma dec_Z_head : forall z rest, exists c r, dec_Z z ++ rest = String c r /\ num_head c = true.
Proof.
  intros z rest. unfold dec_Z. destruct (Z.ltb_spec z 0) as [Hn|Hp].
  - eexists _, _. split; [reflexivity|]. reflexivity.
  - unfold dec_nonneg. destruct (digits_shape z Hp) as [d [tl [E [Hd _]]]]. rewrite E.
    eexists _, _. split; [reflexivity|]. unfold num_head. now rewrite is_digit_char.
Qed.

Lemma skip_number_dec : forall z rest, head_ok rest -> skip_number (dec_Z z ++ rest) = Some rest.
Proof.
  intros z rest Hr. unfold dec_Z. destruct (Z.ltb_spec z 0) as [Hn|Hp].
  - cbn [append skip_number]. change ("-" =? "-")%char with true. cbn iota. apply skip_int_dec; [lia | exact Hr].
  - pose proof (skip_int_dec z rest Hp Hr) as S. unfold dec_nonneg in *.
    destruct (digits_shape z Hp) as [d [tl [E [Hd _]]]]. rewrite E in *.
    cbn [string_of_digits_msb append skip_number] in *. now rewrite digit_char_not_minus.
Qed.

(* a numeral starts with a character that selects the number branch *)
Lemma num_head_dispatch : forall c r, num_head c = true ->
  (c =? "[")%char = false /\ (c =? "{")%char = false /\
  strip "true" (String c r) = None /\ strip "false" (String c r) = None.
Proof.
  intros c r H. repeat split.
  - destruct (Ascii.eqb_spec c "["%char) as [->|_]; [vm_compute in H; discriminate | reflexivity].
  - destruct (Ascii.eqb_spec c "{"%char) as [->|_]; [vm_compute in H; discriminate | reflexivity].
  - cbn [strip]. destruct (Ascii.eqb_spec "t"%char c) as [<-|_]; [vm_compute in H; discriminate | reflexivity].
  - cbn [strip]. destruct (Ascii.eqb_spec "f"%char c) as [<-|_]; [vm_compute in H; discriminate | reflexivity].
Qed.

Fixpoint jsize (j : jtree) : nat :=
  match j with
  | JNum _ | JBool _ => 1
  | JList l => S (fold_right (fun x acc => S (jsize x) + acc)%nat O l)
  | JObj fs => S (fold_right (fun kv acc => S (jsize (snd kv)) + acc)%nat O fs)
  end.

Fixpoint keys_safe (j : jtree) : bool :=
  match j with
  | JList l => forallb keys_safe l
  | JObj fs => forallb (fun kv => safe_string (fst kv) && keys_safe (snd kv)) fs
  | _ => true
  end.

(* first character of a printed value *)
Definition vhead (c : ascii) : bool :=
  num_head c || (c =? "t")%char || (c =? "f")%char || (c =? "[")%char || (c =? "{")%char.

Lemma print_head : forall j rest, exists c r, print_compact j ++ rest = String c r /\ vhead c = true.
Proof.
  intros [z|b|l|fs] rest.
  - destruct (dec_Z_head z rest) as [c [r [E H]]]. exists c, r. split; [exact E|]. unfold vhead. now rewrite H.
  - destruct b; eexists _, _; (split; [reflexivity|]); reflexivity.
  - eexists _, _. split; [reflexivity|]. reflexivity.
  - eexists _, _. split; [reflexivity|]. reflexivity.
Qed.

Lemma vhead_not_close : forall c, vhead c = true -> ("]" =? c)%char = false /\ ("}" =? c)%char = false.
Proof.
  intros c H. split.
  - destruct (Ascii.eqb_spec "]"%char c) as [<-|_]; [vm_compute in H; discriminate | reflexivity].
  - destruct (Ascii.eqb_spec "}"%char c) as [<-|_]; [vm_compute in H; discriminate | reflexivity].
Qed.

Definition accepts (x : jtree) : Prop :=
  keys_safe x = true -> forall fuel rest, (jsize x <= fuel)%nat -> head_ok rest ->
  skip_value fuel (print_compact x ++ rest) = Some rest.

Lemma elems_ok : forall l, Forall accepts l -> forallb keys_safe l = true -> l <> [] ->
  forall fuel rest, (fold_right (fun x acc => S (jsize x) + acc)%nat O l <= fuel)%nat ->
  skip_elems fuel (join "," (map print_compact l) ++ String "]" rest) = Some rest.
Proof.
  intros l H. induction H as [|x r Hx Hr IH]; intros Hk Hne fuel rest Hf; [congruence|].
  cbn [forallb] in Hk. apply andb_prop in Hk. destruct Hk as [Hkx Hkr].
  cbn [fold_right] in Hf. destruct fuel as [|f]; [lia|].
  cbn [map join]. destruct r as [|y r'].
  - cbn [map skip_elems]. rewrite (Hx Hkx f (String "]" rest)) by (try lia; reflexivity). reflexivity.
  - cbn [skip_elems]. set (J := join "," (map print_compact (y :: r'))) in *.
    change (match map print_compact (y :: r') with [] => print_compact x | _ => print_compact x ++ "," ++ J end)
      with (print_compact x ++ "," ++ J).
    rewrite !app_assoc_s. change ("," ++ J ++ String "]" rest) with (String "," (J ++ String "]" rest)).
    rewrite (Hx Hkx f _) by (try lia; reflexivity).
    change ("," =? ",")%char with true. cbn iota.
    apply IH; [exact Hkr | discriminate | lia].
Qed.

Definition member_text (kv : string * jtree) : string :=
  quote (fst kv) ++ ":" ++ print_compact (snd kv).

Lemma members_ok : forall fs, Forall (fun kv => accepts (snd kv)) fs ->
  forallb (fun kv => safe_string (fst kv) && keys_safe (snd kv)) fs = true -> fs <> [] ->
  forall fuel rest, (fold_right (fun kv acc => S (jsize (snd kv)) + acc)%nat O fs <= fuel)%nat ->
  skip_members fuel (join "," (map member_text fs) ++ String "}" rest) = Some rest.
Proof.
  intros fs H. induction H as [|x r Hx Hr IH]; intros Hk Hne fuel rest Hf; [congruence|].
  cbn [forallb] in Hk. apply andb_prop in Hk. destruct Hk as [Hkx Hkr].
  apply andb_prop in Hkx. destruct Hkx as [Hs Hkx].
  cbn [fold_right] in Hf. destruct fuel as [|f]; [lia|].
  cbn [map join]. destruct r as [|y r'].
  - cbn [map]. unfold member_text, quote. cbn [append skip_members].
    change ("""" =? """")%char with true. cbn iota.
    rewrite !app_assoc_s. cbn [append]. rewrite skip_string_body_safe by exact Hs.
    change (":" =? ":")%char with true. cbn iota.
    rewrite (Hx Hkx f (String "}" rest)) by (try lia; reflexivity). reflexivity.
  - set (J := join "," (map member_text (y :: r'))) in *.
    change (match map member_text (y :: r') with [] => member_text x | _ => member_text x ++ "," ++ J end)
      with (member_text x ++ "," ++ J).
    unfold member_text at 1, quote. cbn [append skip_members].
    change ("""" =? """")%char with true. cbn iota.
    rewrite !app_assoc_s. cbn [append]. rewrite skip_string_body_safe by exact Hs.
    change (":" =? ":")%char with true. cbn iota.
    rewrite (Hx Hkx f _) by (try lia; reflexivity).
    change ("," =? ",")%char with true. cbn iota.
    apply IH; [exact Hkr | discriminate | lia].
Qed.

Theorem skip_value_print : forall j, accepts j.
Proof.
  induction j as [z|b|l IH|fs IH] using jtree_ind'; intros Hk fuel rest Hf Hr;
    (destruct fuel as [|f]; [cbn in Hf; lia|]).
  - (* number *)
    unfold print_compact. cbn [print_sep]. destruct (dec_Z_head z rest) as [c [r [E H]]].
    pose proof (skip_number_dec z rest Hr) as N. rewrite E in *.
    destruct (num_head_dispatch c r H) as [H1 [H2 [H3 H4]]].
    cbn [skip_value]. now rewrite H1, H2, H3, H4.
  - destruct b; reflexivity.
  - (* list *)
    unfold print_compact. cbn [print_sep]. fold print_compact.
    cbn [append skip_value]. change ("[" =? "[")%char with true. cbn iota.
    rewrite app_assoc_s. cbn [append].
    destruct l as [|x l'].
    + reflexivity.
    + assert (S0 : strip "]" (join "," (map print_compact (x :: l')) ++ String "]" rest) = None).
      { cbn [map join]. destruct (print_head x EmptyString) as [c [r [E Hc]]].
        rewrite app_nil_r_s in E. rewrite E.
        destruct (vhead_not_close c Hc) as [N _].
        destruct (map print_compact l'); cbn [append strip]; now rewrite N. }
      rewrite S0. cbn [jsize] in Hf.
      apply (elems_ok (x :: l') IH); [exact Hk | discriminate | lia].
  - (* object *)
    unfold print_compact. cbn [print_sep]. fold print_compact.
    cbn [append skip_value]. change ("{" =? "[")%char with false. change ("{" =? "{")%char with true. cbn iota.
    rewrite app_assoc_s. cbn [append].
    change (fun kv : string * jtree => quote (fst kv) ++ String ":" (print_compact (snd kv))) with member_text.
    destruct fs as [|x fs'].
    + reflexivity.
    + assert (S0 : strip "}" (join "," (map member_text (x :: fs')) ++ String "}" rest) = None).
      { cbn [map join]. destruct (map member_text fs'); unfold member_text, quote; reflexivity. }
      rewrite S0. cbn [jsize] in Hf.
      apply (members_ok (x :: fs') IH); [exact Hk | discriminate | lia].
Qed.

(* ---- enough fuel: the text is at least as long as the tree is big ---- *)

Lemma length_app_s : forall a b : string, String.length (a ++ b) = (String.length a + String.length b)%nat.
Proof. induction a as [|c a IH]; intros b; cbn; [reflexivity | now rewrite IH]. Qed.

Lemma join_length : forall A (size : A -> nat) (txt : A -> string) (l : list A),
  Forall (fun x => (size x <= String.length (txt x))%nat) l ->
  (fold_right (fun x acc => S (size x) + acc)%nat O l <= String.length (join "," (map txt l)) + 1)%nat.
Proof.
  intros A size txt l H. induction H as [|x r Hx Hr IH]; [cbn; lia|].
  cbn [fold_right map join]. destruct r as [|y r'].
  - cbn. lia.
  - set (J := join "," (map txt (y :: r'))) in *.
    change (match map txt (y :: r') with [] => txt x | _ => txt x ++ "," ++ J end) with (txt x ++ "," ++ J).
    rewrite !length_app_s. cbn [String.length]. lia.
Qed.

Lemma jsize_le_length : forall j, (jsize j <= String.length (print_compact j))%nat.
Proof.
  induction j as [z|b|l IH|fs IH] using jtree_ind'.
  - destruct (dec_Z_head z EmptyString) as [c [r [E _]]]. rewrite app_nil_r_s in E.
    unfold print_compact. cbn [print_sep jsize]. rewrite E. cbn. lia.
  - destruct b; cbn; lia.
  - unfold print_compact. cbn [print_sep jsize]. fold print_compact.
    cbn [append String.length]. rewrite length_app_s. cbn [String.length].
    pose proof (join_length _ jsize print_compact l IH). lia.
  - unfold print_compact. cbn [print_sep jsize]. fold print_compact.
    cbn [append String.length]. rewrite length_app_s. cbn [String.length].
    change (fun kv : string * jtree => quote (fst kv) ++ String ":" (print_compact (snd kv))) with member_text.
    assert (H : Forall (fun kv => (jsize (snd kv) <= String.length (member_text kv))%nat) fs).
    { apply Forall_forall. intros kv Hin. pose proof (proj1 (Forall_forall _ _) IH kv Hin) as L. cbv beta in L.
      unfold member_text. rewrite !length_app_s. lia. }
    pose proof (join_length _ (fun kv => jsize (snd kv)) member_text fs H). lia.
Qed.

(* WELL-FORMEDNESS: whatever print_compact writes for a tree with plain keys is a JSON text *)
Theorem wf_json_print : forall j, keys_safe j = true -> wf_json (print_compact j) = true.
Proof.
  intros j H. unfold wf_json.
  rewrite <- (app_nil_r_s (print_compact j)) at 2.
  rewrite (skip_value_print j H); [reflexivity | | exact I].
  pose proof (jsize_le_length j). lia.
Qed.

(* field names: the specified value of a schema with plain names has plain keys *)
Fixpoint names_safe (t : nty) : bool :=
  match t with
  | NAlias u => names_safe u
  | NArr _ _ e => names_safe e
  | NMsg _ fs => forallb (fun f => safe_string (fname f) && names_safe (ftype f)) fs
  | _ => true
  end.

Lemma expected_keys_safe : forall t, names_safe t = true -> forall v, keys_safe (expected t v) = true.
Proof.
  induction t as [| |n|n|n ms|u IH|x cap e IH|x fs IH] using nty_ind'; intros Hn v; try reflexivity.
  - apply IH, Hn.
  - cbn [expected keys_safe]. apply forallb_forall. intros y Hy. apply in_map_iff in Hy.
    destruct Hy as [a [<- _]]. apply IH, Hn.
  - cbn [expected keys_safe names_safe] in *. apply forallb_forall. intros y Hy.
    apply in_map_iff in Hy. destruct Hy as [[k y'] [<- Hy]]. apply sort_fields_in in Hy.
    apply in_map_iff in Hy. destruct Hy as [f [E Hin]]. injection E as _ <-. cbn [fst snd].
    pose proof (proj1 (forallb_forall _ _) Hn f Hin) as Hf. cbv beta in Hf.
    apply andb_prop in Hf. destruct Hf as [Hs Ht]. rewrite Hs. cbn [andb].
    exact (proj1 (Forall_forall _ _) IH f Hin Ht _).
Qed.

(* identifiers of the bitproto language (a letter or underscore, then letters, digits,
   underscores) are plain *)
Definition ident_char (c : ascii) : bool :=
  let n := nat_of_ascii c in
  ((65 <=? n) && (n <=? 90) || (97 <=? n) && (n <=? 122) || (48 <=? n) && (n <=? 57) || (n =? 95))%nat.

Lemma ident_char_safe : forall c, ident_char c = true -> safe_char c = true.
Proof.
  intros c. destruct c as [[] [] [] [] [] [] [] []]; vm_compute; intros H; try reflexivity; discriminate H.
Qed.

Fixpoint ident_string (s : string) : bool :=
  match s with EmptyString => true | String c r => ident_char c && ident_string r end.

Lemma ident_string_safe : forall s, ident_string s = true -> safe_string s = true.
Proof.
  induction s as [|c r IH]; [reflexivity|]. cbn. intros H. apply andb_prop in H. destruct H as [Hc Hr].
  now rewrite (ident_char_safe c Hc), IH.
Qed.

(* the C output is a JSON text *)
Theorem c_text_wf_json : forall t v,
  shape_ok t = true -> wf (erase t) = true -> has_ty (erase t) v = true ->
  (exists x fs, t = NMsg x fs) -> names_safe t = true ->
  exists s, c_text t (store t v) = Some s /\ wf_json s = true.
Proof.
  intros t v Hs Hw Hv Hm Hn. exists (print_compact (expected t v)). split.
  - now apply c_text_correct.
  - apply wf_json_print, expected_keys_safe, Hn.
Qed.

(* Python's compact output is a JSON text *)
Theorem py_compact_wf_json : forall t v,
  no_proxy_names t = true -> names_distinct t = true ->
  has_ty (erase t) v = true -> names_safe t = true ->
  exists s, py_to_json "," ":" t v = POk s /\ wf_json s = true.
Proof.
  intros t v Hp Hd Hv Hn. exists (print_compact (expected t v)). split.
  - unfold py_to_json. now rewrite py_tree_correct.
  - apply wf_json_print, expected_keys_safe, Hn.
Qed.
